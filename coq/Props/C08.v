(* C08 -- cancel stops the named tasks and nothing else.  Statements only.
   Module SchedSide: the pilot agent's scheduler (waiting tasks, tasks met later).
   Module ExecSide : the pilot agent's executor (running tasks, tasks met at the
   executor's intake, bystanders), over RP.Exec.Model -- any number of tasks,
   any schedule of the four executor threads. *)
From Coq Require Import ZArith List Bool.
From RP Require Sched.Model Sched.NodeMap Sched.Inv Sched.SchedProofs Sched.RunProofs
               Sched.LiveProofs Sched.CancelProofs Sched.ConsProofs Sched.CancelRunProofs.
From RP Require Exec.Model Exec.Oracle Exec.Local Exec.Proj Exec.Proofs Exec.CancelProofs Exec.ExamProofs Exec.PollProofs Exec.HandlerProofs Exec.KillProofs.
From RP Require CancelReq.Model CancelReq.Proofs.
From RP Require Relay.Model Relay.Oracle Relay.Proofs Relay.History Relay.Frame Relay.OracleProofs.
Import ListNotations.

Module SchedSide.
Import RP.Sched.Model RP.Sched.NodeMap RP.Sched.Inv RP.Sched.SchedProofs RP.Sched.RunProofs
       RP.Sched.LiveProofs RP.Sched.CancelProofs RP.Sched.ConsProofs RP.Sched.CancelRunProofs.
Open Scope Z_scope.

(* a named task that is waiting is taken out of the wait pool ... *)
Theorem C08_named_waiting_leaves_pool :
  forall us wp evs wp' evs' u,
    NoDup (uids (pool_reqs wp)) -> cancel_uids us wp evs = (wp', evs') -> In u us ->
    ~ In u (uids (pool_reqs wp')).
Proof. exact cancel_named_gone. Qed.
Print Assumptions C08_named_waiting_leaves_pool.

(* ... and ends as CANCELED *)
Theorem C08_named_waiting_canceled :
  forall us wp evs wp' evs' u,
    cancel_uids us wp evs = (wp', evs') -> In u us -> In u (uids (pool_reqs wp)) ->
    NoDup (uids (pool_reqs wp)) -> In (Canceled u) evs'.
Proof. exact cancel_named_event. Qed.
Print Assumptions C08_named_waiting_canceled.

(* a named task that the scheduler meets later is canceled there instead of
   being processed: at intake it is not passed on ... *)
Theorem C08_named_met_at_intake :
  forall ts cl evs keep cl' evs' t,
    intake ts cl evs = (keep, cl', evs') -> NoDup (map r_uid ts) ->
    In t ts -> In (r_uid t) cl -> ~ In t keep.
Proof. exact intake_named_not_kept. Qed.
Print Assumptions C08_named_met_at_intake.

(* ... and a task that has to wait but was named meanwhile is canceled, not parked *)
Theorem C08_named_met_at_pool_insert :
  forall p ts wp cl evs wp' cl' evs' t,
    pool_insert p ts wp cl evs = (wp', cl', evs') -> NoDup (map r_uid ts) ->
    In t ts -> In (r_uid t) cl -> In (Canceled (r_uid t)) evs'.
Proof. exact pool_insert_named. Qed.
Print Assumptions C08_named_met_at_pool_insert.

(* tasks not named are unaffected: they stay in the wait pool ... *)
Theorem C08_bystanders_stay_waiting :
  forall us wp evs wp' evs' t,
    cancel_uids us wp evs = (wp', evs') -> ~ In (r_uid t) us ->
    (In t (pool_reqs wp) <-> In t (pool_reqs wp')).
Proof. exact cancel_only_named. Qed.
Print Assumptions C08_bystanders_stay_waiting.

(* ... the only events a request causes are CANCELED events of named uids ... *)
Theorem C08_only_named_canceled :
  forall us wp evs wp' evs' e,
    cancel_uids us wp evs = (wp', evs') -> In e evs' ->
    In e evs \/ exists u, In u us /\ e = Canceled u.
Proof. exact cancel_events_named. Qed.
Print Assumptions C08_only_named_canceled.

(* ... and at intake every task whose uid is not listed is passed on; only
   listed uids of the bulk are canceled *)
Theorem C08_intake_bystanders :
  forall ts cl evs keep cl' evs',
    intake ts cl evs = (keep, cl', evs') ->
    (forall t, In t keep -> In t ts) /\
    (forall t, In t ts -> ~ In (r_uid t) cl -> In t keep) /\
    (forall e, In e evs' -> In e evs \/ exists t, In t ts /\ In (r_uid t) cl /\ e = Canceled (r_uid t)).
Proof. exact intake_spec. Qed.
Print Assumptions C08_intake_bystanders.

(* resources: processing a request never touches the node map or the held
   set; resources of running tasks are released by the unschedule message the
   executor publishes (C07), exactly once (C03_release_restores) *)
Theorem C08_release_exactly_what_was_held :
  forall (ns0 ns : list node) (h : held) (u : Z) (sl : list slot),
    Inv ns0 ns h -> first_with u h = Some sl ->
    Inv ns0 (change_slot_states false sl ns) (drop_first u h).
Proof. exact inv_release. Qed.
Print Assumptions C08_release_exactly_what_was_held.

Example C08_nonvacuous :
  let wp := [(0, [mkReq 1 1 1 0 0 0 0 0 None false None None; mkReq 2 1 1 0 0 0 0 0 None false None None]);
             (3, [mkReq 5 1 1 0 0 0 0 3 None false None None])] in
  cancel_uids [5; 9; 1] wp [] =
  ([(0, [mkReq 2 1 1 0 0 0 0 0 None false None None]); (3, [])], [Canceled 5; Canceled 1]).
Proof. vm_compute. reflexivity. Qed.

(* whole histories: after ANY history of arrivals (unique uids), cancel requests
   -- delivered at once (CancelMsg) or in two halves with the loop running in
   between (CancelReg = the uids are put on the cancel list, CancelQ = the CANCEL
   item is put on the scheduler queue), in any order --, releases and loop
   iterations with any bisect strategy: a uid that was registered for
   cancellation and still waits in a pool has its CANCEL item pending in the
   queue, or belongs to a request of which only the registration half has
   happened ([half]: the ghost multiset of such uids) *)
Theorem C08_named_not_waiting_any_history :
  forall c ns0 ops w' u,
    run c (init_world ns0) ops = Some w' -> NoDup (arrivals ops) ->
    In u (registered ops []) -> In u (P (waitpool (st w'))) ->
    In u (QC (q_sched w')) \/ In u (half ops []).
Proof. exact named_not_waiting. Qed.
Print Assumptions C08_named_not_waiting_any_history.

(* ... hence after a loop iteration no task named by a completely delivered
   request waits -- whether it waited before the request, was pulled from the
   queue in the same drain as the CANCEL item, or arrived later *)
Theorem C08_named_not_waiting_after_iteration :
  forall c ns0 ops strat w' u,
    run c (init_world ns0) (ops ++ [Iterate strat]) = Some w' -> NoDup (arrivals ops) ->
    In u (registered ops []) -> ~ In u (half ops []) ->
    ~ In u (P (waitpool (st w'))).
Proof. exact named_not_waiting_after_iteration. Qed.
Print Assumptions C08_named_not_waiting_after_iteration.

(* non-vacuity, and why the order of the two halves matters: task 2 cannot fit
   while task 1 holds the node.  Registration first (the code's order): task 2
   is canceled when it is put into the pool.  Queue item first (the order a
   regression could produce): the CANCEL item is consumed while task 2 is not
   in the pool yet, the later registration is never looked at again, task 2
   waits forever -- and the theorem does not apply, task 2 stays in [half] *)
Example C08_split_request_orders :
  let c := mkCfg 2 0 0 0 true in
  let ns := [mkNode 0 [Free; Free] [] 0 0] in
  let t u cores := mkReq u 1 cores 0 0 0 0 0 None false None None in
  let pre := [Arrive [t 1 2]; Iterate []; Arrive [t 2 1]] in
  (match run c (init_world ns) (pre ++ [CancelReg [2]; Iterate []; CancelQ [2]; Iterate []]) with
   | Some w => (P (waitpool (st w)), half (pre ++ [CancelReg [2]; Iterate []; CancelQ [2]]) [])
   | None => ([0], [0]) end) = ([], []) /\
  (match run c (init_world ns) (pre ++ [CancelQ [2]; Iterate []; CancelReg [2]; Iterate [[(2, true)]]]) with
   | Some w => (P (waitpool (st w)), half (pre ++ [CancelQ [2]; Iterate []; CancelReg [2]]) [])
   | None => ([0], [0]) end) = ([2], [2]).
Proof. vm_compute. split; reflexivity. Qed.

End SchedSide.

Module ExecSide.
Import RP.Exec.Model RP.Exec.Oracle RP.Exec.Local RP.Exec.Proj RP.Exec.Proofs RP.Exec.CancelProofs RP.Exec.ExamProofs RP.Exec.PollProofs RP.Exec.HandlerProofs RP.Exec.KillProofs.

(* a named task that is running: once cancel_task has found its process running
   and taken it over, it is never collected and never failed; at quiescence it
   has been handed on exactly once, as CANCELED, its resources were released
   exactly once, and its process does not run any more *)
Theorem C08_named_running_killed_and_released_once :
  forall sc sched s tr u,
    NoDup (delivered sc) -> In u (delivered sc) -> run (init sc) sched = (s, tr) -> own_of u tr = true ->
    let ems := emissions tr in
    n_collected u ems = 0%nat /\ n_adv SFailed u ems = 0%nat /\
    (quiescent s = true ->
     n_canceled u ems = 1%nat /\ n_adv SStaging u ems = 1%nat /\ n_hand u ems = 1%nat /\ n_uns u ems = 1%nat /\
     is_running (world s u) = false).
Proof. exact cancel_named_running. Qed.
Print Assumptions C08_named_running_killed_and_released_once.

(* a named task that the executor meets later (at its intake) is canceled
   there: never launched, never announced as executing, CANCELED exactly once *)
Theorem C08_named_met_at_executor_intake :
  forall sc sched s tr u,
    NoDup (delivered sc) -> In u (delivered sc) -> run (init sc) sched = (s, tr) ->
    (0 < n_adv SCanceled u (emissions tr))%nat ->
    world s u = PNone /\ n_adv SExecuting u (emissions tr) = 0%nat /\ n_adv SCanceled u (emissions tr) = 1%nat.
Proof. exact cancel_later_met. Qed.
Print Assumptions C08_named_met_at_executor_intake.

(* tasks not named (and without a run-time limit) are unaffected: never killed,
   never canceled, and at quiescence announced once, released once and ended
   with their own outcome *)
Theorem C08_bystanders_untouched_by_executor :
  forall sc sched s tr u,
    NoDup (delivered sc) -> In u (delivered sc) -> run (init sc) sched = (s, tr) ->
    mem u (named sc) = false -> has_limit sc u = false ->
    let ems := emissions tr in
    world s u <> PKilled /\ n_canceled u ems = 0%nat /\ own_of u tr = false /\
    (quiescent s = true ->
     n_adv SExecuting u ems = 1%nat /\ n_uns u ems = 1%nat /\
     match fault_of sc u with
     | FNone => n_collected u ems = 1%nat /\ n_adv SStaging u ems = 1%nat /\ n_adv SFailed u ems = 0%nat
     | _ => n_adv SFailed u ems = 1%nat /\ n_adv SStaging u ems = 0%nat /\ n_collected u ems = 0%nat
     end).
Proof. exact bystanders_untouched_exec. Qed.
Print Assumptions C08_bystanders_untouched_by_executor.

(* ... they reach the same outcome they would have reached without the
   request: two runs over the same tasks, with ANY cancel requests not naming u
   and ANY schedules, give u the same outcome *)
Theorem C08_bystander_same_outcome :
  forall sc1 sc2 sched1 sched2 s1 tr1 s2 tr2 u,
    sc_batches sc1 = sc_batches sc2 ->
    NoDup (delivered sc1) -> In u (delivered sc1) ->
    run (init sc1) sched1 = (s1, tr1) -> run (init sc2) sched2 = (s2, tr2) ->
    quiescent s1 = true -> quiescent s2 = true ->
    mem u (named sc1) = false -> mem u (named sc2) = false -> has_limit sc1 u = false ->
    outcome u (emissions tr1) = outcome u (emissions tr2).
Proof. exact bystander_same_outcome. Qed.
Print Assumptions C08_bystander_same_outcome.

(* a named task cannot slip through between the registration of the request
   and its launch: for every schedule, at quiescence, a named task that the
   executor launched (far enough to reach the late check of _launch_task) has
   been examined for cancellation AFTER it entered self._tasks -- the cancel
   handler looked it up there (and then either found it and ran cancel_task,
   which kills the process unless it has exited by then, or found it already
   finished), or the late check found the uid on the cancel list and called
   cancel_task.  gex_of reads this off the recorded actions; G3 = "the late
   check missed the task and nothing has examined it since".  This is the
   order `register the uids, then control_cb` of BaseComponent._control_cb. *)
Theorem C08_named_launched_is_examined :
  forall sc sched s tr u,
    NoDup (delivered sc) -> In u (delivered sc) -> In u (named sc) ->
    run (init sc) sched = (s, tr) -> quiescent s = true -> gex_of u tr <> G3.
Proof. exact named_examined. Qed.
Print Assumptions C08_named_launched_is_examined.

(* ... as the oracle clause evaluated on the traces of the real code *)
Theorem C08_named_examined_clause_holds_in_model :
  forall sc sched s tr,
    NoDup (delivered sc) -> run (init sc) sched = (s, tr) -> ok_named_examined sc tr (quiescent s) = true.
Proof. exact model_named_examined. Qed.
Print Assumptions C08_named_examined_clause_holds_in_model.

(* "ends as CANCELED unless it had already finished": whenever a thread hands a
   task on as CANCELED (cancel_task: staged with target CANCELED), the last
   proc.poll() of that thread on the task -- the poll of that cancel_task
   invocation -- reported a RUNNING process.  A task whose process had exited
   before the poll, with whatever exit code (0 included), is never taken over:
   it is left to the watcher and keeps its own outcome.  For every scenario
   and every schedule, no fairness needed. *)
Theorem C08_canceled_only_if_running_when_polled :
  forall sc sched s tr u,
    run (init sc) sched = (s, tr) -> ok_polled_from u false false false tr = true.
Proof. exact canceled_only_if_polled_running. Qed.
Print Assumptions C08_canceled_only_if_running_when_polled.

Theorem C08_cancel_polled_clause_holds_in_model :
  forall sc sched s tr, run (init sc) sched = (s, tr) -> ok_cancel_polled (delivered sc) tr = true.
Proof. exact model_cancel_polled. Qed.
Print Assumptions C08_cancel_polled_clause_holds_in_model.

(* the cancel handler examines every uid of every request: control_cb walks
   the uid list of the message as received (not the component's shared cancel
   list, from which the intake filter removes uids meanwhile), so at
   quiescence the control thread has looked u up in self._tasks once for every
   occurrence of u in the requests -- no named uid is skipped, whatever the
   other threads do during the loop *)
Theorem C08_handler_examines_every_named_uid :
  forall sc sched s tr u,
    run (init sc) sched = (s, tr) -> quiescent s = true -> n_lookups u tr = occ u (named sc).
Proof. exact handler_covers. Qed.
Print Assumptions C08_handler_examines_every_named_uid.

Theorem C08_handler_covers_clause_holds_in_model :
  forall sc sched s tr, run (init sc) sched = (s, tr) -> ok_handler_covers sc tr (quiescent s) = true.
Proof. exact model_handler_covers. Qed.
Print Assumptions C08_handler_covers_clause_holds_in_model.

(* "its process is killed": in every run, of any length, the history of
   recorded actions and the process table agree (the process of u runs iff it
   was spawned and has neither exited nor been killed since); a signal of
   LaunchMethod.cancel_task is answered "no such process" only when the process
   does not run -- a running process is reached by the kill [ks_ok1]; and while
   a kill attempt is under way the process does not end by itself, unless a
   signal was delivered without effect (a process that outlives the kill) --
   cancel_task does not sit in proc.wait() for the natural end of a process it
   failed to signal [ks_ok2] *)
Theorem C08_kill_reaches_running_process :
  forall sc sched s tr u,
    run (init sc) sched = (s, tr) ->
    ks_ok1 (kst_of u (all_events tr)) = true /\ ks_ok2 (kst_of u (all_events tr)) = true /\
    ks_run (kst_of u (all_events tr)) = is_running (world s u).
Proof. exact kill_reaches_and_no_natural_wait. Qed.
Print Assumptions C08_kill_reaches_running_process.

Theorem C08_kill_clauses_hold_in_model :
  forall sc sched s tr,
    run (init sc) sched = (s, tr) ->
    ok_kill_reaches (delivered sc) tr = true /\ ok_no_natural_wait (delivered sc) tr = true.
Proof. exact model_kill_reaches. Qed.
Print Assumptions C08_kill_clauses_hold_in_model.

(* "and nothing else": no signal ever goes to the process group of the
   executor, and the process of a task that no request names and that has no
   run-time limit is never killed *)
Theorem C08_no_signal_to_the_executor_group :
  forall sc sched s tr,
    run (init sc) sched = (s, tr) ->
    existsb (fun e : event => let '(k, _, _) := e in Z.eqb k K_GSIG) (all_events tr) = false.
Proof. exact no_group_signal. Qed.
Print Assumptions C08_no_signal_to_the_executor_group.

Theorem C08_bystander_never_killed :
  forall sc sched s tr u,
    NoDup (delivered sc) -> In u (delivered sc) -> mem u (named sc) = false -> has_limit sc u = false ->
    run (init sc) sched = (s, tr) -> existsb (event_eqb (ev K_KILL u 1)) (all_events tr) = false.
Proof. exact bystander_never_killed. Qed.
Print Assumptions C08_bystander_never_killed.

Theorem C08_not_signalled_clause_holds_in_model :
  forall sc sched s tr, NoDup (delivered sc) -> run (init sc) sched = (s, tr) -> ok_not_signalled sc tr = true.
Proof. exact model_not_signalled. Qed.
Print Assumptions C08_not_signalled_clause_holds_in_model.

End ExecSide.

(* ---- raptor relay of the agent scheduler: the third of the four places where
   cancellation is implemented (the backlog of raptor tasks waiting for their
   master), RP.Relay.Model.  All statements are about EVERY history. ---- *)
Module RelaySide.
Import RP.Relay.Model RP.Relay.Oracle RP.Relay.Proofs RP.Relay.History RP.Relay.Frame RP.Relay.OracleProofs.
Open Scope Z_scope.

(* one request: its uids are registered on the cancel list; every named uid
   leaves every backlog and is canceled as often as it waited there; tasks not
   named keep their place and their order; nothing is forwarded or failed;
   scheduler queue and registrations untouched *)
Theorem C08_relay_cancel_in_backlog :
  forall s us,
    let '(s', e) := step s (Cancel us) in
    backlog s' = unnamed us (backlog s) /\ inq s' = inq s /\ queues s' = queues s
    /\ clist s' = clist s ++ us /\ gone s' = gone s
    /\ (exists c, e = [OCancel c] /\ (forall u, In u c -> In u us)
                  /\ forall u, In u us -> cnt u c = tot u (backlog s))
    /\ (forall u, In u us -> tot u (backlog s') = 0%nat)
    /\ (forall u, ~ In u us -> tot u (backlog s') = tot u (backlog s)).
Proof. exact cancel_in_backlog. Qed.
Print Assumptions C08_relay_cancel_in_backlog.

(* whole histories: a request naming a task that waits in a backlog cancels it,
   exactly once, and the task is never forwarded, failed or waiting again *)
Theorem C08_relay_cancel_stops_waiting_task :
  forall ops1 us ops2 u s1 e1 s2 e2 s3 e3,
    run init ops1 = (s1, e1) -> step s1 (Cancel us) = (s2, e2) -> run s2 ops2 = (s3, e3) ->
    In u us -> (n_arr u (ops1 ++ ops2) <= 1)%nat -> (0 < tot u (backlog s1))%nat ->
    n_cancel u e2 = 1%nat
    /\ n_fwd u (e1 ++ e2 ++ e3) = 0%nat /\ n_fail u (e1 ++ e2 ++ e3) = 0%nat
    /\ n_cancel u (e1 ++ e2 ++ e3) = 1%nat
    /\ (n_inq u s3 + tot u (backlog s3) = 0)%nat.
Proof. exact cancel_stops_waiting_task. Qed.
Print Assumptions C08_relay_cancel_stops_waiting_task.

(* "a named task that a component meets later is canceled there instead of
   being processed": a request naming a raptor task that has arrived -- on the
   scheduler queue or in a backlog -- and has not been forwarded (nor failed or
   canceled) stops it.  Whatever preceded and whatever follows, the task is
   never forwarded and never failed, and it is canceled exactly once: by the
   request itself when it waits in a backlog, by the drain that meets it when
   it is still on the scheduler queue; until that drain it stays on the queue
   with its uid on the cancel list. *)
Theorem C08_relay_cancel_stops_arrived_task :
  forall ops1 us ops2 u s1 e1 s2 e2 s3 e3,
    run init ops1 = (s1, e1) -> step s1 (Cancel us) = (s2, e2) -> run s2 ops2 = (s3, e3) ->
    In u us -> n_arr u ops1 = 1%nat -> n_arr u ops2 = 0%nat ->
    (n_fwd u e1 + n_fail u e1 + n_cancel u e1 = 0)%nat ->
    let e := e1 ++ e2 ++ e3 in
    n_fwd u e = 0%nat /\ n_fail u e = 0%nat /\
    ((n_cancel u e = 1%nat /\ (n_inq u s3 + tot u (backlog s3) = 0)%nat)
     \/ (n_cancel u e = 0%nat /\
         (n_inq u s3 = 1%nat /\ tot u (backlog s3) = 0%nat /\ zmem u (clist s3) = true) /\
         existsb is_drain ops2 = false)).
Proof. exact cancel_stops_arrived_task. Qed.
Print Assumptions C08_relay_cancel_stops_arrived_task.

(* ... once the scheduler loop has drained its queue again: canceled exactly once *)
Theorem C08_relay_cancel_stops_arrived_task_drained :
  forall ops1 us ops2 u s1 e1 s2 e2 s3 e3,
    run init ops1 = (s1, e1) -> step s1 (Cancel us) = (s2, e2) -> run s2 ops2 = (s3, e3) ->
    In u us -> n_arr u ops1 = 1%nat -> n_arr u ops2 = 0%nat ->
    (n_fwd u e1 + n_fail u e1 + n_cancel u e1 = 0)%nat ->
    existsb is_drain ops2 = true ->
    n_cancel u (e1 ++ e2 ++ e3) = 1%nat /\ n_fwd u (e1 ++ e2 ++ e3) = 0%nat /\ n_fail u (e1 ++ e2 ++ e3) = 0%nat
    /\ (n_inq u s3 + tot u (backlog s3) = 0)%nat.
Proof. exact cancel_stops_arrived_task_drained. Qed.
Print Assumptions C08_relay_cancel_stops_arrived_task_drained.

(* tasks not named are unaffected: a request placed anywhere in a history
   changes nothing of what the relay shows about a uid it does not name (to
   which registered queue it is put and when, that it goes out by round robin,
   failures, cancellations, all normal scheduling traffic, warnings) and
   nothing of where that uid waits.  Which queue the round robin picks is not
   part of the view: it goes by the position among the wildcard tasks of the
   drain, and a named task canceled in that drain does not take a position. *)
Theorem C08_relay_bystander_frame :
  forall ops1 us ops2 u s e s' e',
    ~ In u us ->
    run init (ops1 ++ Cancel us :: ops2) = (s, e) -> run init (ops1 ++ ops2) = (s', e') ->
    view u e = view u e' /\
    (inq s = inq s' /\ queues s = queues s' /\ gone s = gone s'
     /\ cnt u (clist s) = cnt u (clist s')
     /\ (forall k, cnt u (key_list k (backlog s)) = cnt u (key_list k (backlog s')))
     /\ tot u (backlog s) = tot u (backlog s')).
Proof. exact bystander_frame. Qed.
Print Assumptions C08_relay_bystander_frame.

Theorem C08_relay_bystander_same_counts :
  forall ops1 us ops2 u s e s' e',
    ~ In u us ->
    run init (ops1 ++ Cancel us :: ops2) = (s, e) -> run init (ops1 ++ ops2) = (s', e') ->
    n_fwd u e = n_fwd u e' /\ n_fail u e = n_fail u e' /\ n_cancel u e = n_cancel u e'
    /\ n_inq u s = n_inq u s' /\ tot u (backlog s) = tot u (backlog s').
Proof. exact bystander_same_counts. Qed.
Print Assumptions C08_relay_bystander_same_counts.

Theorem C08_relay_clauses_hold_in_model :
  forall ops, forallb (fun b => b) (relay_row ops (trace init ops)) = true.
Proof. exact clauses_hold_in_model. Qed.
Print Assumptions C08_relay_clauses_hold_in_model.

(* non-vacuity: tasks 1, 2 wait for master 1, task 3 for any master, task 4 is
   still on the scheduler queue; the request for 2, 3, 4 (and an unknown 9)
   cancels 2 and 3 where they wait, the next drain cancels 4; master 1 then gets
   task 1 and the emptied wildcard backlog *)
Example C08_relay_nonvacuous :
  let t u n := mkT u (Some n) false false in
  run init [Arrive [t 1 1; t 2 1; t 3 0]; Drain; Arrive [t 4 1]; Cancel [2; 3; 4; 9]; Drain; Register 1 1]
  = (mkS [] [(1, 1)] [] [2; 3; 9] [], [OCancel [2; 3]; OCancel1 4; OPut 1 [1]; OPut 1 []]).
Proof. vm_compute. reflexivity. Qed.
End RelaySide.

(* ---- where a request starts: the client.  TaskManager.cancel_tasks(uids) with
   nothing (all tasks of the manager), one uid (Task.cancel()) or a list; the
   message carries a LIST of uids, which every component registers. *)
Module ClientSide.
Import RP.CancelReq.Model RP.CancelReq.Proofs.

(* the request names exactly the tasks the application named *)
Theorem C08_client_request_names_exactly :
  forall (all : list Z) (a : carg) (u : Z), In u (request_uids all a) <-> named all a u.
Proof. exact request_names_exactly. Qed.
Print Assumptions C08_client_request_names_exactly.

(* a component that receives it registers exactly those, and keeps what it had *)
Theorem C08_client_registered_exactly :
  forall (cl all : list Z) (a : carg) (u : Z),
    In u (register cl (request_uids all a)) <-> In u cl \/ named all a u.
Proof. exact registered_exactly. Qed.
Print Assumptions C08_client_registered_exactly.

Theorem C08_client_register_keeps :
  forall cl uids : list Z, firstn (length cl) (register cl uids) = cl.
Proof. exact register_keeps. Qed.
Print Assumptions C08_client_register_keeps.

Example C08_client_nonvacuous :
  request_uids [1; 2; 3] ANone = [1; 2; 3] /\ request_uids [1; 2; 3] (AOne 2) = [2]
  /\ request_uids [1; 2; 3] (AMany [3; 9]) = [3; 9] /\ request_uids [1; 2] (AMany []) = [1; 2].
Proof. vm_compute. auto. Qed.
End ClientSide.

