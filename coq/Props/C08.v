(* C08 -- cancel stops the named tasks and nothing else (scheduler side;
   the executor side -- running tasks, tasks met at executor intake -- is in
   RP.Exec once built).  Statements only. *)
From Coq Require Import ZArith List Bool.
From RP Require Import Sched.Model Sched.NodeMap Sched.Inv Sched.SchedProofs Sched.RunProofs
                       Sched.LiveProofs Sched.CancelProofs.
Import ListNotations.
Open Scope Z_scope.

(* a named task that is waiting is taken out of the wait pool ... *)
Theorem C08_named_waiting_leaves_pool :
  forall us wp evs wp' evs' u,
    NoDup (uids (pool_reqs wp)) -> cancel_uids us wp evs = (wp', evs') -> In u us ->
    ~ In u (uids (pool_reqs wp')).
Proof. exact cancel_named_gone. Qed.
Print Assumptions C08_named_waiting_leaves_pool.

(* ... and ends as CANCELED *)
Theorem C08_named_waiting_canceled :
  forall us wp evs wp' evs' u,
    cancel_uids us wp evs = (wp', evs') -> In u us -> In u (uids (pool_reqs wp)) ->
    NoDup (uids (pool_reqs wp)) -> In (Canceled u) evs'.
Proof. exact cancel_named_event. Qed.
Print Assumptions C08_named_waiting_canceled.

(* a named task that the scheduler meets later is canceled there instead of
   being processed: at intake it is not passed on ... *)
Theorem C08_named_met_at_intake :
  forall ts cl evs keep cl' evs' t,
    intake ts cl evs = (keep, cl', evs') -> NoDup (map r_uid ts) ->
    In t ts -> In (r_uid t) cl -> ~ In t keep.
Proof. exact intake_named_not_kept. Qed.
Print Assumptions C08_named_met_at_intake.

(* ... and a task that has to wait but was named meanwhile is canceled, not parked *)
Theorem C08_named_met_at_pool_insert :
  forall p ts wp cl evs wp' cl' evs' t,
    pool_insert p ts wp cl evs = (wp', cl', evs') -> NoDup (map r_uid ts) ->
    In t ts -> In (r_uid t) cl -> In (Canceled (r_uid t)) evs'.
Proof. exact pool_insert_named. Qed.
Print Assumptions C08_named_met_at_pool_insert.

(* tasks not named are unaffected: they stay in the wait pool ... *)
Theorem C08_bystanders_stay_waiting :
  forall us wp evs wp' evs' t,
    cancel_uids us wp evs = (wp', evs') -> ~ In (r_uid t) us ->
    (In t (pool_reqs wp) <-> In t (pool_reqs wp')).
Proof. exact cancel_only_named. Qed.
Print Assumptions C08_bystanders_stay_waiting.

(* ... the only events a request causes are CANCELED events of named uids ... *)
Theorem C08_only_named_canceled :
  forall us wp evs wp' evs' e,
    cancel_uids us wp evs = (wp', evs') -> In e evs' ->
    In e evs \/ exists u, In u us /\ e = Canceled u.
Proof. exact cancel_events_named. Qed.
Print Assumptions C08_only_named_canceled.

(* ... and at intake every task whose uid is not listed is passed on; only
   listed uids of the bulk are canceled *)
Theorem C08_intake_bystanders :
  forall ts cl evs keep cl' evs',
    intake ts cl evs = (keep, cl', evs') ->
    (forall t, In t keep -> In t ts) /\
    (forall t, In t ts -> ~ In (r_uid t) cl -> In t keep) /\
    (forall e, In e evs' -> In e evs \/ exists t, In t ts /\ In (r_uid t) cl /\ e = Canceled (r_uid t)).
Proof. exact intake_spec. Qed.
Print Assumptions C08_intake_bystanders.

(* resources: processing a request never touches the node map or the held
   set; resources of running tasks are released by the unschedule message the
   executor publishes (C07), exactly once (C03_release_restores) *)
Theorem C08_release_exactly_what_was_held :
  forall (ns0 ns : list node) (h : held) (u : Z) (sl : list slot),
    Inv ns0 ns h -> first_with u h = Some sl ->
    Inv ns0 (change_slot_states false sl ns) (drop_first u h).
Proof. exact inv_release. Qed.
Print Assumptions C08_release_exactly_what_was_held.

Example C08_nonvacuous :
  let wp := [(0, [mkReq 1 1 1 0 0 0 0 0 None false None None; mkReq 2 1 1 0 0 0 0 0 None false None None]);
             (3, [mkReq 5 1 1 0 0 0 0 3 None false None None])] in
  cancel_uids [5; 9; 1] wp [] =
  ([(0, [mkReq 2 1 1 0 0 0 0 0 None false None None]); (3, [])], [Canceled 5; Canceled 1]).
Proof. vm_compute. reflexivity. Qed.
