(* C09 -- launch commands enact the placement they were given.
   Statements only; every proof is `exact <lemma>`.

   Model: RP.Launch.Model (can_launch / get_launch_cmds of every launch
   method, producing a structured command) and its denotation `den` (how many
   processes a command starts, on which nodes, pinned to which cores).
   `mobs c st t` is what the model observes for task t on a launcher object in
   state st; ok_count / ok_nodes / ok_pins / ok_refuses / ok_nocrash are the
   oracle clauses the harness applies to the implementation's trace.
   `valid t`: the placement is non-empty, has one slot per rank
   (ranks = #slots), and every slot has a core. *)
From Coq Require Import ZArith List Bool Permutation.
From RP Require Import Launch.Model Launch.Oracle Launch.Proofs.
Import ListNotations.
Open Scope Z_scope.

(* ---- the command depends only on the task at hand ---- *)
Theorem C09_state_unchanged : forall c st t, fst (get_launch_cmds c st t) = st.
Proof. exact step_state. Qed.
Print Assumptions C09_state_unchanged.

(* every launch method, every history of earlier tasks: what is observed for
   t after the history is what a fresh launcher object gives *)
Theorem C09_stateless : forall c hist t,
  run c [] (hist ++ [t]) = run c [] hist ++ run c [] [t].
Proof. exact stateless_history. Qed.
Print Assumptions C09_stateless.

(* ---- MPIRUN, MPIRUN_MPT, MPIRUN_RSH, MPIRUN_CCMRUN, MPIRUN_DPLACE; host list
        and host file (more than 42 hosts) ---- *)
Theorem C09_mpirun_enacts : forall c st t, c_lm c = MPIRUN -> valid t ->
  ok_count c t (mobs c st t) = true /\ ok_nodes c t (mobs c st t) = true /\
  ok_pins c t (mobs c st t) = true.
Proof. exact mpirun_enacts. Qed.
Print Assumptions C09_mpirun_enacts.

Theorem C09_mpirun_denotation : forall c st t,
  c_lm c = MPIRUN -> forallb has_cores (t_slots t) = true ->
  c_dpl_named c && (1 <? t_cpr t) = false ->
  (MIN_NNODES_IN_LIST <? zlen (map s_node (t_slots t))) && t_wfail t = false ->
  exists cmd, snd (get_launch_cmds c st t) = inr cmd /\
    den c cmd = Some {| p_count := zlen (map s_node (t_slots t));
                        p_nodes := NList (map s_node (t_slots t)); p_pins := None |}.
Proof. exact mpirun_den. Qed.
Print Assumptions C09_mpirun_denotation.

(* dplace cannot place threads: refused with ValueError, never a crash *)
Theorem C09_mpirun_refuses : forall c st t, c_lm c = MPIRUN ->
  ok_refuses c t (mobs c st t) = true /\
  (forallb has_cores (t_slots t) = true -> ok_nocrash (mobs c st t) = true).
Proof. exact mpirun_refuses. Qed.
Print Assumptions C09_mpirun_refuses.

(* ---- MPIEXEC, MPIEXEC_MPT: rank file (count, nodes, pinned cores), host
        files "h:n" and "h slots=n" (count, nodes).  PARTIAL: the PALS flavour
        without rank file is excluded, see the two _refuted theorems ---- *)
Theorem C09_mpiexec_enacts_partial : forall c st t, c_lm c = MPIEXEC -> valid t ->
  (c_rf c = true \/ c_flavor c <> PALS) ->
  ok_count c t (mobs c st t) = true /\ ok_nodes c t (mobs c st t) = true /\
  ok_pins c t (mobs c st t) = true.
Proof. exact mpiexec_enacts. Qed.
Print Assumptions C09_mpiexec_enacts_partial.

(* rank file: rank i runs on the node of slot i, bound to the cores of slot i *)
Theorem C09_mpiexec_rankfile_pins : forall c st t,
  c_lm c = MPIEXEC -> c_rf c = true -> t_slots t <> [] -> t_wfail t = false ->
  exists cmd, snd (get_launch_cmds c st t) = inr cmd /\
    den c cmd = Some {| p_count := zlen (map s_node (t_slots t));
                        p_nodes := NList (map s_node (t_slots t));
                        p_pins := Some (map s_cores (t_slots t)) |}.
Proof. exact mpiexec_rf_den. Qed.
Print Assumptions C09_mpiexec_rankfile_pins.

Theorem C09_mpiexec_pals_nodes_refuted : exists c t, c_lm c = MPIEXEC /\ c_flavor c = PALS /\ valid t /\
  ok_count c t (mobs c [] t) = true /\ ok_nodes c t (mobs c [] t) = false.
Proof. exact pals_nodes_refuted. Qed.
Print Assumptions C09_mpiexec_pals_nodes_refuted.

Theorem C09_mpiexec_pals_pins_refuted : exists c t, c_lm c = MPIEXEC /\ c_flavor c = PALS /\ valid t /\
  ok_nodes c t (mobs c [] t) = true /\ ok_pins c t (mobs c [] t) = false.
Proof. exact pals_pins_refuted. Qed.
Print Assumptions C09_mpiexec_pals_pins_refuted.

(* the per-host counts written to host files / --host expand back to the
   slots' nodes (as a multiset), and add up to the number of slots *)
Theorem C09_host_counts : forall hosts : list Z,
  Permutation (expand (host_counts hosts)) hosts /\
  zsum (map snd (host_counts hosts)) = zlen hosts.
Proof. exact (fun l => conj (host_counts_perm l) (host_counts_sum l)). Qed.
Print Assumptions C09_host_counts.

(* ---- SRUN (node list and node file, any slurm version, traverse variant):
        process count and node SET (srun's CLI cannot say more) ---- *)
Theorem C09_srun_enacts : forall c st t, c_lm c = SRUN -> valid t ->
  ok_count c t (mobs c st t) = true /\ ok_nodes c t (mobs c st t) = true /\
  ok_pins c t (mobs c st t) = true.
Proof. exact srun_enacts. Qed.
Print Assumptions C09_srun_enacts.

(* ---- PRTE ---- *)
Theorem C09_prte_enacts : forall c st t, c_lm c = PRTE -> valid t ->
  ok_count c t (mobs c st t) = true /\ ok_nodes c t (mobs c st t) = true /\
  ok_pins c t (mobs c st t) = true.
Proof. exact prte_enacts. Qed.
Print Assumptions C09_prte_enacts.

(* ---- SSH, RSH, FORK: one process on the slot's node; more than one rank
        (and, for FORK, a remote node) is refused ---- *)
Theorem C09_ssh_rsh_enacts : forall c st t, (c_lm c = SSH \/ c_lm c = RSH) -> valid t ->
  ok_count c t (mobs c st t) = true /\ ok_nodes c t (mobs c st t) = true /\
  ok_pins c t (mobs c st t) = true.
Proof. exact single_enacts. Qed.
Print Assumptions C09_ssh_rsh_enacts.

Theorem C09_ssh_rsh_refuses : forall c st t, (c_lm c = SSH \/ c_lm c = RSH) ->
  ok_refuses c t (mobs c st t) = true /\ ok_nocrash (mobs c st t) = true.
Proof. exact single_refuses. Qed.
Print Assumptions C09_ssh_rsh_refuses.

Theorem C09_fork_enacts : forall c st t, c_lm c = FORK ->
  ok_count c t (mobs c st t) = true /\ ok_nodes c t (mobs c st t) = true /\
  ok_pins c t (mobs c st t) = true.
Proof. exact fork_enacts. Qed.
Print Assumptions C09_fork_enacts.

Theorem C09_fork_refuses : forall c st t, c_lm c = FORK -> ok_refuses c t (mobs c st t) = true.
Proof. exact fork_refuses. Qed.
Print Assumptions C09_fork_refuses.

(* ---- APRUN, CCMRUN, IBRUN: the process count only (PARTIAL) ---- *)
Theorem C09_aprun_ccmrun_ibrun_count_partial : forall c st t,
  (c_lm c = APRUN \/ c_lm c = CCMRUN \/ c_lm c = IBRUN) -> valid t ->
  ok_count c t (mobs c st t) = true /\ ok_pins c t (mobs c st t) = true.
Proof. exact count_only. Qed.
Print Assumptions C09_aprun_ccmrun_ibrun_count_partial.

Theorem C09_aprun_nodes_refuted : exists c t, c_lm c = APRUN /\ valid t /\ ok_nodes c t (mobs c [] t) = false.
Proof. exact aprun_nodes_refuted. Qed.
Print Assumptions C09_aprun_nodes_refuted.

Theorem C09_ccmrun_nodes_refuted : exists c t, c_lm c = CCMRUN /\ valid t /\ ok_nodes c t (mobs c [] t) = false.
Proof. exact ccmrun_nodes_refuted. Qed.
Print Assumptions C09_ccmrun_nodes_refuted.

(* ---- JSRUN without ERF: neither the count (inhomogeneous resource sets)
        nor the nodes ---- *)
Theorem C09_jsrun_plain_refuted : exists c t, c_lm c = JSRUN /\ c_erf c = false /\
  ok_count c t (mobs c [] t) = false /\ ok_nodes c t (mobs c [] t) = false.
Proof. exact jsrun_plain_refuted. Qed.
Print Assumptions C09_jsrun_plain_refuted.


(* ---- launcher selection (ResourceManager.find_launcher over the launch
        order).  Node identifiers stand for node names: equal iff the names
        are the same strings. ---- *)

(* FORK accepts a task only if its single slot's node name is 'localhost' (0)
   or EQUAL to the agent's node name *)
Theorem C09_fork_accepts_only_own_node : forall c t, c_lm c = FORK -> can_launch c t = inr true ->
  exists s, t_slots t = [s] /\ (s_node s = 0 \/ s_node s = c_local c).
Proof. exact fork_accepts. Qed.
Print Assumptions C09_fork_accepts_only_own_node.

Theorem C09_fork_selected_own_node : forall cs t j c,
  find_launcher cs t = inr (Some (j, c)) -> c_lm c = FORK ->
  exists s, t_slots t = [s] /\ (s_node s = 0 \/ s_node s = c_local c).
Proof. exact fork_selected_own_node. Qed.
Print Assumptions C09_fork_selected_own_node.

(* the selected launcher is the j-th of the order, it accepted the task *)
Theorem C09_find_launcher_sound : forall cs t j c, find_launcher cs t = inr (Some (j, c)) ->
  can_launch c t = inr true /\ nth_error cs j = Some c.
Proof. exact find_launcher_sound. Qed.
Print Assumptions C09_find_launcher_sound.

(* whatever launcher find_launcher selects (among the methods and flavours
   with proved commands: FORK, SSH, RSH, MPIRUN*, SRUN, PRTE, MPIEXEC* with
   rank file or non-PALS), its command starts exactly the task's ranks on
   exactly the nodes named in the placement *)
Theorem C09_selected_launcher_enacts : forall cs t j c st,
  find_launcher cs t = inr (Some (j, c)) -> valid t -> proven c ->
  let o := (inr true, snd (get_launch_cmds c st t)) : obs1 in
  ok_count c t o = true /\ ok_nodes c t o = true /\ ok_pins c t o = true.
Proof. exact selected_enacts. Qed.
Print Assumptions C09_selected_launcher_enacts.

Theorem C09_selection_rows_hold : forall cs t, valid t -> (forall c, In c cs -> proven c) ->
  sel_clause ok_count cs t (select_obs cs t) = true /\
  sel_clause ok_nodes cs t (select_obs cs t) = true /\
  sel_clause ok_pins cs t (select_obs cs t) = true.
Proof. exact select_obs_ok. Qed.
Print Assumptions C09_selection_rows_hold.

(* non-vacuity of the selection theorems: agent on node 10, launch order
   FORK, SSH; a task placed on node 1 is passed on to SSH (index 1), a task on
   node 10 is taken by FORK (index 0) *)
Example C09_selection_nonvacuous :
  let cs := [cfg0 FORK OMPI; cfg0 SSH OMPI] in
  let cs := map (fun c => Build_cfg (c_lm c) false false false false false OMPI false false false false 20
                            false false 1 false 64 4 10 0 [] false true) cs in
  fst (select_obs cs (Build_task [sl 1 0] [] 1 1 0 false true 0 false false false false)) = inr (Some 1%nat) /\
  fst (select_obs cs (Build_task [sl 10 0] [] 1 1 0 false true 0 false false false false)) = inr (Some 0%nat).
Proof. split; vm_compute; reflexivity. Qed.


(* ---- bulks: Popen.work(bulk) handles every task of the bulk on its own
        (model: work_st threads the shared launcher objects' states through
        the bulk; handle cs t = the task alone on fresh launchers) ---- *)

(* work bulk = map handle bulk, from any launcher states *)
Theorem C09_bulk_is_map : forall cs bulk sts,
  work_st cs sts bulk = map (fun t => snd (handle_st cs sts t)) bulk.
Proof. exact work_st_map. Qed.
Print Assumptions C09_bulk_is_map.

(* bulk independence: launcher and command of task t in ANY bulk are those of
   t alone *)
Theorem C09_bulk_task_alone : forall cs a t b,
  nth_error (work cs (a ++ t :: b)) (length a) = Some (handle cs t).
Proof. exact bulk_task_alone. Qed.
Print Assumptions C09_bulk_task_alone.

(* a refused task is FAILED and changes nothing for the others *)
Theorem C09_bulk_refused_neutral : forall cs a r b, handle cs r = HFailed ->
  work cs (a ++ r :: b) = work cs a ++ HFailed :: work cs b /\
  work cs (a ++ b) = work cs a ++ work cs b.
Proof. exact bulk_refused_neutral. Qed.
Print Assumptions C09_bulk_refused_neutral.

(* a launched task was launched by the first launcher of the launch order
   whose can_launch accepts it, with that launcher's command for this task *)
Theorem C09_bulk_launcher_is_own : forall cs t i cmd, handle cs t = HLaunched i cmd ->
  exists c, find_launcher cs t = inr (Some (i, c)) /\ nth_error cs i = Some c /\
            can_launch c t = inr true /\ snd (get_launch_cmds c [] t) = inr cmd.
Proof. exact handle_launched. Qed.
Print Assumptions C09_bulk_launcher_is_own.

(* the bulk oracle clauses hold on the model for every bulk of valid tasks
   over launch orders of proved launch methods *)
Theorem C09_bulk_rows_hold : forall cs bulk,
  (forall t, In t bulk -> valid t) -> (forall c, In c cs -> proven c) ->
  all2 (bulk_launcher_is_own cs) bulk (work cs bulk) = true /\
  all2 (bulk_cmd_matches_placement cs) bulk (work cs bulk) = true.
Proof. exact bulk_rows_hold. Qed.
Print Assumptions C09_bulk_rows_hold.

(* non-vacuity: agent on node 10, order FORK, SSH, MPIRUN; a bulk of a refused
   task (no executable), a local task, a remote task and a two-rank MPI task *)
Example C09_bulk_nonvacuous :
  let mk := fun l => Build_cfg l false false false false false OMPI false false false false 20
                       false false 1 false 64 4 10 0 [] false true in
  let cs := [mk FORK; mk SSH; mk MPIRUN] in
  let one := fun n exe => Build_task [sl n 0] [] 1 1 0 false exe 0 false false false false in
  let two := Build_task [sl 3 0; sl 4 0] [] 2 1 0 true true 0 false false false false in
  map (fun h => match h with HFailed => None | HLaunched i _ => Some i end)
      (work cs [one 10 false; one 10 true; one 3 true; two])
  = [None; Some 0%nat; Some 1%nat; Some 2%nat].
Proof. vm_compute. reflexivity. Qed.

(* ---- sequences of bulks on ONE executor / resource manager: nothing is
        carried from one task to a later one ---- *)
Theorem C09_bulk_sequence_is_map : forall cs bulks sts,
  work_seq cs sts bulks = map (map (fun t => snd (handle_st cs sts t))) bulks.
Proof. exact work_seq_map. Qed.
Print Assumptions C09_bulk_sequence_is_map.

(* find_launcher is a function of the task and the launch order, not of
   history: whatever bulks were handled before, whatever shares its bulk and
   whatever follows, launcher and command of task t are those of t alone on a
   fresh resource manager *)
Theorem C09_find_launcher_history_free : forall cs before a t b after,
  nth_error (concat (work_seq cs (fresh cs) (before ++ (a ++ t :: b) :: after)))
            (length (concat before ++ a)) = Some (handle cs t).
Proof. exact find_launcher_history_free. Qed.
Print Assumptions C09_find_launcher_history_free.

(* ---- error path: the host / rank / node / ERF file cannot be written into
        the task sandbox (t_wfail).  The enactment theorems above hold for
        every task, with or without the fault ("emitted => enacts"); in
        addition: ---- *)

(* a method that has to write a file for this task (mpirun above 42 hosts,
   mpiexec always, srun above 42 nodes, jsrun ERF) produces NO command when
   the write fails: the task is refused with an error *)
Theorem C09_write_failure_refuses : forall c st t, t_wfail t = true -> writes_file c t = true ->
  exists e, snd (get_launch_cmds c st t) = inl e.
Proof. exact wfail_refuses. Qed.
Print Assumptions C09_write_failure_refuses.

(* and whatever command is emitted under the fault names no file *)
Theorem C09_write_failure_no_file : forall c st t cmd, t_wfail t = true ->
  snd (get_launch_cmds c st t) = inr cmd -> file cmd = None.
Proof. exact wfail_no_file. Qed.
Print Assumptions C09_write_failure_no_file.

Example C09_write_failure_nonvacuous :
  let c := cfg0 MPIEXEC OMPI in
  let t := Build_task [sl 1 0; sl 2 0] [] 2 1 0 true true 0 false false false true in
  valid t /\ writes_file c t = true /\ snd (get_launch_cmds c [] t) = inl EOs.
Proof. repeat split; try discriminate; vm_compute; reflexivity. Qed.

(* ---- the oracle's multiset / set comparisons mean what they say ---- *)
Theorem C09_oracle_multiset : forall a b : list Z,
  (mseteqb a b = true <-> forall x, count_occ Z.eq_dec a x = count_occ Z.eq_dec b x) /\
  (Permutation a b -> mseteqb a b = true) /\
  (seteqb a b = true <-> forall x, In x a <-> In x b).
Proof. exact (fun a b => conj (mseteqb_count a b) (conj (mseteqb_perm a b) (seteqb_spec a b))). Qed.
Print Assumptions C09_oracle_multiset.

(* non-vacuity: a valid 3-rank placement over two nodes (n1, n2, n2), accepted
   by MPIRUN, whose command denotes exactly those nodes *)
Example C09_nonvacuous :
  let c := cfg0 MPIRUN OMPI in
  let t := task0 [sl 1 0; sl 2 0; sl 2 1] [] 3 in
  valid t /\ can_launch c t = inr true /\
  option_map p_nodes (match snd (get_launch_cmds c [] t) with inr cmd => den c cmd | inl _ => None end)
    = Some (NList [1; 2; 2]).
Proof. repeat split; try discriminate; vm_compute; reflexivity. Qed.
