(* C09 -- launch commands enact the placement they were given.
   Statements only; every proof is `exact <lemma>`.

   Model: RP.Launch.Model (can_launch / get_launch_cmds of every launch
   method, producing a structured command) and its denotation `den` (how many
   processes a command starts, on which nodes, pinned to which cores).
   `mobs c st t` is what the model observes for task t on a launcher object in
   state st; ok_count / ok_nodes / ok_pins / ok_refuses / ok_nocrash are the
   oracle clauses the harness applies to the implementation's trace.
   `valid t`: the placement is non-empty, has one slot per rank
   (ranks = #slots), and every slot has a core. *)
From Coq Require Import ZArith List Bool Permutation.
From RP Require Import Launch.Model Launch.Oracle Launch.Proofs.
Import ListNotations.
Open Scope Z_scope.

(* ---- the command depends only on the task at hand ---- *)
Theorem C09_state_unchanged : forall c st t, fst (get_launch_cmds c st t) = st.
Proof. exact step_state. Qed.
Print Assumptions C09_state_unchanged.

(* every launch method, every history of earlier tasks: what is observed for
   t after the history is what a fresh launcher object gives *)
Theorem C09_stateless : forall c hist t,
  run c [] (hist ++ [t]) = run c [] hist ++ run c [] [t].
Proof. exact stateless_history. Qed.
Print Assumptions C09_stateless.

(* ---- MPIRUN, MPIRUN_MPT, MPIRUN_RSH, MPIRUN_CCMRUN, MPIRUN_DPLACE; host list
        and host file (more than 42 hosts) ---- *)
Theorem C09_mpirun_enacts : forall c st t, c_lm c = MPIRUN -> valid t ->
  ok_count c t (mobs c st t) = true /\ ok_nodes c t (mobs c st t) = true /\
  ok_pins c t (mobs c st t) = true.
Proof. exact mpirun_enacts. Qed.
Print Assumptions C09_mpirun_enacts.

Theorem C09_mpirun_denotation : forall c st t,
  c_lm c = MPIRUN -> forallb has_cores (t_slots t) = true ->
  c_dpl_named c && (1 <? t_cpr t) = false ->
  exists cmd, snd (get_launch_cmds c st t) = inr cmd /\
    den c cmd = Some {| p_count := zlen (map s_node (t_slots t));
                        p_nodes := NList (map s_node (t_slots t)); p_pins := None |}.
Proof. exact mpirun_den. Qed.
Print Assumptions C09_mpirun_denotation.

(* dplace cannot place threads: refused with ValueError, never a crash *)
Theorem C09_mpirun_refuses : forall c st t, c_lm c = MPIRUN ->
  ok_refuses c t (mobs c st t) = true /\
  (forallb has_cores (t_slots t) = true -> ok_nocrash (mobs c st t) = true).
Proof. exact mpirun_refuses. Qed.
Print Assumptions C09_mpirun_refuses.

(* ---- MPIEXEC, MPIEXEC_MPT: rank file (count, nodes, pinned cores), host
        files "h:n" and "h slots=n" (count, nodes).  PARTIAL: the PALS flavour
        without rank file is excluded, see the two _refuted theorems ---- *)
Theorem C09_mpiexec_enacts_partial : forall c st t, c_lm c = MPIEXEC -> valid t ->
  (c_rf c = true \/ c_flavor c <> PALS) ->
  ok_count c t (mobs c st t) = true /\ ok_nodes c t (mobs c st t) = true /\
  ok_pins c t (mobs c st t) = true.
Proof. exact mpiexec_enacts. Qed.
Print Assumptions C09_mpiexec_enacts_partial.

(* rank file: rank i runs on the node of slot i, bound to the cores of slot i *)
Theorem C09_mpiexec_rankfile_pins : forall c st t,
  c_lm c = MPIEXEC -> c_rf c = true -> t_slots t <> [] ->
  exists cmd, snd (get_launch_cmds c st t) = inr cmd /\
    den c cmd = Some {| p_count := zlen (map s_node (t_slots t));
                        p_nodes := NList (map s_node (t_slots t));
                        p_pins := Some (map s_cores (t_slots t)) |}.
Proof. exact mpiexec_rf_den. Qed.
Print Assumptions C09_mpiexec_rankfile_pins.

Theorem C09_mpiexec_pals_nodes_refuted : exists c t, c_lm c = MPIEXEC /\ c_flavor c = PALS /\ valid t /\
  ok_count c t (mobs c [] t) = true /\ ok_nodes c t (mobs c [] t) = false.
Proof. exact pals_nodes_refuted. Qed.
Print Assumptions C09_mpiexec_pals_nodes_refuted.

Theorem C09_mpiexec_pals_pins_refuted : exists c t, c_lm c = MPIEXEC /\ c_flavor c = PALS /\ valid t /\
  ok_nodes c t (mobs c [] t) = true /\ ok_pins c t (mobs c [] t) = false.
Proof. exact pals_pins_refuted. Qed.
Print Assumptions C09_mpiexec_pals_pins_refuted.

(* the per-host counts written to host files / --host expand back to the
   slots' nodes (as a multiset), and add up to the number of slots *)
Theorem C09_host_counts : forall hosts : list Z,
  Permutation (expand (host_counts hosts)) hosts /\
  zsum (map snd (host_counts hosts)) = zlen hosts.
Proof. exact (fun l => conj (host_counts_perm l) (host_counts_sum l)). Qed.
Print Assumptions C09_host_counts.

(* ---- SRUN (node list and node file, any slurm version, traverse variant):
        process count and node SET (srun's CLI cannot say more) ---- *)
Theorem C09_srun_enacts : forall c st t, c_lm c = SRUN -> valid t ->
  ok_count c t (mobs c st t) = true /\ ok_nodes c t (mobs c st t) = true /\
  ok_pins c t (mobs c st t) = true.
Proof. exact srun_enacts. Qed.
Print Assumptions C09_srun_enacts.

(* ---- PRTE ---- *)
Theorem C09_prte_enacts : forall c st t, c_lm c = PRTE -> valid t ->
  ok_count c t (mobs c st t) = true /\ ok_nodes c t (mobs c st t) = true /\
  ok_pins c t (mobs c st t) = true.
Proof. exact prte_enacts. Qed.
Print Assumptions C09_prte_enacts.

(* ---- SSH, RSH, FORK: one process on the slot's node; more than one rank
        (and, for FORK, a remote node) is refused ---- *)
Theorem C09_ssh_rsh_enacts : forall c st t, (c_lm c = SSH \/ c_lm c = RSH) -> valid t ->
  ok_count c t (mobs c st t) = true /\ ok_nodes c t (mobs c st t) = true /\
  ok_pins c t (mobs c st t) = true.
Proof. exact single_enacts. Qed.
Print Assumptions C09_ssh_rsh_enacts.

Theorem C09_ssh_rsh_refuses : forall c st t, (c_lm c = SSH \/ c_lm c = RSH) ->
  ok_refuses c t (mobs c st t) = true /\ ok_nocrash (mobs c st t) = true.
Proof. exact single_refuses. Qed.
Print Assumptions C09_ssh_rsh_refuses.

Theorem C09_fork_enacts : forall c st t, c_lm c = FORK ->
  ok_count c t (mobs c st t) = true /\ ok_nodes c t (mobs c st t) = true /\
  ok_pins c t (mobs c st t) = true.
Proof. exact fork_enacts. Qed.
Print Assumptions C09_fork_enacts.

Theorem C09_fork_refuses : forall c st t, c_lm c = FORK -> ok_refuses c t (mobs c st t) = true.
Proof. exact fork_refuses. Qed.
Print Assumptions C09_fork_refuses.

(* ---- APRUN, CCMRUN, IBRUN: the process count only (PARTIAL) ---- *)
Theorem C09_aprun_ccmrun_ibrun_count_partial : forall c st t,
  (c_lm c = APRUN \/ c_lm c = CCMRUN \/ c_lm c = IBRUN) -> valid t ->
  ok_count c t (mobs c st t) = true /\ ok_pins c t (mobs c st t) = true.
Proof. exact count_only. Qed.
Print Assumptions C09_aprun_ccmrun_ibrun_count_partial.

Theorem C09_aprun_nodes_refuted : exists c t, c_lm c = APRUN /\ valid t /\ ok_nodes c t (mobs c [] t) = false.
Proof. exact aprun_nodes_refuted. Qed.
Print Assumptions C09_aprun_nodes_refuted.

Theorem C09_ccmrun_nodes_refuted : exists c t, c_lm c = CCMRUN /\ valid t /\ ok_nodes c t (mobs c [] t) = false.
Proof. exact ccmrun_nodes_refuted. Qed.
Print Assumptions C09_ccmrun_nodes_refuted.

(* ---- JSRUN without ERF: neither the count (inhomogeneous resource sets)
        nor the nodes ---- *)
Theorem C09_jsrun_plain_refuted : exists c t, c_lm c = JSRUN /\ c_erf c = false /\
  ok_count c t (mobs c [] t) = false /\ ok_nodes c t (mobs c [] t) = false.
Proof. exact jsrun_plain_refuted. Qed.
Print Assumptions C09_jsrun_plain_refuted.

(* ---- the oracle's multiset / set comparisons mean what they say ---- *)
Theorem C09_oracle_multiset : forall a b : list Z,
  (mseteqb a b = true <-> forall x, count_occ Z.eq_dec a x = count_occ Z.eq_dec b x) /\
  (Permutation a b -> mseteqb a b = true) /\
  (seteqb a b = true <-> forall x, In x a <-> In x b).
Proof. exact (fun a b => conj (mseteqb_count a b) (conj (mseteqb_perm a b) (seteqb_spec a b))). Qed.
Print Assumptions C09_oracle_multiset.

(* non-vacuity: a valid 3-rank placement over two nodes (n1, n2, n2), accepted
   by MPIRUN, whose command denotes exactly those nodes *)
Example C09_nonvacuous :
  let c := cfg0 MPIRUN OMPI in
  let t := task0 [sl 1 0; sl 2 0; sl 2 1] [] 3 in
  valid t /\ can_launch c t = inr true /\
  option_map p_nodes (match snd (get_launch_cmds c [] t) with inr cmd => den c cmd | inl _ => None end)
    = Some (NList [1; 2; 2]).
Proof. repeat split; try discriminate; vm_compute; reflexivity. Qed.
