(* C09 -- launch commands enact the placement they were given. *)
From Coq Require Import ZArith List Bool.
From RP Require Import Launch.Model Launch.Oracle Launch.Proofs.
Import ListNotations.
Open Scope Z_scope.

Theorem C09_state_unchanged : forall c st t, fst (get_launch_cmds c st t) = st.
Proof. exact step_state. Qed.
Print Assumptions C09_state_unchanged.
