From Coq Require Import ZArith List Bool String.
From RP Require Import Descr.Types Descr.Model Descr.Oracle Descr.Proofs Gen.Descr.
Import ListNotations.

Theorem C19_generated_table_wf : wf_table td_table = true.
Proof. vm_compute. reflexivity. Qed.
Print Assumptions C19_generated_table_wf.
