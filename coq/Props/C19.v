(* C19 -- descriptions and payloads survive normalisation and transport.
   Statements only; every proof is `exact <lemma>`.  The description model is
   RP.Descr.Model driven by the table Gen.Descr.td_table, regenerated from
   task_description.py on every run.  The general theorems hold for every table
   accepted by wf_table; C19_generated_table_wf says the current one is. *)
From Coq Require Import ZArith List Bool String.
From RP Require Import Descr.Types Descr.Model Descr.Oracle Descr.Proofs Gen.Descr.
Import ListNotations.
Open Scope Z_scope.

(* ---------------------------------------------------------------- descriptions *)

(* the obligation a change to TaskDescription._verify / _schema / _defaults re-opens:
   every alias block resets its own source to a falsy, type-correct value; sources and
   targets are distinct, disjoint, of compatible types and different from the attributes
   the mode checks read; all of them have defaults *)
Theorem C19_generated_table_wf : wf_table td_table = true.
Proof. vm_compute. reflexivity. Qed.
Print Assumptions C19_generated_table_wf.

(* verifying is idempotent: a second verify() succeeds and changes nothing *)
Theorem C19_verify_idempotent :
  forall T, wf_table T = true ->
  forall d d' : descr, verify T d = inr d' -> verify T d' = inr d'.
Proof. exact (fun T W => verify_idempotent T (wf_table_WF T W)). Qed.
Print Assumptions C19_verify_idempotent.

(* deprecated names are mapped onto their replacements with the same values: if the
   (type-normalised) deprecated attribute is set, then after verify its replacement
   holds that value (through float() for gpu_processes) and the deprecated one is reset *)
Theorem C19_alias_value_preserved :
  forall T, wf_table T = true ->
  forall (a : alias) (d d' : descr) (t : ftype) (sv : val),
    verify T d = inr d' -> In a (t_aliases T) ->
    lookup (a_src a) (t_schema T) = Some t -> cast t (getv (a_src a) d) = inr sv -> truthy sv = true ->
    getv (a_dst a) d' = conv_val (a_conv a) sv /\ getv (a_src a) d' = VA (a_rval a)
    /\ truthy (getv (a_src a) d') = false.
Proof. exact (fun T W => verify_alias_full T (wf_table_WF T W)). Qed.
Print Assumptions C19_alias_value_preserved.

(* ... at the level of whole descriptions: the deprecated spelling and the current spelling
   normalise to the same description.  For every description d that passes the type pass
   (d1 its type-normalised form) and every twin t of it -- t uses no deprecated name and
   every other attribute has the value the alias mapping gives it, i.e. the replacement of
   a set deprecated name holds its converted value -- verify t and verify d raise the same
   exception, or both accept and agree on every attribute except the deprecated names
   themselves (unset in both).  This covers the derived use_mpi flag: wf_table demands
   that the generated table has the use_mpi block after every alias block. *)
Theorem C19_deprecated_twin :
  forall T, wf_table T = true ->
  forall d d1 t : descr,
    typecheck (t_schema T) d = inr d1 -> twin_of T d1 t -> res_sim T (verify T t) (verify T d).
Proof. exact (fun T W => twin_verify T (wf_table_WF T W)). Qed.
Print Assumptions C19_deprecated_twin.

(* such twins exist for every d: the mapped description itself is one *)
Theorem C19_deprecated_twin_exists :
  forall T, wf_table T = true ->
  forall d d1 : descr, typecheck (t_schema T) d = inr d1 -> twin_of T d1 (alias_pass T d1).
Proof. exact (fun T W => alias_pass_is_twin T (wf_table_WF T W)). Qed.
Print Assumptions C19_deprecated_twin_exists.

(* the same, as the boolean clause the harness evaluates on implementation traces *)
Theorem C19_alias_oracle :
  forall T, wf_table T = true ->
  forall c v : descr, verify T c = inr v -> ok_alias T c v = true.
Proof. exact (fun T W => verify_ok_alias T (wf_table_WF T W)). Qed.
Print Assumptions C19_alias_oracle.

(* required attributes per task mode are enforced: an accepted description has a
   non-empty mode, every attribute its mode requires is set and none it forbids ... *)
Theorem C19_mode_requirements :
  forall T, wf_table T = true ->
  forall d d' : descr, verify T d = inr d' -> ok_mode T d' = true.
Proof. exact (fun T W => verify_mode_ok T (wf_table_WF T W)). Qed.
Print Assumptions C19_mode_requirements.

(* ... and a description whose types are fine but which violates its mode's rule is rejected *)
Theorem C19_mode_rejects :
  forall T, wf_table T = true ->
  forall (d d1 : descr),
    typecheck (t_schema T) d = inr d1 -> rules_ok T (set_mode T d1) = false ->
    verify T d = inl ValueError.
Proof. exact (fun T W => verify_mode_rejects T (wf_table_WF T W)). Qed.
Print Assumptions C19_mode_rejects.

(* verify loses nothing: every attribute that is neither a deprecated name, a replacement,
   the mode nor the derived use_mpi flag keeps its type-normalised value, and no key
   appears or disappears *)
Theorem C19_verify_loses_nothing :
  forall T, wf_table T = true ->
  forall (k : string) (t : ftype) (d d' : descr),
    verify T d = inr d' -> ~ In k (touched T) -> lookup k (t_schema T) = Some t ->
    cast t (getv k d) = inr (getv k d').
Proof. exact (fun T W => verify_untouched T (wf_table_WF T W)). Qed.
Print Assumptions C19_verify_loses_nothing.

Theorem C19_verify_keeps_keys :
  forall T, wf_table T = true ->
  forall (x d' : descr), verify T (construct T x) = inr d' -> map fst d' = map fst (construct T x).
Proof. exact (fun T W => verify_keys_construct T (wf_table_WF T W)). Qed.
Print Assumptions C19_verify_keeps_keys.

(* a description converted to a plain dictionary and back is equal to the original,
   for every table and every constructor argument ... *)
Theorem C19_dict_roundtrip :
  forall T (x : descr), construct T (as_dict (construct T x)) = construct T x.
Proof. exact dict_roundtrip. Qed.
Print Assumptions C19_dict_roundtrip.

(* ... and also after verification, where the copy verifies to the same description *)
Theorem C19_dict_roundtrip_verified :
  forall T, wf_table T = true ->
  forall (x v : descr), verify T (construct T x) = inr v ->
    construct T (as_dict v) = v /\ verify T (construct T (as_dict v)) = inr v.
Proof. exact (fun T W => verified_roundtrip T (wf_table_WF T W)). Qed.
Print Assumptions C19_dict_roundtrip_verified.

(* ---------------------------------------------------------------- pilot descriptions *)

(* PilotDescription.verify (schema/defaults generated, _verify modelled by hand): idempotent,
   the resource / nodes-or-cores requirements hold of what it accepts, every attribute keeps
   its type-normalised value and no key appears or disappears; the dict round trip is
   C19_dict_roundtrip with T := pd_table *)
Theorem C19_pilot_verify_idempotent :
  forall T (d d' : descr), pd_verify T d = inr d' -> pd_verify T d' = inr d'.
Proof. exact pd_verify_idempotent. Qed.
Print Assumptions C19_pilot_verify_idempotent.

Theorem C19_pilot_requirements :
  forall T (d d' : descr), pd_verify T d = inr d' -> pd_rules d' = true.
Proof. exact pd_verify_rules. Qed.
Print Assumptions C19_pilot_requirements.

Theorem C19_pilot_verify_loses_nothing :
  forall T (k : string) (t : ftype) (d d' : descr),
    pd_verify T d = inr d' -> lookup k (t_schema T) = Some t ->
    cast t (getv k d) = inr (getv k d') /\ map fst d' = map fst d.
Proof. exact pd_verify_untouched. Qed.
Print Assumptions C19_pilot_verify_loses_nothing.

(* ---------------------------------------------------------------- sequences *)

(* Normalisation is a function of its input; two applications are independent.  For any
   interleaving of operations on any number of descriptions -- construct, verify, the user
   mutating a list/dict attribute of a description, mutations of foreign objects (the
   constructor's input after verify, the result of as_dict) -- every description ends up
   exactly as if the operations on the others had never happened.  (mk, vf) is instantiated
   with (construct T, verify T) and (construct T, pd_verify T). *)
Theorem C19_sequence_independent :
  forall (mk : descr -> descr) (vf : descr -> perr + descr) (i : nat) (ops : list dop) (st : dstore),
    slot_get i (drun mk vf ops st) = slot_get i (drun mk vf (filter (touches i) ops) st).
Proof. exact drun_independent. Qed.
Print Assumptions C19_sequence_independent.

(* a description built and verified after any history is what its own input makes it *)
Theorem C19_sequence_fresh :
  forall (mk : descr -> descr) (vf : descr -> perr + descr) (ops : list dop) (st : dstore) (j : nat) (x : descr),
    slot_get j (drun mk vf (ops ++ [DConstruct j x; DVerify j]) st)
    = Some (match vf (mk x) with inr v => v | inl _ => mk x end).
Proof. exact drun_fresh. Qed.
Print Assumptions C19_sequence_fresh.

(* ---------------------------------------------------------------- bulks *)

(* TaskManager.submit_tasks, bulk independence.  For every well-formed table whose uid is a
   str attribute that verify does not touch: after any sequence of submit calls on any bulks
   (objects listed once or twice, with or without application-chosen uids, some refused),
   every description object that was not itself the refused one of a call is either untouched
   or the normal form of ITS OWN source -- verify's result with the uid the application chose,
   or with a generated one if it chose none.  No other element of any bulk occurs in nf_of:
   position i's description does not depend on the others, and the refusal of j does not
   alter i. *)
Theorem C19_submit_bulk_independent :
  forall T, wf_table T = true ->
  ftype_is TStr (lookup uid_key (t_schema T)) = true -> mem_str uid_key (touched T) = false ->
  forall (st0 : dstore) (known : list string) (gen : nat) (calls : list (list nat)) s' res,
    submit_calls (verify T) calls (mkSub st0 known gen) = (s', res) ->
    forall (i : nat) (d' : descr),
      ~ In i (List.concat (map (fun r => out_slot (fst (fst r))) res)) ->
      slot_get i (ss_store s') = Some d' ->
      exists d, slot_get i st0 = Some d /\ nf_of T d d'.
Proof. exact submit_bulk_independent_b. Qed.
Print Assumptions C19_submit_bulk_independent.

(* the generated table meets the two side conditions *)
Theorem C19_generated_table_uid :
  ftype_is TStr (lookup uid_key (t_schema td_table)) = true /\ mem_str uid_key (touched td_table) = false.
Proof. vm_compute. split; reflexivity. Qed.
Print Assumptions C19_generated_table_uid.

(* ---------------------------------------------------------------- slots *)

(* old encodings (ints, dicts, RO objects, (index, occupation) tuples) -> new format:
   nodes, core and GPU indices are preserved *)
Theorem C19_slots_to_new_preserves :
  forall ss ss' : list slot,
    slots_to_new ss = inr ss' -> forallb slot_no_lists ss = true -> placement ss' = placement ss.
Proof. exact slots_to_new_placement. Qed.
Print Assumptions C19_slots_to_new_preserves.

(* new -> old format: preserved, without condition *)
Theorem C19_slots_to_old_preserves :
  forall ss ss' : list slot, slots_to_old ss = inr ss' -> placement ss' = placement ss.
Proof. exact slots_to_old_placement. Qed.
Print Assumptions C19_slots_to_old_preserves.

(* old -> new -> old *)
Theorem C19_slots_old_new_old :
  forall ss n o : list slot,
    forallb slot_no_lists ss = true ->
    slots_to_new ss = inr n -> slots_to_old n = inr o -> placement o = placement ss.
Proof. exact slots_old_new_old. Qed.
Print Assumptions C19_slots_old_new_old.

(* new -> old -> new is REFUTED (known finding): for every new slot that holds a core,
   convert_slots_to_old succeeds and convert_slots_to_new of its result raises ValueError *)
Theorem C19_slots_roundtrip_refuted :
  forall (s : slot) x l g,
    version_truthy s = true -> s_cores s = RROs (x :: l) -> s_gpus s = RROs g ->
    exists o, slots_to_old [s] = inr o /\ slots_to_new o = inl ValueError.
Proof. exact slots_new_old_new_raises. Qed.
Print Assumptions C19_slots_roundtrip_refuted.

(* what remains true of new -> old -> new: placements without cores and GPUs survive *)
Theorem C19_slots_roundtrip_partial :
  forall ss o n : list slot,
    forallb (fun s => rspec_empty (s_cores s) && rspec_empty (s_gpus s)) ss = true ->
    slots_to_old ss = inr o -> slots_to_new o = inr n -> placement n = placement ss.
Proof. exact slots_new_old_new_empty. Qed.
Print Assumptions C19_slots_roundtrip_partial.

(* Slot(from_dict=slot.as_dict()) equals the slot *)
Theorem C19_slot_dict_roundtrip :
  forall (s : slot) c g v,
    s_typed s = true -> s_version s = Some v -> s_cores s = RROs c -> s_gpus s = RROs g ->
    slot_eqb (slot_ctor (slot_as_dict s)) s = true.
Proof. exact slot_ctor_as_dict. Qed.
Print Assumptions C19_slot_dict_roundtrip.

(* the client reads the placement a task was given (Task._update stores task['slots'],
   Task.slots / Task.as_dict read it).  For EVERY list of slots a writer can leave -- new
   format, complete old format, or the raptor worker's partial old format with nothing but
   cores and gpus -- the read does not fail and names the same nodes, cores, GPUs, lfs and mem
   (keys a writer left out mean the defaults); a second read gives the same. *)
Theorem C19_client_slots_keep_placement :
  forall l : list pslot,
    (exists r, client_slots (CSlots l) = inr r /\ pplacement r = pplacement l)
    /\ (forall r, client_slots (CSlots l) = inr r -> client_slots (CSlots r) = inr r).
Proof. exact (fun l => conj (client_slots_placement l) (client_slots_again l)). Qed.
Print Assumptions C19_client_slots_keep_placement.

(* REFUTED for the one writer that does not leave a list: the hombre scheduler stores its
   chunk dict {'ranks': [...], ..}; Task.slots indexes it with 0 (recorded finding) *)
Theorem C19_client_slots_hombre_refuted : client_slots CRanksDict = inl KeyError.
Proof. reflexivity. Qed.
Print Assumptions C19_client_slots_hombre_refuted.

(* ---------------------------------------------------------------- envelopes *)

(* whatever the serialisers are, as long as deserialising a serialised value gives it
   back: a callable, its arguments and its keyword arguments (an empty mapping if none
   were given) come out of get_func_attr exactly as they went into PythonTask, so calling
   the decoded function gives the same result *)
Theorem C19_envelope_roundtrip :
  forall (func blob wire res : Type)
         (ser_obj : func -> blob) (deser_obj : blob -> option func)
         (ser_bson : envelope blob -> wire) (deser_bson : wire -> option (envelope blob))
         (call : func -> list atom -> kwargs -> res),
    (forall fn, deser_obj (ser_obj fn) = Some fn) ->
    (forall e, deser_bson (ser_bson e) = Some e) ->
    forall fn args kw,
      exists fn' args' kw',
        transport func blob wire ser_obj deser_obj ser_bson deser_bson true fn args kw
          = inr (fn', args', Some kw')
        /\ call fn' args' kw' = call fn args (match kw with Some l => l | None => [] end).
Proof.
  exact (fun func blob wire res so dobj sb db call H1 H2 fn args kw =>
           ex_intro _ fn (ex_intro _ args (ex_intro _ (match kw with Some l => l | None => [] end)
             (conj (transport_roundtrip func blob wire so dobj sb db H1 H2 fn args kw) eq_refl)))).
Qed.
Print Assumptions C19_envelope_roundtrip.

(* the time of serialisation: in a sequence of task creations from one callable whose value
   (state pickled by value) changes over time, every task decodes to the function value of the
   moment THAT task was created -- not of the moment the decorator was applied -- with its
   arguments; on the decorator path and on the constructor path alike *)
Theorem C19_envelope_sequence :
  forall (func blob wire : Type)
         (ser_obj : func -> blob) (deser_obj : blob -> option func)
         (ser_bson : envelope blob -> wire) (deser_bson : wire -> option (envelope blob)),
    (forall fn, deser_obj (ser_obj fn) = Some fn) ->
    (forall e, deser_bson (ser_bson e) = Some e) ->
    forall (decor : bool) (f_dec : func) (steps : list (step func)),
      transport_seq func blob wire ser_obj deser_obj ser_bson deser_bson decor true f_dec steps
      = map (fun s => inr (st_f s, st_args s, Some (kw_or_empty (st_kw s)))) steps.
Proof. exact transport_seq_roundtrip. Qed.
Print Assumptions C19_envelope_sequence.

(* the decorator path and the constructor path produce the same envelope for the same
   function value, whatever the value was at decoration time (no inverse hypothesis needed) *)
Theorem C19_envelope_paths_agree :
  forall (func blob wire : Type) (ser_obj : func -> blob) (ser_bson : envelope blob -> wire)
         (callable : bool) (f_dec : func) (s : step func),
    encode_step func blob wire ser_obj ser_bson true callable f_dec s
    = encode_step func blob wire ser_obj ser_bson false callable f_dec s.
Proof. exact encode_step_paths_agree. Qed.
Print Assumptions C19_envelope_paths_agree.

(* serialize_obj tries by value, then -- whatever the first attempt raised -- by reference,
   and only then gives up: for every callable and whatever dill does, transport ends in an
   error ONLY IF BOTH attempts fail (and the error is SerializationError); if either
   succeeds, the task decodes to the given arguments and a callable that behaves like the
   original.  Trusted of dill (hypotheses): what either attempt writes, loads reads back as a
   callable observationally equal to the original. *)
Theorem C19_envelope_by_value_or_reference :
  forall (func blob wire res : Type)
         (dumps_val dumps_ref : func -> option blob) (loads : blob -> option func)
         (ser_bson : envelope blob -> wire) (deser_bson : wire -> option (envelope blob))
         (call : func -> list atom -> kwargs -> res),
    (forall f b, dumps_val f = Some b -> exists f', loads b = Some f' /\ obs_eq func res call f f') ->
    (forall f b, dumps_ref f = Some b -> exists f', loads b = Some f' /\ obs_eq func res call f f') ->
    (forall e, deser_bson (ser_bson e) = Some e) ->
    forall f args kw,
      match transport_s func blob wire dumps_val dumps_ref loads ser_bson deser_bson true f args kw with
      | inl e => e = SerError /\ dumps_val f = None /\ dumps_ref f = None
      | inr (f', a', k') => a' = args /\ k' = Some (kw_or_empty kw) /\ obs_eq func res call f f'
      end.
Proof. exact transport_s_spec. Qed.
Print Assumptions C19_envelope_by_value_or_reference.

Theorem C19_envelope_encodes_whenever_possible :
  forall (func blob wire res : Type)
         (dumps_val dumps_ref : func -> option blob) (loads : blob -> option func)
         (ser_bson : envelope blob -> wire) (deser_bson : wire -> option (envelope blob))
         (call : func -> list atom -> kwargs -> res),
    (forall f b, dumps_val f = Some b -> exists f', loads b = Some f' /\ obs_eq func res call f f') ->
    (forall f b, dumps_ref f = Some b -> exists f', loads b = Some f' /\ obs_eq func res call f f') ->
    (forall e, deser_bson (ser_bson e) = Some e) ->
    forall f args kw,
      (dumps_val f <> None \/ dumps_ref f <> None) ->
      exists f', transport_s func blob wire dumps_val dumps_ref loads ser_bson deser_bson true f args kw
                 = inr (f', args, Some (kw_or_empty kw)) /\ obs_eq func res call f f'.
Proof. exact transport_s_succeeds. Qed.
Print Assumptions C19_envelope_encodes_whenever_possible.

(* serialize_obj itself: an error iff both attempts fail *)
Theorem C19_serialize_error_iff :
  forall (func blob : Type) (dumps_val dumps_ref : func -> option blob) (f : func),
    (exists e, serialize_obj func blob dumps_val dumps_ref f = inl e)
    <-> dumps_val f = None /\ dumps_ref f = None.
Proof. exact serialize_error_iff. Qed.
Print Assumptions C19_serialize_error_iff.

(* one transport string decoded several times: whatever the caller (or the called function)
   did in place to the results of earlier decodes -- append to the argument list or to a list
   nested in it, set / delete a keyword, change a dict nested in the keywords, change the state
   of the decoded callable -- EVERY decode returns the encoded original: decoding is a function
   of the string alone and results of separate decodes share nothing.  In the model the results
   handed out are kept in an explicit store that the mutations act on; since the decoder of the
   code never reads that store the statement is immediate -- the correspondence (clause
   decode_independent_of_earlier_results on the real get_func_attr) carries the weight. *)
Theorem C19_decode_independent_of_earlier_results :
  forall (x : dres) (ops : list rop) (store : list dres),
    Forall (eq x) (snd (run_fresh x ops store))
    /\ List.length (snd (run_fresh x ops store))
       = List.length (filter (fun o => match o with RDecode => true | _ => false end) ops)
    /\ forall store', snd (run_fresh x ops store) = snd (run_fresh x ops store').
Proof.
  exact (fun x ops store => conj (run_fresh_returns x ops store)
                                 (conj (run_fresh_count x ops store) (run_fresh_store_irrelevant x ops store))).
Qed.
Print Assumptions C19_decode_independent_of_earlier_results.

(* the statement is not empty: a decoder that keeps the decoded object per string and hands
   out a shallow copy of the arguments and the kept keyword dict violates it (decode, delete
   kwargs['comm'] as the raptor worker does after the call, decode again) *)
Theorem C19_caching_decoder_refuted :
  exists (x : dres) (ops : list rop), ~ Forall (eq x) (run_cached x ops).
Proof. exact run_cached_refuted. Qed.
Print Assumptions C19_caching_decoder_refuted.

(* something that is not callable is refused *)
Theorem C19_envelope_not_callable :
  forall (func blob wire : Type) so dobj sb db fn args kw,
    transport func blob wire so dobj sb db false fn args kw = inl ValueError.
Proof. exact transport_not_callable. Qed.
Print Assumptions C19_envelope_not_callable.

(* ---------------------------------------------------------------- non-vacuity *)

(* a description using deprecated and current names together, with values that need
   casting: accepted, mapped, and stable under a second verify *)
Example C19_nonvacuous :
  let x := [("executable"%string, VA (AStr "/bin/true")); ("cpu_processes"%string, VA (AStr "4"));
            ("ranks"%string, VA (AInt 2)); ("gpu_processes"%string, VA (AInt 1));
            ("worker_class"%string, VA (AStr "W")); ("cleanup"%string, VA (AStr "yes"))] in
  match verify td_table (construct td_table x) with
  | inr v => getv "ranks"%string v = VA (AInt 4) /\ getv "gpus_per_rank"%string v = VA (AFlt 2)
             /\ getv "raptor_class"%string v = VA (AStr "W") /\ getv "worker_class"%string v = VA (AStr "")
             /\ getv "cpu_processes"%string v = VA (AInt 0) /\ getv "use_mpi"%string v = VA (ABool true)
             /\ getv "cleanup"%string v = VA (ABool true)
             /\ verify td_table v = inr v /\ construct td_table (as_dict v) = v
  | inl _ => False
  end
  /\ ok_twin td_table
       (verify td_table (construct td_table [("executable"%string, VA (AStr "x")); ("cpu_processes"%string, VA (AInt 4))]))
       (verify td_table (construct td_table [("executable"%string, VA (AStr "x")); ("ranks"%string, VA (AInt 4))])) = true
  /\ getv "use_mpi"%string
       (match verify td_table (construct td_table [("executable"%string, VA (AStr "x")); ("cpu_processes"%string, VA (AInt 4))])
        with inr v => v | inl _ => [] end) = VA (ABool true)
  /\ verify td_table (construct td_table [("mode"%string, VA (AStr "task.function"))]) = inl ValueError
  /\ (exists o, slots_to_old [mkSlot true (Some 1) (RROs [(3, Some 4)]) (RROs []) 0 0 1 "n1"] = inr o
                /\ placement o = [(1, "n1"%string, [3], [])] /\ slots_to_new o = inl ValueError).
Proof. vm_compute. repeat split; try reflexivity. eexists; repeat split; reflexivity. Qed.
