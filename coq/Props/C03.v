(* C03 -- released resources come back exactly once and completely.
   Module SchedSide: the scheduler's bookkeeping (node map, holder count).
   Module ExecSide : the executor asks for the release exactly once per task,
   over every schedule of its four threads (RP.Exec.Model).  Statements only. *)
From Coq Require Import ZArith List Bool.
From RP Require Sched.Model Sched.NodeMap Sched.Inv Sched.SchedProofs Sched.RunProofs.
From RP Require Exec.Model Exec.Oracle Exec.Proofs Exec.ReleaseProofs.
From Coq Require String.
From RP Require AppSlots.Model AppSlots.Oracle AppSlots.NodeProofs AppSlots.InvProofs AppSlots.Proofs.
Import ListNotations.

Module SchedSide.
Import RP.Sched.Model RP.Sched.NodeMap RP.Sched.Inv RP.Sched.SchedProofs RP.Sched.RunProofs.
Open Scope Z_scope.

(* giving back restores precisely what was taken: after the release of a held
   placement the node map is again the initial map with exactly the remaining
   held placements marked (cores, GPUs, lfs and mem), whatever else is held *)
Theorem C03_release_restores :
  forall (ns0 ns : list node) (h : held) (u : Z) (sl : list slot),
    Inv ns0 ns h -> first_with u h = Some sl ->
    Inv ns0 (change_slot_states false sl ns) (drop_first u h).
Proof. exact inv_release. Qed.
Print Assumptions C03_release_restores.

(* once no task holds resources the free capacity equals the initial capacity
   and the holder count read by the "can never be scheduled" rule is zero --
   in every reachable state *)
Theorem C03_quiescent_capacity :
  forall (ns0 : list node) (c : cfg) (ops : list op) (w' : world),
    NoDup (map n_idx ns0) -> (forall nd, In nd ns0 -> 0 <= n_lfs nd /\ 0 <= n_mem nd) ->
    Forall op_good ops -> run_disciplined c (init_world ns0) ops ->
    run c (init_world ns0) ops = Some w' -> heldg (st w') = [] ->
    active_cnt (st w') = 0 /\
    (forall n j, core_at (nodes (st w')) n j = core_at ns0 n j) /\
    (forall n j, gpu_at (nodes (st w')) n j = gpu_at ns0 n j) /\
    (forall n, lfs_at (nodes (st w')) n = lfs_at ns0 n) /\
    (forall n, mem_at (nodes (st w')) n = mem_at ns0 n).
Proof. exact reachable_quiescent. Qed.
Print Assumptions C03_quiescent_capacity.

(* while a task holds resources nothing it holds is offered to another task *)
Theorem C03_held_not_offered :
  forall (ns0 : list node) (c : cfg) (s : sstate) (t : req) off co tg (sl : list slot),
    SInv ns0 s -> wf_req t -> schedule_task c s t = inr (off, co, tg, Some sl) ->
    forall n j, (touched_c n j sl = true -> touched_c n j (hslots (heldg s)) = false) /\
                (touched_g n j sl = true -> touched_g n j (hslots (heldg s)) = false).
Proof. exact held_not_offered. Qed.
Print Assumptions C03_held_not_offered.

(* the counter of running tasks is the number of holders, in every reachable state *)
Theorem C03_active_count_is_holders :
  forall (ns0 : list node) (c : cfg) (ops : list op) (w' : world),
    NoDup (map n_idx ns0) -> (forall nd, In nd ns0 -> 0 <= n_lfs nd /\ 0 <= n_mem nd) ->
    Forall op_good ops -> run_disciplined c (init_world ns0) ops ->
    run c (init_world ns0) ops = Some w' ->
    active_cnt (st w') = Z.of_nat (length (heldg (st w'))).
Proof. exact reachable_active_count. Qed.
Print Assumptions C03_active_count_is_holders.

(* the map in every reachable state: initial map with exactly the held slots marked (pointwise) *)
Theorem C03_map_is_initial_plus_held :
  forall (ns0 : list node) (c : cfg) (ops : list op) (w w' : world),
    WInv ns0 w -> Forall op_good ops -> run_disciplined c w ops -> run c w ops = Some w' ->
    Inv ns0 (nodes (st w')) (heldg (st w')).
Proof. intros ns0 c ops w w' H1 H2 H3 H4. exact (proj1 (proj1 (run_ok ns0 c ops w w' H1 H2 H3 H4))). Qed.
Print Assumptions C03_map_is_initial_plus_held.

(* non-vacuity: grant, release, quiescence *)
Example C03_nonvacuous :
  let ns0 := [mkNode 0 [Free; Free] [Free] 100 100] in
  let c := mkCfg 2 1 100 100 true in
  let ops := [Arrive [mkReq 1 2 1 32 10 5 0 0 None false None None]; Iterate [];
              Unsched [(1, [mkSlot 0 [0%nat] [(0%nat, 32)] 10 5; mkSlot 0 [1%nat] [(0%nat, 32)] 10 5])];
              Iterate []] in
  match run c (init_world ns0) ops with
  | Some w => heldg (st w) = [] /\ nodes (st w) = ns0 /\ active_cnt (st w) = 0
  | None => False
  end.
Proof. vm_compute. auto. Qed.

End SchedSide.

Module ExecSide.
Import RP.Exec.Model RP.Exec.Oracle RP.Exec.Proofs RP.Exec.ReleaseProofs.

(* "exactly once, whatever way it ends (success, failure, cancellation,
   timeout, launch error)", including releases racing with cancellation: for
   every scenario (any number of tasks, launch-fault points, run-time limits,
   cancel messages) and EVERY schedule of the executor's intake, process
   watcher, timeout watcher and cancel handler, a received task's resources
   are asked to be released at most once at any time and exactly once when
   the executor has come to rest *)
Theorem C03_executor_releases_exactly_once :
  forall (sc : scenario) (sched : list choice) (s : state) (tr : list stepobs) (u : Z),
    NoDup (delivered sc) -> In u (delivered sc) -> run (init sc) sched = (s, tr) ->
    (n_uns u (emissions tr) <= 1)%nat /\ (quiescent s = true -> n_uns u (emissions tr) = 1%nat).
Proof. exact released_exactly_once. Qed.
Print Assumptions C03_executor_releases_exactly_once.

End ExecSide.

Module AppSide.
Import Coq.Strings.String.
Import RP.AppSlots.Model RP.AppSlots.Oracle RP.AppSlots.NodeProofs RP.AppSlots.InvProofs RP.AppSlots.Proofs.
Open Scope string_scope.
Open Scope Z_scope.

(* Application side: `Pilot.nodelist` (resource_config.NodeList / Node), the helper with which an
   application chooses the placements it supplies in TaskDescription.slots.  Model: RP.AppSlots.Model;
   occupations in 1/64 of a core / GPU (BUSY = 64).

   wf_nodes ns0     : node ids (Node.index) pairwise distinct -- not necessarily the list positions --,
                      lfs / mem a number >= 0 or not reported (None), every core / GPU DOWN or
                      occupied between FREE and BUSY; node names arbitrary (possibly all equal);
   op_ok            : the calls are find_slots / release_slots / verify / Node.find_slot with
                      non-negative sizes and occupations (find_slots: core occupation > 0), and
                      Node.allocate_slot(slot, _check=True) with an application-made slot (non-negative indices,
                      occupations, lfs, mem; a core or GPU may be named more than once);
   all_disciplined  : release_slots is given slots the application holds (got from find_slots and
                      not yet given back), counting repetitions;
   run .. ops       : the answer and the node list after every call (any number of calls);
   judge            : the clauses the check evaluates on the real objects' trace. *)

(* After EVERY call of ANY sequence the node list is the initial one plus exactly the slots handed out
   and not yet released (per core, GPU, lfs, mem of every node; DOWN stays DOWN; ids and names
   unchanged), and a release_slots of held slots never raises: release_slots gives back exactly what
   find_slots took, on the node it took it from -- also when node names repeat, when node ids are not the list
   positions, and on nodes that do not report lfs / mem *)
Theorem C03_app_release_restores :
  forall (ns0 : list node) (verified : bool) (ops : list op),
    wf_nodes ns0 -> Forall op_ok ops ->
    all_disciplined [] ops (run (start_nl ns0 verified) ops) = true ->
    v_restores (judge ns0 ns0 [] ops (run (start_nl ns0 verified) ops)) = true.
Proof. exact app_release_restores. Qed.
Print Assumptions C03_app_release_restores.

(* once everything has been given back the node list EQUALS the initial one *)
Theorem C03_app_all_released_is_initial :
  forall (ns0 : list node) (verified : bool) (ops : list op),
    wf_nodes ns0 -> Forall op_ok ops ->
    all_disciplined [] ops (run (start_nl ns0 verified) ops) = true ->
    held_end [] ops (run (start_nl ns0 verified) ops) = [] ->
    nl_nodes (last_nl (start_nl ns0 verified) (run (start_nl ns0 verified) ops)) = ns0.
Proof. exact app_all_released_is_initial. Qed.
Print Assumptions C03_app_all_released_is_initial.

(* a find_slots that does not return slots (None after the roll-back of what it had taken, None by
   the last-failed short-cut, or an exception of _assert_rr) leaves every node as it was *)
Theorem C03_app_failed_find_leaves_unchanged :
  forall (ns0 : list node) (verified : bool) (ops : list op),
    wf_nodes ns0 -> Forall op_ok ops ->
    all_disciplined [] ops (run (start_nl ns0 verified) ops) = true ->
    v_failed (judge ns0 ns0 [] ops (run (start_nl ns0 verified) ops)) = true.
Proof. exact app_failed_find_leaves_unchanged. Qed.
Print Assumptions C03_app_failed_find_leaves_unchanged.

Theorem C03_app_failed_find_unchanged_one_call :
  forall (ns0 : list node) (nl : nlist) (h : list slot) (r : rreq) (n : Z) (nl' : nlist) (res : res),
    Reached ns0 nl h -> rr_ok r -> 0 < r_co r -> find_slots nl r n = (nl', res) ->
    (forall sl, res <> RSlots sl) -> nl_nodes nl' = nl_nodes nl.
Proof. exact failed_find_unchanged. Qed.
Print Assumptions C03_app_failed_find_unchanged_one_call.

(* node ids that are not list positions (0,2 after a dropped node; 1,0) and nodes that report neither
   lfs nor mem: find, failed find with roll-back, release -- and the list is the initial one again *)
Example C03_app_ids_and_lfs_nonvacuous :
  let nd i := mkNode i "n" [Some 0; Some 0] [] None None in
  let s i := mkSlot [(0, 64); (1, 64)] [] 0 0 i "n" in
  (let ns0 := [nd 0; nd 2] in
   let tr := run (start_nl ns0 true) [OFind (rr1 2) 2; ORelease [s 0; s 2]] in
   map fst tr = [RSlots [s 0; s 2]; ROk] /\ nl_nodes (last_nl (start_nl ns0 true) tr) = ns0) /\
  (let ns0 := [nd 1; nd 0] in
   let tr := run (start_nl ns0 true) [OFind (rr1 2) 1; OFind (rr1 2) 2; ORelease [s 1]] in
   map fst tr = [RSlots [s 1]; RNone; ROk] /\ nl_nodes (last_nl (start_nl ns0 true) tr) = ns0).
Proof. exact gapped_and_permuted_ids_and_no_lfs. Qed.

Example C03_app_nonvacuous :
  let ns0 := [mkNode 0 "localhost" [Some 0; Some 0] [] (Some 100) (Some 0);
              mkNode 1 "localhost" [Some 0; Some 0] [] (Some 100) (Some 0)] in
  let r := mkRR 2 64 0 64 10 0 false in
  let s i := mkSlot [(0, 64); (1, 64)] [] 10 0 i "localhost" in
  let tr := run (start_nl ns0 true) [OFind r 1; OFind r 1; OFind r 1; ORelease [s 0]; ORelease [s 1]] in
  map fst tr = [RSlots [s 0]; RSlots [s 1]; RNone; ROk; ROk] /\
  nl_nodes (last_nl (start_nl ns0 true) tr) = ns0.
Proof. vm_compute. auto. Qed.

End AppSide.
