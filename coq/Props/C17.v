(* C17 -- every shipped platform resolves and pilots are sized to fit.
   Statements only; every proof is `exact <lemma>` (RP.Configs.Proofs).

   `gen_tables` (RP.Gen.Configs) is regenerated from the repository on every
   run: all configs/resource_*.json, the names and keys of configs/agent_*.json,
   the schemas/defaults of resource_config.py and the `impl = {...}` tables of
   the four factories.  `resolve` models Session.get_resource_config followed
   by the agent-side factories; `launch` models get_resource_config followed
   by PMGRLaunchingComponent._prepare_pilot (RP.Configs.Model). *)
From Coq Require Import ZArith List Bool String.
From RP Require Import Configs.Model Gen.Configs Configs.Oracle Configs.Proofs.
Import ListNotations.
Open Scope string_scope.
Open Scope Z_scope.

(* ---------------------------------------------------------------- part (a) *)
(* Every shipped configuration, under each of its access schemas and under
   its default schema (None), outside and inside a batch job, resolves.  The
   domain `all_config_schemas gen_tables` is finite and completely enumerated
   (the harness checks that it is exactly what the real loader finds). *)
Theorem all_configs_resolve :
  forall site rname schema in_batch,
    In (site, rname, schema) (all_config_schemas gen_tables) ->
    resolves_ok (resolve gen_tables site rname schema in_batch) = true.
Proof. exact all_configs_resolve_l. Qed.
Print Assumptions all_configs_resolve.

(* ... where "resolves" means: get_resource_config returns (the merged
   configuration verifies against the schema), the job-manager and file-system
   endpoints are defined, the resource manager, every
   launch method of the launch order (none skipped, order non-empty), the
   agent scheduler and the executor are classes of the factory tables, and
   the agent configuration is one of the agent_*.json files. *)
Theorem resolves_meaning :
  forall r, resolves_ok r = true <->
    exists x, r = inr x /\
      (exists jm fs, r_jm x = Some jm /\ r_fs x = Some fs) /\
      (exists c, r_rm x = inr c) /\
      (exists l, r_lm x = inr l /\ l_order l <> [] /\ l_skipped l = [] /\
                 forall n, In n (l_order l) ->
                   exists c, assoc n (l_launchers l) = Some c /\ c <> "None") /\
      (exists c, r_sched x = inr c) /\ (exists c, r_exec x = inr c) /\
      (exists k ks, r_agent x = inr (k :: ks)).
Proof. exact resolves_ok_spec. Qed.
Print Assumptions resolves_meaning.

(* ---------------------------------------------------------------- part (b) *)
(* For ANY tables (any set of configurations), any platform and any request
   for which the launcher produces a job: p are the node parameters the
   launcher derives (cores/gpus per node, SMT, numbers of blocked cores/GPUs);
   avail_cores p = cores_per_node * smt - #blocked_cores,
   avail_gpus p  = gpus_per_node - #blocked_gpus. *)

(* nodes not given, node size known: the job requests the LEAST number of
   whole nodes covering the requested cores and GPUs, plus the backup nodes *)
Theorem min_nodes :
  forall (Tb : tables) site rname schema (q : request) (p : nodeparams) (s : sized),
    launch_params Tb site rname schema (q_env_smt q) = inr p ->
    launch Tb site rname schema q = inr s ->
    q_nodes q = 0 -> 0 < avail_cores p -> 0 <= avail_gpus p ->
    let n := s_node_count s - q_backup q in
    (q_cores q <= n * avail_cores p /\ (0 < avail_gpus p -> q_gpus q <= n * avail_gpus p)) /\
    forall m, (q_cores q <= m * avail_cores p /\ (0 < avail_gpus p -> q_gpus q <= m * avail_gpus p)) ->
              n <= m.
Proof. exact min_nodes_l. Qed.
Print Assumptions min_nodes.

(* nodes given: exactly those plus the backup nodes (and the node size is known) *)
Theorem given_nodes :
  forall (Tb : tables) site rname schema (q : request) (p : nodeparams) (s : sized),
    launch_params Tb site rname schema (q_env_smt q) = inr p ->
    launch Tb site rname schema q = inr s ->
    q_nodes q <> 0 ->
    s_node_count s = q_nodes q + q_backup q /\ avail_cores p <> 0.
Proof. exact given_nodes_l. Qed.
Print Assumptions given_nodes.

(* the job's totals are those of its whole nodes; where the product is 0
   (node size unknown) the requested figure is passed through *)
Theorem job_counts :
  forall (Tb : tables) site rname schema (q : request) (p : nodeparams) (s : sized),
    launch_params Tb site rname schema (q_env_smt q) = inr p ->
    launch Tb site rname schema q = inr s ->
    s_node_count s = a_nodes s + q_backup q /\
    s_total_cpu s = (if s_node_count s * avail_cores p =? 0 then q_cores q
                     else s_node_count s * avail_cores p) /\
    s_total_gpu s = (if s_node_count s * avail_gpus p =? 0 then q_gpus q
                     else s_node_count s * avail_gpus p).
Proof. exact job_counts_l. Qed.
Print Assumptions job_counts.

(* the agent configuration carries the same node, core and GPU figures as the job *)
Theorem agent_told_same :
  forall (Tb : tables) site rname schema (q : request) (p : nodeparams) (s : sized),
    launch_params Tb site rname schema (q_env_smt q) = inr p ->
    launch Tb site rname schema q = inr s ->
    a_nodes s + a_backup s = s_node_count s /\ a_backup s = q_backup q /\
    a_cores s = s_total_cpu s /\ a_gpus s = s_total_gpu s /\
    p_cpu s = s_total_cpu s /\ p_gpu s = s_total_gpu s.
Proof. exact agent_told_same_l. Qed.
Print Assumptions agent_told_same.

(* Every shipped configuration x schema and EVERY valid request (nodes | cores
   [+ GPUs], backup nodes, $RADICAL_SMT unset or >= 1, mandatory arguments
   present; no bound on the sizes) is turned into a job -- no exception -- and
   the figures satisfy the three oracle clauses the harness also evaluates on
   the implementation's output. *)
Theorem shipped_valid_requests_sized :
  forall site rname schema (q : request),
    In (site, rname, schema) (all_config_schemas gen_tables) ->
    match q_env_smt q with None => True | Some z => 1 <= z end ->
    exists ma p,
      platform site rname schema (q_env_smt q) = inr (ma, p) /\
      (valid_request ma p q = true ->
       exists s, launch gen_tables site rname schema q = inr s /\
                 ok_min_nodes p q s = true /\ ok_job_counts p s = true /\ ok_agent_same s = true).
Proof. exact shipped_valid_requests_sized_l. Qed.
Print Assumptions shipped_valid_requests_sized.

(* exact ceiling division, as used for math.ceil(requested / available) *)
Theorem ceil_division :
  forall a b, 0 < b -> a <= cdiv a b * b /\ (cdiv a b - 1) * b < a.
Proof. exact cdiv_spec. Qed.
Print Assumptions ceil_division.

(* ---------------------------------------------------------------- non-vacuity *)
(* a shipped GPU platform with SMT and blocked cores: 1000 cores + 100 GPUs on
   ornl.frontier (64 cores x SMT 2 - 16 blocked = 112 usable, 8 GPUs) -> 13 nodes *)
Example C17_nonvacuous :
  shipped ("ornl", "frontier", None) = true /\
  shipped ("local", "localhost", Some "ssh") = true /\
  option_map (fun p => (avail_cores p, avail_gpus p))
    (match launch_params gen_tables "ornl" "frontier" None None with inr p => Some p | _ => None end)
    = Some (112, 8) /\
  match launch gen_tables "ornl" "frontier" None
          {| q_nodes := 0; q_cores := 1000; q_gpus := 100; q_backup := 0;
             q_present := ["project"]; q_env_smt := None |} with
  | inr s => (s_node_count s, s_total_cpu s, s_total_gpu s, a_nodes s, a_cores s, a_gpus s)
  | inl _ => (0, 0, 0, 0, 0, 0)
  end = (13, 1456, 104, 13, 1456, 104).
Proof. vm_compute. repeat split; reflexivity. Qed.

(* ---------------------------------------------------------------- submission bulks *)
(* _start_pilot_bulk fetches the resource config once and prepares every pilot
   of the bulk from that one object.  In the model a bulk is sized pilot by
   pilot: the figures of a pilot are those it would get on its own, whatever
   was prepared before it (for ANY tables and requests). *)
Theorem bulk_sized_pilot_by_pilot :
  forall (Tb : tables) site rname schema (qs : list request) (ss : list sized),
    launch_bulk Tb site rname schema qs = inr ss ->
    Forall2 (fun q s => launch Tb site rname schema q = inr s) qs ss.
Proof. exact bulk_pilot_by_pilot_l. Qed.
Print Assumptions bulk_sized_pilot_by_pilot.

(* every bulk of valid requests on a shipped configuration is launched, and EVERY
   pilot of it meets the sizing clauses (the harness evaluates the same clauses on
   every pilot of a bulk prepared by the real _start_pilot_bulk) *)
Theorem shipped_bulks_sized :
  forall site rname schema (qs : list request),
    In (site, rname, schema) (all_config_schemas gen_tables) ->
    (forall q, In q qs -> match q_env_smt q with None => True | Some z => 1 <= z end) ->
    (forall q ma p, In q qs -> platform site rname schema (q_env_smt q) = inr (ma, p) ->
                    valid_request ma p q = true) ->
    exists ss, launch_bulk gen_tables site rname schema qs = inr ss /\
      Forall2 (fun q s => exists ma p,
                 platform site rname schema (q_env_smt q) = inr (ma, p) /\
                 ok_min_nodes p q s = true /\ ok_job_counts p s = true /\ ok_agent_same s = true) qs ss.
Proof. exact shipped_bulks_sized_l. Qed.
Print Assumptions shipped_bulks_sized.

(* non-vacuity for bulks: three pilots of 448 cores on ornl.frontier (SMT 2) get
   4 nodes each -- the second and third are sized like the first *)
Example C17_bulk_nonvacuous :
  let q := {| q_nodes := 0; q_cores := 448; q_gpus := 0; q_backup := 0;
              q_present := ["project"]; q_env_smt := None |} in
  match launch_bulk gen_tables "ornl" "frontier" (Some "local") [q; q; q] with
  | inr ss => map (fun s => (s_node_count s, s_total_cpu s, a_cpn s)) ss
  | inl _ => []
  end = [(4, 448, 128); (4, 448, 128); (4, 448, 128)].
Proof. vm_compute. reflexivity. Qed.

(* ---------------------------------------------------------------- what the agent reads *)
(* _prepare_pilot writes pilot i's agent configuration to a local file `name i`;
   _start_pilot_bulk stages the files to the sandboxes only after ALL pilots of
   the bulk are prepared (`received` reads the file store after the whole loop).
   For ANY naming under which no two pilots of the bulk share a file, for a bulk
   of ANY length: the sandbox of pilot i receives the configuration prepared for
   pilot i, whatever the other pilots of the bulk are. *)
Theorem staged_cfg_is_own :
  forall (name : nat -> nat) (ss : list sized),
    (forall i j, (i < List.length ss)%nat -> (j < List.length ss)%nat -> name i = name j -> i = j) ->
    forall i s, nth_error ss i = Some s -> received name ss i = Some (told_of i s).
Proof. exact staged_cfg_is_own_l. Qed.
Print Assumptions staged_cfg_is_own.

(* the hypothesis is needed: with ONE file name for every pilot (e.g. a name made
   of session and agent uid) the first pilot of a bulk of two receives the
   configuration of the second *)
Example shared_file_name_refuted :
  exists ss, received (fun _ => 0%nat) ss 0 = option_map (told_of 1) (nth_error ss 1)
             /\ received (fun _ => 0%nat) ss 0 <> option_map (told_of 0) (nth_error ss 0).
Proof.
  exists [mk_sized {| n_cpn := 8; n_gpn := 1; n_smt := 1; n_bc := 0; n_bg := 0 |} 4 0 0 0;
          mk_sized {| n_cpn := 8; n_gpn := 1; n_smt := 1; n_bc := 0; n_bg := 0 |} 2 10 1 0].
  split; [vm_compute; reflexivity|vm_compute; discriminate].
Qed.

(* the model of _start_pilot_bulk (tempfile.mkstemp: a fresh file per pilot), any
   tables, any bulk: what pilot i's job requests is what `launch` gives that
   request ALONE, and what arrives in its sandbox is the agent configuration
   built from exactly those figures, for pilot i and its sandbox *)
Theorem bulk_agent_receives_own :
  forall (Tb : tables) site rname schema (qs : list request) rs (i : nat) (s : sized) (t : option told),
    launch_bulk_staged Tb site rname schema qs = inr rs ->
    nth_error rs i = Some (s, t) ->
    exists q, nth_error qs i = Some q /\ launch Tb site rname schema q = inr s /\
              t = Some (told_of i s).
Proof. exact bulk_agent_receives_own_l. Qed.
Print Assumptions bulk_agent_receives_own.

(* ... so the two oracle clauses the harness evaluates on the agent_0.cfg found in
   every sandbox (staged_cfg_is_own, agent_told_what_job_requests) hold of the model *)
Theorem agent_told_what_job_requests :
  forall (Tb : tables) site rname schema (qs : list request) rs (i : nat) (s : sized) (t : option told),
    launch_bulk_staged Tb site rname schema qs = inr rs ->
    nth_error rs i = Some (s, t) ->
    ok_staged_own i t = true /\ ok_told_job s t = true.
Proof. exact bulk_agent_told_job_l. Qed.
Print Assumptions agent_told_what_job_requests.
