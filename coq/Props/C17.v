(* C17 -- every shipped platform resolves and pilots are sized to fit. *)
From Coq Require Import ZArith List Bool String.
From RP Require Import Configs.Model Gen.Configs Configs.Oracle Configs.Proofs.
Import ListNotations.
Open Scope string_scope.
Open Scope Z_scope.

Theorem all_configs_resolve :
  forall site rname schema in_batch,
    In (site, rname, schema) (all_config_schemas gen_tables) ->
    resolves_ok (resolve gen_tables site rname schema in_batch) = true.
Proof. exact all_configs_resolve_l. Qed.
Print Assumptions all_configs_resolve.
