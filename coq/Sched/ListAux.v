(* List lemmas used by the scheduler proofs. *)
From Coq Require Import ZArith List Bool Lia Arith.
Import ListNotations.

(* strictly increasing list of naturals, all >= lo *)
Fixpoint incr_from (lo : nat) (r : list nat) : Prop :=
  match r with [] => True | x :: r' => lo <= x /\ incr_from (S x) r' end.

Lemma incr_from_weaken r : forall lo lo', lo' <= lo -> incr_from lo r -> incr_from lo' r.
Proof. destruct r as [|x r]; simpl; intros lo lo' H Hi; [exact I|]. destruct Hi; split; [lia|assumption]. Qed.

Lemma incr_from_ge r : forall lo x, incr_from lo r -> In x r -> lo <= x.
Proof.
  induction r as [|y r IH]; simpl; intros lo x Hi Hin; [contradiction|].
  destruct Hi as [H1 H2]. destruct Hin as [->|Hin]; [exact H1|].
  specialize (IH _ _ H2 Hin). lia.
Qed.

Lemma incr_from_NoDup r : forall lo, incr_from lo r -> NoDup r.
Proof.
  induction r as [|y r IH]; simpl; intros lo Hi; [constructor|].
  destruct Hi as [H1 H2]. constructor; [|eapply IH; exact H2].
  intro Hin. pose proof (incr_from_ge _ _ _ H2 Hin). lia.
Qed.

(* a upper bound for all elements *)
Definition all_lt (hi : nat) (r : list nat) : Prop := forall x, In x r -> x < hi.

Lemma incr_from_app a : forall lo mid b,
  incr_from lo a -> all_lt mid a -> incr_from mid b -> incr_from lo (a ++ b).
Proof.
  induction a as [|x a IH]; simpl; intros lo mid b Ha Hlt Hb.
  - destruct b as [|y b]; simpl in *; [exact I|]. destruct Hb; split; [|assumption].
    (* lo <= y needs lo <= mid: not available in general *)
Abort.

Lemma incr_from_app a : forall lo mid b,
  lo <= mid -> incr_from lo a -> all_lt mid a -> incr_from mid b -> incr_from lo (a ++ b).
Proof.
  induction a as [|x a IH]; simpl; intros lo mid b Hle Ha Hlt Hb.
  - eapply incr_from_weaken; eassumption.
  - destruct Ha as [H1 H2]. split; [exact H1|].
    apply (IH (S x) mid b); auto.
    + assert (x < mid) by (apply Hlt; left; reflexivity). lia.
    + intros y Hy. apply Hlt. right; exact Hy.
Qed.

(* set_nth *)
Fixpoint set_nth' {A} (i : nat) (v : A) (l : list A) : list A :=
  match l, i with
  | [], _ => []
  | _ :: r, O => v :: r
  | x :: r, S k => x :: set_nth' k v r
  end.

Lemma nth_error_skipn {A} (l : list A) : forall k i, nth_error (skipn k l) i = nth_error l (k + i).
Proof.
  induction l as [|x l IH]; intros k i.
  - rewrite skipn_nil. destruct i, k; reflexivity.
  - destruct k; simpl; [reflexivity|apply IH].
Qed.
