(* C04: no task is lost and no task is duplicated by the scheduling loop.
   For every uid u and every reachable world:
     (#terminal events for u) + (#entries for u in the wait pools) + (#entries for u in the queue)
       <= #arrivals of u                                             (nothing is duplicated)
   and if u arrived at all, it is in at least one of the three places (nothing is lost). *)
From Coq Require Import ZArith List Bool Lia Arith Permutation.
From RP Require Import Sched.Model Sched.NodeMap Sched.Inv Sched.SchedProofs Sched.RunProofs
                       Sched.LiveProofs Sched.CancelProofs.
Import ListNotations.
Local Open Scope Z_scope.

Definition cz (u : Z) (l : list Z) : Z := Z.of_nat (length (filter (Z.eqb u) l)).

Lemma cz_app u a b : cz u (a ++ b) = cz u a + cz u b.
Proof. unfold cz. rewrite filter_app, app_length. lia. Qed.
Lemma cz_nonneg u l : 0 <= cz u l.
Proof. unfold cz. lia. Qed.
Lemma cz_nil u : cz u [] = 0.
Proof. reflexivity. Qed.
Lemma cz_cons u x l : cz u (x :: l) = (if u =? x then 1 else 0) + cz u l.
Proof. unfold cz. cbn [filter]. destruct (u =? x); cbn [length]; lia. Qed.
Lemma cz_pos_in u l : 0 < cz u l <-> In u l.
Proof.
  induction l as [|x l IH]; [unfold cz; simpl; split; [lia|tauto]|].
  rewrite cz_cons. pose proof (cz_nonneg u l). simpl.
  destruct (u =? x) eqn:E.
  - apply Z.eqb_eq in E. subst. split; [auto|lia].
  - apply Z.eqb_neq in E. rewrite Z.add_0_l, IH. split; [auto|intros [K|K]; [congruence|exact K]].
Qed.

Definition ev_uid (e : event) : Z :=
  match e with Started u _ => u | Failed u _ => u | Canceled u => u end.
Definition E (evs : list event) : list Z := map ev_uid evs.
Definition P (wp : list (Z * list req)) : list Z := uids (pool_reqs wp).
Definition Q (q : list qitem) : list Z :=
  concat (map (fun it => match it with QSched l => uids l | QCancel _ => [] end) q).

Lemma E_app a b : E (a ++ b) = E a ++ E b.
Proof. unfold E. apply map_app. Qed.
Lemma uids_app a b : uids (a ++ b) = uids a ++ uids b.
Proof. unfold uids. apply map_app. Qed.

Lemma P_cons p l r : P ((p, l) :: r) = uids l ++ P r.
Proof. unfold P, pool_reqs. simpl. apply uids_app. Qed.

(* ---------------- pools: lookup / store ---------------- *)
Lemma cz_filter_le u (f : req -> bool) l : cz u (uids (filter f l)) <= cz u (uids l).
Proof.
  induction l as [|x l IH]; simpl; [lia|].
  destruct (f x); simpl; unfold uids in *; simpl; rewrite ?cz_cons; destruct (u =? r_uid x); lia.
Qed.

Lemma P_lookup_store u p l wp :
  cz u (P (zstore p l wp)) =
  cz u (P wp) - cz u (uids (match zlookup p wp with Some x => x | None => [] end)) + cz u (uids l).
Proof.
  induction wp as [|[k v] r IH]; simpl.
  - rewrite P_cons. unfold P, pool_reqs. simpl. rewrite cz_app, cz_nil. lia.
  - destruct (k =? p); rewrite !P_cons, !cz_app; [lia|]. rewrite IH. lia.
Qed.

Lemma P_lookup_le u p wp l : zlookup p wp = Some l -> cz u (uids l) <= cz u (P wp).
Proof.
  induction wp as [|[k v] r IH]; simpl; [discriminate|].
  rewrite P_cons, cz_app. pose proof (cz_nonneg u (P r)). pose proof (cz_nonneg u (uids v)).
  destruct (k =? p); [intro Hx; injection Hx as ->; lia|]. intro Hx. specialize (IH Hx). lia.
Qed.

(* ---------------- cancel: pool_remove / cancel_uids ---------------- *)
Lemma find_req_cz u l t : find_req u l = Some t -> 1 <= cz u (uids l) /\ r_uid t = u.
Proof.
  induction l as [|x l IH]; simpl; [discriminate|].
  unfold uids in *. simpl. rewrite cz_cons. pose proof (cz_nonneg u (map r_uid l)).
  destruct (r_uid x =? u) eqn:Ex.
  - intro Hq. injection Hq as <-. apply Z.eqb_eq in Ex. subst u. rewrite Z.eqb_refl. split; [lia|reflexivity].
  - intro Hq. destruct (IH Hq) as [I1 I2]. split; [|assumption]. destruct (u =? r_uid x); lia.
Qed.

Lemma cz_filter_neq u v l : u <> v -> cz u (uids (filter (fun x => negb (r_uid x =? v)) l)) = cz u (uids l).
Proof.
  intro H. induction l as [|x l IH]; simpl; [reflexivity|].
  destruct (r_uid x =? v) eqn:Ex; simpl; unfold uids in *; simpl; rewrite ?cz_cons, IH; [|reflexivity].
  apply Z.eqb_eq in Ex. destruct (u =? r_uid x) eqn:E2; [apply Z.eqb_eq in E2; congruence|lia].
Qed.
Lemma cz_filter_eq u l : cz u (uids (filter (fun x => negb (r_uid x =? u)) l)) = 0.
Proof.
  induction l as [|x l IH]; simpl; [reflexivity|].
  destruct (r_uid x =? u) eqn:Ex; simpl; [exact IH|]. unfold uids in *. simpl. rewrite cz_cons, IH.
  rewrite Z.eqb_sym, Ex. reflexivity.
Qed.

(* a removed task accounts for one event; others are untouched *)
Lemma pool_remove_cz u : forall wp o wp' v,
  pool_remove u wp = (o, wp') ->
  cz v (P wp') + (if (v =? u) && (match o with Some _ => true | None => false end) then 1 else 0) <= cz v (P wp) /\
  (v <> u -> cz v (P wp') = cz v (P wp)) /\
  (o = None -> cz v (P wp') = cz v (P wp)).
Proof.
  induction wp as [|[p l] r IH]; intros o wp' v Er; simpl in Er.
  - injection Er as <- <-. rewrite andb_false_r. repeat split; auto. lia.
  - destruct (find_req u l) as [t|] eqn:Ef.
    + injection Er as <- <-. rewrite !P_cons, !cz_app. destruct (find_req_cz _ _ _ Ef) as [H1 _].
      destruct (Z.eq_dec v u) as [->|Hne].
      * rewrite Z.eqb_refl, cz_filter_eq. simpl. repeat split; try lia; try congruence.
      * rewrite (cz_filter_neq _ _ _ Hne). replace (v =? u) with false by (symmetry; apply Z.eqb_neq; exact Hne).
        simpl. repeat split; try lia; try congruence.
    + destruct (pool_remove u r) as [o' r'] eqn:E2. injection Er as <- <-.
      destruct (IH _ _ v eq_refl) as (A & B & C). rewrite !P_cons, !cz_app.
      split; [lia|]. split; [intro Hne; rewrite (B Hne); reflexivity|intro Ho; rewrite (C Ho); reflexivity].
Qed.

Lemma cancel_uids_le : forall us wp evs wp' evs' v,
  cancel_uids us wp evs = (wp', evs') ->
  cz v (E evs') + cz v (P wp') <= cz v (E evs) + cz v (P wp).
Proof.
  induction us as [|u r IH]; intros wp evs wp' evs' v Ec; simpl in Ec.
  - injection Ec as <- <-. lia.
  - destruct (pool_remove u wp) as [[t|] wp1] eqn:Er.
    + specialize (IH _ _ _ _ v Ec). destruct (pool_remove_cz _ _ _ _ v Er) as (A & _ & _).
      rewrite E_app, cz_app in IH. change (E [Canceled u]) with [u] in IH. rewrite cz_cons, cz_nil in IH.
      destruct (v =? u); cbn [andb] in A; lia.
    + specialize (IH _ _ _ _ v Ec). destruct (pool_remove_cz _ _ _ _ v Er) as (_ & _ & C).
      pose proof (C eq_refl) as Hc. lia.
Qed.

(* nothing waiting is lost by a cancel request: it stays, or it is CANCELED *)
Lemma cancel_uids_pres : forall us wp evs wp' evs' v,
  cancel_uids us wp evs = (wp', evs') ->
  In v (E evs) \/ In v (P wp) -> In v (E evs') \/ In v (P wp').
Proof.
  induction us as [|u r IH]; intros wp evs wp' evs' v Ec H; simpl in Ec.
  - injection Ec as <- <-. exact H.
  - destruct (pool_remove u wp) as [[t|] wp1] eqn:Er.
    + apply (IH _ _ _ _ v Ec). destruct H as [H|H].
      * left. rewrite E_app. apply in_app_iff. left. exact H.
      * destruct (Z.eq_dec v u) as [->|Hne].
        -- left. rewrite E_app. apply in_app_iff. right. left. reflexivity.
        -- right. apply cz_pos_in. apply cz_pos_in in H.
           destruct (pool_remove_cz _ _ _ _ v Er) as (_ & B & _). pose proof (B Hne). lia.
    + apply (IH _ _ _ _ v Ec). destruct H as [H|H]; [left; exact H|right].
      apply cz_pos_in. apply cz_pos_in in H.
      destruct (pool_remove_cz _ _ _ _ v Er) as (_ & _ & C). pose proof (C eq_refl). lia.
Qed.

(* ---------------- drain ---------------- *)
Notation B := P (only parsing).

Lemma B_bucket_add u p t bk : cz u (P (bucket_add p t bk)) = cz u (P bk) + cz u [r_uid t].
Proof.
  induction bk as [|[k l] r IH]; cbn [bucket_add].
  - rewrite P_cons, cz_app. unfold P, pool_reqs, uids. simpl. rewrite cz_nil. lia.
  - destruct (k =? p).
    + rewrite !P_cons, !cz_app, uids_app, cz_app. unfold uids at 2. simpl. lia.
    + rewrite !P_cons, !cz_app, IH. lia.
Qed.

Lemma drain_fold_cz u : forall ts bk evs bk' evs',
  fold_left (fun '(b, e) t =>
               if r_ranks t <=? 0 then (b, e ++ [Failed (r_uid t) EValue])
               else (bucket_add (r_prio t) t b, e)) ts (bk, evs) = (bk', evs') ->
  cz u (E evs') + cz u (B bk') = cz u (E evs) + cz u (B bk) + cz u (uids ts).
Proof.
  induction ts as [|t r IH]; intros bk evs bk' evs' H; simpl in H.
  - injection H as <- <-. unfold uids. simpl. rewrite cz_nil. lia.
  - unfold uids. simpl. rewrite cz_cons. fold (uids r).
    destruct (r_ranks t <=? 0).
    + rewrite (IH _ _ _ _ H), E_app, cz_app. change (E [Failed (r_uid t) EValue]) with [r_uid t].
      rewrite cz_cons, cz_nil. lia.
    + rewrite (IH _ _ _ _ H), B_bucket_add, cz_cons, cz_nil. lia.
Qed.

Lemma drain_le u : forall q wp bk evs wp' bk' evs',
  drain q wp bk evs = (wp', bk', evs') ->
  cz u (E evs') + cz u (P wp') + cz u (B bk') <= cz u (E evs) + cz u (P wp) + cz u (B bk) + cz u (Q q).
Proof.
  induction q as [|it r IH]; intros wp bk evs wp' bk' evs' H; cbn [drain] in H.
  - injection H as <- <- <-. unfold Q. simpl. rewrite cz_nil. lia.
  - destruct it as [ts|us].
    + match type of H with context [fold_left ?f ts (bk, evs)] =>
        destruct (fold_left f ts (bk, evs)) as [bk1 evs1] eqn:Ef end.
      pose proof (drain_fold_cz u _ _ _ _ _ Ef). specialize (IH _ _ _ _ _ _ H).
      unfold Q in *. simpl. rewrite cz_app. lia.
    + destruct (cancel_uids us wp evs) as [wp1 evs1] eqn:Ec.
      pose proof (cancel_uids_le _ _ _ _ _ u Ec). specialize (IH _ _ _ _ _ _ H).
      unfold Q in *. simpl. lia.
Qed.

Lemma drain_pres u : forall q wp bk evs wp' bk' evs',
  drain q wp bk evs = (wp', bk', evs') ->
  In u (E evs) \/ In u (P wp) \/ In u (B bk) \/ In u (Q q) ->
  In u (E evs') \/ In u (P wp') \/ In u (B bk').
Proof.
  induction q as [|it r IH]; intros wp bk evs wp' bk' evs' H Hin; cbn [drain] in H.
  - injection H as <- <- <-. unfold Q in Hin. simpl in Hin. tauto.
  - destruct it as [ts|us].
    + match type of H with context [fold_left ?f ts (bk, evs)] =>
        destruct (fold_left f ts (bk, evs)) as [bk1 evs1] eqn:Ef end.
      pose proof (drain_fold_cz u _ _ _ _ _ Ef) as Hc.
      apply (IH _ _ _ _ _ _ H).
      unfold Q in Hin. simpl in Hin. rewrite in_app_iff in Hin.
      rewrite <- !cz_pos_in in *. pose proof (cz_nonneg u (E evs1)). pose proof (cz_nonneg u (B bk1)).
      pose proof (cz_nonneg u (E evs)). pose proof (cz_nonneg u (B bk)). pose proof (cz_nonneg u (uids ts)).
      fold (Q r). destruct Hin as [K|[K|[K|[K|K]]]]; try (right; left; exact K); try (right; right; right; exact K);
        assert (0 < cz u (E evs1) + cz u (B bk1)) by lia;
        destruct (Z_lt_le_dec 0 (cz u (E evs1))); [left; assumption|right; right; left; lia| left; assumption|right; right; left; lia|left; assumption|right; right; left; lia].
    + destruct (cancel_uids us wp evs) as [wp1 evs1] eqn:Ec.
      apply (IH _ _ _ _ _ _ H). unfold Q in Hin. simpl in Hin. fold (Q r) in Hin.
      destruct Hin as [K|[K|[K|K]]]; try tauto.
      * destruct (cancel_uids_pres _ _ _ _ _ u Ec (or_introl K)); tauto.
      * destruct (cancel_uids_pres _ _ _ _ _ u Ec (or_intror K)); tauto.
Qed.

(* ---------------- place_tasks: every task is started, failed or made to wait ---------------- *)
Lemma place_tasks_cz u c : forall ts s to_wait evs s' tw' evs',
  place_tasks c s ts to_wait evs = (s', tw', evs') ->
  cz u (E evs') + cz u (uids tw') = cz u (E evs) + cz u (uids to_wait) + cz u (uids ts).
Proof.
  induction ts as [|t r IH]; intros s to_wait evs s' tw' evs' H; cbn [place_tasks] in H.
  - injection H as _ <- <-. unfold uids at 3. simpl. rewrite cz_nil. lia.
  - assert (Hc : cz u (uids (t :: r)) = cz u [r_uid t] + cz u (uids r)).
    { unfold uids. simpl. rewrite !cz_cons, cz_nil. lia. }
    rewrite Hc.
    assert (Hev : forall e, ev_uid e = r_uid t -> cz u (E (evs ++ [e])) = cz u (E evs) + cz u [r_uid t]).
    { intros e He. rewrite E_app, cz_app. unfold E at 2. simpl. rewrite He. reflexivity. }
    assert (Hw : cz u (uids (to_wait ++ [t])) = cz u (uids to_wait) + cz u [r_uid t]).
    { rewrite uids_app, cz_app. reflexivity. }
    destruct (negb (env_ok s t)).
    + rewrite (IH _ _ _ _ _ _ H), Hw. lia.
    + destruct (r_slots t) as [[|sl0 sls]|].
      * destruct (try_allocation c s t) as [s1 res]. destruct res.
        -- rewrite (IH _ _ _ _ _ _ H), Hev by reflexivity. lia.
        -- rewrite (IH _ _ _ _ _ _ H), Hw. lia.
        -- rewrite (IH _ _ _ _ _ _ H), Hev by reflexivity. lia.
      * destruct (negb (forallb (slot_known (nodes s)) (sl0 :: sls)));
          rewrite (IH _ _ _ _ _ _ H), Hev by reflexivity; lia.
      * destruct (try_allocation c s t) as [s1 res]. destruct res.
        -- rewrite (IH _ _ _ _ _ _ H), Hev by reflexivity. lia.
        -- rewrite (IH _ _ _ _ _ _ H), Hw. lia.
        -- rewrite (IH _ _ _ _ _ _ H), Hev by reflexivity. lia.
Qed.

(* ---------------- pool_insert ---------------- *)
Lemma pool_insert_cz u p : forall ts wp cl evs wp' cl' evs',
  pool_insert p ts wp cl evs = (wp', cl', evs') ->
  cz u (E evs') + cz u (P wp') <= cz u (E evs) + cz u (P wp) + cz u (uids ts) /\
  (In u (E evs) \/ In u (P wp) \/ In u (uids ts) -> In u (E evs') \/ In u (P wp')).
Proof.
  induction ts as [|t r IH]; intros wp cl evs wp' cl' evs' H; cbn [pool_insert] in H.
  - injection H as <- _ <-. unfold uids at 2. simpl. rewrite cz_nil. split; [lia|]. intros [K|[K|[]]]; auto.
  - set (cur := match zlookup p wp with Some l => l | None => [] end) in *.
    set (cur' := filter (fun x => negb (r_uid x =? r_uid t)) cur) in *.
    assert (Hc : cz u (uids (t :: r)) = cz u [r_uid t] + cz u (uids r)).
    { unfold uids. simpl. rewrite !cz_cons, cz_nil. lia. }
    assert (Hle : cz u (uids cur') <= cz u (uids cur)) by apply cz_filter_le.
    assert (Hne : u <> r_uid t -> cz u (uids cur') = cz u (uids cur)) by (intro K; apply cz_filter_neq; exact K).
    assert (Hcur : cz u (uids cur) <= cz u (P wp)).
    { unfold cur. destruct (zlookup p wp) eqn:El; [eapply P_lookup_le; eauto|unfold uids; simpl; apply cz_nonneg]. }
    pose proof (cz_nonneg u (uids cur')).
    destruct (zmem (r_uid t) cl).
    + destruct (IH _ _ _ _ _ _ H) as [A Bp].
      rewrite P_lookup_store in A. fold cur in A. rewrite E_app, cz_app in A.
      change (E [Canceled (r_uid t)]) with [r_uid t] in A. rewrite Hc. split; [lia|].
      intro K. apply Bp. rewrite E_app, in_app_iff. change (E [Canceled (r_uid t)]) with [r_uid t].
      destruct (Z.eq_dec u (r_uid t)) as [->|Hn]; [left; right; left; reflexivity|].
      destruct K as [K|[K|K]]; [left; left; exact K| |].
      * right. left. apply cz_pos_in. rewrite P_lookup_store. fold cur. apply cz_pos_in in K. specialize (Hne Hn). lia.
      * right. right. unfold uids in K. simpl in K. destruct K as [K|K]; [congruence|exact K].
    + destruct (IH _ _ _ _ _ _ H) as [A Bp].
      rewrite P_lookup_store in A. fold cur in A. rewrite uids_app, cz_app in A.
      change (uids [t]) with [r_uid t] in A. rewrite Hc. split; [lia|].
      intro K. apply Bp.
      assert (Hp : cz u (P (zstore p (cur' ++ [t]) wp)) = cz u (P wp) - cz u (uids cur) + cz u (uids cur') + cz u [r_uid t]).
      { rewrite P_lookup_store. fold cur. rewrite uids_app, cz_app. change (uids [t]) with [r_uid t]. lia. }
      destruct (Z.eq_dec u (r_uid t)) as [->|Hn].
      * right. left. apply cz_pos_in. rewrite Hp, cz_cons, Z.eqb_refl, cz_nil. lia.
      * destruct K as [K|[K|K]]; [left; exact K| |].
        -- right. left. apply cz_pos_in. rewrite Hp. apply cz_pos_in in K. specialize (Hne Hn).
           pose proof (cz_nonneg u [r_uid t]). lia.
        -- right. right. unfold uids in K. simpl in K. destruct K as [K|K]; [congruence|exact K].
Qed.

(* ---------------- lazy_bisect replay ---------------- *)
Lemma find_req_uid u l t : find_req u l = Some t -> r_uid t = u.
Proof.
  induction l as [|x l IH]; simpl; [discriminate|].
  destruct (r_uid x =? u) eqn:E1; [intro H; injection H as <-; apply Z.eqb_eq; exact E1|exact IH].
Qed.

Lemma bisect_replay_cz u c pool : forall evs s s' good bad fail,
  bisect_replay c s pool evs = Some (s', good, bad, fail) ->
  cz u (uids (map fst good)) + cz u (uids bad) + cz u (uids (map fst fail)) = cz u (map fst evs).
Proof.
  induction evs as [|[v chk] r IH]; intros s s' good bad fail H; cbn [bisect_replay] in H.
  - injection H as _ <- <- <-. reflexivity.
  - destruct (find_req v pool) as [t|] eqn:Ef; [|discriminate].
    pose proof (find_req_uid _ _ _ Ef) as Hu.
    cbn [map fst]. rewrite cz_cons.
    assert (Hx : forall l, cz u (uids (t :: l)) = (if u =? v then 1 else 0) + cz u (uids l)).
    { intro l. unfold uids. simpl. rewrite cz_cons, Hu. reflexivity. }
    destruct chk.
    + destruct (try_allocation c s t) as [s1 res].
      destruct (bisect_replay c s1 pool r) as [[[[s2 g2] b2] f2]|] eqn:Er; [|discriminate].
      specialize (IH _ _ _ _ _ Er).
      destruct res; injection H as _ <- <- <-; cbn [map fst]; rewrite ?Hx; lia.
    + destruct (bisect_replay c s pool r) as [[[[s2 g2] b2] f2]|] eqn:Er; [|discriminate].
      specialize (IH _ _ _ _ _ Er). injection H as _ <- <- <-. rewrite Hx. lia.
Qed.

Lemma same_set_cz a b : same_set a b = true -> forall u, cz u a = cz u b.
Proof.
  unfold same_set. intros H u. rewrite forallb_forall in H.
  destruct (in_dec Z.eq_dec u (a ++ b)) as [Hin|Hn].
  - specialize (H u Hin). apply Nat.eqb_eq in H. unfold zcount in H. unfold cz. lia.
  - assert (~ In u a /\ ~ In u b) as [Ha Hb] by (rewrite in_app_iff in Hn; tauto).
    assert (forall l, ~ In u l -> cz u l = 0).
    { intros l Hl. pose proof (cz_nonneg u l). destruct (Z_lt_le_dec 0 (cz u l)) as [K|K]; [apply cz_pos_in in K; contradiction|lia]. }
    rewrite (H0 a Ha), (H0 b Hb). reflexivity.
Qed.

Lemma insert_desc_cz {A} (key : A -> Z) (f : A -> Z) u x l :
  cz u (map f (insert_desc key x l)) = cz u (map f (x :: l)).
Proof.
  induction l as [|y r IH]; simpl; [reflexivity|].
  destruct (key y <=? key x); simpl; [reflexivity|]. rewrite !cz_cons in *. simpl in IH. rewrite cz_cons in IH. lia.
Qed.
Lemma sort_desc_cz {A} (key : A -> Z) (f : A -> Z) u l : cz u (map f (sort_desc key l)) = cz u (map f l).
Proof.
  unfold sort_desc. induction l as [|x r IH]; simpl; [reflexivity|].
  rewrite insert_desc_cz. simpl. rewrite !cz_cons, IH. reflexivity.
Qed.

Lemma filter_split_cz u (f : req -> bool) l :
  cz u (uids (filter f l)) + cz u (uids (filter (fun t => negb (f t)) l)) = cz u (uids l).
Proof.
  induction l as [|x r IH]; simpl; [reflexivity|].
  destruct (f x); simpl; unfold uids in *; simpl; rewrite !cz_cons; lia.
Qed.

(* ---------------- frames ---------------- *)
Lemma try_allocation_frame c s t s' res :
  try_allocation c s t = (s', res) -> waitpool s' = waitpool s /\ cancel_list s' = cancel_list s.
Proof.
  unfold try_allocation. destruct (schedule_task c s t) as [[e off]|[[[off co] tg] [sl|]]].
  - intro H. injection H as <- _. auto.
  - intro H. injection H as <- _. auto.
  - destruct (active_cnt s =? 0); intro H; injection H as <- _; auto.
Qed.

Lemma bisect_replay_frame c pool : forall evs s s' good bad fail,
  bisect_replay c s pool evs = Some (s', good, bad, fail) -> waitpool s' = waitpool s.
Proof.
  induction evs as [|[v chk] r IH]; intros s s' good bad fail H; cbn [bisect_replay] in H.
  - injection H as <- _ _ _. reflexivity.
  - destruct (find_req v pool) as [t|]; [|discriminate]. destruct chk.
    + destruct (try_allocation c s t) as [s1 res] eqn:Et. destruct (try_allocation_frame _ _ _ _ _ Et) as [F _].
      destruct (bisect_replay c s1 pool r) as [[[[s2 g2] b2] f2]|] eqn:Er; [|discriminate].
      specialize (IH _ _ _ _ _ Er). destruct res; injection H as <- _ _ _; congruence.
    + destruct (bisect_replay c s pool r) as [[[[s2 g2] b2] f2]|] eqn:Er; [|discriminate].
      specialize (IH _ _ _ _ _ Er). injection H as <- _ _ _. exact IH.
Qed.

Lemma place_tasks_frame c : forall ts s to_wait evs s' tw' evs',
  place_tasks c s ts to_wait evs = (s', tw', evs') -> waitpool s' = waitpool s /\ cancel_list s' = cancel_list s.
Proof.
  induction ts as [|t r IH]; intros s to_wait evs s' tw' evs' H; cbn [place_tasks] in H.
  - injection H as <- _ _. auto.
  - destruct (negb (env_ok s t)); [eapply IH; eauto|].
    destruct (r_slots t) as [[|sl0 sls]|].
    + destruct (try_allocation c s t) as [s1 res] eqn:Et. destruct (try_allocation_frame _ _ _ _ _ Et) as [F1 F2].
      destruct res; destruct (IH _ _ _ _ _ _ H) as [G1 G2]; split; congruence.
    + destruct (negb (forallb (slot_known (nodes s)) (sl0 :: sls))); [eapply IH; eauto|].
      destruct (IH _ _ _ _ _ _ H) as [G1 G2]. split; [rewrite G1|rewrite G2]; reflexivity.
    + destruct (try_allocation c s t) as [s1 res] eqn:Et. destruct (try_allocation_frame _ _ _ _ _ Et) as [F1 F2].
      destruct res; destruct (IH _ _ _ _ _ _ H) as [G1 G2]; split; congruence.
Qed.

(* ---------------- _schedule_waitpool: exact conservation ---------------- *)
Lemma E_started good : E (map (fun ts : req * list slot => Started (r_uid (fst ts)) (snd ts)) good) = uids (map fst good).
Proof. unfold E, uids. rewrite !map_map. reflexivity. Qed.
Lemma E_failed (fail : list (req * ferr)) :
  E (map (fun te : req * ferr => Failed (r_uid (fst te)) ERuntime) fail) = uids (map fst fail).
Proof. unfold E, uids. rewrite !map_map. reflexivity. Qed.

Lemma waitpool_loop_cz u c : forall prios s strat res act evs s' strat' res' act' evs',
  waitpool_loop c s prios strat res act evs = Some (s', strat', res', act', evs') ->
  cz u (E evs') + cz u (P (waitpool s')) = cz u (E evs) + cz u (P (waitpool s)).
Proof.
  induction prios as [|p ps IH]; intros s strat res act evs s' strat' res' act' evs' H; cbn [waitpool_loop] in H.
  - injection H as <- _ _ _ <-. reflexivity.
  - destruct (zlookup p (waitpool s)) as [pool|] eqn:El; [|eapply IH; eauto].
    destruct pool as [|t0 pool']; [eapply IH; eauto|].
    set (pool := t0 :: pool') in *.
    destruct (sort_desc ts_product (filter (env_ok s) pool)) as [|x to_test'] eqn:Es; [eapply IH; eauto|].
    destruct strat as [|sv strat1]; [discriminate|].
    destruct (negb (same_set (map fst sv) (uids (x :: to_test')))) eqn:Ess; [discriminate|].
    apply negb_false_iff in Ess.
    destruct (bisect_replay c s (x :: to_test') sv) as [[[[s1 good] bad] fail]|] eqn:Eb; [|discriminate].
    pose proof (bisect_replay_frame _ _ _ _ _ _ _ _ Eb) as Hf.
    pose proof (bisect_replay_cz u _ _ _ _ _ _ _ _ Eb) as Hb.
    rewrite (IH _ _ _ _ _ _ _ _ _ _ H). unfold set_pool. cbn [waitpool].
    rewrite P_lookup_store, Hf, El, !E_app, !cz_app, E_started, E_failed, uids_app, cz_app.
    rewrite (same_set_cz _ _ Ess u) in Hb.
    pose proof (filter_split_cz u (env_ok s) pool) as Hs.
    assert (Ht : cz u (uids (x :: to_test')) = cz u (uids (filter (env_ok s) pool))).
    { rewrite <- Es. unfold uids. apply sort_desc_cz. }
    lia.
Qed.

(* ---------------- the per-priority loop of _schedule_incoming ---------------- *)
Definition lk (p : Z) (bk : list (Z * list req)) : list req :=
  match zlookup p bk with Some l => l | None => [] end.
Definition sumf (bk : list (Z * list req)) (u : Z) (ps : list Z) : Z :=
  fold_right (fun p a => cz u (uids (lk p bk)) + a) 0 ps.

Lemma incoming_prios_cz u c bk : forall ps s lw evs s' lw' evs',
  incoming_prios c s bk ps lw evs = (s', lw', evs') ->
  cz u (E evs') + cz u (P (waitpool s')) <= cz u (E evs) + cz u (P (waitpool s)) + sumf bk u ps /\
  (In u (E evs) \/ In u (P (waitpool s)) \/ (exists p, In p ps /\ In u (uids (lk p bk))) ->
   In u (E evs') \/ In u (P (waitpool s'))).
Proof.
  induction ps as [|p r IH]; intros s lw evs s' lw' evs' H; cbn [incoming_prios] in H.
  - injection H as <- _ <-. unfold sumf. simpl. split; [lia|]. intros [K|[K|(p & [] & _)]]; auto.
  - fold (lk p bk) in H.
    destruct (place_tasks c s (sort_desc r_ranks (lk p bk)) [] evs) as [[s1 to_wait] evs1] eqn:Ep.
    pose proof (place_tasks_cz u _ _ _ _ _ _ _ _ Ep) as Hp. destruct (place_tasks_frame _ _ _ _ _ _ _ _ Ep) as [F1 F2].
    assert (Hs : cz u (uids (sort_desc r_ranks (lk p bk))) = cz u (uids (lk p bk))) by (unfold uids; apply sort_desc_cz).
    change (uids []) with (@nil Z) in Hp. rewrite cz_nil, Hs in Hp.
    destruct (pool_insert p to_wait (waitpool s1) (cancel_list s1) evs1) as [[wp cl] evs2] eqn:Ei.
    destruct (pool_insert_cz u _ _ _ _ _ _ _ _ Ei) as [I1 I2].
    destruct (IH _ _ _ _ _ _ H) as [A Bp]. cbn [waitpool] in A, Bp.
    unfold sumf. cbn [fold_right]. fold (sumf bk u r). rewrite F1 in *. split; [lia|].
    intro K. apply Bp.
    assert (Hmid : In u (E evs1) \/ In u (uids to_wait) \/ ~ (In u (E evs) \/ In u (uids (lk p bk)))).
    { rewrite <- !cz_pos_in. pose proof (cz_nonneg u (E evs1)). pose proof (cz_nonneg u (uids to_wait)).
      pose proof (cz_nonneg u (E evs)). pose proof (cz_nonneg u (uids (lk p bk))).
      destruct (Z_lt_le_dec 0 (cz u (E evs1))); [left; assumption|].
      destruct (Z_lt_le_dec 0 (cz u (uids to_wait))); [right; left; assumption|]. right. right. lia. }
    destruct K as [K|[K|(q & [<-|Hq] & Hu)]].
    + destruct Hmid as [M|[M|M]]; [|tauto|tauto].
      destruct (I2 (or_introl M)); tauto.
    + destruct (I2 (or_intror (or_introl K))); tauto.
    + destruct Hmid as [M|[M|M]]; [| |tauto].
      * destruct (I2 (or_introl M)); tauto.
      * destruct (I2 (or_intror (or_intror M))); tauto.
    + right. right. exists q. auto.
Qed.

(* buckets have unique keys, so summing over the keys counts every bucket once *)
Lemma zlookup_cons_other {A} k p (l : A) r : k <> p -> zlookup p ((k, l) :: r) = zlookup p r.
Proof. intro H. simpl. destruct (k =? p) eqn:E1; [apply Z.eqb_eq in E1; congruence|reflexivity]. Qed.

Lemma sumf_keys bk u : NoDup (map fst bk) -> sumf bk u (map fst bk) = cz u (P bk).
Proof.
  induction bk as [|[k l] r IH]; intro Hn; [reflexivity|].
  inversion Hn as [|? ? Hk Hr]; subst. rewrite P_cons, cz_app. unfold sumf. cbn [map fst fold_right].
  unfold lk at 1. simpl. rewrite Z.eqb_refl. f_equal.
  rewrite <- (IH Hr). unfold sumf.
  assert (Hx : forall ps, (forall p, In p ps -> p <> k) ->
            fold_right (fun p a => cz u (uids (lk p ((k, l) :: r))) + a) 0 ps =
            fold_right (fun p a => cz u (uids (lk p r)) + a) 0 ps).
  { induction ps as [|p ps IHp]; intro Hp; [reflexivity|]. cbn [fold_right].
    rewrite IHp by (intros q Hq; apply Hp; right; exact Hq).
    unfold lk. rewrite zlookup_cons_other by (intro K; apply (Hp p (or_introl eq_refl)); auto). reflexivity. }
  apply Hx. intros p Hp K. subst. contradiction.
Qed.

Lemma sumf_perm bk u a b : Permutation a b -> sumf bk u a = sumf bk u b.
Proof. unfold sumf. induction 1; cbn [fold_right]; lia. Qed.

Lemma insert_desc_perm (x : Z) l : Permutation (insert_desc (fun p => p) x l) (x :: l).
Proof.
  induction l as [|y r IH]; simpl; [reflexivity|].
  destruct (y <=? x); [reflexivity|]. rewrite IH. apply perm_swap.
Qed.
Lemma prios_desc_perm bk : Permutation (prios_desc bk) (map fst bk).
Proof.
  unfold prios_desc, sort_desc. induction (map fst bk) as [|x r IH]; simpl; [reflexivity|].
  rewrite insert_desc_perm. constructor. exact IH.
Qed.

Lemma bucket_add_keys p t : forall bk, NoDup (map fst bk) -> NoDup (map fst (bucket_add p t bk)).
Proof.
  induction bk as [|[k l] r IH]; simpl; intro H; [constructor; [intros []|constructor]|].
  inversion H as [|? ? Hk Hr]; subst. destruct (k =? p) eqn:E1; simpl; [exact H|].
  constructor; [|apply IH; exact Hr].
  intro K. apply Hk. clear -K E1. induction r as [|[k' l'] r IHr]; simpl in *; [destruct K as [K|[]]; apply Z.eqb_neq in E1; congruence|].
  destruct (k' =? p); simpl in *; [exact K|]. destruct K as [K|K]; [left; exact K|right; auto].
Qed.

Lemma drain_keys : forall q wp bk evs wp' bk' evs',
  drain q wp bk evs = (wp', bk', evs') -> NoDup (map fst bk) -> NoDup (map fst bk').
Proof.
  induction q as [|it r IH]; intros wp bk evs wp' bk' evs' H Hn; cbn [drain] in H.
  - injection H as _ <- _. exact Hn.
  - destruct it as [ts|us].
    + match type of H with context [fold_left ?f ts (bk, evs)] =>
        assert (Hf : forall ts0 b e b' e', NoDup (map fst b) -> fold_left f ts0 (b, e) = (b', e') -> NoDup (map fst b'));
        [|destruct (fold_left f ts (bk, evs)) as [bk1 evs1] eqn:Ef] end.
      { induction ts0 as [|t ts0 IHt]; intros b e b' e' Hb Ef; simpl in Ef.
        - injection Ef as <- _. exact Hb.
        - destruct (r_ranks t <=? 0); [exact (IHt _ _ _ _ Hb Ef)|].
          exact (IHt _ _ _ _ (bucket_add_keys _ _ _ Hb) Ef). }
      eapply IH; [exact H|]. eapply Hf; eauto.
    + destruct (cancel_uids us wp evs) as [wp1 evs1]. eapply IH; eauto.
Qed.

Lemma P_in_lk u bk : NoDup (map fst bk) -> In u (P bk) ->
  exists p, In p (map fst bk) /\ In u (uids (lk p bk)).
Proof.
  induction bk as [|[k l] r IH]; intros Hn Hin; [destruct Hin|].
  inversion Hn as [|? ? Hk Hr]; subst. rewrite P_cons, in_app_iff in Hin. destruct Hin as [Hin|Hin].
  - exists k. split; [left; reflexivity|]. unfold lk. simpl. rewrite Z.eqb_refl. exact Hin.
  - destruct (IH Hr Hin) as (p & Hp & Hu). exists p. split; [right; exact Hp|].
    unfold lk in *. rewrite zlookup_cons_other; [exact Hu|]. intro K. subst. contradiction.
Qed.

(* ---------------- _schedule_incoming ---------------- *)
Theorem schedule_incoming_cz u c s q s' ri act evs :
  schedule_incoming c s q = (s', ri, act, evs) ->
  cz u (E evs) + cz u (P (waitpool s')) <= cz u (P (waitpool s)) + cz u (Q q) /\
  (In u (P (waitpool s)) \/ In u (Q q) -> In u (E evs) \/ In u (P (waitpool s'))).
Proof.
  unfold schedule_incoming. intro H.
  destruct (drain q (waitpool s) [] []) as [[wp bk] evs0] eqn:Ed.
  pose proof (drain_le u _ _ _ _ _ _ _ Ed) as Hle. pose proof (drain_pres u _ _ _ _ _ _ _ Ed) as Hpr.
  assert (Hk : NoDup (map fst bk)) by (eapply drain_keys; [exact Ed|constructor]).
  change (E []) with (@nil Z) in *. change (P []) with (@nil Z) in *. rewrite !cz_nil in Hle.
  destruct bk as [|b0 bk'].
  - injection H as <- _ _ <-. unfold set_pool. cbn [waitpool]. change (P []) with (@nil Z) in *. rewrite cz_nil in Hle.
    split; [lia|]. intro K. destruct Hpr as [R|[R|R]]; [simpl; tauto|auto|auto|destruct R].
  - destruct (incoming_prios c (set_pool s wp) (b0 :: bk') (prios_desc (b0 :: bk')) false evs0)
      as [[s1 lw] evs1] eqn:Ei.
    injection H as <- _ _ <-.
    destruct (incoming_prios_cz u _ _ _ _ _ _ _ _ _ Ei) as [A Bp]. unfold set_pool in A, Bp. cbn [waitpool] in A, Bp.
    rewrite (sumf_perm _ _ _ _ (prios_desc_perm (b0 :: bk'))), (sumf_keys _ _ Hk) in A.
    split; [lia|]. intro K. apply Bp.
    destruct Hpr as [R|[R|R]]; [simpl; tauto|auto|auto|].
    right. right. destruct (P_in_lk _ _ Hk R) as (p & Hp & Hu). exists p. split; [|exact Hu].
    apply (Permutation_in _ (Permutation_sym (prios_desc_perm (b0 :: bk')))). exact Hp.
Qed.

(* ---------------- one iteration ---------------- *)
Lemma unschedule_frame : forall us s, waitpool (unschedule us s) = waitpool s.
Proof. induction us as [|[v sl] r IH]; intro s; cbn [unschedule]; [reflexivity|]. rewrite IH. reflexivity. Qed.

Theorem iterate_cz u c s q unq strat s' evs :
  iterate c s q unq strat = Some (s', evs) ->
  cz u (E evs) + cz u (P (waitpool s')) <= cz u (P (waitpool s)) + cz u (Q q) /\
  (In u (P (waitpool s)) \/ In u (Q q) -> In u (E evs) \/ In u (P (waitpool s'))).
Proof.
  unfold iterate, iterate_pre. intro H.
  assert (Hw : forall s1 st1 r1 a1 e1,
            (if resources s then schedule_waitpool c s strat else Some (s, strat, false, false, []))
            = Some (s1, st1, r1, a1, e1) ->
            cz u (E e1) + cz u (P (waitpool s1)) = cz u (P (waitpool s))).
  { intros s1 st1 r1 a1 e1 Hx. destruct (resources s).
    - unfold schedule_waitpool in Hx. rewrite (waitpool_loop_cz u _ _ _ _ _ _ _ _ _ _ _ _ Hx). reflexivity.
    - injection Hx as <- _ _ _ <-. reflexivity. }
  destruct (if resources s then schedule_waitpool c s strat else Some (s, strat, false, false, []))
    as [[[[[s1 st1] r1] a1] e1]|] eqn:Ew; [|discriminate].
  specialize (Hw _ _ _ _ _ eq_refl).
  destruct st1; [|discriminate].
  destruct (schedule_incoming c s1 q) as [[[s2 ri] ax] e2] eqn:Ei.
  injection H as <- <-.
  destruct (schedule_incoming_cz u _ _ _ _ _ _ _ Ei) as [A Bp].
  unfold set_res. cbn [waitpool]. rewrite unschedule_frame, E_app, cz_app. split; [lia|].
  rewrite in_app_iff. intro K.
  assert (Hmid : In u (E e1) \/ In u (P (waitpool s1)) \/ ~ In u (P (waitpool s))).
  { rewrite <- !cz_pos_in. pose proof (cz_nonneg u (E e1)). pose proof (cz_nonneg u (P (waitpool s1))).
    destruct (Z_lt_le_dec 0 (cz u (E e1))); [left; assumption|].
    destruct (Z_lt_le_dec 0 (cz u (P (waitpool s1)))); [right; left; assumption|right; right; lia]. }
  destruct K as [K|K].
  - destruct Hmid as [M|[M|M]]; [tauto| |tauto]. destruct (Bp (or_introl M)); tauto.
  - destruct (Bp (or_intror K)); tauto.
Qed.

(* ---------------- intake ---------------- *)
Lemma intake_cz u : forall ts cl evs keep cl' evs',
  intake ts cl evs = (keep, cl', evs') ->
  cz u (E evs') + cz u (uids keep) = cz u (E evs) + cz u (uids ts).
Proof.
  induction ts as [|t r IH]; intros cl evs keep cl' evs' H; cbn [intake] in H.
  - injection H as <- _ <-. reflexivity.
  - assert (Hc : forall l, cz u (uids (t :: l)) = cz u [r_uid t] + cz u (uids l)).
    { intro l. unfold uids. simpl. rewrite !cz_cons, cz_nil. lia. }
    destruct (zmem (r_uid t) cl).
    + rewrite (IH _ _ _ _ _ H), E_app, cz_app, Hc. change (E [Canceled (r_uid t)]) with [r_uid t]. lia.
    + destruct (intake r cl evs) as [[k c0] e0] eqn:Ei. injection H as <- _ <-.
      specialize (IH _ _ _ _ _ Ei). rewrite !Hc. lia.
Qed.

(* ---------------- whole histories ---------------- *)
Definition arrivals (ops : list op) : list Z :=
  concat (map (fun o => match o with Arrive l => uids l | _ => [] end) ops).
Definition total (u : Z) (w : world) : Z :=
  cz u (E (log w)) + cz u (P (waitpool (st w))) + cz u (Q (q_sched w)).
Definition present (u : Z) (w : world) : Prop :=
  In u (E (log w)) \/ In u (P (waitpool (st w))) \/ In u (Q (q_sched w)).

Lemma Q_app a b : Q (a ++ b) = Q a ++ Q b.
Proof. unfold Q. rewrite map_app, concat_app. reflexivity. Qed.

Lemma present_total u w : present u w <-> 0 < total u w.
Proof.
  unfold present, total. rewrite <- !cz_pos_in.
  pose proof (cz_nonneg u (E (log w))). pose proof (cz_nonneg u (P (waitpool (st w)))).
  pose proof (cz_nonneg u (Q (q_sched w))). lia.
Qed.

Lemma total_nonneg u w : 0 <= total u w.
Proof.
  unfold total. pose proof (cz_nonneg u (E (log w))). pose proof (cz_nonneg u (P (waitpool (st w)))).
  pose proof (cz_nonneg u (Q (q_sched w))). lia.
Qed.

Theorem step_cz u c w o w' :
  step c w o = Some w' ->
  total u w' <= total u w + cz u (arrivals [o]) /\
  (present u w \/ In u (arrivals [o]) -> present u w').
Proof.
  intro H. destruct o as [ts|us|us|e|strat|us|us]; cbn [step] in H.
  - destruct (intake ts (cancel_list (st w)) []) as [[keep cl] evs] eqn:Ei. injection H as <-.
    pose proof (intake_cz u _ _ _ _ _ _ Ei) as Hi. change (E []) with (@nil Z) in Hi. rewrite cz_nil in Hi.
    assert (Ha : arrivals [Arrive ts] = uids ts) by (unfold arrivals; simpl; apply app_nil_r).
    assert (Ht : total u (mkW (set_cl (st w) cl) (q_sched w ++ [QSched keep]) (q_unsched w) (log w ++ evs))
                 = total u w + cz u (uids ts)).
    { unfold total, set_cl. cbn [log st q_sched waitpool]. rewrite E_app, Q_app, !cz_app.
      change (Q [QSched keep]) with (uids keep ++ []). rewrite app_nil_r. lia. }
    rewrite Ha. split; [lia|]. rewrite !present_total, Ht, <- cz_pos_in.
    pose proof (cz_nonneg u (uids ts)). pose proof (total_nonneg u w). lia.
  - injection H as <-. unfold total, arrivals, present, set_cl. cbn [map concat log st q_sched waitpool].
    rewrite Q_app. change (Q [QCancel us]) with (@nil Z). rewrite app_nil_r, cz_nil. split; [lia|].
    intros [K|[]]. exact K.
  - injection H as <-. unfold total, arrivals, present. cbn [map concat log st q_sched]. rewrite cz_nil.
    split; [lia|]. intros [K|[]]. exact K.
  - injection H as <-. unfold total, arrivals, present. cbn [map concat log st q_sched waitpool]. rewrite cz_nil.
    split; [lia|]. intros [K|[]]. exact K.
  - destruct (iterate c (st w) (q_sched w) (q_unsched w) strat) as [[s' evs]|] eqn:Eit; [|discriminate].
    injection H as <-. destruct (iterate_cz u _ _ _ _ _ _ _ Eit) as [A Bp].
    split.
    + unfold total, arrivals. cbn [map concat log st q_sched]. change (Q []) with (@nil Z).
      rewrite E_app, !cz_app, !cz_nil. lia.
    + intros [K|K]; [|destruct K]. unfold present in *. cbn [log st q_sched] in *.
      rewrite E_app, in_app_iff.
      destruct K as [K|[K|K]]; [left; left; exact K| |].
      * destruct (Bp (or_introl K)) as [R|R]; [left; right; exact R|right; left; exact R].
      * destruct (Bp (or_intror K)) as [R|R]; [left; right; exact R|right; left; exact R].
  - injection H as <-. unfold total, arrivals, present, set_cl. cbn [map concat log st q_sched waitpool].
    rewrite cz_nil. split; [lia|]. intros [K|[]]. exact K.
  - injection H as <-. unfold total, arrivals, present. cbn [map concat log st q_sched waitpool].
    rewrite Q_app. change (Q [QCancel us]) with (@nil Z). rewrite app_nil_r, cz_nil. split; [lia|].
    intros [K|[]]. exact K.
Qed.

Lemma arrivals_cons o r : arrivals (o :: r) = arrivals [o] ++ arrivals r.
Proof. unfold arrivals. simpl. rewrite app_nil_r. reflexivity. Qed.

Theorem run_cz u c : forall ops w w',
  run c w ops = Some w' ->
  total u w' <= total u w + cz u (arrivals ops) /\
  (present u w \/ In u (arrivals ops) -> present u w').
Proof.
  induction ops as [|o r IH]; intros w w' H; cbn [run] in H.
  - injection H as <-. unfold arrivals. simpl. rewrite cz_nil. split; [lia|]. intros [K|[]]. exact K.
  - destruct (step c w o) as [w1|] eqn:Es; [|discriminate].
    destruct (step_cz u _ _ _ _ Es) as [A1 B1]. destruct (IH _ _ H) as [A2 B2].
    rewrite arrivals_cons, cz_app, in_app_iff. split; [lia|]. intro K. apply B2. tauto.
Qed.

(* nothing is lost, nothing is duplicated -- from the initial world *)
Theorem no_loss_no_duplication c ns0 ops w' u :
  run c (init_world ns0) ops = Some w' ->
  total u w' <= cz u (arrivals ops) /\ (In u (arrivals ops) -> present u w').
Proof.
  intro H. destruct (run_cz u c ops _ _ H) as [A Bp].
  assert (H0 : total u (init_world ns0) = 0) by reflexivity.
  split; [lia|]. intro K. apply Bp. right. exact K.
Qed.

(* with unique uids every arrived task is in EXACTLY one place, with
   multiplicity one: started / failed / canceled (one terminal event), or
   waiting in a pool, or still in the queue *)
Corollary exactly_one_place c ns0 ops w' u :
  run c (init_world ns0) ops = Some w' -> NoDup (arrivals ops) -> In u (arrivals ops) ->
  total u w' = 1.
Proof.
  intros H Hn Hin. destruct (no_loss_no_duplication c ns0 ops w' u H) as [A Bp].
  specialize (Bp Hin). apply present_total in Bp.
  assert (cz u (arrivals ops) <= 1).
  { unfold cz. clear -Hn. induction (arrivals ops) as [|x l IH]; simpl; [lia|].
    inversion Hn as [|? ? Hx Hr]; subst. specialize (IH Hr).
    destruct (u =? x) eqn:E1; simpl; [|lia].
    apply Z.eqb_eq in E1. subst.
    assert (filter (Z.eqb x) l = []).
    { clear -Hx. induction l as [|y l IHl]; simpl; [reflexivity|].
      destruct (x =? y) eqn:E2; [apply Z.eqb_eq in E2; subst; exfalso; apply Hx; left; reflexivity|].
      apply IHl. intro K. apply Hx. right. exact K. }
    rewrite H. simpl. lia. }
  lia.
Qed.
