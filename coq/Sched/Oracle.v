(* Snapshots compared with the implementation after every loop iteration, and
   the oracle clauses of C01..C04 evaluated on the implementation's trace. *)
From Coq Require Import ZArith List Bool.
From RP Require Import Common.Eqb Sched.Model.
Import ListNotations.
Open Scope Z_scope.

Definition ferr_eqb (a b : ferr) : bool :=
  match a, b with
  | EValue, EValue | EType, EType | EAssert, EAssert | ERuntime, ERuntime | EOther, EOther => true
  | _, _ => false
  end.

Definition slot_eqb (a b : slot) : bool :=
  (s_node a =? s_node b) && eqb_list Nat.eqb (s_cores a) (s_cores b)
  && eqb_list (eqb_prod Nat.eqb Z.eqb) (s_gpus a) (s_gpus b)
  && (s_lfs a =? s_lfs b) && (s_mem a =? s_mem b).

Definition event_eqb (a b : event) : bool :=
  match a, b with
  | Started u sl, Started u' sl' => (u =? u') && eqb_list slot_eqb sl sl'
  | Failed u e, Failed u' e' => (u =? u') && ferr_eqb e e'
  | Canceled u, Canceled u' => u =? u'
  | _, _ => false
  end.

Definition node_eqb (a b : node) : bool :=
  (n_idx a =? n_idx b) && eqb_list occ_eqb (n_cores a) (n_cores b)
  && eqb_list occ_eqb (n_gpus a) (n_gpus b) && (n_lfs a =? n_lfs b) && (n_mem a =? n_mem b).

(* what is observable of the scheduler after an iteration *)
Record snap := mkSnap {
  sn_events : list event;          (* events since the previous snapshot *)
  sn_nodes : list node;
  sn_active : Z;
  sn_pool : list (Z * list Z);     (* priority -> uids, non-empty pools only, sorted by priority *)
  sn_offset : nat;
  sn_cancel : list Z;
  sn_colo : list (Z * list Z);     (* sorted by tag *)
  sn_tagged : list Z }.            (* sorted *)

Definition snap_eqb (a b : snap) : bool :=
  eqb_list event_eqb (sn_events a) (sn_events b)
  && eqb_list node_eqb (sn_nodes a) (sn_nodes b)
  && (sn_active a =? sn_active b)
  && eqb_list (eqb_prod Z.eqb (eqb_list Z.eqb)) (sn_pool a) (sn_pool b)
  && Nat.eqb (sn_offset a) (sn_offset b)
  && eqb_list Z.eqb (sn_cancel a) (sn_cancel b)
  && eqb_list (eqb_prod Z.eqb (eqb_list Z.eqb)) (sn_colo a) (sn_colo b)
  && eqb_list Z.eqb (sn_tagged a) (sn_tagged b).

Fixpoint insert_asc {A} (key : A -> Z) (x : A) (l : list A) : list A :=
  match l with
  | [] => [x]
  | y :: r => if key x <? key y then x :: l else y :: insert_asc key x r
  end.
Definition sort_asc {A} (key : A -> Z) (l : list A) : list A :=
  fold_right (fun x acc => insert_asc key x acc) [] l.

Definition snap_of (w : world) (nlog : nat) : snap :=
  let s := st w in
  mkSnap (skipn nlog (log w)) (nodes s) (active_cnt s)
         (sort_asc fst (filter (fun p => match snd p with [] => false | _ => true end)
                               (map (fun p => (fst p, uids (snd p))) (waitpool s))))
         (offset s) (cancel_list s) (sort_asc fst (colo s)) (sort_asc (fun x => x) (tagged s)).

(* run the ops, taking a snapshot after every Iterate; None = the recorded
   strategy does not fit the model's pools *)
Fixpoint run_snaps (c : cfg) (w : world) (nlog : nat) (ops : list op) : option (list snap) :=
  match ops with
  | [] => Some []
  | o :: r =>
      match step c w o with
      | None => None
      | Some w' =>
          match o with
          | Iterate _ =>
              match run_snaps c w' (length (log w')) r with
              | None => None
              | Some l => Some (snap_of w' nlog :: l)
              end
          | _ => run_snaps c w' nlog r
          end
      end
  end.

(* ------------------------------------------------------------------ *)
(* the trace-level oracle: held placements per iteration                *)
(* ------------------------------------------------------------------ *)
Definition held := list (Z * list slot).

Fixpoint started_of (evs : list event) : held :=
  match evs with
  | [] => []
  | Started u sl :: r => (u, sl) :: started_of r
  | _ :: r => started_of r
  end.

Definition release_all (us : list Z) (h : held) : held := fold_left (fun h u => drop_first u h) us h.

(* all (node, core) pairs and (node, gpu, units) triples of a held set *)
Definition slot_cores (sl : slot) : list (Z * nat) := map (fun i => (s_node sl, i)) (s_cores sl).
Definition slot_gpus (sl : slot) : list (Z * nat * Z) := map (fun ig => (s_node sl, fst ig, snd ig)) (s_gpus sl).
Definition held_slots (h : held) : list slot := concat (map snd h).
Definition held_cores (h : held) : list (Z * nat) := concat (map slot_cores (held_slots h)).
Definition held_gpus (h : held) : list (Z * nat * Z) := concat (map slot_gpus (held_slots h)).

Definition zn_eqb (a b : Z * nat) : bool := (fst a =? fst b) && Nat.eqb (snd a) (snd b).

Fixpoint nodupb {A} (e : A -> A -> bool) (l : list A) : bool :=
  match l with [] => true | x :: r => negb (existsb (e x) r) && nodupb e r end.

Definition gpu_total (h : held) (n : Z) (g : nat) : Z :=
  fold_left (fun acc t => let '(n', g', u) := t in if (n' =? n) && Nat.eqb g' g then acc + u else acc)
            (held_gpus h) 0.

Definition sum_on (f : slot -> Z) (h : held) (n : Z) : Z :=
  fold_left (fun acc sl => if s_node sl =? n then acc + f sl else acc) (held_slots h) 0.

Fixpoint find_node (n : Z) (ns : list node) : option node :=
  match ns with [] => None | nd :: r => if n_idx nd =? n then Some nd else find_node n r end.

(* C01 on one held set, relative to the initial node list *)
Definition ok_cores_disjoint (h : held) : bool := nodupb zn_eqb (held_cores h).
Definition ok_gpu_shares (h : held) : bool :=
  forallb (fun t => let '(n, g, _) := t in gpu_total h n g <=? 64) (held_gpus h).
Definition ok_lfs_mem (ns0 : list node) (h : held) : bool :=
  forallb (fun nd => (sum_on s_lfs h (n_idx nd) <=? n_lfs nd) && (sum_on s_mem h (n_idx nd) <=? n_mem nd)) ns0.
Definition ok_usable (ns0 : list node) (h : held) : bool :=
  forallb (fun sl =>
    match find_node (s_node sl) ns0 with
    | None => false
    | Some nd =>
        forallb (fun i => match nth_error (n_cores nd) i with Some Free => true | _ => false end) (s_cores sl)
        && forallb (fun ig => match nth_error (n_gpus nd) (fst ig) with Some Free => true | _ => false end) (s_gpus sl)
    end) (held_slots h).

(* C03: the node map is the initial one with exactly the held resources marked *)
Definition expected_nodes (ns0 : list node) (h : held) : list node :=
  change_slot_states true (held_slots h) ns0.

(* ---- C01, checked grant by grant: the offender is the LATER grant ---- *)
Definition grant_cores_ok (h : held) (sl : list slot) : bool :=
  let mine := concat (map slot_cores sl) in
  nodupb zn_eqb mine && forallb (fun c => negb (existsb (zn_eqb c) (held_cores h))) mine.
Definition grant_gpus_ok (h : held) (u : Z) (sl : list slot) : bool :=
  let h' := (u, sl) :: h in
  forallb (fun t => let '(n, g, _) := t in gpu_total h' n g <=? 64) (concat (map slot_gpus sl)).
(* the node map keeps ONE flag per GPU (BUSY / FREE): two tasks can only both
   hold shares of one GPU if the map could tell them apart -- it cannot.  The
   scheduler itself never lets two tasks share a GPU (a GPU with a share on it
   is BUSY for every later search); an application-supplied placement can: then
   the release of one task frees the GPU while the other still holds its share *)
Definition gpu_used_by_other (h : held) (u : Z) (n : Z) (g : nat) : bool :=
  existsb (fun us => negb (fst us =? u) &&
                     existsb (fun t => let '(n', g', _) := t in (n' =? n) && Nat.eqb g' g)
                             (concat (map slot_gpus (snd us)))) h.
Definition grant_gpu_unshared_ok (h : held) (u : Z) (sl : list slot) : bool :=
  forallb (fun t => let '(n, g, _) := t in negb (gpu_used_by_other h u n g)) (concat (map slot_gpus sl)).
Definition grant_lfs_mem_ok (ns0 : list node) (h : held) (u : Z) (sl : list slot) : bool :=
  let h' := (u, sl) :: h in
  forallb (fun s => match find_node (s_node s) ns0 with
                    | None => true
                    | Some nd => (sum_on s_lfs h' (n_idx nd) <=? n_lfs nd)
                                 && (sum_on s_mem h' (n_idx nd) <=? n_mem nd)
                    end) sl.
Definition grant_usable_ok (ns0 : list node) (u : Z) (sl : list slot) : bool := ok_usable ns0 [(u, sl)].

Definition pre_uids (ops : list op) : list Z :=
  concat (map (fun o => match o with
                        | Arrive l => map r_uid (filter (fun t => match r_slots t with
                                                                  | Some (_ :: _) => true | _ => false end) l)
                        | _ => [] end) ops).

(* fold over the grants of a trace; [f h u sl] is the per-grant check; [sel u]
   selects the grants that are checked *)
Fixpoint grants_events (evs : list event) (h : held) (sel : Z -> bool)
  (f : held -> Z -> list slot -> bool) : bool * held :=
  match evs with
  | [] => (true, h)
  | Started u sl :: r =>
      let ok := if sel u then f h u sl else true in
      let '(ok', h') := grants_events r (h ++ [(u, sl)]) sel f in (ok && ok', h')
  | _ :: r => grants_events r h sel f
  end.

Fixpoint grants_walk (h : held) (its : list (snap * list Z)) (sel : Z -> bool)
  (f : held -> Z -> list slot -> bool) : bool :=
  match its with
  | [] => true
  | (sn, unq) :: r =>
      let '(ok, hmax) := grants_events (sn_events sn) h sel f in
      ok && grants_walk (release_all unq hmax) r sel f
  end.

Definition c01_checks (ns0 : list node) : list (held -> Z -> list slot -> bool) :=
  [ fun h _ sl => grant_cores_ok h sl;
    fun h u sl => grant_gpus_ok h u sl;
    fun h u sl => grant_lfs_mem_ok ns0 h u sl;
    fun _ u sl => grant_usable_ok ns0 u sl;
    fun h u sl => grant_gpu_unshared_ok h u sl ].

(* clauses: the five checks for scheduler-chosen grants, then the same five
   for application-supplied grants *)
Definition c01_bits (ns0 : list node) (ops : list op) (its : list (snap * list Z)) : list bool :=
  let pre := pre_uids ops in
  let app := map (fun f => grants_walk [] its (fun u => zmem u pre) f) (c01_checks ns0) in
  let offended := negb (forallb (fun b => b) app) in
  (* once an application-supplied placement has offended (recorded finding) the
     node map is inconsistent and later scheduler grants may conflict as a
     consequence: they are attributed to that offence *)
  map (fun f => grants_walk [] its (fun u => negb (zmem u pre)) f || offended) (c01_checks ns0) ++ app.

Definition app_offended (ns0 : list node) (ops : list op) (its : list (snap * list Z)) : bool :=
  let pre := pre_uids ops in
  negb (forallb (fun f => grants_walk [] its (fun u => zmem u pre) f) (c01_checks ns0)).

(* walk the iterations: [unq k] = uids whose release is consumed in iteration k *)
Fixpoint walk (ns0 : list node) (h : held) (its : list (snap * list Z))
  (f : held -> held -> snap -> bool) : bool :=
  match its with
  | [] => true
  | (sn, unq) :: r =>
      let hmax := h ++ started_of (sn_events sn) in
      let h' := release_all unq hmax in
      f hmax h' sn && walk ns0 h' r f
  end.

Definition c03_raw (ns0 : list node) (its : list (snap * list Z)) : list bool :=
  [ (* after every iteration the map is the initial map with exactly the held slots marked *)
    walk ns0 [] its (fun _ h' sn => eqb_list node_eqb (sn_nodes sn) (expected_nodes ns0 h'));
    (* the counter the "can never be scheduled" rule reads equals the number of holders *)
    walk ns0 [] its (fun _ h' sn => sn_active sn =? Z.of_nat (length h'));
    (* quiescence: nothing held => initial capacity *)
    walk ns0 [] its (fun _ h' sn => match h' with
                                    | [] => eqb_list node_eqb (sn_nodes sn) ns0
                                    | _ => true end) ].

(* clauses: the three checks on traces without an offending application-supplied
   grant, then the same three on traces with one (map bookkeeping after an
   overlapping application-supplied placement) *)
Definition c03_bits (ns0 : list node) (ops : list op) (its : list (snap * list Z)) : list bool :=
  let a := app_offended ns0 ops its in
  map (fun b => b || a) (c03_raw ns0 its) ++ map (fun b => b || negb a) (c03_raw ns0 its).

(* ------------------------------------------------------------------ *)
(* rows                                                                  *)
(* ------------------------------------------------------------------ *)
Definition corr_bit (c : cfg) (ns0 : list node) (ops : list op) (its : list (snap * list Z)) : bool :=
  match run_snaps c (init_world ns0) 0 ops with
  | None => false
  | Some l => eqb_list snap_eqb l (map fst its)
  end.

Definition c01_row (c : cfg) (ns0 : list node) (ops : list op) (its : list (snap * list Z)) : list bool :=
  corr_bit c ns0 ops its :: c01_bits ns0 ops its.

Definition c03_row (c : cfg) (ns0 : list node) (ops : list op) (its : list (snap * list Z)) : list bool :=
  corr_bit c ns0 ops its :: c03_bits ns0 ops its.

(* ------------------------------------------------------------------ *)
(* C02: shape of every scheduler-chosen grant                            *)
(* ------------------------------------------------------------------ *)
Definition all_reqs (ops : list op) : list req :=
  concat (map (fun o => match o with Arrive l => l | _ => [] end) ops).

Definition is_pre (t : req) : bool := match r_slots t with Some (_ :: _) => true | _ => false end.

Definition count_node (n : Z) (sl : list slot) : Z :=
  Z.of_nat (length (filter (fun s => s_node s =? n) sl)).

Definition slot_shape_ok (ns0 : list node) (t : req) (s : slot) : bool :=
  let cps := if r_cpr t =? 0 then 1 else r_cpr t in
  match find_node (s_node s) ns0 with
  | None => false
  | Some nd =>
      nodupb Nat.eqb (s_cores s)
      && (Z.of_nat (length (s_cores s)) =? cps)
      && forallb (fun i => (i <? length (n_cores nd))%nat) (s_cores s)
      && (fold_left (fun a ig => a + snd ig) (s_gpus s) 0 =? r_gpr t)
      && nodupb Nat.eqb (map fst (s_gpus s))
      && forallb (fun ig => (fst ig <? length (n_gpus nd))%nat && (0 <? snd ig) && (snd ig <=? 64)) (s_gpus s)
      && (if 64 <=? r_gpr t then forallb (fun ig => snd ig =? 64) (s_gpus s) else true)
      && (s_lfs s =? r_lfs t) && (s_mem s =? r_mem t)
  end.

Definition oversize (c : cfg) (t : req) : bool :=
  let cps := if r_cpr t =? 0 then 1 else r_cpr t in
  (cpn c <? cps) || (64 * gpn c <? r_gpr t) || (lfs_pn c <? r_lfs t) || (mem_pn c <? r_mem t).

(* exactly `ranks` slots; at most ranks_per_node of them on one node *)
Definition c02_ranks_bit (t : req) (sl : list slot) : bool := Z.of_nat (length sl) =? r_ranks t.
Definition c02_rpn_bit (t : req) (sl : list slot) : bool :=
  if r_rpn t =? 0 then true else forallb (fun s => count_node (s_node s) sl <=? r_rpn t) sl.

(* a colocate tag seen before confines the grant to the nodes recorded for it *)
Definition c02_colo_bit (tags : list (Z * list Z)) (t : req) (sl : list slot) : bool :=
  match r_colo t with
  | None => true
  | Some tag => match zlookup tag tags with
                | None => true
                | Some ns => forallb (fun s => zmem (s_node s) ns) sl
                end
  end.

(* the `exclusive` rule on one grant: a new tag with exclusive=True gets no node that an earlier tag uses while the
   pilot has more nodes than tagged ones *)
Definition c02_excl_bit (tags : list (Z * list Z)) (tgd : list Z) (nnodes : nat) (t : req) (sl : list slot) : bool :=
  match r_colo t with
  | None => true
  | Some tag => match zlookup tag tags with
                | Some _ => true
                | None => if r_excl t && (length tgd <? nnodes)%nat
                          then forallb (fun s => negb (zmem (s_node s) tgd)) sl else true
                end
  end.

(* walk all events in order, tracking the node set recorded for every colocate tag and the set of tagged nodes
   (which only grows, also when a later grant overwrites the record of its tag with fewer nodes) *)
Fixpoint c02_events (c : cfg) (ns0 : list node) (rs : list req) (evs : list event)
  (tags : list (Z * list Z)) (tgd : list Z) (acc : list bool) : list bool * list (Z * list Z) :=
  match evs with
  | [] => (acc, tags)
  | Started u sl :: r =>
      match find_req u rs with
      | None => c02_events c ns0 rs r tags tgd acc
      | Some t =>
          if is_pre t then c02_events c ns0 rs r tags tgd acc
          else
            let b_ranks := c02_ranks_bit t sl in
            let b_shape := forallb (slot_shape_ok ns0 t) sl in
            let b_rpn := c02_rpn_bit t sl in
            let b_colo := c02_colo_bit tags t sl in
            let b_over := negb (oversize c t) in
            let b_excl := c02_excl_bit tags tgd (length ns0) t sl in
            let tags' := match r_colo t with Some tag => zstore tag (map s_node sl) tags | None => tags end in
            let tgd' := match r_colo t with Some _ => zadd_all (map s_node sl) tgd | None => tgd end in
            let acc' := match acc with
                        | [a1; a2; a3; a4; a5; a6] =>
                            [a1 && b_ranks; a2 && b_shape; a3 && b_rpn; a4 && b_colo; a5 && b_over; a6 && b_excl]
                        | _ => acc end in
            c02_events c ns0 rs r tags' tgd' acc'
      end
  | _ :: r => c02_events c ns0 rs r tags tgd acc
  end.

Definition c02_bits (c : cfg) (ns0 : list node) (ops : list op) (its : list (snap * list Z)) : list bool :=
  fst (c02_events c ns0 (all_reqs ops) (concat (map (fun p => sn_events (fst p)) its)) [] []
                  [true; true; true; true; true; true]).

(* ------------------------------------------------------------------ *)
(* C04: nothing lost, nothing reported twice, progress                   *)
(* ------------------------------------------------------------------ *)
Definition ev_uid (e : event) : Z :=
  match e with Started u _ => u | Failed u _ => u | Canceled u => u end.

Definition count_z (u : Z) (l : list Z) : nat := length (filter (Z.eqb u) l).

(* uids that have arrived before the k-th Iterate (k = 0 -> before the first) *)
Fixpoint arrived_upto (ops : list op) (k : nat) : list Z :=
  match ops with
  | [] => []
  | Arrive l :: r => map r_uid l ++ arrived_upto r k
  | Iterate _ :: r => match k with O => [] | S O => [] | S k' => arrived_upto r k' end
  | _ :: r => arrived_upto r k
  end.

Fixpoint c04_walk (ops : list op) (its : list (snap * list Z)) (k : nat) (seen : list Z) : bool * bool :=
  match its with
  | [] => (true, true)
  | (sn, _) :: r =>
      let seen' := seen ++ map ev_uid (sn_events sn) in
      let pool := concat (map snd (sn_pool sn)) in
      let arr := arrived_upto ops k in
      let once := forallb (fun u => (count_z u seen' <=? 1)%nat) seen' in
      let part := forallb (fun u => Nat.eqb (count_z u seen' + count_z u pool) (count_z u arr)) arr
                  && forallb (fun u => zmem u arr) (seen' ++ pool) in
      let '(o', p') := c04_walk ops r (S k) seen' in
      (once && o', part && p')
  end.

(* does an untagged request fit the idle pilot, whatever node the search starts from *)
Definition fits_idle_all (c : cfg) (ns0 : list node) (t : req) : bool :=
  forallb (fun off =>
    match schedule_task c (mkS ns0 off [] [] [] 0 [] [] true []) t with
    | inr (_, _, _, Some _) => true
    | _ => false end) (seq 0 (length ns0)).

Definition plain (t : req) : bool :=
  match r_colo t, r_env t with None, None => negb (is_pre t) && (0 <? r_ranks t) | _, _ => false end.

(* previous snapshot idle (nothing held) with a non-empty pool of plain fitting
   tasks => this iteration starts at least one task *)
Fixpoint c04_progress (c : cfg) (ns0 : list node) (rs : list req) (h : held)
  (prev_pool : list Z) (its : list (snap * list Z)) : bool :=
  match its with
  | [] => true
  | (sn, unq) :: r =>
      let st := started_of (sn_events sn) in
      let idle := match h with [] => true | _ => false end in
      let candidates := map (fun u => find_req u rs) prev_pool in
      let applies := idle && match prev_pool with [] => false | _ => true end
                     && forallb (fun o => match o with
                                          | Some t => plain t && fits_idle_all c ns0 t
                                          | None => false end) candidates in
      let ok := if applies then match st with [] => false | _ => true end else true in
      ok && c04_progress c ns0 rs (release_all unq (h ++ st)) (concat (map snd (sn_pool sn))) r
  end.

Definition c04_never_failed (c : cfg) (ns0 : list node) (rs : list req) (its : list (snap * list Z)) : bool :=
  forallb (fun e => match e with
                    | Failed u _ => match find_req u rs with
                                    | Some t => negb (plain t && fits_idle_all c ns0 t)
                                    | None => true end
                    | _ => true end) (concat (map (fun p => sn_events (fst p)) its)).

(* "when a release lets only one of two waiting tasks run, the one with the
   higher priority is started": walk the events of one iteration in order,
   [m] = the node map before the next grant (previous snapshot + the grants so
   far); when a task L that was waiting before the iteration is started while
   a plain task H of higher priority, also waiting before, still waits after
   the iteration, then H must not have fitted [m] (judged for every start
   offset of the node search and with every node tagged before or after the
   iteration treated as tagged -- only an H that fits in any case counts).
   [skipped]: uids which ru.lazy_bisect left unchecked in this iteration; the
   clause is evaluated separately for such H (sel = true) and for all others *)
Definition fits_any_offset (c : cfg) (m : list node) (tg : list Z) (t : req) : bool :=
  forallb (fun off =>
    match schedule_task c (mkS m off [] tg [] 0 [] [] true []) t with
    | inr (_, _, _, Some _) => true
    | _ => false end) (seq 0 (length m)).

Fixpoint c04_prio_events (c : cfg) (rs : list req) (pp : list (Z * Z)) (still tg skipped : list Z) (sel : bool)
  (m : list node) (evs : list event) : bool :=
  match evs with
  | [] => true
  | Started u sl :: r =>
      let ok := match zlookup u pp with
                | None => true
                | Some pl =>
                    forallb (fun hp =>
                      if (pl <? snd hp) && zmem (fst hp) still && Bool.eqb (zmem (fst hp) skipped) sel then
                        match find_req (fst hp) rs with
                        | Some t => negb (plain t && fits_any_offset c m tg t)
                        | None => true end
                      else true) pp
                end in
      ok && c04_prio_events c rs pp still tg skipped sel (change_slot_states true sl m) r
  | _ :: r => c04_prio_events c rs pp still tg skipped sel m r
  end.

(* the priority is the one the task was submitted with (r_prio), not the key
   of the pool it happens to be filed in *)
Definition pool_prios (rs : list req) (wp : list (Z * list Z)) : list (Z * Z) :=
  concat (map (fun pl => map (fun u => (u, match find_req u rs with Some t => r_prio t | None => fst pl end)) (snd pl)) wp).

Definition skipped_of (strat : list (list (Z * bool))) : list Z :=
  map fst (filter (fun ub => negb (snd ub)) (concat strat)).

Fixpoint strategies (ops : list op) : list (list (list (Z * bool))) :=
  match ops with
  | [] => []
  | Iterate st :: r => st :: strategies r
  | _ :: r => strategies r
  end.

Fixpoint c04_priority (c : cfg) (rs : list req) (sel : bool) (m : list node) (tg : list Z) (prev_pool : list (Z * list Z))
  (sts : list (list (list (Z * bool)))) (its : list (snap * list Z)) : bool :=
  match its with
  | [] => true
  | (sn, _) :: r =>
      c04_prio_events c rs (pool_prios rs prev_pool) (concat (map snd (sn_pool sn))) (tg ++ sn_tagged sn)
                      (skipped_of (hd [] sts)) sel m (sn_events sn)
      && c04_priority c rs sel (sn_nodes sn) (sn_tagged sn) (sn_pool sn) (tl sts) r
  end.

Definition c04_bits (c : cfg) (ns0 : list node) (ops : list op) (its : list (snap * list Z)) : list bool :=
  let '(once, part) := c04_walk ops its 1 [] in
  let a := app_offended ns0 ops its in
  [ once; part;
    c04_progress c ns0 (all_reqs ops) [] [] its || a;
    c04_never_failed c ns0 (all_reqs ops) its || a;
    c04_priority c (all_reqs ops) false ns0 [] [] (strategies ops) its || a;
    c04_priority c (all_reqs ops) true ns0 [] [] (strategies ops) its || a ].

Definition c02_row (c : cfg) (ns0 : list node) (ops : list op) (its : list (snap * list Z)) : list bool :=
  corr_bit c ns0 ops its :: c02_bits c ns0 ops its.
Definition c04_row (c : cfg) (ns0 : list node) (ops : list op) (its : list (snap * list Z)) : list bool :=
  corr_bit c ns0 ops its :: c04_bits c ns0 ops its.

(* ------------------------------------------------------------------ *)
(* C08 (scheduler side): cancel stops the named tasks and nothing else   *)
(* ------------------------------------------------------------------ *)
Definition has_canceled (u : Z) (evs : list event) : bool :=
  existsb (fun e => match e with Canceled v => v =? u | _ => false end) evs.
Definition has_started (u : Z) (evs : list event) : bool :=
  existsb (fun e => match e with Started v _ => v =? u | _ => false end) evs.
Definition has_failed (u : Z) (evs : list event) : bool :=
  existsb (fun e => match e with Failed v _ => v =? u | _ => false end) evs.

(* a named waiting task leaves the pool in the iteration that consumes the
   request: CANCELED -- unless the wait-pool pass of that same iteration, which
   runs before the request is read, started or failed it *)
(* [named]: uids named in any request so far; [pend]: named since the last
   iteration; [late]: uids that arrived after they had been named; [old]: uids
   named in requests consumed by an EARLIER iteration *)
Fixpoint c08_walk (ops : list op) (its : list (snap * list Z)) (named pend late prev_pool old : list Z)
  (a1 a2 a3 a4 a5 : bool) : list bool :=
  match ops with
  | [] => [a1; a2; a3; a4; a5]
  | CancelMsg us :: r => c08_walk r its (named ++ us) (pend ++ us) late prev_pool old a1 a2 a3 a4 a5
  (* the two halves of a request, in whichever order the code performs them: the
     request exists from its first half on; the loop consumes it with the queue item *)
  | CancelReg us :: r => c08_walk r its (named ++ us) pend late prev_pool old a1 a2 a3 a4 a5
  | CancelQ us :: r => c08_walk r its (named ++ us) (pend ++ us) late prev_pool old a1 a2 a3 a4 a5
  | Arrive l :: r =>
      c08_walk r its named pend (late ++ filter (fun u => zmem u named) (map r_uid l)) prev_pool old a1 a2 a3 a4 a5
  | Iterate _ :: r =>
      match its with
      | [] => [a1; a2; a3; a4; a5]
      | (sn, _) :: its' =>
          let evs := sn_events sn in
          let pool := concat (map snd (sn_pool sn)) in
          let b1 := forallb (fun u => if zmem u prev_pool
                                      then (has_canceled u evs || has_started u evs || has_failed u evs) && negb (zmem u pool)
                                      else true) pend in
          let b2 := forallb (fun e => match e with Canceled u => zmem u named | _ => true end) evs in
          let b3 := forallb (fun e => match e with Started u _ => negb (zmem u late) | _ => true end) evs in
          (* once the iteration that consumed the request is over, a named task is never started ... *)
          let b4 := forallb (fun e => match e with Started u _ => negb (zmem u old) | _ => true end) evs in
          (* ... and is not waiting: whether it waited before, came in with the same queue drain or comes later *)
          let old' := old ++ pend in
          let b5 := forallb (fun u => negb (zmem u old')) pool in
          c08_walk r its' named [] late pool old' (a1 && b1) (a2 && b2) (a3 && b3) (a4 && b4) (a5 && b5)
      end
  | _ :: r => c08_walk r its named pend late prev_pool old a1 a2 a3 a4 a5
  end.

Definition c08_bits (ops : list op) (its : list (snap * list Z)) : list bool :=
  c08_walk ops its [] [] [] [] [] true true true true true.

Definition c08_sched_row (c : cfg) (ns0 : list node) (ops : list op) (its : list (snap * list Z)) : list bool :=
  corr_bit c ns0 ops its :: c08_bits ops its.

(* diagnostics for harness development: per snapshot, per field agreement *)
Definition snap_diag (a b : snap) : list bool :=
  [ eqb_list event_eqb (sn_events a) (sn_events b);
    eqb_list node_eqb (sn_nodes a) (sn_nodes b);
    (sn_active a =? sn_active b);
    eqb_list (eqb_prod Z.eqb (eqb_list Z.eqb)) (sn_pool a) (sn_pool b);
    Nat.eqb (sn_offset a) (sn_offset b);
    eqb_list Z.eqb (sn_cancel a) (sn_cancel b);
    eqb_list (eqb_prod Z.eqb (eqb_list Z.eqb)) (sn_colo a) (sn_colo b);
    eqb_list Z.eqb (sn_tagged a) (sn_tagged b) ].
Definition diag (c : cfg) (ns0 : list node) (ops : list op) (its : list (snap * list Z)) : list (list bool) :=
  match run_snaps c (init_world ns0) 0 ops with
  | None => [[false]]
  | Some l => map (fun p => snap_diag (fst p) (snd p)) (combine l (map fst its))
  end.
