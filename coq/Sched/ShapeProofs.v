(* C02: the shape of what schedule_task returns. *)
From Coq Require Import ZArith List Bool Lia Arith Permutation.
From RP Require Import Sched.Model Sched.ListAux Sched.NodeMap Sched.FindProofs Sched.Inv Sched.SchedProofs.
Import ListNotations.
Local Open Scope Z_scope.

Definition count_on (n : Z) (sl : list slot) : Z :=
  Z.of_nat (length (filter (fun s => s_node s =? n) sl)).

Lemma count_on_app n a b : count_on n (a ++ b) = count_on n a + count_on n b.
Proof. unfold count_on. rewrite filter_app, app_length. lia. Qed.

Lemma count_on_other n sl : (forall s, In s sl -> s_node s <> n) -> count_on n sl = 0.
Proof.
  unfold count_on. induction sl as [|x r IH]; simpl; intro H; [reflexivity|].
  assert (s_node x <> n) by (apply H; left; reflexivity).
  destruct (s_node x =? n) eqn:E; [apply Z.eqb_eq in E; contradiction|].
  apply IH. intros s Hs. apply H. right. exact Hs.
Qed.

Lemma count_on_le n sl : count_on n sl <= Z.of_nat (length sl).
Proof.
  unfold count_on. apply inj_le. induction sl as [|x r IH]; simpl; [lia|].
  destruct (s_node x =? n); simpl; lia.
Qed.

Lemma NoDup_app_l {A} (a b : list A) : NoDup (a ++ b) -> NoDup a.
Proof.
  induction a as [|x a IH]; simpl; intro H; [constructor|].
  inversion H as [|? ? Hx Hr]; subst. constructor; [|apply IH; exact Hr].
  intro K. apply Hx. apply in_app_iff. left. exact K.
Qed.
Lemma NoDup_app_r {A} (a b : list A) : NoDup (a ++ b) -> NoDup b.
Proof.
  induction a as [|x a IH]; simpl; intro H; [exact H|].
  inversion H; subst. apply IH. assumption.
Qed.

Lemma NoDup_concat_part {A} (parts : list (list A)) :
  NoDup (concat parts) -> forall p, In p parts -> NoDup p.
Proof.
  induction parts as [|x r IH]; simpl; intros H p Hp; [contradiction|].
  destruct Hp as [->|Hp].
  - apply NoDup_app_l in H. exact H.
  - apply IH; [|exact Hp]. apply NoDup_app_r in H. exact H.
Qed.

(* what every slot of a placement for request shape (cps, g, lfs, mem) looks like *)
Definition shape_ok (ns : list node) (cps : nat) (g lfs mem : Z) (hist : option (list Z)) (s : slot) : Prop :=
  length (s_cores s) = cps /\ NoDup (s_cores s) /\
  slot_gpu_amount s = g /\ NoDup (map fst (s_gpus s)) /\
  s_lfs s = lfs /\ s_mem s = mem /\
  (exists nd, In nd ns /\ s_node s = n_idx nd /\
              (forall i, In i (s_cores s) -> (i < length (n_cores nd))%nat)) /\
  (forall h, hist = Some h -> zmem (s_node s) h = true).

Record sh_ok (ns visit : list node) (cps : nat) (g lfs mem : Z) (hist : option (list Z))
  (spn rq : Z) (st : sloop) : Prop := {
  sh_rem : rem st = rq - Z.of_nat (length (alc st)) /\ 0 <= rem st;
  sh_s : forall s, In s (alc st) -> shape_ok ns cps g lfs mem hist s /\ ~ In (s_node s) (map n_idx visit);
  sh_cnt : forall n, count_on n (alc st) <= Z.max 0 spn }.

Lemma sh_skip ns nd0 rest cps g lfs mem hist spn rq st :
  sh_ok ns (nd0 :: rest) cps g lfs mem hist spn rq st -> sh_ok ns rest cps g lfs mem hist spn rq st.
Proof.
  intros [A B C]. constructor; auto.
  intros s Hs. destruct (B s Hs) as [H1 H2]. split; [exact H1|]. intro K. apply H2. right. exact K.
Qed.

Lemma find_loop_len nd n cps g lfs mem ci gi lu mu gu sl :
  find_loop nd n cps g lfs mem ci gi lu mu gu = inr sl -> (length sl <= n)%nat.
Proof.
  revert ci gi lu mu gu sl. induction n as [|n IH]; intros ci gi lu mu gu sl H; cbn [find_loop] in H.
  - injection H as <-. simpl. lia.
  - destruct (find_one nd cps g lfs mem ci gi lu mu gu) as [e| |s ci' gi' gu']; [discriminate| |].
    + injection H as <-. simpl. lia.
    + destruct (find_loop nd n cps g lfs mem ci' gi' (lu + lfs) (mu + mem) gu') as [e|r] eqn:E; [discriminate|].
      injection H as <-. simpl. specialize (IH _ _ _ _ _ _ E). lia.
Qed.

Lemma sh_step ns nd0 rest cps g lfs mem hist spn rq st n new :
  In nd0 ns -> ~ In (n_idx nd0) (map n_idx rest) ->
  0 <= g -> 0 <= lfs -> 0 <= mem ->
  (forall h, hist = Some h -> zmem (n_idx nd0) h = true) ->
  n = Z.to_nat (Z.min (rem st) spn) -> new <> [] ->
  sh_ok ns (nd0 :: rest) cps g lfs mem hist spn rq st ->
  find_loop nd0 n cps g lfs mem 0 0 0 0 (map (fun _ => 0) (n_gpus nd0)) = inr new ->
  forall fl, sh_ok ns rest cps g lfs mem hist spn rq
               (mkL (alc st ++ new) (rem st - Z.of_nat (length new)) false fl).
Proof.
  intros Hin Hx Hg Hl Hm Hh Hn Hne [[A1 A2] B C] Hf fl.
  destruct (find_loop_basic _ _ _ _ _ _ _ _ _ _ _ _ Hl Hm Hf) as (F0 & F1 & F2 & _ & _).
  assert (Hz : forall k, 0 <= nth k (map (fun _ : occ => 0) (n_gpus nd0)) 0) by (intro k; rewrite zeros_nth; lia).
  assert (Hz2 : 64 <= g -> forall k, nth k (map (fun _ : occ => 0) (n_gpus nd0)) 0 = 0)
    by (intros _ k; apply zeros_nth).
  assert (Hlen : length (map (fun _ : occ => 0) (n_gpus nd0)) = length (n_gpus nd0)) by apply map_length.
  destruct (find_loop_gpus _ _ _ _ _ _ _ _ _ _ _ _ Hg Hz Hz2 Hlen Hf) as (_ & _ & _ & G4).
  rewrite Forall_forall in F1, G4.
  assert (Hnew_len : Z.of_nat (length new) <= Z.min (rem st) spn).
  { destruct new as [|x r]; [congruence|]. subst n.
    destruct (Z.min (rem st) spn) eqn:Emin; simpl in F0; try lia. simpl length. lia. }
  assert (Hnew_node : forall s, In s new -> s_node s = n_idx nd0) by (intros s Hs; apply (F1 s Hs)).
  assert (Halc_node : forall s, In s (alc st) -> s_node s <> n_idx nd0).
  { intros s Hs K. destruct (B s Hs) as [_ H2]. apply H2. left. auto. }
  constructor; cbn [alc rem].
  - rewrite app_length, Nat2Z.inj_add. split; lia.
  - intros s Hs. apply in_app_iff in Hs as [Hs|Hs].
    + destruct (B s Hs) as [H1 H2]. split; [exact H1|]. intro K. apply H2. right. exact K.
    + destruct (F1 s Hs) as (S1 & S2 & S3 & S4 & S5). destruct (G4 s Hs) as [S6 S7]. split.
      * unfold shape_ok. repeat split; auto.
        -- apply (NoDup_concat_part (map s_cores new)); [eapply incr_from_NoDup; exact F2|].
           apply in_map. exact Hs.
        -- exists nd0. repeat split; auto. intros i Hi. apply nth_error_Some. rewrite (S5 i Hi). discriminate.
        -- intros h Hh'. rewrite S1. apply Hh. exact Hh'.
      * rewrite S1. exact Hx.
  - intro n0. rewrite count_on_app.
    destruct (Z.eq_dec n0 (n_idx nd0)) as [->|Hne0].
    + rewrite (count_on_other _ (alc st) Halc_node). pose proof (count_on_le (n_idx nd0) new). lia.
    + rewrite (count_on_other n0 new) by (intros s Hs; rewrite (Hnew_node s Hs); congruence).
      specialize (C n0). lia.
Qed.

Lemma sh_reset ns visit cps g lfs mem hist spn rq :
  0 <= rq -> sh_ok ns visit cps g lfs mem hist spn rq (mkL [] rq true false).
Proof.
  intro H. constructor; cbn [alc rem].
  - simpl. split; lia.
  - intros s [].
  - intro n. unfold count_on. simpl. lia.
Qed.

Lemma node_loop_shape c hist ne tg nn mpi spn rq cps g lfs mem ns :
  0 <= g -> 0 <= lfs -> 0 <= mem -> 0 <= rq ->
  forall visit k st st' k',
    incl visit ns -> NoDup (map n_idx visit) ->
    sh_ok ns visit cps g lfs mem hist spn rq st ->
    node_loop c hist ne tg nn mpi spn rq cps g lfs mem visit k st = inr (st', k') ->
    sh_ok ns [] cps g lfs mem hist spn rq st'.
Proof.
  intros Hg Hl Hm Hrq.
  induction visit as [|nd0 rest IH]; intros k st st' k' Hincl Hv Hsh H; cbn [node_loop] in H.
  - injection H as <- _. exact Hsh.
  - assert (Hincl' : incl rest ns) by (intros x Hx; apply Hincl; right; exact Hx).
    assert (Hv' : NoDup (map n_idx rest)) by (inversion Hv; assumption).
    assert (Hin0 : In nd0 ns) by (apply Hincl; left; reflexivity).
    assert (Hx0 : ~ In (n_idx nd0) (map n_idx rest)) by (inversion Hv; assumption).
    match type of H with (if ?b then _ else _) = _ => destruct b eqn:Esk end.
    { eapply IH; eauto using sh_skip. }
    assert (Hh : forall h, hist = Some h -> zmem (n_idx nd0) h = true).
    { intros h ->. apply negb_false_iff in Esk. exact Esk. }
    match type of H with
    | match find_resources ?a ?b ?cc ?d ?e ?f ?pp with _ => _ end = _ =>
        destruct (find_resources a b cc d e f pp) as [e0|r] eqn:Ef; [discriminate|]
    end.
    assert (Hempty : forall stx, stx = (if scattered c
                        then mkL (alc st) (rem st) (is_first st) (is_last st || (rem st <? spn))
                        else mkL [] rq true false) ->
                     sh_ok ns rest cps g lfs mem hist spn rq stx).
    { intros stx ->. destruct (scattered c); [|apply sh_reset; exact Hrq].
      destruct Hsh as [A B C]. constructor; cbn [alc rem]; auto.
      intros s Hs. destruct (B s Hs) as [H1 H2]. split; [exact H1|]. intro K. apply H2. right. exact K. }
    destruct r as [[|s0 new]|].
    + match type of H with node_loop _ _ _ _ _ _ _ _ _ _ _ _ _ _ ?stx = _ => eapply (IH _ stx); eauto end.
    + apply find_resources_loop in Ef.
      assert (Hstep := sh_step ns nd0 rest cps g lfs mem hist spn rq st _ (s0 :: new)
                         Hin0 Hx0 Hg Hl Hm Hh eq_refl (fun K => nil_cons (eq_sym K)) Hsh Ef).
      match type of H with (if ?b then _ else _) = _ => destruct b end.
      * injection H as <- _. specialize (Hstep (is_last st || (rem st <? spn))).
        destruct Hstep as [A B C]. constructor; auto.
        intros s Hs. destruct (B s Hs) as [K _]. split; [exact K|intros []].
      * match type of H with node_loop _ _ _ _ _ _ _ _ _ _ _ _ _ _ ?stx = _ => eapply (IH _ stx); eauto end.
    + match type of H with node_loop _ _ _ _ _ _ _ _ _ _ _ _ _ _ ?stx = _ => eapply (IH _ stx); eauto end.
Qed.

Definition hist_of (s : sstate) (t : req) : option (list Z) :=
  match r_colo t with Some tag => zlookup tag (colo s) | None => None end.
Definition cps_of (t : req) : Z := if r_cpr t =? 0 then 1 else r_cpr t.

Theorem schedule_task_shape c s t off co tg sl :
  NoDup (map n_idx (nodes s)) -> wf_req t -> 0 <= r_ranks t ->
  schedule_task c s t = inr (off, co, tg, Some sl) ->
  Z.of_nat (length sl) = r_ranks t /\
  (forall x, In x sl ->
     shape_ok (nodes s) (Z.to_nat (cps_of t)) (r_gpr t) (r_lfs t) (r_mem t) (hist_of s t) x) /\
  (0 < r_rpn t -> forall n, count_on n sl <= r_rpn t).
Proof.
  intros Hnd (Hg & Hl & Hm) Hrq H. unfold schedule_task in H.
  repeat match type of H with (if ?b then _ else _) = _ => destruct b; [discriminate|] end.
  match type of H with
  | match node_loop ?a ?b ?cc ?d ?e ?f ?spn ?h ?i ?j ?k ?l ?v ?m ?st0 with _ => _ end = _ =>
      destruct (node_loop a b cc d e f spn h i j k l v m st0) as [[e0 k0]|[st' k']] eqn:En; [discriminate|];
      set (SPN := spn) in *
  end.
  assert (Hsh : sh_ok (nodes s) [] (Z.to_nat (cps_of t)) (r_gpr t) (r_lfs t) (r_mem t) (hist_of s t)
                      SPN (r_ranks t) st').
  { refine (node_loop_shape _ _ _ _ _ _ _ _ _ _ _ _ (nodes s) Hg Hl Hm Hrq _ _ _ _ _ _ _ _ En);
      [| |apply sh_reset; exact Hrq].
    - intros x Hx. apply (Permutation_in _ (rotate_perm (offset s) (nodes s))). exact Hx.
    - apply (Permutation_NoDup (Permutation_sym (Permutation_map n_idx (rotate_perm (offset s) (nodes s))))).
      exact Hnd. }
  destruct (0 <? rem st') eqn:Er; [discriminate|]. apply Z.ltb_ge in Er.
  destruct Hsh as [[A1 A2] B C].
  assert (Hsl : sl = alc st') by (destruct (r_colo t); injection H as _ _ _ <-; reflexivity).
  subst sl. split; [lia|]. split.
  - intros x Hx. apply (B x Hx).
  - intros Hr n. specialize (C n).
    assert (SPN <= r_rpn t).
    { unfold SPN. replace (r_rpn t =? 0) with false by (symmetry; apply Z.eqb_neq; lia).
      repeat match goal with |- context [if ?b then _ else _] => destruct b end; lia. }
    lia.
Qed.

(* a request whose per-rank needs exceed what a single node offers is rejected *)
Theorem oversize_rejected c s t :
  cpn c < cps_of t \/ 64 * gpn c < r_gpr t \/ lfs_pn c < r_lfs t \/ mem_pn c < r_mem t ->
  exists off, schedule_task c s t = inl (EAssert, off).
Proof.
  intro H. unfold schedule_task. fold (cps_of t). cbv zeta.
  destruct (cps_of t <=? cpn c) eqn:E1; cbn [negb]; [|eexists; reflexivity].
  destruct (r_gpr t <=? 64 * gpn c) eqn:E2; cbn [negb]; [|eexists; reflexivity].
  destruct (r_lfs t <=? lfs_pn c) eqn:E3; cbn [negb]; [|eexists; reflexivity].
  destruct (r_mem t <=? mem_pn c) eqn:E4; cbn [negb]; [|eexists; reflexivity].
  apply Z.leb_le in E1, E2, E3, E4. lia.
Qed.

(* consequently it is reported FAILED, never started, whatever the state *)
Theorem oversize_never_started c s t s' res :
  cpn c < cps_of t \/ 64 * gpn c < r_gpr t \/ lfs_pn c < r_lfs t \/ mem_pn c < r_mem t ->
  try_allocation c s t = (s', res) -> res = TFail EAssert.
Proof.
  intros H E. destruct (oversize_rejected c s t H) as [off Ho].
  unfold try_allocation in E. rewrite Ho in E. injection E as _ <-. reflexivity.
Qed.
