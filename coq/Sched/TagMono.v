(* C02: the set of tagged nodes only grows and always contains the nodes recorded for every colocate tag -- in
   every state the scheduler loop can reach, for every operation history and bisect strategy.  With
   ExclProofs.exclusive_avoids_tagged: in every reachable state a new exclusive tag is placed on none of the
   nodes recorded for any earlier tag (while an untagged node exists). *)
From Coq Require Import ZArith List Bool Lia Arith.
From RP Require Import Sched.Model Sched.ExclProofs.
Import ListNotations.
Local Open Scope Z_scope.

Definition tsub (a b : list Z) : Prop := forall i, zmem i a = true -> zmem i b = true.
(* every node recorded for a tag is in the tagged set *)
Definition CT (co : list (Z * list Z)) (tg : list Z) : Prop :=
  forall tag h, zlookup tag co = Some h -> forall i, In i h -> zmem i tg = true.
Definition TInv (s s' : sstate) : Prop :=
  tsub (tagged s) (tagged s') /\ (CT (colo s) (tagged s) -> CT (colo s') (tagged s')).

Lemma TInv_refl s : TInv s s.
Proof. split; [intros i Hi; exact Hi|auto]. Qed.
Lemma TInv_trans a b c : TInv a b -> TInv b c -> TInv a c.
Proof. intros [A1 A2] [B1 B2]. split; [intros i Hi; apply B1, A1, Hi|auto]. Qed.
Lemma TInv_same s s' : colo s' = colo s -> tagged s' = tagged s -> TInv s s'.
Proof. intros E1 E2. unfold TInv. rewrite E1, E2. split; [intros i Hi; exact Hi|auto]. Qed.

Lemma sched_tinv c s t off co tg o :
  schedule_task c s t = inr (off, co, tg, o) ->
  tsub (tagged s) tg /\ (CT (colo s) (tagged s) -> CT co tg).
Proof.
  intro H. destruct o as [sl|].
  - destruct (r_colo t) as [z|] eqn:Ec.
    + destruct (tag_recorded c s t off co tg sl H z Ec) as (H1 & H2 & H3). split.
      * intros i Hi. apply H3. left. exact Hi.
      * intros HCT tag h Hz i Hi. destruct (Z.eq_dec tag z) as [->|Hne].
        -- rewrite H1 in Hz. injection Hz as <-. apply H3. right. exact Hi.
        -- rewrite (H2 tag Hne) in Hz. apply H3. left. eapply HCT; eauto.
    + destruct (untagged_grant_keeps_history c s t off co tg sl H Ec) as [-> ->].
      split; [intros i Hi; exact Hi|auto].
  - destruct (no_grant_keeps_history c s t off co tg H) as [-> ->].
    split; [intros i Hi; exact Hi|auto].
Qed.

Lemma try_alloc_tinv c s t s' res : try_allocation c s t = (s', res) -> TInv s s'.
Proof.
  unfold try_allocation. intro H.
  destruct (schedule_task c s t) as [[e off]|[[[off co] tg] [sl|]]] eqn:E.
  - injection H as <- _. apply TInv_same; reflexivity.
  - injection H as <- _. unfold TInv, set_sched; cbn [tagged colo]. exact (sched_tinv _ _ _ _ _ _ _ E).
  - destruct (active_cnt s =? 0); injection H as <- _; unfold TInv, set_sched; cbn [tagged colo];
      exact (sched_tinv _ _ _ _ _ _ _ E).
Qed.

Lemma bisect_tinv c pool : forall evs s s2 g b f,
  bisect_replay c s pool evs = Some (s2, g, b, f) -> TInv s s2.
Proof.
  induction evs as [|[u chk] r IH]; intros s s2 g b f H; cbn [bisect_replay] in H.
  - injection H as <- _ _ _. apply TInv_refl.
  - destruct (find_req u pool) as [t|]; [|discriminate]. destruct chk.
    + destruct (try_allocation c s t) as [s1 res] eqn:Et.
      destruct (bisect_replay c s1 pool r) as [[[[s2' g'] b'] f']|] eqn:Eb; [|discriminate].
      assert (Hs : s2' = s2) by (destruct res; congruence). subst s2'.
      eapply TInv_trans; [eapply try_alloc_tinv; exact Et|eapply IH; exact Eb].
    + destruct (bisect_replay c s pool r) as [[[[s2' g'] b'] f']|] eqn:Eb; [|discriminate].
      injection H as <- _ _ _. eapply IH; exact Eb.
Qed.

Lemma waitpool_tinv c : forall prios s strat res act evs s' strat' res' act' evs',
  waitpool_loop c s prios strat res act evs = Some (s', strat', res', act', evs') -> TInv s s'.
Proof.
  induction prios as [|p ps IH]; intros s strat res act evs s' strat' res' act' evs' H;
    cbn [waitpool_loop] in H.
  - injection H as <- _ _ _ _. apply TInv_refl.
  - destruct (zlookup p (waitpool s)) as [pool|] eqn:El; [|eapply IH; eauto].
    destruct pool as [|t0 pool']; [eapply IH; eauto|].
    set (pool := t0 :: pool') in *.
    destruct (sort_desc ts_product (filter (env_ok s) pool)) as [|x to_test'] eqn:Es; [eapply IH; eauto|].
    destruct strat as [|sv strat1]; [discriminate|].
    destruct (negb (same_set (map fst sv) (uids (x :: to_test')))); [discriminate|].
    destruct (bisect_replay c s (x :: to_test') sv) as [[[[s1 good] bad] fail]|] eqn:Eb; [|discriminate].
    eapply TInv_trans; [eapply bisect_tinv; exact Eb|].
    eapply TInv_trans; [|eapply IH; exact H].
    apply TInv_same; reflexivity.
Qed.

Lemma place_tinv c : forall ts s to_wait evs s' tw' evs',
  place_tasks c s ts to_wait evs = (s', tw', evs') -> TInv s s'.
Proof.
  induction ts as [|t r IH]; intros s to_wait evs s' tw' evs' E; cbn [place_tasks] in E.
  - injection E as <- _ _. apply TInv_refl.
  - destruct (negb (env_ok s t)); [eapply IH; exact E|].
    assert (Htry : (let '(s1, res) := try_allocation c s t in
                    match res with
                    | TStarted sl => place_tasks c s1 r to_wait (evs ++ [Started (r_uid t) sl])
                    | TWait => place_tasks c s1 r (to_wait ++ [t]) evs
                    | TFail e => place_tasks c s1 r to_wait (evs ++ [Failed (r_uid t) e])
                    end) = (s', tw', evs') -> TInv s s').
    { intro E'. destruct (try_allocation c s t) as [s1 res] eqn:Et.
      eapply TInv_trans; [eapply try_alloc_tinv; exact Et|].
      destruct res; eapply IH; exact E'. }
    destruct (r_slots t) as [[|sl0 sls]|]; [exact (Htry E)| |exact (Htry E)].
    destruct (negb (forallb (slot_known (nodes s)) (sl0 :: sls))); [eapply IH; exact E|].
    eapply TInv_trans; [|eapply IH; exact E]. apply TInv_same; reflexivity.
Qed.

Lemma incoming_tinv c bk : forall ps s lw evs s' lw' evs',
  incoming_prios c s bk ps lw evs = (s', lw', evs') -> TInv s s'.
Proof.
  induction ps as [|p r IH]; intros s lw evs s' lw' evs' E; cbn [incoming_prios] in E.
  - injection E as <- _ _. apply TInv_refl.
  - destruct (place_tasks c s (sort_desc r_ranks match zlookup p bk with Some l => l | None => [] end) [] evs)
      as [[s1 to_wait] evs1] eqn:Ep.
    destruct (pool_insert p to_wait (waitpool s1) (cancel_list s1) evs1) as [[wp cl] evs2].
    eapply TInv_trans; [eapply place_tinv; exact Ep|].
    eapply TInv_trans; [|eapply IH; exact E]. apply TInv_same; reflexivity.
Qed.

Lemma sched_incoming_tinv c s q s' ri act evs :
  schedule_incoming c s q = (s', ri, act, evs) -> TInv s s'.
Proof.
  unfold schedule_incoming. intro E.
  destruct (drain q (waitpool s) [] []) as [[wp bk] evs0].
  destruct bk as [|b0 bk'].
  - injection E as <- _ _ _. apply TInv_same; reflexivity.
  - destruct (incoming_prios c (set_pool s wp) (b0 :: bk') (prios_desc (b0 :: bk')) false evs0)
      as [[s1 lw] evs1] eqn:Ei.
    injection E as <- _ _ _.
    eapply TInv_trans; [|eapply incoming_tinv; exact Ei]. apply TInv_same; reflexivity.
Qed.

Lemma unschedule_same : forall us s, colo (unschedule us s) = colo s /\ tagged (unschedule us s) = tagged s.
Proof.
  induction us as [|[u sl] r IH]; intro s; cbn [unschedule]; [auto|].
  destruct (IH (set_sched s (change_slot_states false sl (nodes s)) (offset s) (colo s) (tagged s)
                          (active_cnt s - 1) (drop_first u (heldg s)))) as [A B].
  rewrite A, B. auto.
Qed.

Lemma iterate_tinv c s q unq strat s' evs : iterate c s q unq strat = Some (s', evs) -> TInv s s'.
Proof.
  unfold iterate, iterate_pre. intro H.
  assert (Hw : forall s1 st' rw a e1,
             (if resources s then schedule_waitpool c s strat else Some (s, strat, false, false, []))
             = Some (s1, st', rw, a, e1) -> TInv s s1).
  { intros s1 st' rw a e1 E. destruct (resources s).
    - unfold schedule_waitpool in E. eapply waitpool_tinv; exact E.
    - injection E as <- _ _ _ _. apply TInv_refl. }
  destruct (if resources s then schedule_waitpool c s strat else Some (s, strat, false, false, []))
    as [[[[[s1 st'] rw] a] e1]|] eqn:Ew; [|discriminate].
  specialize (Hw _ _ _ _ _ eq_refl).
  destruct st' as [|x st'']; [|discriminate].
  destruct (schedule_incoming c s1 q) as [[[s2 ri] a2] e2] eqn:Ei.
  injection H as <- _.
  eapply TInv_trans; [exact Hw|].
  eapply TInv_trans; [eapply sched_incoming_tinv; exact Ei|].
  destruct (unschedule_same unq s2) as [A B].
  apply TInv_same; unfold set_res; cbn [colo tagged]; assumption.
Qed.

Lemma step_tinv c w o w' : step c w o = Some w' -> TInv (st w) (st w').
Proof.
  destruct o; cbn [step]; intro H.
  - destruct (intake l (cancel_list (st w)) []) as [[k cl] evs]. injection H as <-. apply TInv_same; reflexivity.
  - injection H as <-. apply TInv_same; reflexivity.
  - injection H as <-. apply TInv_refl.
  - injection H as <-. apply TInv_same; reflexivity.
  - destruct (iterate c (st w) (q_sched w) (q_unsched w) strat) as [[s' evs]|] eqn:E; [|discriminate].
    injection H as <-. eapply iterate_tinv; exact E.
  - injection H as <-. apply TInv_same; reflexivity.
  - injection H as <-. apply TInv_refl.
Qed.

Theorem run_tinv c : forall ops w w', run c w ops = Some w' -> TInv (st w) (st w').
Proof.
  induction ops as [|o r IH]; intros w w' H; cbn [run] in H.
  - injection H as <-. apply TInv_refl.
  - destruct (step c w o) as [w1|] eqn:E; [|discriminate].
    eapply TInv_trans; [eapply step_tinv; exact E|eapply IH; exact H].
Qed.

(* ---- the statements ---- *)

(* the tagged set only grows along every history *)
Theorem tagged_only_grows c ops w w' :
  run c w ops = Some w' -> forall i, zmem i (tagged (st w)) = true -> zmem i (tagged (st w')) = true.
Proof. intro H. exact (proj1 (run_tinv c ops w w' H)). Qed.

(* in every reachable state the nodes recorded for any tag are tagged *)
Theorem reachable_tag_nodes_tagged c ns ops w' :
  run c (init_world ns) ops = Some w' -> CT (colo (st w')) (tagged (st w')).
Proof.
  intro H. apply (proj2 (run_tinv c ops _ _ H)). intros tag h Hz. discriminate Hz.
Qed.

(* in every reachable state: a new exclusive tag is placed on no node recorded for ANY tag of the history *)
Theorem reachable_exclusive_avoids_all_tags c ns ops w' t off co tg sl tag :
  run c (init_world ns) ops = Some w' ->
  schedule_task c (st w') t = inr (off, co, tg, Some sl) ->
  r_colo t = Some tag -> zlookup tag (colo (st w')) = None -> r_excl t = true ->
  (length (tagged (st w')) < length (nodes (st w')))%nat ->
  forall tag' h, zlookup tag' (colo (st w')) = Some h -> forall x, In x sl -> ~ In (s_node x) h.
Proof.
  intros Hrun Hg Hc Hnew He Hlen tag' h Hz x Hx Hin.
  pose proof (reachable_tag_nodes_tagged c ns ops w' Hrun tag' h Hz (s_node x) Hin) as H1.
  pose proof (exclusive_avoids_tagged c (st w') t off co tg sl Hg tag Hc Hnew He Hlen x Hx) as H2.
  congruence.
Qed.
