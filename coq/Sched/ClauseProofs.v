(* C02: the count clauses of the oracle (Sched/Oracle.c02_ranks_bit, c02_rpn_bit) hold on every grant of the model *)
From Coq Require Import ZArith List Bool Lia Arith.
From RP Require Import Sched.Model Sched.NodeMap Sched.FindProofs Sched.Inv Sched.SchedProofs Sched.ShapeProofs Sched.Oracle.
Import ListNotations.
Local Open Scope Z_scope.

Theorem count_clauses_hold_on_model_grant c s t off co tg sl :
  NoDup (map n_idx (nodes s)) -> wf_req t -> 0 <= r_ranks t -> 0 <= r_rpn t ->
  schedule_task c s t = inr (off, co, tg, Some sl) ->
  c02_ranks_bit t sl = true /\ c02_rpn_bit t sl = true.
Proof.
  intros Hnd Hwf Hr Hrpn H.
  destruct (schedule_task_shape c s t off co tg sl Hnd Hwf Hr H) as (Hlen & _ & Hcnt).
  split.
  - unfold c02_ranks_bit. apply Z.eqb_eq. exact Hlen.
  - unfold c02_rpn_bit. destruct (r_rpn t =? 0) eqn:E; [reflexivity|]. apply Z.eqb_neq in E.
    apply forallb_forall. intros x _. apply Z.leb_le.
    assert (Hpos : 0 < r_rpn t) by lia. specialize (Hcnt Hpos (s_node x)).
    unfold count_node. unfold count_on in Hcnt. exact Hcnt.
Qed.
