(* C04: bookkeeping facts of the scheduling loop. *)
From Coq Require Import ZArith List Bool Lia Arith Sorted Permutation.
From RP Require Import Sched.Model Sched.NodeMap Sched.Inv Sched.SchedProofs Sched.RunProofs.
Import ListNotations.
Local Open Scope Z_scope.

(* ---------------- priorities are served in descending order ---------------- *)
Lemma insert_desc_sorted (x : Z) l :
  StronglySorted (fun a b => b <= a) l -> StronglySorted (fun a b => b <= a) (insert_desc (fun p => p) x l).
Proof.
  induction l as [|y r IH]; simpl; intro H.
  - constructor; [constructor|constructor].
  - inversion H as [|? ? Hr Hy]; subst.
    destruct (y <=? x) eqn:E.
    + apply Z.leb_le in E. constructor; [exact H|].
      constructor; [exact E|]. rewrite Forall_forall in *. intros z Hz. specialize (Hy z Hz). lia.
    + apply Z.leb_gt in E. constructor; [apply IH; exact Hr|].
      rewrite Forall_forall in *. intros z Hz. apply insert_desc_in in Hz as [<-|Hz]; [lia|auto].
Qed.

Theorem prios_desc_sorted (wp : list (Z * list req)) :
  StronglySorted (fun a b => b <= a) (prios_desc wp).
Proof.
  unfold prios_desc, sort_desc. induction (map fst wp) as [|x r IH]; simpl; [constructor|].
  apply insert_desc_sorted. exact IH.
Qed.

Theorem prios_desc_complete (wp : list (Z * list req)) p : In p (prios_desc wp) <-> In p (map fst wp).
Proof. unfold prios_desc. apply sort_desc_in. Qed.

(* ---------------- a cancel request touches only the named tasks ---------------- *)
Lemma pool_remove_others u : forall wp o wp' t,
  pool_remove u wp = (o, wp') -> r_uid t <> u ->
  (In t (pool_reqs wp) <-> In t (pool_reqs wp')).
Proof.
  unfold pool_reqs. induction wp as [|[p l] r IH]; intros o wp' t E Hne; simpl in E.
  - injection E as _ <-. tauto.
  - destruct (find_req u l).
    + injection E as _ <-. simpl. rewrite !in_app_iff, filter_In.
      assert (negb (r_uid t =? u) = true) by (apply negb_true_iff, Z.eqb_neq; exact Hne). tauto.
    + destruct (pool_remove u r) as [o' r'] eqn:Er. injection E as _ <-. simpl.
      rewrite !in_app_iff. rewrite (IH _ _ t eq_refl Hne). tauto.
Qed.

Theorem cancel_only_named : forall us wp evs wp' evs' t,
  cancel_uids us wp evs = (wp', evs') -> ~ In (r_uid t) us ->
  (In t (pool_reqs wp) <-> In t (pool_reqs wp')).
Proof.
  induction us as [|u r IH]; intros wp evs wp' evs' t E Hn; simpl in E.
  - injection E as <- _. tauto.
  - assert (Hne : r_uid t <> u) by (intro K; apply Hn; left; auto).
    assert (Hn' : ~ In (r_uid t) r) by (intro K; apply Hn; right; exact K).
    destruct (pool_remove u wp) as [[x|] wp1] eqn:Er.
    + rewrite (pool_remove_others _ _ _ _ t Er Hne). eapply IH; eauto.
    + eapply IH; eauto.
Qed.

Theorem cancel_events_named : forall us wp evs wp' evs' e,
  cancel_uids us wp evs = (wp', evs') -> In e evs' -> In e evs \/ exists u, In u us /\ e = Canceled u.
Proof.
  induction us as [|u r IH]; intros wp evs wp' evs' e E He; simpl in E.
  - injection E as _ <-. auto.
  - destruct (pool_remove u wp) as [[x|] wp1] eqn:Er.
    + destruct (IH _ _ _ _ _ E He) as [K|(v & Hv & ->)].
      * apply in_app_iff in K as [K|[<-|[]]]; [auto|]. right. exists u. split; [left|]; reflexivity.
      * right. exists v. split; [right; exact Hv|reflexivity].
    + destruct (IH _ _ _ _ _ E He) as [K|(v & Hv & ->)]; [auto|].
      right. exists v. split; [right; exact Hv|reflexivity].
Qed.

(* ---------------- which exceptions schedule_task can raise ---------------- *)
Lemma find_one_err nd cps g lfs mem ci gi lu mu gu e :
  find_one nd cps g lfs mem ci gi lu mu gu = OneErr e -> e = EValue.
Proof.
  unfold find_one.
  destruct ((n_lfs nd - lu <? lfs) || (n_mem nd - mu <? mem)); [discriminate|].
  destruct (take_free (skipn ci (n_cores nd)) ci cps) as [cores ci'].
  destruct (length cores <? cps)%nat; [discriminate|].
  destruct (64 <=? g).
  - destruct (negb (g mod 64 =? 0)); [intro H; injection H as <-; reflexivity|].
    destruct (take_free (skipn gi (n_gpus nd)) gi (Z.to_nat (g / 64))) as [gp gi'].
    destruct (length gp <? Z.to_nat (g / 64))%nat; discriminate.
  - destruct (0 <? g); [|discriminate].
    destruct (take_share (skipn gi (n_gpus nd)) (skipn gi gu) gi g) as [[k|] gi']; discriminate.
Qed.

Lemma find_loop_err nd cps g lfs mem : forall n ci gi lu mu gu e,
  find_loop nd n cps g lfs mem ci gi lu mu gu = inl e -> e = EValue.
Proof.
  induction n as [|n IH]; intros ci gi lu mu gu e H; cbn [find_loop] in H; [discriminate|].
  destruct (find_one nd cps g lfs mem ci gi lu mu gu) as [e1| |s1 ci' gi' gu'] eqn:E1.
  - injection H as <-. eapply find_one_err; eauto.
  - discriminate.
  - destruct (find_loop nd n cps g lfs mem ci' gi' (lu + lfs) (mu + mem) gu') as [e2|r] eqn:E2; [|discriminate].
    injection H as <-. eapply IH; eauto.
Qed.

Lemma find_resources_err nd n cps g lfs mem partial e :
  find_resources nd n cps g lfs mem partial = inl e -> e = EValue.
Proof.
  unfold find_resources.
  destruct (find_loop nd n cps g lfs mem 0 0 0 0 (map (fun _ => 0) (n_gpus nd))) as [e1|sl] eqn:El.
  - intro H. injection H as <-. eapply find_loop_err; eauto.
  - destruct (negb partial && (length sl <? n)%nat); discriminate.
Qed.

Lemma node_loop_err c hist ne tg nn mpi spn rq cps g lfs mem : forall visit k st e k',
  node_loop c hist ne tg nn mpi spn rq cps g lfs mem visit k st = inl (e, k') -> e = EValue.
Proof.
  induction visit as [|nd0 rest IH]; intros k st e k' H; cbn [node_loop] in H; [discriminate|].
  match type of H with (if ?b then _ else _) = _ => destruct b end; [eapply IH; eauto|].
  match type of H with
  | match find_resources ?a ?b ?cc ?d ?e0 ?f ?pp with _ => _ end = _ =>
      destruct (find_resources a b cc d e0 f pp) as [e1|r] eqn:Ef
  end.
  - injection H as <- _. eapply find_resources_err; eauto.
  - destruct r as [[|s0 new]|].
    + eapply IH; eauto.
    + match type of H with (if ?b then _ else _) = _ => destruct b end; [discriminate|eapply IH; eauto].
    + eapply IH; eauto.
Qed.

Lemma schedule_task_err c s t e off :
  schedule_task c s t = inl (e, off) -> e = EValue \/ e = EAssert.
Proof.
  unfold schedule_task. intro H.
  repeat match type of H with (if ?b then _ else _) = _ =>
           destruct b; [injection H as <- _; auto|] end.
  match type of H with
  | match node_loop ?a ?b ?cc ?d ?e1 ?f ?g0 ?h ?i ?j ?k ?l ?v ?m ?st0 with _ => _ end = _ =>
      destruct (node_loop a b cc d e1 f g0 h i j k l v m st0) as [[e0 k0]|[st' k']] eqn:En
  end.
  - injection H as <- _. left. eapply node_loop_err; eauto.
  - destruct (0 <? rem st'); [discriminate|]. destruct (r_colo t); discriminate.
Qed.

(* ---------------- the "can never be scheduled" rule ---------------- *)
(* a task is failed for lack of resources only when nothing is held at all
   and the search on the (then initial) map finds nothing *)
Theorem never_rule_only_when_idle ns0 c s t s' :
  SInv ns0 s -> try_allocation c s t = (s', TFail ERuntime) ->
  heldg s = [] /\
  (exists off co tg, schedule_task c s t = inr (off, co, tg, None)) /\
  (forall n j, core_at (nodes s) n j = core_at ns0 n j) /\
  (forall n j, gpu_at (nodes s) n j = gpu_at ns0 n j) /\
  (forall n, lfs_at (nodes s) n = lfs_at ns0 n) /\ (forall n, mem_at (nodes s) n = mem_at ns0 n).
Proof.
  intros (I & _ & Hac) E. unfold try_allocation in E.
  destruct (schedule_task c s t) as [[e off]|[[[off co] tg] [sl|]]] eqn:Es.
  - exfalso. destruct (schedule_task_err _ _ _ _ _ Es) as [-> | ->]; injection E as _ K; discriminate.
  - injection E as _ K. discriminate.
  - destruct (active_cnt s =? 0) eqn:Ea; [|injection E as _ K; discriminate].
    apply Z.eqb_eq in Ea. rewrite Ea in Hac.
    assert (Hh : heldg s = []) by (destruct (heldg s); [reflexivity|simpl in Hac; lia]).
    split; [exact Hh|]. split; [eauto|]. rewrite Hh in I. apply inv_quiescent. exact I.
Qed.

(* on an idle pilot (nothing held) an allocation attempt never ends in "wait":
   the task is started if the search finds a placement and failed if not --
   a task waiting alone is started as soon as everything is released, or failed
   if it cannot fit even the idle pilot *)
Theorem idle_pilot_decides ns0 c s t s' res :
  SInv ns0 s -> heldg s = [] -> try_allocation c s t = (s', res) -> res <> TWait.
Proof.
  intros (_ & _ & Hac) Hh E. rewrite Hh in Hac. simpl in Hac. unfold try_allocation in E.
  destruct (schedule_task c s t) as [[e off]|[[[off co] tg] [sl|]]].
  - injection E as _ <-. discriminate.
  - injection E as _ <-. discriminate.
  - rewrite Hac in E. simpl in E. injection E as _ <-. discriminate.
Qed.
