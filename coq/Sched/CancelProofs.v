(* C08, scheduler side: what a cancel request does to waiting and arriving tasks. *)
From Coq Require Import ZArith List Bool Lia Arith.
From RP Require Import Sched.Model Sched.NodeMap Sched.Inv Sched.SchedProofs Sched.RunProofs Sched.LiveProofs.
Import ListNotations.
Local Open Scope Z_scope.

(* ---------------- the intake filter (a named task met later) ---------------- *)
Theorem intake_spec : forall ts cl evs keep cl' evs',
  intake ts cl evs = (keep, cl', evs') ->
  (* kept tasks are tasks of the bulk, in order; nothing is invented *)
  (forall t, In t keep -> In t ts) /\
  (* a task whose uid is not on the cancel list is kept *)
  (forall t, In t ts -> ~ In (r_uid t) cl -> In t keep) /\
  (* every event is CANCELED of a listed uid of the bulk, or was there before *)
  (forall e, In e evs' -> In e evs \/ exists t, In t ts /\ In (r_uid t) cl /\ e = Canceled (r_uid t)).
Proof.
  induction ts as [|t r IH]; intros cl evs keep cl' evs' E; cbn [intake] in E.
  - injection E as <- _ <-. repeat split; auto; try (intros t0 []); try contradiction.
  - destruct (zmem (r_uid t) cl) eqn:Ez.
    + destruct (IH _ _ _ _ _ E) as (A & B & C).
      assert (Hin : In (r_uid t) cl).
      { unfold zmem in Ez. apply existsb_exists in Ez as (x & Hx & Ex). apply Z.eqb_eq in Ex. subst. exact Hx. }
      split; [intros x Hx; right; apply A; exact Hx|]. split.
      * intros x [<-|Hx] Hn; [contradiction|]. apply B; [exact Hx|].
        intro K. apply Hn. clear -K. revert K. generalize (r_uid t) as u. intro u.
        induction cl as [|y l IHl]; simpl; [tauto|]. destruct (y =? u); simpl; [tauto|].
        intros [->|K]; [left; reflexivity|right; auto].
      * intros e He. destruct (C e He) as [K|(x & X1 & X2 & ->)].
        -- apply in_app_iff in K as [K|[<-|[]]]; [left; exact K|].
           right. exists t. split; [left; reflexivity|]. split; [exact Hin|reflexivity].
        -- right. exists x. split; [right; exact X1|]. split; [|reflexivity].
           clear -X2. revert X2. generalize (r_uid x) as v, (r_uid t) as u. intros v u.
           induction cl as [|y l IHl]; simpl; [tauto|]. destruct (y =? u); simpl; [tauto|].
           intros [->|K]; [left; reflexivity|right; auto].
    + destruct (intake r cl evs) as [[k c0] e0] eqn:Ei. injection E as <- <- <-.
      destruct (IH _ _ _ _ _ Ei) as (A & B & C).
      assert (Hnin : ~ In (r_uid t) cl).
      { intro K. unfold zmem in Ez. assert (existsb (Z.eqb (r_uid t)) cl = true).
        { apply existsb_exists. exists (r_uid t). split; [exact K|apply Z.eqb_refl]. } congruence. }
      split; [intros x [<-|Hx]; [left; reflexivity|right; apply A; exact Hx]|]. split.
      * intros x [<-|Hx] Hn; [left; reflexivity|right; apply B; assumption].
      * intros e He. destruct (C e He) as [K|(x & X1 & X2 & ->)]; [left; exact K|].
        right. exists x. split; [right; exact X1|auto].
Qed.

(* a named task met at intake is canceled there: it is not passed on *)
Theorem intake_named_not_kept : forall ts cl evs keep cl' evs' t,
  intake ts cl evs = (keep, cl', evs') -> NoDup (map r_uid ts) ->
  In t ts -> In (r_uid t) cl -> ~ In t keep.
Proof.
  induction ts as [|x r IH]; intros cl evs keep cl' evs' t E Hnd Hin Hcl; [destruct Hin|].
  cbn [intake] in E. inversion Hnd as [|? ? Hx Hr]; subst.
  destruct (zmem (r_uid x) cl) eqn:Ez.
  - destruct Hin as [->|Hin].
    + intro K. destruct (intake_spec _ _ _ _ _ _ E) as (A & _ & _).
      apply Hx. apply in_map. apply A. exact K.
    + eapply IH; eauto.
      (* uid of t is still listed after removing x's uid: the uids differ *)
      assert (r_uid x <> r_uid t) by (intro K; apply Hx; rewrite K; apply in_map; exact Hin).
      clear -Hcl H. revert Hcl. induction cl as [|y l IHl]; simpl; [tauto|].
      destruct (y =? r_uid x) eqn:E; [apply Z.eqb_eq in E; subst; intros [K|K]; [congruence|exact K]|].
      simpl. intros [->|K]; [left; reflexivity|right; auto].
  - destruct (intake r cl evs) as [[k c0] e0] eqn:Ei. injection E as <- _ _.
    destruct Hin as [->|Hin].
    + exfalso. unfold zmem in Ez. assert (existsb (Z.eqb (r_uid t)) cl = true).
      { apply existsb_exists. exists (r_uid t). split; [exact Hcl|apply Z.eqb_refl]. } congruence.
    + intros [->|K]; [apply Hx; apply in_map; exact Hin|].
      revert K. eapply IH; eauto.
Qed.

(* ---------------- a waiting task named in a request leaves the wait pool ---------------- *)
Lemma pool_remove_gone u : forall wp o wp',
  NoDup (uids (pool_reqs wp)) -> pool_remove u wp = (o, wp') -> ~ In u (uids (pool_reqs wp')).
Proof.
  unfold pool_reqs, uids. induction wp as [|[p l] r IH]; intros o wp' Hnd E; simpl in E.
  - injection E as _ <-. simpl. tauto.
  - simpl in Hnd. rewrite map_app in Hnd.
    destruct (find_req u l) as [t|] eqn:Ef.
    + injection E as _ <-. simpl. rewrite map_app, in_app_iff. intros [K|K].
      * apply in_map_iff in K as (x & X1 & X2). apply filter_In in X2 as [_ X2].
        apply negb_true_iff, Z.eqb_neq in X2. congruence.
      * (* u is in l (found), so by NoDup it is not in the rest *)
        assert (Hl : In u (map r_uid l)).
        { clear -Ef. induction l as [|y l IHl]; simpl in *; [discriminate|].
          destruct (r_uid y =? u) eqn:E; [apply Z.eqb_eq in E; left; exact E|right; auto]. }
        clear -Hnd Hl K. induction (map r_uid l) as [|y m IHm]; [destruct Hl|].
        simpl in Hnd. inversion Hnd as [|? ? Hy Hr]; subst. destruct Hl as [->|Hl].
        -- apply Hy. apply in_app_iff. right. exact K.
        -- apply IHm; assumption.
    + destruct (pool_remove u r) as [o' r'] eqn:Er. injection E as _ <-. simpl.
      rewrite map_app, in_app_iff. intros [K|K].
      * clear -Ef K. induction l as [|y l IHl]; simpl in *; [tauto|].
        destruct (r_uid y =? u) eqn:E; [discriminate|].
        destruct K as [K|K]; [apply Z.eqb_neq in E; congruence|auto].
      * revert K. eapply IH; [|reflexivity].
        clear -Hnd. induction (map r_uid l) as [|y m IHm]; [exact Hnd|].
        simpl in Hnd. inversion Hnd; subst. auto.
Qed.

Lemma pool_remove_incl u : forall wp o wp' t,
  pool_remove u wp = (o, wp') -> In t (pool_reqs wp') -> In t (pool_reqs wp).
Proof.
  unfold pool_reqs. induction wp as [|[p l] r IH]; intros o wp' t E H; simpl in E.
  - injection E as _ <-. exact H.
  - destruct (find_req u l).
    + injection E as _ <-. simpl in *. rewrite in_app_iff in *. destruct H as [H|H]; [|auto].
      apply filter_In in H as [H _]. auto.
    + destruct (pool_remove u r) as [o' r'] eqn:Er. injection E as _ <-. simpl in *.
      rewrite in_app_iff in *. destruct H as [H|H]; [auto|]. right. eapply IH; eauto.
Qed.

Lemma cancel_uids_incl : forall us wp evs wp' evs' t,
  cancel_uids us wp evs = (wp', evs') -> In t (pool_reqs wp') -> In t (pool_reqs wp).
Proof.
  induction us as [|u r IH]; intros wp evs wp' evs' t E H; simpl in E.
  - injection E as <- _. exact H.
  - destruct (pool_remove u wp) as [[x|] wp1] eqn:Er.
    + eapply pool_remove_incl; [exact Er|]. eapply IH; eauto.
    + eapply IH; eauto.
Qed.

Lemma NoDup_filter_map {A} (f : A -> Z) (p : A -> bool) l : NoDup (map f l) -> NoDup (map f (filter p l)).
Proof.
  induction l as [|x r IH]; simpl; intro H; [constructor|].
  inversion H as [|? ? Hx Hr]; subst. destruct (p x); simpl; [|auto].
  constructor; [|auto]. intro K. apply Hx. apply in_map_iff in K as (y & Y1 & Y2).
  apply filter_In in Y2 as [Y2 _]. apply in_map_iff. exists y. auto.
Qed.

(* removing a task from a pool keeps uids unique *)
Lemma pool_remove_nodup u : forall wp o wp',
  NoDup (uids (pool_reqs wp)) -> pool_remove u wp = (o, wp') -> NoDup (uids (pool_reqs wp')).
Proof.
  unfold pool_reqs, uids. induction wp as [|[p l] r IH]; intros o wp' Hnd E; simpl in E.
  - injection E as _ <-. exact Hnd.
  - simpl in Hnd. rewrite map_app in Hnd.
    assert (Hsplit : forall (a a' b b' : list Z), NoDup (a ++ b) -> NoDup a' -> NoDup b' ->
                       incl a' a -> incl b' b -> NoDup (a' ++ b')).
    { clear. induction a' as [|x a' IHa]; intros b b' H Ha Hb Ia Ib; simpl; [exact Hb|].
      inversion Ha as [|? ? Hx Hr]; subst. constructor.
      - rewrite in_app_iff. intros [K|K]; [contradiction|].
        assert (In x a) by (apply Ia; left; reflexivity). assert (In x b) by (apply Ib; exact K).
        clear -H H0 H1. induction a as [|y a IH]; [destruct H0|]. simpl in H. inversion H; subst.
        destruct H0 as [->|H0]; [apply H4; apply in_app_iff; right; exact H1|auto].
      - eapply IHa; eauto. intros y Hy. apply Ia. right. exact Hy. }
    destruct (find_req u l).
    + injection E as _ <-. simpl. rewrite map_app.
      eapply Hsplit; [exact Hnd| | | |apply incl_refl].
      * apply NoDup_filter_map. clear -Hnd. induction (map r_uid l) as [|y m IHm]; [constructor|].
        simpl in Hnd. inversion Hnd; subst. constructor; [intro K; apply H1; apply in_app_iff; left; exact K|auto].
      * clear -Hnd. induction (map r_uid l) as [|y m IHm]; [exact Hnd|]. simpl in Hnd. inversion Hnd; auto.
      * intros y Hy. apply in_map_iff in Hy as (z & Z1 & Z2). apply filter_In in Z2 as [Z2 _].
        apply in_map_iff. exists z. auto.
    + destruct (pool_remove u r) as [o' r'] eqn:Er. injection E as _ <-. simpl. rewrite map_app.
      assert (Hr : NoDup (map r_uid (concat (map snd r)))).
      { clear -Hnd. induction (map r_uid l) as [|y m IHm]; [exact Hnd|]. simpl in Hnd. inversion Hnd; auto. }
      eapply Hsplit; [exact Hnd| |eapply IH; [exact Hr|reflexivity]|apply incl_refl|].
      * clear -Hnd. induction (map r_uid l) as [|y m IHm]; [constructor|].
        simpl in Hnd. inversion Hnd; subst. constructor; [intro K; apply H1; apply in_app_iff; left; exact K|auto].
      * intros y Hy. apply in_map_iff in Hy as (z & Z1 & Z2). apply in_map_iff. exists z. split; [exact Z1|].
        eapply (pool_remove_incl u r o' r'); eauto.
Qed.

Lemma find_req_none u l : find_req u l = None -> forall t, In t l -> r_uid t <> u.
Proof.
  induction l as [|y l IH]; simpl; intros H t Ht; [destruct Ht|].
  destruct (r_uid y =? u) eqn:E; [discriminate|]. apply Z.eqb_neq in E.
  destruct Ht as [<-|Ht]; [exact E|auto].
Qed.

Lemma pool_remove_none u : forall wp wp1,
  pool_remove u wp = (None, wp1) -> forall t, In t (pool_reqs wp) -> r_uid t <> u.
Proof.
  unfold pool_reqs. induction wp as [|[p l] r IH]; intros wp1 E t Ht; simpl in *; [destruct Ht|].
  destruct (find_req u l) eqn:Ef; [discriminate|].
  destruct (pool_remove u r) as [o' r'] eqn:E2. injection E as -> _.
  apply in_app_iff in Ht as [Ht|Ht]; [eapply find_req_none; eauto|eapply IH; eauto].
Qed.

(* every named uid has left the wait pool after the request was processed *)
Theorem cancel_named_gone : forall us wp evs wp' evs' u,
  NoDup (uids (pool_reqs wp)) -> cancel_uids us wp evs = (wp', evs') -> In u us ->
  ~ In u (uids (pool_reqs wp')).
Proof.
  induction us as [|v r IH]; intros wp evs wp' evs' u Hnd E Hin; [destruct Hin|]. simpl in E.
  destruct (pool_remove v wp) as [[x|] wp1] eqn:Er.
  - pose proof (pool_remove_nodup _ _ _ _ Hnd Er) as Hnd1.
    destruct Hin as [->|Hin]; [|eapply IH; eauto].
    intro K. apply (pool_remove_gone _ _ _ _ Hnd Er).
    unfold uids in *. apply in_map_iff in K as (t & T1 & T2). apply in_map_iff. exists t. split; [exact T1|].
    eapply cancel_uids_incl; eauto.
  - destruct Hin as [->|Hin]; [|eapply IH; eauto].
    (* u was not waiting at all *)
    intro K. unfold uids in K. apply in_map_iff in K as (t & T1 & T2).
    pose proof (cancel_uids_incl _ _ _ _ _ _ E T2) as Hw.
    apply (pool_remove_none _ _ _ Er t Hw). exact T1.
Qed.

(* a waiting task that is named gets exactly the CANCELED event *)
Theorem cancel_named_event : forall us wp evs wp' evs' u,
  cancel_uids us wp evs = (wp', evs') -> In u us -> In u (uids (pool_reqs wp)) ->
  NoDup (uids (pool_reqs wp)) -> In (Canceled u) evs'.
Proof.
  induction us as [|v r IH]; intros wp evs wp' evs' u E Hin Hw Hnd; [destruct Hin|]. simpl in E.
  assert (Hmono : forall us0 wp0 evs0 wp1 evs1 e, cancel_uids us0 wp0 evs0 = (wp1, evs1) -> In e evs0 -> In e evs1).
  { clear. induction us0 as [|a r IH]; intros wp0 evs0 wp1 evs1 e E H; simpl in E.
    - injection E as _ <-. exact H.
    - destruct (pool_remove a wp0) as [[x|] w1]; eapply IH; eauto. apply in_app_iff. left. exact H. }
  destruct (pool_remove v wp) as [[x|] wp1] eqn:Er.
  - destruct (Z.eq_dec v u) as [->|Hne].
    + eapply Hmono; [exact E|]. apply in_app_iff. right. left. reflexivity.
    + destruct Hin as [->|Hin]; [congruence|].
      eapply IH; [exact E|exact Hin| |eapply pool_remove_nodup; eauto].
      unfold uids in *. apply in_map_iff in Hw as (t & T1 & T2). apply in_map_iff. exists t. split; [exact T1|].
      apply (pool_remove_others v wp _ wp1 t Er); [congruence|exact T2].
  - destruct (Z.eq_dec v u) as [->|Hne].
    + (* u is waiting, so pool_remove must have found it *)
      exfalso. unfold uids in Hw. apply in_map_iff in Hw as (t & T1 & T2).
      apply (pool_remove_none _ _ _ Er t T2). exact T1.
    + destruct Hin as [->|Hin]; [congruence|]. eapply IH; eauto.
Qed.

(* the post-insert check: a task that must wait but was named meanwhile is
   canceled instead of being parked *)
Theorem pool_insert_named p : forall ts wp cl evs wp' cl' evs' t,
  pool_insert p ts wp cl evs = (wp', cl', evs') -> NoDup (map r_uid ts) ->
  In t ts -> In (r_uid t) cl -> In (Canceled (r_uid t)) evs'.
Proof.
  assert (Hmono : forall ts wp cl evs wp' cl' evs' e,
            pool_insert p ts wp cl evs = (wp', cl', evs') -> In e evs -> In e evs').
  { induction ts as [|x r IH]; intros wp cl evs wp' cl' evs' e E H; cbn [pool_insert] in E.
    - injection E as _ _ <-. exact H.
    - destruct (zmem (r_uid x) cl); eapply IH; eauto. apply in_app_iff. left. exact H. }
  induction ts as [|x r IH]; intros wp cl evs wp' cl' evs' t E Hnd Hin Hcl; [destruct Hin|].
  cbn [pool_insert] in E. inversion Hnd as [|? ? Hx Hr]; subst.
  destruct (zmem (r_uid x) cl) eqn:Ez.
  - destruct Hin as [->|Hin].
    + eapply Hmono; [exact E|]. apply in_app_iff. right. left. reflexivity.
    + eapply IH; eauto.
      assert (r_uid x <> r_uid t) by (intro K; apply Hx; rewrite K; apply in_map; exact Hin).
      clear -Hcl H. revert Hcl. induction cl as [|y l IHl]; simpl; [tauto|].
      destruct (y =? r_uid x) eqn:E; [apply Z.eqb_eq in E; subst; intros [K|K]; [congruence|exact K]|].
      simpl. intros [->|K]; [left; reflexivity|right; auto].
  - destruct Hin as [->|Hin].
    + exfalso. unfold zmem in Ez. assert (existsb (Z.eqb (r_uid t)) cl = true).
      { apply existsb_exists. exists (r_uid t). split; [exact Hcl|apply Z.eqb_refl]. } congruence.
    + eapply IH; eauto.
Qed.
