(* schedule_task returns a placement that is fresh with respect to the node
   map it searched (Continuous.schedule_task + _find_resources). *)
From Coq Require Import ZArith List Bool Lia Arith Permutation.
From RP Require Import Sched.Model Sched.ListAux Sched.NodeMap Sched.FindProofs Sched.Inv.
Import ListNotations.
Local Open Scope Z_scope.

Lemma gsh_gshare k gl : gsh k gl = gshare k gl.
Proof. induction gl as [|[i u] r IH]; simpl; [reflexivity|]. rewrite IH. reflexivity. Qed.

Lemma find_node_in ns : NoDup (map n_idx ns) -> forall nd, In nd ns -> find_node (n_idx nd) ns = Some nd.
Proof.
  induction ns as [|x r IH]; simpl; intros Hn nd Hin; [contradiction|].
  inversion Hn as [|? ? Hx Hr]; subst.
  destruct Hin as [->|Hin]; [rewrite Z.eqb_refl; reflexivity|].
  destruct (n_idx x =? n_idx nd) eqn:E; [|apply IH; assumption].
  apply Z.eqb_eq in E. exfalso. apply Hx. rewrite E. apply in_map. exact Hin.
Qed.

Lemma find_node_some ns n nd : find_node n ns = Some nd -> In nd ns /\ n_idx nd = n.
Proof.
  induction ns as [|x r IH]; simpl; [discriminate|].
  destruct (n_idx x =? n) eqn:E.
  - intro H. injection H as ->. apply Z.eqb_eq in E. auto.
  - intro H. destruct (IH H). auto.
Qed.

(* slots of a list that all sit on other nodes contribute nothing at node n *)
Lemma count_c_other n j sls : (forall s, In s sls -> s_node s <> n) -> count_c n j sls = 0.
Proof.
  unfold count_c. induction sls as [|x r IH]; cbn [fold_right]; intro H; [reflexivity|].
  rewrite IH by (intros s Hs; apply H; right; exact Hs).
  unfold cnt1_c. assert (s_node x <> n) by (apply H; left; reflexivity).
  destruct (n =? s_node x) eqn:E; [apply Z.eqb_eq in E; congruence|reflexivity].
Qed.
Lemma gshare_at_other n j sls : (forall s, In s sls -> s_node s <> n) -> gshare_at n j sls = 0.
Proof.
  unfold gshare_at. induction sls as [|x r IH]; cbn [fold_right]; intro H; [reflexivity|].
  rewrite IH by (intros s Hs; apply H; right; exact Hs).
  assert (s_node x <> n) by (apply H; left; reflexivity).
  destruct (n =? s_node x) eqn:E; [apply Z.eqb_eq in E; congruence|reflexivity].
Qed.
Lemma sum_lfs_other n sls : (forall s, In s sls -> s_node s <> n) -> sum_lfs n sls = 0.
Proof.
  unfold sum_lfs. induction sls as [|x r IH]; cbn [fold_right]; intro H; [reflexivity|].
  rewrite IH by (intros s Hs; apply H; right; exact Hs).
  assert (s_node x <> n) by (apply H; left; reflexivity).
  destruct (n =? s_node x) eqn:E; [apply Z.eqb_eq in E; congruence|reflexivity].
Qed.
Lemma sum_mem_other n sls : (forall s, In s sls -> s_node s <> n) -> sum_mem n sls = 0.
Proof.
  unfold sum_mem. induction sls as [|x r IH]; cbn [fold_right]; intro H; [reflexivity|].
  rewrite IH by (intros s Hs; apply H; right; exact Hs).
  assert (s_node x <> n) by (apply H; left; reflexivity).
  destruct (n =? s_node x) eqn:E; [apply Z.eqb_eq in E; congruence|reflexivity].
Qed.

(* slots that all sit on node n *)
Lemma count_c_same n j sls :
  (forall s, In s sls -> s_node s = n) ->
  count_c n j sls = Z.of_nat (count_occ Nat.eq_dec (all_cores sls) j).
Proof.
  unfold count_c, all_cores. induction sls as [|x r IH]; cbn [fold_right map concat]; intro H; [reflexivity|].
  rewrite IH by (intros s Hs; apply H; right; exact Hs).
  unfold cnt1_c. rewrite (H x (or_introl eq_refl)), Z.eqb_refl.
  rewrite count_occ_app. lia.
Qed.
Lemma gshare_at_same n j sls :
  (forall s, In s sls -> s_node s = n) -> gshare_at n j sls = share_on j sls.
Proof.
  unfold gshare_at. induction sls as [|x r IH]; cbn [fold_right share_on]; intro H; [reflexivity|].
  rewrite IH by (intros s Hs; apply H; right; exact Hs).
  rewrite (H x (or_introl eq_refl)), Z.eqb_refl, gsh_gshare. reflexivity.
Qed.
Lemma sum_lfs_same n sls lfs :
  (forall s, In s sls -> s_node s = n /\ s_lfs s = lfs) -> sum_lfs n sls = lfs * Z.of_nat (length sls).
Proof.
  unfold sum_lfs. induction sls as [|x r IH]; cbn [fold_right length]; intro H; [lia|].
  rewrite IH by (intros s Hs; apply H; right; exact Hs).
  destruct (H x (or_introl eq_refl)) as [-> ->]. rewrite Z.eqb_refl. lia.
Qed.
Lemma sum_mem_same n sls mem :
  (forall s, In s sls -> s_node s = n /\ s_mem s = mem) -> sum_mem n sls = mem * Z.of_nat (length sls).
Proof.
  unfold sum_mem. induction sls as [|x r IH]; cbn [fold_right length]; intro H; [lia|].
  rewrite IH by (intros s Hs; apply H; right; exact Hs).
  destruct (H x (or_introl eq_refl)) as [-> ->]. rewrite Z.eqb_refl. lia.
Qed.

Lemma NoDup_count_le1 (l : list nat) j : NoDup l -> (count_occ Nat.eq_dec l j <= 1)%nat.
Proof. intro H. apply (proj1 (NoDup_count_occ Nat.eq_dec l) H). Qed.

(* ---------------- accumulating slots node by node ---------------- *)
Definition slot_ok (ns : list node) (s : slot) : Prop :=
  (exists nd, In nd ns /\ s_node s = n_idx nd /\
              (forall i, In i (s_cores s) -> core_free nd i) /\
              (forall k u, In (k, u) (s_gpus s) -> gpu_free nd k /\ 0 < u <= 64)) /\
  0 <= s_lfs s /\ 0 <= s_mem s.

Record acc_ok (ns visit : list node) (alc : list slot) : Prop := {
  ao_s : forall s, In s alc -> slot_ok ns s /\ ~ In (s_node s) (map n_idx visit);
  ao_c : forall n j, count_c n j alc <= 1;
  ao_g : forall n j, gshare_at n j alc <= 64;
  ao_l : forall n nd, find_node n ns = Some nd -> sum_lfs n alc <= n_lfs nd;
  ao_m : forall n nd, find_node n ns = Some nd -> sum_mem n alc <= n_mem nd }.

Definition nodes_nonneg (ns : list node) : Prop := forall nd, In nd ns -> 0 <= n_lfs nd /\ 0 <= n_mem nd.

Lemma acc_nil ns visit : nodes_nonneg ns -> acc_ok ns visit [].
Proof.
  intro H. constructor; simpl.
  - intros s [].
  - intros; unfold count_c; simpl; lia.
  - intros; unfold gshare_at; simpl; lia.
  - intros n nd Hf. unfold sum_lfs. simpl. apply find_node_some in Hf as [Hin _]. apply H; exact Hin.
  - intros n nd Hf. unfold sum_mem. simpl. apply find_node_some in Hf as [Hin _]. apply H; exact Hin.
Qed.

Lemma acc_skip ns nd0 rest alc : acc_ok ns (nd0 :: rest) alc -> acc_ok ns rest alc.
Proof.
  intros [A B C D E]. constructor; auto.
  intros s Hs. destruct (A s Hs) as [H1 H2]. split; [exact H1|]. intro K. apply H2. simpl. right. exact K.
Qed.

Lemma zeros_nth (l : list occ) k : nth k (map (fun _ => 0) l) 0 = 0.
Proof. revert k. induction l as [|x l IH]; intros [|k]; simpl; auto. Qed.

Lemma acc_step ns nd0 rest alc n cps g lfs mem new :
  NoDup (map n_idx ns) -> nodes_nonneg ns -> In nd0 ns -> NoDup (map n_idx (nd0 :: rest)) ->
  0 <= g -> 0 <= lfs -> 0 <= mem ->
  acc_ok ns (nd0 :: rest) alc ->
  find_loop nd0 n cps g lfs mem 0 0 0 0 (map (fun _ => 0) (n_gpus nd0)) = inr new ->
  acc_ok ns rest (alc ++ new).
Proof.
  intros Hnd Hnn Hin Hv Hg Hl Hm [A B C D E] Hf.
  destruct (find_loop_basic _ _ _ _ _ _ _ _ _ _ _ _ Hl Hm Hf) as (_ & F1 & F2 & F3 & F4).
  assert (Hz : forall k, 0 <= nth k (map (fun _ : occ => 0) (n_gpus nd0)) 0) by (intro k; rewrite zeros_nth; lia).
  assert (Hz2 : 64 <= g -> forall k, nth k (map (fun _ : occ => 0) (n_gpus nd0)) 0 = 0)
    by (intros _ k; apply zeros_nth).
  assert (Hlen : length (map (fun _ : occ => 0) (n_gpus nd0)) = length (n_gpus nd0)) by apply map_length.
  destruct (find_loop_gpus _ _ _ _ _ _ _ _ _ _ _ _ Hg Hz Hz2 Hlen Hf) as (G1 & G2 & _ & _).
  rewrite Forall_forall in F1.
  assert (Hnew_node : forall s, In s new -> s_node s = n_idx nd0) by (intros s Hs; apply (F1 s Hs)).
  assert (Halc_node : forall s, In s alc -> s_node s <> n_idx nd0).
  { intros s Hs K. destruct (A s Hs) as [_ H2]. apply H2. simpl. left. auto. }
  inversion Hv as [|? ? Hx Hr]; subst.
  constructor.
  - intros s Hs. apply in_app_iff in Hs as [Hs|Hs].
    + destruct (A s Hs) as [H1 H2]. split; [exact H1|]. intro K. apply H2. simpl. right. exact K.
    + destruct (F1 s Hs) as (S1 & S2 & S3 & S4 & S5). split.
      * split; [|lia]. exists nd0. repeat split; auto.
        -- apply (G1 s Hs k u H).
        -- apply (G1 s Hs k u H).
        -- apply (G1 s Hs k u H).
      * rewrite S1. exact Hx.
  - intros n0 j. rewrite count_c_app.
    destruct (Z.eq_dec n0 (n_idx nd0)) as [->|Hne].
    + rewrite (count_c_other _ j alc Halc_node), (count_c_same _ j new Hnew_node).
      pose proof (NoDup_count_le1 (all_cores new) j (incr_from_NoDup _ _ F2)). lia.
    + rewrite (count_c_other n0 j new) by (intros s Hs; rewrite (Hnew_node s Hs); congruence).
      specialize (B n0 j). lia.
  - intros n0 j. rewrite gshare_at_app.
    destruct (Z.eq_dec n0 (n_idx nd0)) as [->|Hne].
    + rewrite (gshare_at_other _ j alc Halc_node), (gshare_at_same _ j new Hnew_node).
      destruct (G2 j) as [K|K]; [lia|]. rewrite zeros_nth in K. lia.
    + rewrite (gshare_at_other n0 j new) by (intros s Hs; rewrite (Hnew_node s Hs); congruence).
      specialize (C n0 j). lia.
  - intros n0 nd Hfn. rewrite sum_lfs_app.
    destruct (Z.eq_dec n0 (n_idx nd0)) as [->|Hne].
    + rewrite (find_node_in ns Hnd nd0 Hin) in Hfn. injection Hfn as <-.
      rewrite (sum_lfs_other _ alc Halc_node).
      rewrite (sum_lfs_same _ new lfs) by (intros s Hs; destruct (F1 s Hs) as (? & ? & _); auto).
      destruct F3 as [->|F3]; simpl; [destruct (Hnn nd0 Hin); lia|lia].
    + rewrite (sum_lfs_other n0 new) by (intros s Hs; rewrite (Hnew_node s Hs); congruence).
      specialize (D n0 nd Hfn). lia.
  - intros n0 nd Hfn. rewrite sum_mem_app.
    destruct (Z.eq_dec n0 (n_idx nd0)) as [->|Hne].
    + rewrite (find_node_in ns Hnd nd0 Hin) in Hfn. injection Hfn as <-.
      rewrite (sum_mem_other _ alc Halc_node).
      rewrite (sum_mem_same _ new mem) by (intros s Hs; destruct (F1 s Hs) as (? & ? & ? & _); auto).
      destruct F4 as [->|F4]; simpl; [destruct (Hnn nd0 Hin); lia|lia].
    + rewrite (sum_mem_other n0 new) by (intros s Hs; rewrite (Hnew_node s Hs); congruence).
      specialize (E n0 nd Hfn). lia.
Qed.

(* ---------------- the node loop ---------------- *)
Lemma find_resources_loop nd n cps g lfs mem partial l :
  find_resources nd n cps g lfs mem partial = inr (Some l) ->
  find_loop nd n cps g lfs mem 0 0 0 0 (map (fun _ => 0) (n_gpus nd)) = inr l.
Proof.
  unfold find_resources.
  destruct (find_loop nd n cps g lfs mem 0 0 0 0 (map (fun _ => 0) (n_gpus nd))) as [e|sl]; [discriminate|].
  destruct (negb partial && (length sl <? n)%nat); [discriminate|]. intro H. injection H as ->. reflexivity.
Qed.

Lemma node_loop_acc c hist ne tg nn mpi spn rq cps g lfs mem ns :
  NoDup (map n_idx ns) -> nodes_nonneg ns -> 0 <= g -> 0 <= lfs -> 0 <= mem ->
  forall visit k st st' k',
    incl visit ns -> NoDup (map n_idx visit) ->
    acc_ok ns visit (alc st) ->
    node_loop c hist ne tg nn mpi spn rq cps g lfs mem visit k st = inr (st', k') ->
    acc_ok ns [] (alc st').
Proof.
  intros Hnd Hnn Hg Hl Hm.
  induction visit as [|nd0 rest IH]; intros k st st' k' Hincl Hv Hacc H; cbn [node_loop] in H.
  - injection H as <- _. exact Hacc.
  - assert (Hincl' : incl rest ns) by (intros x Hx; apply Hincl; right; exact Hx).
    assert (Hv' : NoDup (map n_idx rest)) by (inversion Hv; assumption).
    assert (Hin0 : In nd0 ns) by (apply Hincl; left; reflexivity).
    match type of H with (if ?b then _ else _) = _ => destruct b end.
    { eapply IH; eauto using acc_skip. }
    match type of H with
    | match find_resources ?a ?b ?cc ?d ?e ?f ?pp with _ => _ end = _ =>
        destruct (find_resources a b cc d e f pp) as [e0|r] eqn:Ef; [discriminate|]
    end.
    destruct r as [[|s0 new]|].
    + (* Some [] *)
      match type of H with node_loop _ _ _ _ _ _ _ _ _ _ _ _ _ _ ?stx = _ =>
        eapply (IH _ stx); eauto end.
      destruct (scattered c); simpl; [eapply acc_skip; exact Hacc|apply acc_nil; exact Hnn].
    + (* Some (s0 :: new) *)
      apply find_resources_loop in Ef.
      assert (Hstep : acc_ok ns rest (alc st ++ s0 :: new)).
      { exact (acc_step ns nd0 rest (alc st) _ _ _ _ _ (s0 :: new) Hnd Hnn Hin0 Hv Hg Hl Hm Hacc Ef). }
      cbn [alc] in H.
      match type of H with (if ?b then _ else _) = _ => destruct b end.
      * injection H as <- _. simpl. constructor; try apply Hstep.
        intros s Hs. destruct (ao_s _ _ _ Hstep s Hs) as [K _]. split; [exact K|intros []].
      * match type of H with node_loop _ _ _ _ _ _ _ _ _ _ _ _ _ _ ?stx = _ =>
          eapply (IH _ stx); eauto end.
    + (* None *)
      match type of H with node_loop _ _ _ _ _ _ _ _ _ _ _ _ _ _ ?stx = _ =>
        eapply (IH _ stx); eauto end.
      destruct (scattered c); simpl; [eapply acc_skip; exact Hacc|apply acc_nil; exact Hnn].
Qed.

Lemma acc_fresh ns alc : NoDup (map n_idx ns) -> acc_ok ns [] alc -> fresh ns alc.
Proof.
  intros Hnd [A B C D E]. constructor; auto.
  - intros n j H. unfold touched_c in H. apply existsb_exists in H as (s & Hs & Ht).
    unfold touch_c in Ht. apply andb_true_iff in Ht as [T1 T2]. apply Z.eqb_eq in T1.
    apply existsb_exists in T2 as (i & Hi & Ei). apply Nat.eqb_eq in Ei. subst i.
    destruct (A s Hs) as [[(nd & N1 & N2 & N3 & N4) _] _].
    unfold core_at. rewrite T1, N2, (find_node_in ns Hnd nd N1). apply N3, Hi.
  - intros n j H. unfold touched_g in H. apply existsb_exists in H as (s & Hs & Ht).
    unfold touch_g in Ht. apply andb_true_iff in Ht as [T1 T2]. apply Z.eqb_eq in T1.
    apply existsb_exists in T2 as ([i u] & Hi & Ei). simpl in Ei. apply Nat.eqb_eq in Ei. subst i.
    destruct (A s Hs) as [[(nd & N1 & N2 & N3 & N4) _] _].
    unfold gpu_at. rewrite T1, N2, (find_node_in ns Hnd nd N1). apply (N4 j u Hi).
  - intros n x H. unfold lfs_at in H. destruct (find_node n ns) as [nd|] eqn:Ef; [|discriminate].
    simpl in H. injection H as <-. apply (D n nd Ef).
  - intros n x H. unfold mem_at in H. destruct (find_node n ns) as [nd|] eqn:Ef; [|discriminate].
    simpl in H. injection H as <-. apply (E n nd Ef).
  - intros s Hs. destruct (A s Hs) as [[(nd & N1 & N2 & N3 & N4) [L M]] _].
    repeat split; auto. intros i u Hi. destruct (N4 i u Hi). lia.
Qed.

Lemma rotate_perm {A} (k : nat) (l : list A) : Permutation (rotate k l) l.
Proof.
  unfold rotate. rewrite <- (firstn_skipn k l) at 3. apply Permutation_app_comm.
Qed.

(* well-formed requests: what TaskDescription verification guarantees *)
Definition wf_req (t : req) : Prop := 0 <= r_gpr t /\ 0 <= r_lfs t /\ 0 <= r_mem t.

Theorem schedule_task_fresh c s t off co tg sl :
  NoDup (map n_idx (nodes s)) -> nodes_nonneg (nodes s) -> wf_req t ->
  schedule_task c s t = inr (off, co, tg, Some sl) ->
  fresh (nodes s) sl.
Proof.
  intros Hnd Hnn (Hg & Hl & Hm) H. unfold schedule_task in H.
  repeat match type of H with (if ?b then _ else _) = _ => destruct b; [discriminate|] end.
  match type of H with
  | match node_loop ?a ?b ?cc ?d ?e ?f ?g0 ?h ?i ?j ?k ?l ?v ?m ?st0 with _ => _ end = _ =>
      destruct (node_loop a b cc d e f g0 h i j k l v m st0) as [[e0 k0]|[st' k']] eqn:En; [discriminate|]
  end.
  assert (Hacc : acc_ok (nodes s) [] (alc st')).
  { refine (node_loop_acc _ _ _ _ _ _ _ _ _ _ _ _ (nodes s) Hnd Hnn Hg Hl Hm _ _ _ _ _ _ _ _ En);
      [| |apply acc_nil; exact Hnn].
    - intros x Hx. apply (Permutation_in _ (rotate_perm (offset s) (nodes s))). exact Hx.
    - apply (Permutation_NoDup (Permutation_sym (Permutation_map n_idx (rotate_perm (offset s) (nodes s))))).
      exact Hnd. }
  destruct (0 <? rem st'); [discriminate|].
  destruct (r_colo t); injection H as _ _ _ <-; apply acc_fresh; assumption.
Qed.
