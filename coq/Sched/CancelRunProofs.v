(* C08, scheduler side, for whole histories: a named task does not wait once
   its request has been consumed.

   M-invariant: a task that waits in a pool AND is on the cancel list has its
   CANCEL queue item still pending, or belongs to a request of which only the
   registration half has happened so far (ghost multiset [half]).
   J-invariant: a registered uid stays on the cancel list until it has a
   terminal event.
   With the conservation theorem (ConsProofs: a uid with unique arrival is in
   at most one place) they give: after any history, a registered uid that is
   still waiting has its CANCEL item pending or its request half-delivered. *)
From Coq Require Import ZArith List Bool Lia.
From RP Require Import Sched.Model Sched.ConsProofs Sched.CancelProofs.
Import ListNotations.
Open Scope Z_scope.

Definition QC (q : list qitem) : list Z :=
  concat (map (fun it => match it with QSched _ => [] | QCancel us => us end) q).

Lemma QC_app a b : QC (a ++ b) = QC a ++ QC b.
Proof. unfold QC. rewrite map_app, concat_app. reflexivity. Qed.

Fixpoint remove_all (us : list Z) (l : list Z) : list Z :=
  match us with [] => l | u :: r => remove_all r (remove_one u l) end.

(* ghost: uids registered by a CancelReg whose CancelQ has not happened yet *)
Definition half_step (o : op) (h : list Z) : list Z :=
  match o with CancelReg us => h ++ us | CancelQ us => remove_all us h | _ => h end.
Definition half (ops : list op) (h : list Z) : list Z := fold_left (fun h o => half_step o h) ops h.

Definition reg_step (o : op) (r : list Z) : list Z :=
  match o with CancelReg us => r ++ us | CancelMsg us => r ++ us | _ => r end.
Definition registered (ops : list op) (r : list Z) : list Z := fold_left (fun r o => reg_step o r) ops r.

(* ---------------- small list facts ---------------- *)
Lemma in_remove_one u x : forall l, In u (remove_one x l) -> In u l.
Proof.
  induction l as [|y l IH]; simpl; [tauto|]. destruct (y =? x); [tauto|]. simpl. intros [->|K]; auto.
Qed.

Lemma in_remove_one_other u x : forall l, In u l -> u <> x -> In u (remove_one x l).
Proof.
  induction l as [|y l IH]; simpl; [tauto|]. intros [->|K] Hne.
  - destruct (u =? x) eqn:E; [apply Z.eqb_eq in E; contradiction|]. left. reflexivity.
  - destruct (y =? x); [exact K|]. right. auto.
Qed.

Lemma in_remove_all u : forall us l, In u l -> In u (remove_all us l) \/ In u us.
Proof.
  induction us as [|x r IH]; intros l Hl; simpl; [left; exact Hl|].
  destruct (Z.eq_dec u x) as [->|Hne]; [right; left; reflexivity|].
  destruct (IH _ (in_remove_one_other _ _ _ Hl Hne)); [left|right; right]; assumption.
Qed.

Lemma zmem_in u l : zmem u l = true <-> In u l.
Proof.
  unfold zmem. rewrite existsb_exists. split.
  - intros (x & Hx & E). apply Z.eqb_eq in E. subst. exact Hx.
  - intros H. exists u. split; [exact H|apply Z.eqb_refl].
Qed.

Lemma cz_zero_notin u l : cz u l <= 0 -> ~ In u l.
Proof. intros H K. apply cz_pos_in in K. lia. Qed.

(* ---------------- the wait-pool pass ---------------- *)
Lemma bisect_replay_cl c pool : forall evs s s' good bad fail,
  bisect_replay c s pool evs = Some (s', good, bad, fail) -> cancel_list s' = cancel_list s.
Proof.
  induction evs as [|[v chk] r IH]; intros s s' good bad fail H; cbn [bisect_replay] in H.
  - injection H as <- _ _ _. reflexivity.
  - destruct (find_req v pool) as [t|]; [|discriminate]. destruct chk.
    + destruct (try_allocation c s t) as [s1 res] eqn:Et. destruct (try_allocation_frame _ _ _ _ _ Et) as [_ F].
      destruct (bisect_replay c s1 pool r) as [[[[s2 g2] b2] f2]|] eqn:Er; [|discriminate].
      specialize (IH _ _ _ _ _ Er). destruct res; injection H as <- _ _ _; congruence.
    + destruct (bisect_replay c s pool r) as [[[[s2 g2] b2] f2]|] eqn:Er; [|discriminate].
      specialize (IH _ _ _ _ _ Er). injection H as <- _ _ _. exact IH.
Qed.

Lemma waitpool_loop_cl c : forall prios s strat res act evs s' strat' res' act' evs',
  waitpool_loop c s prios strat res act evs = Some (s', strat', res', act', evs') ->
  cancel_list s' = cancel_list s.
Proof.
  induction prios as [|p ps IH]; intros s strat res act evs s' strat' res' act' evs' H; cbn [waitpool_loop] in H.
  - injection H as <- _ _ _ _. reflexivity.
  - destruct (match zlookup p (waitpool s) with Some l => l | None => [] end) as [|t0 pool0].
    + eapply IH; eassumption.
    + destruct (sort_desc ts_product (filter (env_ok s) (t0 :: pool0))) as [|x xs].
      * eapply IH; eassumption.
      * destruct strat as [|sv st']; [discriminate|].
        destruct (negb (same_set (map fst sv) (uids (x :: xs)))); [discriminate|].
        destruct (bisect_replay c s (x :: xs) sv) as [[[[s1 good] bad] fail]|] eqn:Eb; [|discriminate].
        apply IH in H. rewrite H. unfold set_pool. cbn [cancel_list]. eapply bisect_replay_cl; eassumption.
Qed.

Lemma waitpool_pass_M c s strat s1 st1 r1 a1 e1 :
  (if resources s then schedule_waitpool c s strat else Some (s, strat, false, false, [])) = Some (s1, st1, r1, a1, e1) ->
  cancel_list s1 = cancel_list s /\ forall u, cz u (P (waitpool s1)) <= cz u (P (waitpool s)).
Proof.
  destruct (resources s).
  - unfold schedule_waitpool. intro H. split; [eapply waitpool_loop_cl; eassumption|].
    intro u. pose proof (waitpool_loop_cz u _ _ _ _ _ _ _ _ _ _ _ _ H) as Hc.
    change (E []) with (@nil Z) in Hc. rewrite cz_nil in Hc. pose proof (cz_nonneg u (E e1)). lia.
  - intro H. injection H as <- _ _ _ _. split; [reflexivity|intro; lia].
Qed.

(* ---------------- draining the queue ---------------- *)
Lemma cancel_uids_mono : forall us wp evs wp' evs' v,
  cancel_uids us wp evs = (wp', evs') -> cz v (P wp') <= cz v (P wp).
Proof.
  induction us as [|u r IH]; intros wp evs wp' evs' v Ec; simpl in Ec.
  - injection Ec as <- _. lia.
  - destruct (pool_remove u wp) as [[t|] wp1] eqn:Er.
    + specialize (IH _ _ _ _ v Ec). destruct (pool_remove_cz _ _ _ _ v Er) as (A & _ & _).
      destruct ((v =? u) && true); lia.
    + eapply IH; eassumption.
Qed.

Lemma pool_remove_none_cz u wp wp1 : pool_remove u wp = (None, wp1) -> cz u (P wp) = 0.
Proof.
  intro H. pose proof (pool_remove_none _ _ _ H) as Hn.
  destruct (Z_lt_le_dec 0 (cz u (P wp))) as [Hp|Hp]; [|pose proof (cz_nonneg u (P wp)); lia].
  apply cz_pos_in in Hp. unfold P, uids in Hp. apply in_map_iff in Hp as (t & Ht & Hin).
  exfalso. exact (Hn t Hin Ht).
Qed.

Lemma cancel_uids_gone : forall us wp evs wp' evs' u,
  cancel_uids us wp evs = (wp', evs') -> In u us -> cz u (P wp) <= 1 -> cz u (P wp') = 0.
Proof.
  induction us as [|x r IH]; intros wp evs wp' evs' u Ec Hin Hle; simpl in Ec; [destruct Hin|].
  pose proof (cz_nonneg u (P wp')) as Hnn.
  destruct (pool_remove x wp) as [[t|] wp1] eqn:Er.
  - destruct (pool_remove_cz _ _ _ _ u Er) as (A & B & _).
    pose proof (cancel_uids_mono _ _ _ _ _ u Ec) as Hm.
    destruct (Z.eq_dec u x) as [->|Hne].
    + rewrite Z.eqb_refl in A. cbn [andb] in A. pose proof (cz_nonneg x (P wp1)). lia.
    + destruct Hin as [->|Hin]; [contradiction|]. eapply IH; try eassumption. rewrite (B Hne). exact Hle.
  - destruct (Z.eq_dec u x) as [->|Hne].
    + pose proof (pool_remove_none_cz _ _ _ Er) as H0. pose proof (cancel_uids_mono _ _ _ _ _ x Ec). lia.
    + destruct Hin as [->|Hin]; [contradiction|]. eapply IH; eassumption.
Qed.

Lemma drain_M : forall q wp bk evs wp' bk' evs',
  drain q wp bk evs = (wp', bk', evs') ->
  (forall v, cz v (P wp') <= cz v (P wp)) /\
  (forall u, In u (QC q) -> cz u (P wp) <= 1 -> cz u (P wp') = 0).
Proof.
  induction q as [|it r IH]; intros wp bk evs wp' bk' evs' H; cbn [drain] in H.
  - injection H as <- _ _. split; [intro; lia|]. intros u [].
  - destruct it as [ts|us].
    + match type of H with context [fold_left ?f ts (bk, evs)] =>
        destruct (fold_left f ts (bk, evs)) as [bk1 evs1] end.
      destruct (IH _ _ _ _ _ _ H) as [A B]. split; [exact A|]. intros u Hu. apply B. exact Hu.
    + destruct (cancel_uids us wp evs) as [wp1 evs1] eqn:Ec.
      destruct (IH _ _ _ _ _ _ H) as [A B].
      assert (Hm : forall v, cz v (P wp1) <= cz v (P wp)) by (intro v; eapply cancel_uids_mono; eassumption).
      split; [intro v; specialize (A v); specialize (Hm v); lia|].
      intros u Hu Hle. unfold QC in Hu. cbn [map concat] in Hu. apply in_app_iff in Hu as [Hu|Hu].
      * pose proof (cancel_uids_gone _ _ _ _ _ u Ec Hu Hle) as H0. specialize (A u). pose proof (cz_nonneg u (P wp')). lia.
      * apply B; [exact Hu|]. specialize (Hm u). lia.
Qed.

(* ---------------- pool insertion after placement ---------------- *)
Lemma P_store_in u p l wp :
  In u (P (zstore p l wp)) -> In u (uids l) \/ In u (P wp).
Proof.
  rewrite <- !cz_pos_in. rewrite P_lookup_store.
  pose proof (cz_nonneg u (uids (match zlookup p wp with Some x => x | None => [] end))).
  pose proof (cz_nonneg u (uids l)). pose proof (cz_nonneg u (P wp)). lia.
Qed.

Lemma lookup_in_P u p wp : In u (uids (match zlookup p wp with Some x => x | None => [] end)) -> In u (P wp).
Proof.
  destruct (zlookup p wp) as [l|] eqn:El; [|intros []].
  rewrite <- !cz_pos_in. pose proof (P_lookup_le u _ _ _ El). lia.
Qed.

Lemma in_uids_filter u (f : req -> bool) l : In u (uids (filter f l)) -> In u (uids l).
Proof. rewrite <- !cz_pos_in. pose proof (cz_filter_le u f l). lia. Qed.

Lemma pool_insert_M p : forall ts wp cl evs wp' cl' evs',
  pool_insert p ts wp cl evs = (wp', cl', evs') ->
  forall u, In u (P wp') -> In u cl' -> In u (P wp) /\ In u cl.
Proof.
  induction ts as [|t r IH]; intros wp cl evs wp' cl' evs' H u HP Hc; cbn [pool_insert] in H.
  - injection H as <- <- _. auto.
  - set (cur := match zlookup p wp with Some l => l | None => [] end) in *.
    set (cur' := filter (fun x => negb (r_uid x =? r_uid t)) cur) in *.
    destruct (zmem (r_uid t) cl) eqn:Em.
    + destruct (IH _ _ _ _ _ _ H u HP Hc) as [A B]. split; [|eapply in_remove_one; exact B].
      apply P_store_in in A as [A|A]; [|exact A].
      apply in_uids_filter in A. apply (lookup_in_P u p wp). exact A.
    + destruct (IH _ _ _ _ _ _ H u HP Hc) as [A B]. split; [|exact B].
      apply P_store_in in A as [A|A]; [|exact A].
      rewrite uids_app in A. apply in_app_iff in A as [A|A].
      * apply in_uids_filter in A. apply (lookup_in_P u p wp). exact A.
      * cbn in A. destruct A as [<-|[]]. apply zmem_in in B. congruence.
Qed.

Lemma incoming_prios_M c bk : forall ps s lw evs s' lw' evs',
  incoming_prios c s bk ps lw evs = (s', lw', evs') ->
  forall u, In u (P (waitpool s')) -> In u (cancel_list s') -> In u (P (waitpool s)) /\ In u (cancel_list s).
Proof.
  induction ps as [|p r IH]; intros s lw evs s' lw' evs' H u HP Hc; cbn [incoming_prios] in H.
  - injection H as <- _ _. auto.
  - destruct (place_tasks c s (sort_desc r_ranks (match zlookup p bk with Some l => l | None => [] end)) [] evs)
      as [[s1 to_wait] evs1] eqn:Ep.
    destruct (place_tasks_frame _ _ _ _ _ _ _ _ Ep) as [F1 F2].
    destruct (pool_insert p to_wait (waitpool s1) (cancel_list s1) evs1) as [[wp cl] evs2] eqn:Ei.
    destruct (IH _ _ _ _ _ _ H u HP Hc) as [A B]. cbn [waitpool cancel_list] in A, B.
    destruct (pool_insert_M _ _ _ _ _ _ _ _ Ei u A B) as [A' B']. rewrite F1 in A'. rewrite F2 in B'. auto.
Qed.

Lemma unschedule_cl : forall us s, cancel_list (unschedule us s) = cancel_list s.
Proof. induction us as [|[u sl] r IH]; intro s; simpl; [reflexivity|]. rewrite IH. reflexivity. Qed.

(* one iteration: whoever waits and is listed afterwards did so before, and its
   CANCEL item was not in the queue this iteration drained *)
Theorem iterate_M c s q unq strat s' evs :
  iterate c s q unq strat = Some (s', evs) ->
  (forall u, cz u (P (waitpool s)) <= 1) ->
  forall u, In u (P (waitpool s')) -> In u (cancel_list s') ->
    In u (P (waitpool s)) /\ In u (cancel_list s) /\ ~ In u (QC q).
Proof.
  unfold iterate, iterate_pre. intros H Huniq u HP Hc.
  destruct (if resources s then schedule_waitpool c s strat else Some (s, strat, false, false, []))
    as [[[[[s1 st1] r1] a1] e1]|] eqn:Ew; [|discriminate].
  destruct (waitpool_pass_M _ _ _ _ _ _ _ _ Ew) as [W1 W2].
  destruct st1; [|discriminate].
  destruct (schedule_incoming c s1 q) as [[[s2 ri] ax] e2] eqn:Ei.
  injection H as <- _.
  unfold set_res in HP, Hc. cbn [waitpool cancel_list] in HP, Hc.
  rewrite unschedule_frame in HP. rewrite unschedule_cl in Hc.
  unfold schedule_incoming in Ei.
  destruct (drain q (waitpool s1) [] []) as [[wp bk] evs0] eqn:Ed.
  destruct (drain_M _ _ _ _ _ _ _ Ed) as [D1 D2].
  assert (Hs0 : In u (P wp) /\ In u (cancel_list s1)).
  { destruct bk as [|b0 bk0].
    - injection Ei as <- _ _ _. unfold set_pool in HP, Hc. cbn [waitpool cancel_list] in HP, Hc. auto.
    - destruct (incoming_prios c (set_pool s1 wp) (b0 :: bk0) (prios_desc (b0 :: bk0)) false evs0)
        as [[sx lw] evx] eqn:Eip.
      injection Ei as <- _ _ _.
      destruct (incoming_prios_M _ _ _ _ _ _ _ _ _ Eip u HP Hc) as [A B].
      unfold set_pool in A, B. cbn [waitpool cancel_list] in A, B. auto. }
  destruct Hs0 as [A B]. rewrite W1 in B.
  assert (A1 : 0 < cz u (P wp)) by (apply cz_pos_in; exact A).
  split; [|split; [exact B|]].
  - apply cz_pos_in. specialize (D1 u). specialize (W2 u). lia.
  - intro K. assert (Hle : cz u (P (waitpool s1)) <= 1) by (specialize (W2 u); specialize (Huniq u); lia).
    pose proof (D2 u K Hle). lia.
Qed.

(* ---------------- registered uids stay listed until they end ---------------- *)
Lemma intake_J u : forall ts cl evs keep cl' evs',
  intake ts cl evs = (keep, cl', evs') ->
  (In u cl -> In u cl' \/ In u (E evs')) /\ (In u (E evs) -> In u (E evs')).
Proof.
  induction ts as [|t r IH]; intros cl evs keep cl' evs' H; cbn [intake] in H.
  - injection H as _ <- <-. tauto.
  - destruct (zmem (r_uid t) cl) eqn:Em.
    + destruct (IH _ _ _ _ _ H) as [A B]. split.
      * intro Hin. destruct (Z.eq_dec u (r_uid t)) as [->|Hne].
        -- right. apply B. rewrite E_app. apply in_app_iff. right. left. reflexivity.
        -- apply A. apply in_remove_one_other; assumption.
      * intro Hin. apply B. rewrite E_app. apply in_app_iff. left. exact Hin.
    + destruct (intake r cl evs) as [[k c0] e0] eqn:Ei. injection H as _ <- <-. eapply IH; eassumption.
Qed.

Lemma intake_cl_sub u : forall ts cl evs keep cl' evs',
  intake ts cl evs = (keep, cl', evs') -> In u cl' -> In u cl.
Proof.
  induction ts as [|t r IH]; intros cl evs keep cl' evs' H Hin; cbn [intake] in H.
  - injection H as _ <- _. exact Hin.
  - destruct (zmem (r_uid t) cl).
    + eapply in_remove_one. eapply IH; eassumption.
    + destruct (intake r cl evs) as [[k c0] e0] eqn:Ei. injection H as _ <- _. eapply IH; eassumption.
Qed.

Lemma place_tasks_E u c : forall ts s to_wait evs s' tw' evs',
  place_tasks c s ts to_wait evs = (s', tw', evs') -> In u (E evs) -> In u (E evs').
Proof.
  induction ts as [|t r IH]; intros s to_wait evs s' tw' evs' H Hin; cbn [place_tasks] in H.
  - injection H as _ _ <-. exact Hin.
  - destruct (negb (env_ok s t)); [eapply IH; eauto|].
    assert (Hx : forall e, In u (E (evs ++ [e]))) by (intro e; rewrite E_app; apply in_app_iff; left; exact Hin).
    destruct (r_slots t) as [[|sl0 sls]|].
    + destruct (try_allocation c s t) as [s1 res]. destruct res; eapply IH; eauto.
    + destruct (negb (forallb (slot_known (nodes s)) (sl0 :: sls))); eapply IH; eauto.
    + destruct (try_allocation c s t) as [s1 res]. destruct res; eapply IH; eauto.
Qed.

Lemma pool_insert_J u p : forall ts wp cl evs wp' cl' evs',
  pool_insert p ts wp cl evs = (wp', cl', evs') ->
  (In u cl -> In u cl' \/ In u (E evs')) /\ (In u (E evs) -> In u (E evs')).
Proof.
  induction ts as [|t r IH]; intros wp cl evs wp' cl' evs' H; cbn [pool_insert] in H.
  - injection H as _ <- <-. tauto.
  - destruct (zmem (r_uid t) cl).
    + destruct (IH _ _ _ _ _ _ H) as [A B]. split.
      * intro Hin. destruct (Z.eq_dec u (r_uid t)) as [->|Hne].
        -- right. apply B. rewrite E_app. apply in_app_iff. right. left. reflexivity.
        -- apply A. apply in_remove_one_other; assumption.
      * intro Hin. apply B. rewrite E_app. apply in_app_iff. left. exact Hin.
    + eapply IH; eassumption.
Qed.

Lemma incoming_prios_J u c bk : forall ps s lw evs s' lw' evs',
  incoming_prios c s bk ps lw evs = (s', lw', evs') ->
  (In u (cancel_list s) -> In u (cancel_list s') \/ In u (E evs')) /\ (In u (E evs) -> In u (E evs')).
Proof.
  induction ps as [|p r IH]; intros s lw evs s' lw' evs' H; cbn [incoming_prios] in H.
  - injection H as <- _ <-. tauto.
  - destruct (place_tasks c s (sort_desc r_ranks (match zlookup p bk with Some l => l | None => [] end)) [] evs)
      as [[s1 to_wait] evs1] eqn:Ep.
    destruct (place_tasks_frame _ _ _ _ _ _ _ _ Ep) as [F1 F2].
    pose proof (place_tasks_E u _ _ _ _ _ _ _ _ Ep) as PE.
    destruct (pool_insert p to_wait (waitpool s1) (cancel_list s1) evs1) as [[wp cl] evs2] eqn:Ei.
    destruct (pool_insert_J u _ _ _ _ _ _ _ _ Ei) as [I1 I2].
    destruct (IH _ _ _ _ _ _ H) as [A B]. cbn [cancel_list] in A. split.
    + intro Hin. rewrite <- F2 in Hin. destruct (I1 Hin) as [K|K]; [apply A; exact K|right; apply B; exact K].
    + intro Hin. apply B, I2, PE. exact Hin.
Qed.

Lemma drain_E u : forall q wp bk evs wp' bk' evs',
  drain q wp bk evs = (wp', bk', evs') -> In u (E evs) -> In u (E evs').
Proof.
  intros q wp bk evs wp' bk' evs' H Hin.
  destruct (drain_pres u _ _ _ _ _ _ _ H (or_introl Hin)) as [K|K]; [exact K|].
  (* conservation alone does not say the event stays an event: prove it directly *)
  revert wp bk evs wp' bk' evs' H Hin K.
  induction q as [|it r IH]; intros wp bk evs wp' bk' evs' H Hin K; cbn [drain] in H.
  - injection H as _ _ <-. exact Hin.
  - destruct it as [ts|us].
    + match type of H with context [fold_left ?f ts (bk, evs)] =>
        destruct (fold_left f ts (bk, evs)) as [bk1 evs1] eqn:Ef end.
      assert (Hin1 : In u (E evs1)).
      { clear H IH K. revert bk evs Hin bk1 evs1 Ef. induction ts as [|t ts IHt]; intros bk evs Hin bk1 evs1 Ef; cbn [fold_left] in Ef.
        - injection Ef as _ <-. exact Hin.
        - destruct (r_ranks t <=? 0); eapply IHt; try exact Ef; [rewrite E_app; apply in_app_iff; left|]; exact Hin. }
      destruct (drain_pres u _ _ _ _ _ _ _ H (or_introl Hin1)) as [K1|K1]; [exact K1|].
      eapply IH; eassumption.
    + destruct (cancel_uids us wp evs) as [wp1 evs1] eqn:Ec.
      assert (Hin1 : In u (E evs1)).
      { clear H IH K. revert wp evs Hin wp1 evs1 Ec. induction us as [|x us IHu]; intros wp evs Hin wp1 evs1 Ec; cbn [cancel_uids] in Ec.
        - injection Ec as _ <-. exact Hin.
        - destruct (pool_remove x wp) as [[t|] wpx]; eapply IHu; try exact Ec; [rewrite E_app; apply in_app_iff; left|]; exact Hin. }
      destruct (drain_pres u _ _ _ _ _ _ _ H (or_introl Hin1)) as [K1|K1]; [exact K1|].
      eapply IH; eassumption.
Qed.

Theorem iterate_J u c s q unq strat s' evs :
  iterate c s q unq strat = Some (s', evs) ->
  In u (cancel_list s) -> In u (cancel_list s') \/ In u (E evs).
Proof.
  unfold iterate, iterate_pre. intros H Hin.
  destruct (if resources s then schedule_waitpool c s strat else Some (s, strat, false, false, []))
    as [[[[[s1 st1] r1] a1] e1]|] eqn:Ew; [|discriminate].
  destruct (waitpool_pass_M _ _ _ _ _ _ _ _ Ew) as [W1 _].
  destruct st1; [|discriminate].
  destruct (schedule_incoming c s1 q) as [[[s2 ri] ax] e2] eqn:Ei.
  injection H as <- <-. unfold set_res. cbn [cancel_list]. rewrite unschedule_cl.
  unfold schedule_incoming in Ei.
  destruct (drain q (waitpool s1) [] []) as [[wp bk] evs0] eqn:Ed.
  destruct bk as [|b0 bk0].
  - injection Ei as <- _ _ _. left. unfold set_pool. cbn [cancel_list]. rewrite W1. exact Hin.
  - destruct (incoming_prios c (set_pool s1 wp) (b0 :: bk0) (prios_desc (b0 :: bk0)) false evs0)
      as [[sx lw] evx] eqn:Eip.
    injection Ei as <- _ _ <-.
    destruct (incoming_prios_J u _ _ _ _ _ _ _ _ _ Eip) as [A _].
    unfold set_pool in A. cbn [cancel_list] in A. rewrite W1 in A.
    destruct (A Hin) as [K|K]; [left; exact K|right; rewrite E_app; apply in_app_iff; right; exact K].
Qed.

(* ---------------- whole histories ---------------- *)
Definition MInv (w : world) (h : list Z) : Prop :=
  forall u, In u (P (waitpool (st w))) -> In u (cancel_list (st w)) -> In u (QC (q_sched w)) \/ In u h.
Definition JInv (w : world) (r : list Z) : Prop :=
  forall u, In u r -> In u (cancel_list (st w)) \/ In u (E (log w)).

Lemma total_pool_le u w : cz u (P (waitpool (st w))) <= total u w.
Proof.
  unfold total. pose proof (cz_nonneg u (E (log w))). pose proof (cz_nonneg u (Q (q_sched w))). lia.
Qed.

Theorem step_MJ c w o w' h r :
  step c w o = Some w' -> (forall u, total u w <= 1) ->
  MInv w h -> JInv w r -> MInv w' (half_step o h) /\ JInv w' (reg_step o r).
Proof.
  intros H Ht M J. destruct o as [ts|us|us|e|strat|us|us]; cbn [step] in H; cbn [half_step reg_step].
  - (* Arrive *)
    destruct (intake ts (cancel_list (st w)) []) as [[keep cl] evs] eqn:Ei. injection H as <-.
    split.
    + intros u HP Hc. cbn [st waitpool set_cl cancel_list q_sched] in *. unfold set_cl in HP, Hc. cbn [waitpool cancel_list] in HP, Hc.
      assert (Hc0 : In u (cancel_list (st w))).
      { eapply intake_cl_sub; eassumption. }
      destruct (M u HP Hc0) as [K|K]; [left; rewrite QC_app; apply in_app_iff; left; exact K|right; exact K].
    + intros u Hr. unfold set_cl. cbn [st cancel_list log].
      destruct (intake_J u _ _ _ _ _ _ Ei) as [A _].
      destruct (J u Hr) as [K|K].
      * destruct (A K) as [K2|K2]; [left; exact K2|right; rewrite E_app; apply in_app_iff; right; exact K2].
      * right. rewrite E_app. apply in_app_iff. left. exact K.
  - (* CancelMsg *)
    injection H as <-. split.
    + intros u HP Hc. unfold set_cl in HP, Hc. cbn [st waitpool cancel_list q_sched] in *.
      rewrite QC_app. apply in_app_iff in Hc as [Hc|Hc].
      * destruct (M u HP Hc) as [K|K]; [left; apply in_app_iff; left; exact K|right; exact K].
      * left. apply in_app_iff. right. unfold QC. cbn. rewrite app_nil_r. exact Hc.
    + intros u Hr. unfold set_cl. cbn [st cancel_list log]. apply in_app_iff in Hr as [Hr|Hr].
      * destruct (J u Hr) as [K|K]; [left; apply in_app_iff; left; exact K|right; exact K].
      * left. apply in_app_iff. right. exact Hr.
  - injection H as <-. split; [exact M|exact J].
  - injection H as <-. split; [exact M|exact J].
  - (* Iterate *)
    destruct (iterate c (st w) (q_sched w) (q_unsched w) strat) as [[s' evs]|] eqn:Eit; [|discriminate].
    injection H as <-. split.
    + intros u HP Hc. cbn [st q_sched] in *.
      assert (Hu : forall v, cz v (P (waitpool (st w))) <= 1).
      { intro v. pose proof (total_pool_le v w). specialize (Ht v). lia. }
      destruct (iterate_M _ _ _ _ _ _ _ Eit Hu u HP Hc) as (A & B & C).
      destruct (M u A B) as [K|K]; [contradiction|right; exact K].
    + intros u Hr. cbn [st log]. destruct (J u Hr) as [K|K].
      * destruct (iterate_J u _ _ _ _ _ _ _ Eit K) as [K2|K2]; [left; exact K2|right; rewrite E_app; apply in_app_iff; right; exact K2].
      * right. rewrite E_app. apply in_app_iff. left. exact K.
  - (* CancelReg *)
    injection H as <-. split.
    + intros u HP Hc. unfold set_cl in HP, Hc. cbn [st waitpool cancel_list q_sched] in *.
      apply in_app_iff in Hc as [Hc|Hc].
      * destruct (M u HP Hc) as [K|K]; [left; exact K|right; apply in_app_iff; left; exact K].
      * right. apply in_app_iff. right. exact Hc.
    + intros u Hr. unfold set_cl. cbn [st cancel_list log]. apply in_app_iff in Hr as [Hr|Hr].
      * destruct (J u Hr) as [K|K]; [left; apply in_app_iff; left; exact K|right; exact K].
      * left. apply in_app_iff. right. exact Hr.
  - (* CancelQ *)
    injection H as <-. split; [|exact J].
    intros u HP Hc. cbn [st q_sched] in *. rewrite QC_app.
    destruct (M u HP Hc) as [K|K]; [left; apply in_app_iff; left; exact K|].
    destruct (in_remove_all u us h K) as [K2|K2]; [right; exact K2|].
    left. apply in_app_iff. right. unfold QC. cbn. rewrite app_nil_r. exact K2.
Qed.

Theorem run_MJ c : forall ops w w' h r,
  run c w ops = Some w' -> (forall u, total u w + cz u (arrivals ops) <= 1) ->
  MInv w h -> JInv w r -> MInv w' (half ops h) /\ JInv w' (registered ops r).
Proof.
  induction ops as [|o rest IH]; intros w w' h r H Ht M J; cbn [run] in H.
  - injection H as <-. auto.
  - destruct (step c w o) as [w1|] eqn:Es; [|discriminate].
    assert (Ht0 : forall u, total u w <= 1).
    { intro u. specialize (Ht u). pose proof (cz_nonneg u (arrivals (o :: rest))). lia. }
    destruct (step_MJ _ _ _ _ _ _ Es Ht0 M J) as [M1 J1].
    unfold half, registered. cbn [fold_left]. apply (IH w1 w' _ _ H); [|exact M1|exact J1].
    intro u. destruct (step_cz u _ _ _ _ Es) as [A _]. specialize (Ht u).
    rewrite arrivals_cons, cz_app in Ht. lia.
Qed.

(* after ANY history of arrivals (unique uids), requests -- delivered at once or
   in two halves in either order --, releases and iterations: a uid that was
   registered for cancellation and still waits in a pool has its CANCEL item
   pending in the queue, or belongs to a request whose queue item has not been
   issued yet.  In particular (next corollary) after an iteration no task named
   by a completely delivered request waits. *)
Theorem named_not_waiting c ns0 ops w' u :
  run c (init_world ns0) ops = Some w' -> NoDup (arrivals ops) ->
  In u (registered ops []) -> In u (P (waitpool (st w'))) ->
  In u (QC (q_sched w')) \/ In u (half ops []).
Proof.
  intros H Hn Hr HP.
  assert (Ht : forall v, total v (init_world ns0) + cz v (arrivals ops) <= 1).
  { intro v. change (total v (init_world ns0)) with 0.
    assert (cz v (arrivals ops) <= 1); [|lia].
    unfold cz. clear - Hn. induction (arrivals ops) as [|x l IH]; simpl; [lia|].
    inversion Hn as [|? ? Hx Hl]; subst. specialize (IH Hl). destruct (v =? x) eqn:E; [|exact IH].
    apply Z.eqb_eq in E. subst. simpl.
    assert (length (filter (Z.eqb x) l) = 0%nat); [|lia].
    destruct (filter (Z.eqb x) l) as [|y ys] eqn:Ef; [reflexivity|].
    assert (Hy : In y (filter (Z.eqb x) l)) by (rewrite Ef; left; reflexivity).
    apply filter_In in Hy as [Hy1 Hy2]. apply Z.eqb_eq in Hy2. subst. contradiction. }
  destruct (run_MJ c ops _ _ [] [] H Ht) as [M J].
  { intros v _ []. }
  { intros v []. }
  destruct (J u Hr) as [K|K].
  - exact (M u HP K).
  - exfalso. destruct (no_loss_no_duplication c ns0 ops w' u H) as [A _].
    assert (cz u (arrivals ops) <= 1) by (specialize (Ht u); change (total u (init_world ns0)) with 0 in Ht; lia).
    apply cz_pos_in in K. apply cz_pos_in in HP. unfold total in A.
    pose proof (cz_nonneg u (Q (q_sched w'))). lia.
Qed.

Corollary named_not_waiting_after_iteration c ns0 ops strat w' u :
  run c (init_world ns0) (ops ++ [Iterate strat]) = Some w' -> NoDup (arrivals ops) ->
  In u (registered ops []) -> ~ In u (half ops []) ->
  ~ In u (P (waitpool (st w'))).
Proof.
  intros H Hn Hr Hh HP.
  assert (Ha : arrivals (ops ++ [Iterate strat]) = arrivals ops).
  { unfold arrivals. rewrite map_app, concat_app. simpl. apply app_nil_r. }
  assert (Hreg : registered (ops ++ [Iterate strat]) [] = registered ops []).
  { unfold registered. rewrite fold_left_app. reflexivity. }
  assert (Hhalf : half (ops ++ [Iterate strat]) [] = half ops []).
  { unfold half. rewrite fold_left_app. reflexivity. }
  destruct (named_not_waiting c ns0 _ w' u H) as [K|K]; rewrite ?Ha, ?Hreg, ?Hhalf; auto.
  - (* the queue is empty after an iteration *)
    assert (Hq : q_sched w' = []).
    { clear - H. revert H. generalize (init_world ns0). induction ops as [|o r IH]; intros w H; cbn [app run] in H.
      - cbn [step] in H. destruct (iterate c (st w) (q_sched w) (q_unsched w) strat) as [[s' evs]|]; [|discriminate].
        injection H as <-. reflexivity.
      - destruct (step c w o) as [w1|]; [|discriminate]. eapply IH; eassumption. }
    rewrite Hq in K. destruct K.
  - rewrite Hhalf in K. contradiction.
Qed.
