(* C02: the `exclusive` rule of colocation tags (continuous.py, schedule_task: a task carrying a colocate tag that
   was not seen before and the flag exclusive=True is not placed on a node which an earlier tag already uses, as
   long as the pilot has more nodes than tagged ones; otherwise the flag is dropped), and what schedule_task does
   with the colocation history and the set of tagged nodes. *)
From Coq Require Import ZArith List Bool Lia Arith.
From RP Require Import Sched.Model Sched.Oracle.
Import ListNotations.
Local Open Scope Z_scope.

Lemma find_one_node nd cps g lfs mem ci gi lu mu gu s ci' gi' gu' :
  find_one nd cps g lfs mem ci gi lu mu gu = OneSlot s ci' gi' gu' -> s_node s = n_idx nd.
Proof.
  unfold find_one. intro H.
  destruct ((n_lfs nd - lu <? lfs) || (n_mem nd - mu <? mem)); [discriminate|].
  destruct (take_free (skipn ci (n_cores nd)) ci cps) as [cores ci0].
  destruct (length cores <? cps)%nat; [discriminate|].
  destruct (64 <=? g).
  - destruct (negb (g mod 64 =? 0)); [discriminate|].
    destruct (take_free (skipn gi (n_gpus nd)) gi (Z.to_nat (g / 64))) as [gp gi0].
    destruct (length gp <? Z.to_nat (g / 64))%nat; [discriminate|].
    injection H as <- _ _ _. reflexivity.
  - destruct (0 <? g).
    + destruct (take_share (skipn gi (n_gpus nd)) (skipn gi gu) gi g) as [[k|] gi0]; [|discriminate].
      injection H as <- _ _ _. reflexivity.
    + injection H as <- _ _ _. reflexivity.
Qed.

Lemma find_loop_node nd cps g lfs mem : forall n ci gi lu mu gu sl,
  find_loop nd n cps g lfs mem ci gi lu mu gu = inr sl -> forall s, In s sl -> s_node s = n_idx nd.
Proof.
  induction n as [|n IH]; intros ci gi lu mu gu sl H s Hs; cbn [find_loop] in H.
  - injection H as <-. destruct Hs.
  - destruct (find_one nd cps g lfs mem ci gi lu mu gu) as [e| |s0 ci' gi' gu'] eqn:E1; [discriminate| |].
    + injection H as <-. destruct Hs.
    + destruct (find_loop nd n cps g lfs mem ci' gi' (lu + lfs) (mu + mem) gu') as [e|r] eqn:E2; [discriminate|].
      injection H as <-. destruct Hs as [<-|Hs]; [eapply find_one_node; exact E1|eapply IH; eauto].
Qed.

Lemma find_resources_node nd n cps g lfs mem p sl :
  find_resources nd n cps g lfs mem p = inr (Some sl) -> forall s, In s sl -> s_node s = n_idx nd.
Proof.
  unfold find_resources. intro H.
  destruct (find_loop nd n cps g lfs mem 0 0 0 0 (map (fun _ => 0) (n_gpus nd))) as [e|r] eqn:E; [discriminate|].
  destruct (negb p && (length r <? n)%nat); [discriminate|]. injection H as <-.
  eapply find_loop_node; exact E.
Qed.

(* the node loop with a predicate P on node indices such that every node NOT skipped satisfies P: all slots
   collected satisfy P *)
Lemma node_loop_visited (P : Z -> Prop) c hist ne tg nn mpi spn rq cps g lfs mem :
  (forall nd, (match hist with
               | Some h => negb (zmem (n_idx nd) h)
               | None => ne && zmem (n_idx nd) tg && (length tg <? nn)%nat
               end) = false -> P (n_idx nd)) ->
  forall visit k st st' k',
    (forall s, In s (alc st) -> P (s_node s)) ->
    node_loop c hist ne tg nn mpi spn rq cps g lfs mem visit k st = inr (st', k') ->
    forall s, In s (alc st') -> P (s_node s).
Proof.
  intro HP.
  induction visit as [|nd0 rest IH]; intros k st st' k' Hst H; cbn [node_loop] in H.
  - injection H as <- _. exact Hst.
  - match type of H with (if ?b then _ else _) = _ => destruct b eqn:Esk end.
    { eapply IH; eauto. }
    apply HP in Esk.
    match type of H with
    | match find_resources ?a ?b ?cc ?d ?e ?f ?pp with _ => _ end = _ =>
        destruct (find_resources a b cc d e f pp) as [e0|r] eqn:Ef; [discriminate|]
    end.
    assert (Hempty : forall stx, stx = (if scattered c
                        then mkL (alc st) (rem st) (is_first st) (is_last st || (rem st <? spn))
                        else mkL [] rq true false) ->
                     forall s, In s (alc stx) -> P (s_node s)).
    { intros stx ->. destruct (scattered c); cbn [alc]; [exact Hst|intros s []]. }
    destruct r as [[|s0 new]|].
    + eapply IH; [|exact H]. apply Hempty. reflexivity.
    + assert (Hnew : forall s, In s (alc st ++ s0 :: new) -> P (s_node s)).
      { intros s Hs. apply in_app_or in Hs as [Hs|Hs]; [apply Hst; exact Hs|].
        rewrite (find_resources_node _ _ _ _ _ _ _ _ Ef s Hs). exact Esk. }
      match type of H with (if ?b then _ else _) = _ => destruct b end.
      * injection H as <- _. exact Hnew.
      * eapply IH; [|exact H]. exact Hnew.
    + eapply IH; [|exact H]. apply Hempty. reflexivity.
Qed.

(* ---- what schedule_task returns, tag by tag ---- *)

Section Excl.
  Variables (c : cfg) (s : sstate) (t : req).
  Variables (off : nat) (co : list (Z * list Z)) (tg : list Z) (sl : list slot).
  Hypothesis Hgrant : schedule_task c s t = inr (off, co, tg, Some sl).

  Lemma grant_inv :
    exists st k, sl = alc st /\
      node_loop c (match r_colo t with Some tag => zlookup tag (colo s) | None => None end)
                (match r_colo t with Some _ => r_excl t | None => false end)
                (tagged s) (length (nodes s)) (1 <? r_ranks t)
                (let cps := if r_cpr t =? 0 then 1 else r_cpr t in
                 let spn0 := cpn c / cps in
                 let spn1 := if r_rpn t =? 0 then spn0 else Z.min spn0 (r_rpn t) in
                 let spn2 := if r_gpr t =? 0 then spn1 else Z.min spn1 ((64 * gpn c) / r_gpr t) in
                 let spn3 := if r_lfs t =? 0 then spn2 else Z.min spn2 (lfs_pn c / r_lfs t) in
                 if r_mem t =? 0 then spn3 else Z.min spn3 (mem_pn c / r_mem t))
                (r_ranks t) (Z.to_nat (if r_cpr t =? 0 then 1 else r_cpr t))
                (r_gpr t) (r_lfs t) (r_mem t) (rotate (offset s) (nodes s)) 0
                (mkL [] (r_ranks t) true false) = inr (st, k) /\
      (co, tg) = match r_colo t with
                 | Some tag => (zstore tag (map s_node sl) (colo s), zadd_all (map s_node sl) (tagged s))
                 | None => (colo s, tagged s)
                 end.
  Proof.
    pose proof Hgrant as H. unfold schedule_task in H.
    repeat match type of H with (if ?b then _ else _) = _ => destruct b; [discriminate|] end.
    match type of H with
    | match ?nl with _ => _ end = _ => destruct nl as [[e0 k0]|[st' k']] eqn:En; [discriminate|]
    end.
    destruct (0 <? rem st'); [discriminate|].
    exists st', k'. destruct (r_colo t) as [tag|]; injection H as _ <- <- <-; auto.
  Qed.

  (* the exclusive rule: new tag + exclusive + some node is still untagged => no slot on a tagged node *)
  Theorem exclusive_avoids_tagged tag :
    r_colo t = Some tag -> zlookup tag (colo s) = None -> r_excl t = true ->
    (length (tagged s) < length (nodes s))%nat ->
    forall x, In x sl -> zmem (s_node x) (tagged s) = false.
  Proof.
    intros Hc Hz He Hlen. destruct grant_inv as (st & k & -> & Hn & _).
    rewrite Hc, Hz, He in Hn.
    refine (node_loop_visited (fun i => zmem i (tagged s) = false) _ _ _ _ _ _ _ _ _ _ _ _ _ _ _ _ _ _ _ Hn).
    - intros nd Hk. cbn [andb] in Hk.
      assert ((length (tagged s) <? length (nodes s))%nat = true) as E by (apply Nat.ltb_lt; exact Hlen).
      rewrite E, andb_true_r in Hk. exact Hk.
    - intros x [].
  Qed.

  (* a tag seen before: only the nodes recorded for it *)
  Theorem known_tag_stays_on_its_nodes tag h :
    r_colo t = Some tag -> zlookup tag (colo s) = Some h ->
    forall x, In x sl -> zmem (s_node x) h = true.
  Proof.
    intros Hc Hz. destruct grant_inv as (st & k & -> & Hn & _).
    rewrite Hc, Hz in Hn.
    refine (node_loop_visited (fun i => zmem i h = true) _ _ _ _ _ _ _ _ _ _ _ _ _ _ _ _ _ _ _ Hn).
    - intros nd Hk. apply negb_false_iff in Hk. exact Hk.
    - intros x [].
  Qed.

  (* book-keeping: a tagged grant records exactly its nodes for the tag and adds them to the tagged set; an
     untagged grant changes neither *)
  Theorem tag_recorded tag :
    r_colo t = Some tag ->
    zlookup tag co = Some (map s_node sl) /\
    (forall tag', tag' <> tag -> zlookup tag' co = zlookup tag' (colo s)) /\
    (forall i, zmem i tg = true <-> zmem i (tagged s) = true \/ In i (map s_node sl)).
  Proof.
    intros Hc. destruct grant_inv as (st & k & Hsl & _ & Hct). rewrite Hc in Hct. injection Hct as -> ->.
    split; [|split].
    - generalize (colo s). induction l as [|[k' v'] l IH]; cbn [zstore zlookup].
      + rewrite Z.eqb_refl. reflexivity.
      + destruct (k' =? tag) eqn:E; cbn [zlookup]; [rewrite Z.eqb_refl; reflexivity|rewrite E; exact IH].
    - intros tag' Hne. generalize (colo s). induction l as [|[k' v'] l IH]; cbn [zstore zlookup].
      + replace (tag =? tag') with false by (symmetry; apply Z.eqb_neq; congruence). reflexivity.
      + destruct (k' =? tag) eqn:E; cbn [zlookup].
        * apply Z.eqb_eq in E. subst k'.
          replace (tag =? tag') with false by (symmetry; apply Z.eqb_neq; congruence). reflexivity.
        * destruct (k' =? tag'); [reflexivity|exact IH].
    - intro i. generalize (tagged s) as T. generalize (map s_node sl) as ks.
      assert (Hmem : forall (T : list Z) (x : Z), zmem x T = true <-> In x T).
      { intros T x. unfold zmem. rewrite existsb_exists. split.
        - intros (y & Hy & E). apply Z.eqb_eq in E. subst y. exact Hy.
        - intro Hx. exists x. split; [exact Hx|apply Z.eqb_refl]. }
      induction ks as [|k0 ks IH]; intro T; cbn [zadd_all].
      + split; [auto|]. intros [H|[]]. exact H.
      + rewrite IH. destruct (zmem k0 T) eqn:E.
        * apply Hmem in E. rewrite !Hmem. cbn [In]. split; [tauto|]. intros [H|[<-|H]]; tauto.
        * rewrite !Hmem. rewrite in_app_iff. cbn [In]. tauto.
  Qed.

  Theorem untagged_grant_keeps_history : r_colo t = None -> co = colo s /\ tg = tagged s.
  Proof.
    intros Hc. destruct grant_inv as (st & k & _ & _ & Hct). rewrite Hc in Hct. injection Hct as -> ->. auto.
  Qed.
End Excl.

(* a schedule_task that grants nothing leaves the colocation history and the tagged set alone *)
Theorem no_grant_keeps_history c s t off co tg :
  schedule_task c s t = inr (off, co, tg, None) -> co = colo s /\ tg = tagged s.
Proof.
  intro H. unfold schedule_task in H.
  repeat match type of H with (if ?b then _ else _) = _ => destruct b; [discriminate|] end.
  match type of H with
  | match ?nl with _ => _ end = _ => destruct nl as [[e0 k0]|[st' k']]; [discriminate|]
  end.
  destruct (0 <? rem st').
  - injection H as _ <- <-. auto.
  - destruct (r_colo t); discriminate.
Qed.

(* two tags, the later one exclusive: whatever happened in between (any state s2 whose tagged set still contains
   the nodes tagged by the first grant), the two placements share no node *)
Theorem exclusive_tags_disjoint c s1 t1 off1 co1 tg1 sl1 s2 t2 off2 co2 tg2 sl2 a b :
  schedule_task c s1 t1 = inr (off1, co1, tg1, Some sl1) -> r_colo t1 = Some a ->
  (forall i, zmem i tg1 = true -> zmem i (tagged s2) = true) ->
  schedule_task c s2 t2 = inr (off2, co2, tg2, Some sl2) -> r_colo t2 = Some b ->
  zlookup b (colo s2) = None -> r_excl t2 = true ->
  (length (tagged s2) < length (nodes s2))%nat ->
  forall x y, In x sl1 -> In y sl2 -> s_node x <> s_node y.
Proof.
  intros H1 Ha Hsub H2 Hb Hnew He Hlen x y Hx Hy E.
  pose proof (exclusive_avoids_tagged c s2 t2 off2 co2 tg2 sl2 H2 b Hb Hnew He Hlen y Hy) as Hy'.
  destruct (tag_recorded c s1 t1 off1 co1 tg1 sl1 H1 a Ha) as (_ & _ & Htg).
  assert (zmem (s_node x) tg1 = true) as Hx' by (apply Htg; right; apply in_map; exact Hx).
  apply Hsub in Hx'. rewrite E in Hx'. congruence.
Qed.

(* non-vacuity: on a pilot of three nodes (2 cores each) with node 0 tagged by an earlier tag, an exclusive task
   with a new tag and two ranks of one core is granted, on node 1 -- and the hypotheses of the theorems hold *)
Definition ex_node (i : Z) : node := mkNode i [Free; Free] [] 0 0.
Definition ex_cfg : cfg := mkCfg 2 0 0 0 false.
Definition ex_state : sstate := mkS [ex_node 0; ex_node 1; ex_node 2] 0 [(7, [0])] [0] [] 0 [] [] true [].
Definition ex_req : req := mkReq 1 2 1 0 0 0 0 0 (Some 8) true None None.
Example exclusive_nonvacuous :
  schedule_task ex_cfg ex_state ex_req
    = inr (1%nat, [(7, [0]); (8, [1; 1])], [0; 1], Some [mkSlot 1 [0%nat] [] 0 0; mkSlot 1 [1%nat] [] 0 0])
  /\ zlookup 8 (colo ex_state) = None /\ (length (tagged ex_state) < length (nodes ex_state))%nat.
Proof. vm_compute. repeat split; auto. Qed.

(* the oracle's clause exclusive_tag_nodes, evaluated with the model's own tag records and tagged set, holds on
   every grant of the model: the clause asks nothing the theorem does not give *)
Theorem excl_clause_holds_on_model_grant c s t off co tg sl :
  schedule_task c s t = inr (off, co, tg, Some sl) ->
  c02_excl_bit (colo s) (tagged s) (length (nodes s)) t sl = true.
Proof.
  intro H. unfold c02_excl_bit.
  destruct (r_colo t) as [tag|] eqn:Ec; [|reflexivity].
  destruct (zlookup tag (colo s)) eqn:Ez; [reflexivity|].
  destruct (r_excl t) eqn:Ee; [|reflexivity]. cbn [andb].
  destruct (length (tagged s) <? length (nodes s))%nat eqn:El; [|reflexivity].
  apply Nat.ltb_lt in El. apply forallb_forall. intros x Hx.
  rewrite (exclusive_avoids_tagged c s t off co tg sl H tag Ec Ez Ee El x Hx). reflexivity.
Qed.

Theorem colo_clause_holds_on_model_grant c s t off co tg sl :
  schedule_task c s t = inr (off, co, tg, Some sl) -> c02_colo_bit (colo s) t sl = true.
Proof.
  intro H. unfold c02_colo_bit.
  destruct (r_colo t) as [tag|] eqn:Ec; [|reflexivity].
  destruct (zlookup tag (colo s)) as [h|] eqn:Ez; [|reflexivity].
  apply forallb_forall. intros x Hx.
  exact (known_tag_stays_on_its_nodes c s t off co tg sl H tag h Ec Ez x Hx).
Qed.
