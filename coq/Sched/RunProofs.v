(* The occupancy invariant holds in every state reachable by the scheduler
   loop, for every sequence of operations and every bisect strategy. *)
From Coq Require Import ZArith List Bool Lia Arith.
From RP Require Import Sched.Model Sched.ListAux Sched.NodeMap Sched.FindProofs Sched.Inv Sched.SchedProofs.
Import ListNotations.
Local Open Scope Z_scope.

(* ---------------- shape preservation ---------------- *)
Lemma mark_slot_idx b sl ns : map n_idx (mark_slot b sl ns) = map n_idx ns.
Proof.
  induction ns as [|nd r IH]; simpl; [reflexivity|].
  destruct (n_idx nd =? s_node sl); simpl; [reflexivity|]. rewrite IH. reflexivity.
Qed.

Lemma css_idx b sls : forall ns, map n_idx (change_slot_states b sls ns) = map n_idx ns.
Proof.
  unfold change_slot_states. induction sls as [|sl r IH]; intros ns; simpl; [reflexivity|].
  rewrite IH, mark_slot_idx. reflexivity.
Qed.

(* ---------------- the state invariant ---------------- *)
Definition SInv (ns0 : list node) (s : sstate) : Prop :=
  Inv ns0 (nodes s) (heldg s) /\ NoDup (map n_idx (nodes s)) /\
  active_cnt s = Z.of_nat (length (heldg s)).

Lemma sinv_nonneg ns0 s : SInv ns0 s -> nodes_nonneg (nodes s).
Proof.
  intros (I & Hnd & _) nd Hin. pose proof (find_node_in _ Hnd nd Hin) as Hf. split.
  - apply (inv_ln _ _ _ I (n_idx nd)). unfold lfs_at. rewrite Hf. reflexivity.
  - apply (inv_mn _ _ _ I (n_idx nd)). unfold mem_at. rewrite Hf. reflexivity.
Qed.

(* same nodes / held set => same invariant *)
Lemma sinv_frame ns0 s s' :
  nodes s' = nodes s -> heldg s' = heldg s -> active_cnt s' = active_cnt s -> SInv ns0 s -> SInv ns0 s'.
Proof. unfold SInv. intros -> -> ->. auto. Qed.

(* ---------------- _try_allocation ---------------- *)
Theorem try_allocation_sinv ns0 c s t s' res :
  SInv ns0 s -> wf_req t -> try_allocation c s t = (s', res) ->
  SInv ns0 s' /\ waitpool s' = waitpool s.
Proof.
  intros HI Hw H. unfold try_allocation in H.
  destruct (schedule_task c s t) as [[e off]|[[[off co] tg] [sl|]]] eqn:E.
  - injection H as <- _. split; [eapply sinv_frame; [| | |exact HI]; reflexivity|reflexivity].
  - injection H as <- _. pose proof (sinv_nonneg _ _ HI) as Hnn. destruct HI as (I & Hnd & Hac).
    split; [|reflexivity]. split; [|split]; cbn [nodes heldg active_cnt set_sched].
    + apply inv_grant; [exact I|]. eapply schedule_task_fresh; eauto.
    + rewrite css_idx. exact Hnd.
    + rewrite app_length. simpl. lia.
  - destruct (active_cnt s =? 0); injection H as <- _;
      (split; [eapply sinv_frame; [| | |exact HI]; reflexivity|reflexivity]).
Qed.

(* ---------------- lazy_bisect replay ---------------- *)
Lemma find_req_in u l t : find_req u l = Some t -> In t l.
Proof.
  induction l as [|x r IH]; simpl; [discriminate|].
  destruct (r_uid x =? u); [intro H; injection H as ->; left; reflexivity|intro H; right; auto].
Qed.

Lemma bisect_replay_sinv ns0 c pool : Forall wf_req pool ->
  forall evs s s' good bad fail,
    SInv ns0 s -> bisect_replay c s pool evs = Some (s', good, bad, fail) ->
    SInv ns0 s' /\ waitpool s' = waitpool s /\ incl bad pool.
Proof.
  intro Hp. rewrite Forall_forall in Hp.
  induction evs as [|[u chk] r IH]; intros s s' good bad fail HI H; cbn [bisect_replay] in H.
  - injection H as <- _ <- _. split; [exact HI|split; [reflexivity|intros x []]].
  - destruct (find_req u pool) as [t|] eqn:Ef; [|discriminate].
    pose proof (find_req_in _ _ _ Ef) as Hin.
    destruct chk.
    + destruct (try_allocation c s t) as [s1 res] eqn:Et.
      destruct (try_allocation_sinv _ _ _ _ _ _ HI (Hp t Hin) Et) as [HI1 Hw1].
      destruct (bisect_replay c s1 pool r) as [[[[s2 g2] b2] f2]|] eqn:Er; [|discriminate].
      destruct (IH _ _ _ _ _ HI1 Er) as (A & B & C).
      destruct res; injection H as <- _ <- _;
        (split; [exact A|split; [congruence|]]); auto.
      intros y [<-|Hy]; auto.
    + destruct (bisect_replay c s pool r) as [[[[s2 g2] b2] f2]|] eqn:Er; [|discriminate].
      destruct (IH _ _ _ _ _ HI Er) as (A & B & C).
      injection H as <- _ <- _. split; [exact A|split; [exact B|]]. intros y [<-|Hy]; auto.
Qed.

(* ---------------- pools ---------------- *)
Definition pool_reqs (wp : list (Z * list req)) : list req := concat (map snd wp).
Definition PWf (wp : list (Z * list req)) : Prop := Forall wf_req (pool_reqs wp).

Lemma zlookup_in {A} k (l : list (Z * A)) v : zlookup k l = Some v -> In (k, v) l.
Proof.
  induction l as [|[k' v'] r IH]; simpl; [discriminate|].
  destruct (k' =? k) eqn:E; [intro H; injection H as ->; apply Z.eqb_eq in E; subst; left; reflexivity|].
  intro H; right; auto.
Qed.

Lemma pwf_lookup wp p l : PWf wp -> zlookup p wp = Some l -> Forall wf_req l.
Proof.
  unfold PWf, pool_reqs. intros H Hl. apply zlookup_in in Hl.
  rewrite Forall_forall in *. intros x Hx. apply H. apply in_concat. exists l. split; [|exact Hx].
  apply in_map_iff. exists (p, l). auto.
Qed.

Lemma pwf_store wp p l : PWf wp -> Forall wf_req l -> PWf (zstore p l wp).
Proof.
  unfold PWf, pool_reqs. intros H Hl. induction wp as [|[k v] r IH]; simpl.
  - rewrite app_nil_r. exact Hl.
  - simpl in H. apply Forall_app in H as [H1 H2].
    destruct (k =? p); simpl; apply Forall_app; split; auto.
Qed.

Lemma forall_incl {A} (P : A -> Prop) a b : incl a b -> Forall P b -> Forall P a.
Proof. intros Hi Hb. rewrite Forall_forall in *. auto. Qed.

Lemma insert_desc_in {A} (key : A -> Z) x l y : In y (insert_desc key x l) <-> x = y \/ In y l.
Proof.
  induction l as [|z r IH]; simpl; [tauto|].
  destruct (key z <=? key x); simpl; [tauto|]. rewrite IH. tauto.
Qed.
Lemma sort_desc_in {A} (key : A -> Z) l y : In y (sort_desc key l) <-> In y l.
Proof.
  unfold sort_desc. induction l as [|x r IH]; simpl; [tauto|]. rewrite insert_desc_in, IH. tauto.
Qed.

(* ---------------- _schedule_waitpool ---------------- *)
Lemma waitpool_loop_sinv ns0 c : forall prios s strat res act evs s' strat' res' act' evs',
  SInv ns0 s -> PWf (waitpool s) ->
  waitpool_loop c s prios strat res act evs = Some (s', strat', res', act', evs') ->
  SInv ns0 s' /\ PWf (waitpool s').
Proof.
  induction prios as [|p ps IH]; intros s strat res act evs s' strat' res' act' evs' HI HP H;
    cbn [waitpool_loop] in H.
  - injection H as <- _ _ _ _. auto.
  - destruct (zlookup p (waitpool s)) as [pool|] eqn:El; [|eapply IH; eauto].
    destruct pool as [|t0 pool']; [eapply IH; eauto|].
    set (pool := t0 :: pool') in *.
    pose proof (pwf_lookup _ _ _ HP El) as Hpool.
    destruct (sort_desc ts_product (filter (env_ok s) pool)) as [|x to_test'] eqn:Es; [eapply IH; eauto|].
    destruct strat as [|sv strat1]; [discriminate|].
    destruct (negb (same_set (map fst sv) (uids (x :: to_test')))); [discriminate|].
    assert (Htt : Forall wf_req (x :: to_test')).
    { rewrite <- Es. rewrite Forall_forall in *. intros y Hy. apply sort_desc_in in Hy.
      apply filter_In in Hy as [Hy _]. auto. }
    destruct (bisect_replay c s (x :: to_test') sv) as [[[[s1 good] bad] fail]|] eqn:Eb; [|discriminate].
    destruct (bisect_replay_sinv _ _ _ Htt _ _ _ _ _ _ HI Eb) as (A & B & C).
    eapply IH; [| |exact H].
    + eapply sinv_frame; [| | |exact A]; reflexivity.
    + unfold set_pool. cbn [waitpool]. rewrite B. apply pwf_store; [exact HP|].
      apply Forall_app; split.
      * eapply forall_incl; [exact C|exact Htt].
      * rewrite Forall_forall in *. intros y Hy. apply filter_In in Hy as [Hy _]. auto.
Qed.

(* ---------------- _schedule_incoming ---------------- *)
Definition no_pre (t : req) : Prop := match r_slots t with Some (_ :: _) => False | _ => True end.
Definition good (t : req) : Prop := wf_req t /\ no_pre t.
Definition QWf (q : list qitem) : Prop :=
  Forall (fun it => match it with QSched l => Forall good l | QCancel _ => True end) q.

Lemma pool_remove_pwf u : forall wp o wp', PWf wp -> pool_remove u wp = (o, wp') -> PWf wp'.
Proof.
  unfold PWf, pool_reqs. induction wp as [|[p l] r IH]; intros o wp' H E; simpl in E.
  - injection E as _ <-. constructor.
  - simpl in H. apply Forall_app in H as [H1 H2].
    destruct (find_req u l).
    + injection E as _ <-. simpl. apply Forall_app; split; [|exact H2].
      rewrite Forall_forall in *. intros x Hx. apply filter_In in Hx as [Hx _]. auto.
    + destruct (pool_remove u r) as [o' r'] eqn:Er. injection E as _ <-. simpl.
      apply Forall_app; split; [exact H1|]. eapply IH; eauto.
Qed.

Lemma cancel_uids_pwf : forall us wp evs wp' evs', PWf wp -> cancel_uids us wp evs = (wp', evs') -> PWf wp'.
Proof.
  induction us as [|u r IH]; intros wp evs wp' evs' H E; simpl in E.
  - injection E as <- _. exact H.
  - destruct (pool_remove u wp) as [[t|] wp1] eqn:Er.
    + eapply IH; [|exact E]. eapply pool_remove_pwf; eauto.
    + eapply IH; eauto.
Qed.

Lemma bucket_add_good p t : forall b, Forall good (pool_reqs b) -> good t -> Forall good (pool_reqs (bucket_add p t b)).
Proof.
  unfold pool_reqs. induction b as [|[p' l] r IH]; intros H Ht; simpl.
  - constructor; [exact Ht|constructor].
  - simpl in H. apply Forall_app in H as [H1 H2].
    destruct (p' =? p); simpl; apply Forall_app; split; auto.
    apply Forall_app; split; [exact H1|constructor; [exact Ht|constructor]].
Qed.

Lemma drain_ok : forall q wp bk evs wp' bk' evs',
  PWf wp -> QWf q -> Forall good (pool_reqs bk) ->
  drain q wp bk evs = (wp', bk', evs') -> PWf wp' /\ Forall good (pool_reqs bk').
Proof.
  induction q as [|it r IH]; intros wp bk evs wp' bk' evs' HP HQ HB E; cbn [drain] in E.
  - injection E as <- <- _. auto.
  - inversion HQ as [|? ? Hit Hr]; subst. destruct it as [ts|us].
    + match type of E with context [fold_left ?f ts (bk, evs)] =>
        assert (Hf : forall ts0 b e b' e', Forall good ts0 -> Forall good (pool_reqs b) ->
                       fold_left f ts0 (b, e) = (b', e') -> Forall good (pool_reqs b'));
        [|destruct (fold_left f ts (bk, evs)) as [bk1 evs1] eqn:Ef] end.
      { induction ts0 as [|t ts0 IHt]; intros b e b' e' Hg Hb Ef; simpl in Ef.
        - injection Ef as <- _. exact Hb.
        - inversion Hg as [|? ? Hg1 Hg2]; subst. destruct (r_ranks t <=? 0).
          + exact (IHt _ _ _ _ Hg2 Hb Ef).
          + exact (IHt _ _ _ _ Hg2 (bucket_add_good _ _ _ Hb Hg1) Ef). }
      eapply IH; [exact HP|exact Hr| |exact E]. eapply Hf; eauto.
    + destruct (cancel_uids us wp evs) as [wp1 evs1] eqn:Ec.
      eapply IH; [|exact Hr|exact HB|exact E]. eapply cancel_uids_pwf; eauto.
Qed.

Lemma place_tasks_ok ns0 c : forall ts s to_wait evs s' tw' evs',
  SInv ns0 s -> Forall good ts -> Forall wf_req to_wait ->
  place_tasks c s ts to_wait evs = (s', tw', evs') ->
  SInv ns0 s' /\ waitpool s' = waitpool s /\ cancel_list s' = cancel_list s /\ Forall wf_req tw'.
Proof.
  induction ts as [|t r IH]; intros s to_wait evs s' tw' evs' HI Hg Hw E; cbn [place_tasks] in E.
  - injection E as <- <- _. auto.
  - inversion Hg as [|? ? [Hwf Hnp] Hr]; subst.
    destruct (negb (env_ok s t)).
    + eapply IH; [exact HI|exact Hr| |exact E]. apply Forall_app; split; [exact Hw|constructor; [exact Hwf|constructor]].
    + unfold no_pre in Hnp.
      assert (Ht : forall s1 res, try_allocation c s t = (s1, res) ->
                   SInv ns0 s1 /\ waitpool s1 = waitpool s /\ cancel_list s1 = cancel_list s).
      { intros s1 res Et. destruct (try_allocation_sinv _ _ _ _ _ _ HI Hwf Et) as [A B].
        split; [exact A|split; [exact B|]].
        unfold try_allocation in Et.
        destruct (schedule_task c s t) as [[e off]|[[[off co] tg] [sl|]]];
          [injection Et as <- _; reflexivity|injection Et as <- _; reflexivity|].
        destruct (active_cnt s =? 0); injection Et as <- _; reflexivity. }
      destruct (r_slots t) as [[|sl0 sls]|]; try contradiction.
      * destruct (try_allocation c s t) as [s1 res] eqn:Et. destruct (Ht _ _ eq_refl) as (A & B & C).
        destruct res.
        -- destruct (IH _ _ _ _ _ _ A Hr Hw E) as (A' & B' & C' & D'). split; [exact A'|split; [congruence|split; [congruence|exact D']]].
        -- assert (Hw' : Forall wf_req (to_wait ++ [t])) by (apply Forall_app; split; [exact Hw|constructor; [exact Hwf|constructor]]).
           destruct (IH _ _ _ _ _ _ A Hr Hw' E) as (A' & B' & C' & D'). split; [exact A'|split; [congruence|split; [congruence|exact D']]].
        -- destruct (IH _ _ _ _ _ _ A Hr Hw E) as (A' & B' & C' & D'). split; [exact A'|split; [congruence|split; [congruence|exact D']]].
      * destruct (try_allocation c s t) as [s1 res] eqn:Et. destruct (Ht _ _ eq_refl) as (A & B & C).
        destruct res.
        -- destruct (IH _ _ _ _ _ _ A Hr Hw E) as (A' & B' & C' & D'). split; [exact A'|split; [congruence|split; [congruence|exact D']]].
        -- assert (Hw' : Forall wf_req (to_wait ++ [t])) by (apply Forall_app; split; [exact Hw|constructor; [exact Hwf|constructor]]).
           destruct (IH _ _ _ _ _ _ A Hr Hw' E) as (A' & B' & C' & D'). split; [exact A'|split; [congruence|split; [congruence|exact D']]].
        -- destruct (IH _ _ _ _ _ _ A Hr Hw E) as (A' & B' & C' & D'). split; [exact A'|split; [congruence|split; [congruence|exact D']]].
Qed.

Lemma pool_insert_pwf p : forall ts wp cl evs wp' cl' evs',
  PWf wp -> Forall wf_req ts -> pool_insert p ts wp cl evs = (wp', cl', evs') -> PWf wp'.
Proof.
  induction ts as [|t r IH]; intros wp cl evs wp' cl' evs' HP Hw E; cbn [pool_insert] in E.
  - injection E as <- _ _. exact HP.
  - inversion Hw as [|? ? Ht Hr]; subst.
    assert (Hcur : Forall wf_req (filter (fun x => negb (r_uid x =? r_uid t))
                     match zlookup p wp with Some l => l | None => [] end)).
    { destruct (zlookup p wp) as [l|] eqn:El; [|constructor].
      pose proof (pwf_lookup _ _ _ HP El) as Hl. rewrite Forall_forall in *.
      intros x Hx. apply filter_In in Hx as [Hx _]. auto. }
    destruct (zmem (r_uid t) cl).
    + eapply IH; [|exact Hr|exact E]. apply pwf_store; assumption.
    + eapply IH; [|exact Hr|exact E]. apply pwf_store; [exact HP|].
      apply Forall_app; split; [exact Hcur|constructor; [exact Ht|constructor]].
Qed.

Lemma good_wf l : Forall good l -> Forall wf_req l.
Proof. intro H. rewrite Forall_forall in *. intros x Hx. apply (H x Hx). Qed.

Lemma incoming_prios_ok ns0 c bk : Forall good (pool_reqs bk) ->
  forall ps s lw evs s' lw' evs',
    SInv ns0 s -> PWf (waitpool s) ->
    incoming_prios c s bk ps lw evs = (s', lw', evs') ->
    SInv ns0 s' /\ PWf (waitpool s').
Proof.
  intro HB. induction ps as [|p r IH]; intros s lw evs s' lw' evs' HI HP E; cbn [incoming_prios] in E.
  - injection E as <- _ _. auto.
  - set (tasks := match zlookup p bk with Some l => l | None => [] end) in *.
    assert (Htasks : Forall good (sort_desc r_ranks tasks)).
    { rewrite Forall_forall in *. intros x Hx. apply sort_desc_in in Hx. apply HB.
      unfold tasks in Hx. destruct (zlookup p bk) as [l|] eqn:El; [|destruct Hx].
      apply zlookup_in in El. unfold pool_reqs. apply in_concat. exists l. split; [|exact Hx].
      apply in_map_iff. exists (p, l). auto. }
    destruct (place_tasks c s (sort_desc r_ranks tasks) [] evs) as [[s1 to_wait] evs1] eqn:Ep.
    destruct (place_tasks_ok _ _ _ _ _ _ _ _ _ HI Htasks (Forall_nil _) Ep) as (A & B & C & D).
    destruct (pool_insert p to_wait (waitpool s1) (cancel_list s1) evs1) as [[wp cl] evs2] eqn:Ei.
    eapply IH; [| |exact E].
    + eapply sinv_frame; [| | |exact A]; reflexivity.
    + cbn [waitpool]. eapply pool_insert_pwf; [|exact D|exact Ei]. rewrite B. exact HP.
Qed.

Theorem schedule_incoming_ok ns0 c s q s' r_inc act evs :
  SInv ns0 s -> PWf (waitpool s) -> QWf q ->
  schedule_incoming c s q = (s', r_inc, act, evs) ->
  SInv ns0 s' /\ PWf (waitpool s').
Proof.
  intros HI HP HQ E. unfold schedule_incoming in E.
  destruct (drain q (waitpool s) [] []) as [[wp bk] evs0] eqn:Ed.
  assert (HB0 : Forall good (pool_reqs [])) by constructor.
  destruct (drain_ok _ _ _ _ _ _ _ HP HQ HB0 Ed) as [HP' HB].
  assert (HI0 : SInv ns0 (set_pool s wp)) by (eapply sinv_frame; [| | |exact HI]; reflexivity).
  destruct bk as [|b0 bk'].
  - injection E as <- _ _ _. split; [exact HI0|exact HP'].
  - destruct (incoming_prios c (set_pool s wp) (b0 :: bk') (prios_desc (b0 :: bk')) false evs0)
      as [[s1 lw] evs1] eqn:Ei.
    injection E as <- _ _ _. eapply incoming_prios_ok; [exact HB|exact HI0|exact HP'|exact Ei].
Qed.

(* ---------------- _unschedule_completed ---------------- *)
Fixpoint disciplined (us : list (Z * list slot)) (h : held) : Prop :=
  match us with
  | [] => True
  | (u, sl) :: r => first_with u h = Some sl /\ disciplined r (drop_first u h)
  end.

Lemma drop_first_length u h sl : first_with u h = Some sl -> length h = S (length (drop_first u h)).
Proof.
  induction h as [|[k s] r IH]; simpl; [discriminate|].
  destruct (k =? u); [reflexivity|]. intro H. simpl. rewrite (IH H). reflexivity.
Qed.

Lemma unschedule_ok ns0 : forall us s,
  SInv ns0 s -> disciplined us (heldg s) ->
  SInv ns0 (unschedule us s) /\ waitpool (unschedule us s) = waitpool s.
Proof.
  induction us as [|[u sl] r IH]; intros s HI HD; cbn [unschedule].
  - auto.
  - destruct HD as [H1 H2]. destruct HI as (I & Hnd & Hac).
    match goal with |- SInv _ (unschedule r ?sx) /\ _ => destruct (IH sx) as [A B] end.
    + split; [|split]; cbn [nodes heldg active_cnt set_sched];
        [apply inv_release; assumption|rewrite css_idx; exact Hnd|].
      rewrite (drop_first_length _ _ _ H1) in Hac. lia.
    + exact H2.
    + split; [exact A|rewrite B; reflexivity].
Qed.

(* ---------------- one iteration, one operation, a whole history ---------------- *)
Theorem iterate_pre_ok ns0 c s q strat s2 rw ri evs :
  SInv ns0 s -> PWf (waitpool s) -> QWf q ->
  iterate_pre c s q strat = Some (s2, rw, ri, evs) ->
  SInv ns0 s2 /\ PWf (waitpool s2).
Proof.
  intros HI HP HQ E. unfold iterate_pre in E.
  assert (Hw : forall s1 st1 r1 a1 e1,
            (if resources s then schedule_waitpool c s strat else Some (s, strat, false, false, []))
            = Some (s1, st1, r1, a1, e1) -> SInv ns0 s1 /\ PWf (waitpool s1)).
  { intros s1 st1 r1 a1 e1 Hx. destruct (resources s).
    - unfold schedule_waitpool in Hx. eapply waitpool_loop_sinv; eauto.
    - injection Hx as <- _ _ _ _. auto. }
  destruct (if resources s then schedule_waitpool c s strat else Some (s, strat, false, false, []))
    as [[[[[s1 st1] r1] a1] e1]|] eqn:Ew; [|discriminate].
  destruct (Hw _ _ _ _ _ eq_refl) as [A B].
  destruct st1; [|discriminate].
  destruct (schedule_incoming c s1 q) as [[[sx rix] ax] ex] eqn:Ei.
  injection E as <- _ _ _. eapply schedule_incoming_ok; eauto.
Qed.

Definition WInv (ns0 : list node) (w : world) : Prop :=
  SInv ns0 (st w) /\ PWf (waitpool (st w)) /\ QWf (q_sched w).

(* environment assumptions along a history: arriving requests are well formed
   and carry no application-supplied slots; unschedule messages name tasks that
   hold exactly those slots at the time they are processed *)
Definition op_good (o : op) : Prop :=
  match o with Arrive l => Forall good l | _ => True end.

Fixpoint run_disciplined (c : cfg) (w : world) (ops : list op) : Prop :=
  match ops with
  | [] => True
  | o :: r =>
      match o with
      | Iterate strat =>
          match iterate_pre c (st w) (q_sched w) strat with
          | Some (s2, _, _, _) => disciplined (q_unsched w) (heldg s2)
          | None => True
          end
      | _ => True
      end /\
      match step c w o with Some w' => run_disciplined c w' r | None => True end
  end.

Lemma intake_good : forall ts cl evs keep cl' evs',
  Forall good ts -> intake ts cl evs = (keep, cl', evs') -> Forall good keep.
Proof.
  induction ts as [|t r IH]; intros cl evs keep cl' evs' Hg E; cbn [intake] in E.
  - injection E as <- _ _. constructor.
  - inversion Hg as [|? ? Ht Hr]; subst. destruct (zmem (r_uid t) cl).
    + eapply IH; eauto.
    + destruct (intake r cl evs) as [[k c0] e0] eqn:Ei. injection E as <- _ _.
      constructor; [exact Ht|eapply IH; eauto].
Qed.

Theorem step_ok ns0 c w o w' :
  WInv ns0 w -> op_good o ->
  match o with
  | Iterate strat =>
      match iterate_pre c (st w) (q_sched w) strat with
      | Some (s2, _, _, _) => disciplined (q_unsched w) (heldg s2)
      | None => True
      end
  | _ => True
  end ->
  step c w o = Some w' -> WInv ns0 w'.
Proof.
  intros (HI & HP & HQ) Hg Hd E. destruct o as [ts|us|us|e|strat|us|us]; cbn [step] in E.
  - destruct (intake ts (cancel_list (st w)) []) as [[keep cl] evs] eqn:Ei. injection E as <-.
    cbn [st q_sched]. split; [|split].
    + eapply sinv_frame; [| | |exact HI]; reflexivity.
    + exact HP.
    + unfold QWf. apply Forall_app; split; [exact HQ|]. constructor; [|constructor].
      eapply intake_good; eauto.
  - injection E as <-. cbn [st q_sched]. split; [|split].
    + eapply sinv_frame; [| | |exact HI]; reflexivity.
    + exact HP.
    + unfold QWf. apply Forall_app; split; [exact HQ|]. constructor; [exact I|constructor].
  - injection E as <-. split; [|split]; cbn [st q_sched]; assumption.
  - injection E as <-. split; [|split]; cbn [st q_sched]; assumption.
  - unfold iterate in E.
    destruct (iterate_pre c (st w) (q_sched w) strat) as [[[[s2 rw] ri] evs]|] eqn:Ep; [|discriminate].
    destruct (iterate_pre_ok _ _ _ _ _ _ _ _ _ HI HP HQ Ep) as [A B].
    destruct (unschedule_ok ns0 _ _ A Hd) as [C D].
    injection E as <-. cbn [st q_sched]. split; [|split].
    + eapply sinv_frame; [| | |exact C]; reflexivity.
    + unfold set_res. cbn [waitpool]. rewrite D. exact B.
    + constructor.
  - injection E as <-. cbn [st q_sched]. split; [|split].
    + eapply sinv_frame; [| | |exact HI]; reflexivity.
    + exact HP.
    + exact HQ.
  - injection E as <-. cbn [st q_sched]. split; [|split].
    + exact HI.
    + exact HP.
    + unfold QWf. apply Forall_app; split; [exact HQ|]. constructor; [exact I|constructor].
Qed.

Theorem run_ok ns0 c : forall ops w w',
  WInv ns0 w -> Forall op_good ops -> run_disciplined c w ops ->
  run c w ops = Some w' -> WInv ns0 w'.
Proof.
  induction ops as [|o r IH]; intros w w' HW Hg Hd E; cbn [run] in E.
  - injection E as <-. exact HW.
  - inversion Hg as [|? ? Ho Hr]; subst. cbn [run_disciplined] in Hd. destruct Hd as [Hd1 Hd2].
    destruct (step c w o) as [w1|] eqn:Es; [|discriminate].
    eapply IH; [|exact Hr|exact Hd2|exact E].
    eapply step_ok; eauto.
Qed.

Theorem winv_init ns0 :
  NoDup (map n_idx ns0) -> (forall nd, In nd ns0 -> 0 <= n_lfs nd /\ 0 <= n_mem nd) ->
  WInv ns0 (init_world ns0).
Proof.
  intros Hnd Hnn. split; [|split].
  - split; [apply inv_init; exact Hnn|split; [exact Hnd|reflexivity]].
  - constructor.
  - constructor.
Qed.

(* ---------------- corollaries in the words of the properties ---------------- *)

(* while a task holds resources nothing it holds is offered to another task *)
Theorem held_not_offered ns0 c s t off co tg sl :
  SInv ns0 s -> wf_req t -> schedule_task c s t = inr (off, co, tg, Some sl) ->
  forall n j, (touched_c n j sl = true -> touched_c n j (hslots (heldg s)) = false) /\
              (touched_g n j sl = true -> touched_g n j (hslots (heldg s)) = false).
Proof.
  intros HI Hw H n j. pose proof (sinv_nonneg _ _ HI) as Hnn. destruct HI as (I & Hnd & _).
  pose proof (schedule_task_fresh _ _ _ _ _ _ _ Hnd Hnn Hw H) as F. split; intro Ht.
  - pose proof (fr_c _ _ F n j Ht) as Hf. rewrite (inv_c _ _ _ I n j) in Hf.
    destruct (core_at ns0 n j); [|discriminate].
    destruct (touched_c n j (hslots (heldg s))); [discriminate|reflexivity].
  - pose proof (fr_g _ _ F n j Ht) as Hf. rewrite (inv_g _ _ _ I n j) in Hf.
    destruct (gpu_at ns0 n j); [|discriminate].
    destruct (touched_g n j (hslots (heldg s))); [discriminate|reflexivity].
Qed.

(* the four clauses of C01 for the held set of a state satisfying the invariant *)
Definition no_oversubscription (ns0 : list node) (h : held) : Prop :=
  (forall n j, count_c n j (hslots h) <= 1) /\
  (forall n j, gshare_at n j (hslots h) <= 64) /\
  (forall n cap, lfs_at ns0 n = Some cap -> sum_lfs n (hslots h) <= cap) /\
  (forall n cap, mem_at ns0 n = Some cap -> sum_mem n (hslots h) <= cap) /\
  (forall n j, touched_c n j (hslots h) = true -> core_at ns0 n j = Some Free) /\
  (forall n j, touched_g n j (hslots h) = true -> gpu_at ns0 n j = Some Free).

Theorem inv_no_oversubscription ns0 ns h : Inv ns0 ns h -> no_oversubscription ns0 h.
Proof.
  intro I. repeat split.
  - apply (inv_dc _ _ _ I).
  - apply (inv_gpu_total _ _ _ I).
  - apply (inv_lfs_total _ _ _ I).
  - apply (inv_mem_total _ _ _ I).
  - apply (inv_c0 _ _ _ I).
  - apply (inv_g0 _ _ _ I).
Qed.

Theorem reachable_no_oversubscription ns0 c ops w' :
  NoDup (map n_idx ns0) -> (forall nd, In nd ns0 -> 0 <= n_lfs nd /\ 0 <= n_mem nd) ->
  Forall op_good ops -> run_disciplined c (init_world ns0) ops ->
  run c (init_world ns0) ops = Some w' ->
  no_oversubscription ns0 (heldg (st w')).
Proof.
  intros Hnd Hnn Hg Hd Hr.
  destruct (run_ok ns0 c ops _ _ (winv_init ns0 Hnd Hnn) Hg Hd Hr) as ((I & _) & _).
  apply (inv_no_oversubscription _ _ _ I).
Qed.

Theorem reachable_quiescent ns0 c ops w' :
  NoDup (map n_idx ns0) -> (forall nd, In nd ns0 -> 0 <= n_lfs nd /\ 0 <= n_mem nd) ->
  Forall op_good ops -> run_disciplined c (init_world ns0) ops ->
  run c (init_world ns0) ops = Some w' -> heldg (st w') = [] ->
  active_cnt (st w') = 0 /\
  (forall n j, core_at (nodes (st w')) n j = core_at ns0 n j) /\
  (forall n j, gpu_at (nodes (st w')) n j = gpu_at ns0 n j) /\
  (forall n, lfs_at (nodes (st w')) n = lfs_at ns0 n) /\
  (forall n, mem_at (nodes (st w')) n = mem_at ns0 n).
Proof.
  intros Hnd Hnn Hg Hd Hr Hh.
  destruct (run_ok ns0 c ops _ _ (winv_init ns0 Hnd Hnn) Hg Hd Hr) as ((I & _ & Hac) & _).
  rewrite Hh in *. split; [exact Hac|]. apply inv_quiescent. exact I.
Qed.

Theorem reachable_active_count ns0 c ops w' :
  NoDup (map n_idx ns0) -> (forall nd, In nd ns0 -> 0 <= n_lfs nd /\ 0 <= n_mem nd) ->
  Forall op_good ops -> run_disciplined c (init_world ns0) ops ->
  run c (init_world ns0) ops = Some w' ->
  active_cnt (st w') = Z.of_nat (length (heldg (st w'))).
Proof.
  intros Hnd Hnn Hg Hd Hr.
  destruct (run_ok ns0 c ops _ _ (winv_init ns0 Hnd Hnn) Hg Hd Hr) as ((_ & _ & Hac) & _). exact Hac.
Qed.
