(* The occupancy invariant of the scheduler: the node map is the initial map
   with exactly the held placements marked, held placements are pairwise
   disjoint, and what is held was usable (Free) initially. *)
From Coq Require Import ZArith List Bool Lia Arith.
From RP Require Import Sched.Model Sched.NodeMap.
Import ListNotations.
Local Open Scope Z_scope.

Definition held := list (Z * list slot).
Definition hslots (h : held) : list slot := concat (map snd h).

(* how often core j of node n occurs in a list of slots *)
Definition cnt1_c (n : Z) (j : nat) (sl : slot) : Z :=
  if n =? s_node sl then Z.of_nat (count_occ Nat.eq_dec (s_cores sl) j) else 0.
Definition count_c (n : Z) (j : nat) (sls : list slot) : Z :=
  fold_right (fun sl a => cnt1_c n j sl + a) 0 sls.

(* GPU share (units of 1/64) of GPU j of node n handed out by a list of slots *)
Fixpoint gsh (j : nat) (gl : list (nat * Z)) : Z :=
  match gl with [] => 0 | (i, u) :: r => (if Nat.eqb i j then u else 0) + gsh j r end.
Definition gshare_at (n : Z) (j : nat) (sls : list slot) : Z :=
  fold_right (fun sl a => (if n =? s_node sl then gsh j (s_gpus sl) else 0) + a) 0 sls.

(* number of held tasks touching GPU j of node n *)
Definition count_gt (n : Z) (j : nat) (h : held) : Z :=
  fold_right (fun e a => (if touched_g n j (snd e) then 1 else 0) + a) 0 h.

Record Inv (ns0 ns : list node) (h : held) : Prop := {
  inv_c : forall n j, core_at ns n j =
            match core_at ns0 n j with None => None
            | Some o => if touched_c n j (hslots h) then Some Busy else Some o end;
  inv_g : forall n j, gpu_at ns n j =
            match gpu_at ns0 n j with None => None
            | Some o => if touched_g n j (hslots h) then Some Busy else Some o end;
  inv_l : forall n, lfs_at ns n = option_map (fun x => x - sum_lfs n (hslots h)) (lfs_at ns0 n);
  inv_m : forall n, mem_at ns n = option_map (fun x => x - sum_mem n (hslots h)) (mem_at ns0 n);
  inv_c0 : forall n j, touched_c n j (hslots h) = true -> core_at ns0 n j = Some Free;
  inv_g0 : forall n j, touched_g n j (hslots h) = true -> gpu_at ns0 n j = Some Free;
  inv_dc : forall n j, count_c n j (hslots h) <= 1;
  inv_dg : forall n j, count_gt n j h <= 1;
  inv_gs : forall e, In e h -> forall n j, gshare_at n j (snd e) <= 64;
  inv_ln : forall n x, lfs_at ns n = Some x -> 0 <= x;
  inv_mn : forall n x, mem_at ns n = Some x -> 0 <= x;
  inv_nn : forall s, In s (hslots h) -> 0 <= s_lfs s /\ 0 <= s_mem s /\
                                         forall i u, In (i, u) (s_gpus s) -> 0 <= u
}.

(* what a new placement must satisfy with respect to the current map *)
Record fresh (ns : list node) (sl : list slot) : Prop := {
  fr_c : forall n j, touched_c n j sl = true -> core_at ns n j = Some Free;
  fr_dc : forall n j, count_c n j sl <= 1;
  fr_g : forall n j, touched_g n j sl = true -> gpu_at ns n j = Some Free;
  fr_gs : forall n j, gshare_at n j sl <= 64;
  fr_l : forall n x, lfs_at ns n = Some x -> sum_lfs n sl <= x;
  fr_m : forall n x, mem_at ns n = Some x -> sum_mem n sl <= x;
  fr_nn : forall s, In s sl -> 0 <= s_lfs s /\ 0 <= s_mem s /\ forall i u, In (i, u) (s_gpus s) -> 0 <= u
}.

(* ---- basic facts ---- *)
Lemma count_c_app n j a b : count_c n j (a ++ b) = count_c n j a + count_c n j b.
Proof. unfold count_c. induction a as [|x a IH]; cbn [fold_right app]; [reflexivity|]. rewrite IH. lia. Qed.
Lemma gshare_at_app n j a b : gshare_at n j (a ++ b) = gshare_at n j a + gshare_at n j b.
Proof. unfold gshare_at. induction a as [|x a IH]; cbn [fold_right app]; [reflexivity|]. rewrite IH. lia. Qed.
Lemma count_gt_app n j a b : count_gt n j (a ++ b) = count_gt n j a + count_gt n j b.
Proof. unfold count_gt. induction a as [|x a IH]; cbn [fold_right app]; [reflexivity|]. rewrite IH. lia. Qed.

Lemma hslots_app a b : hslots (a ++ b) = hslots a ++ hslots b.
Proof. unfold hslots. rewrite map_app, concat_app. reflexivity. Qed.

Lemma cnt1_c_nonneg n j sl : 0 <= cnt1_c n j sl.
Proof. unfold cnt1_c. destruct (n =? s_node sl); lia. Qed.

Lemma count_c_nonneg n j sls : 0 <= count_c n j sls.
Proof.
  unfold count_c. induction sls as [|x r IH]; cbn [fold_right]; [lia|].
  pose proof (cnt1_c_nonneg n j x). lia.
Qed.

Lemma count_gt_nonneg n j h : 0 <= count_gt n j h.
Proof. unfold count_gt. induction h as [|x r IH]; cbn [fold_right]; [lia|]. destruct (touched_g n j (snd x)); lia. Qed.

Lemma count_occ_pos_existsb l j : (0 < count_occ Nat.eq_dec l j)%nat <-> existsb (Nat.eqb j) l = true.
Proof.
  split.
  - intro H. apply existsb_exists. exists j.
    split; [apply (count_occ_In Nat.eq_dec); exact H|apply Nat.eqb_refl].
  - intro H. apply existsb_exists in H as (x & Hx & E). apply Nat.eqb_eq in E. subst.
    apply (count_occ_In Nat.eq_dec) in Hx. exact Hx.
Qed.

Lemma touched_c_count n j sls : touched_c n j sls = true <-> 0 < count_c n j sls.
Proof.
  unfold touched_c. induction sls as [|x r IH].
  - simpl. split; [discriminate|unfold count_c; simpl; lia].
  - change (count_c n j (x :: r)) with (cnt1_c n j x + count_c n j r).
    cbn [existsb]. rewrite orb_true_iff, IH.
    pose proof (count_c_nonneg n j r). pose proof (cnt1_c_nonneg n j x).
    assert (K : touch_c n j x = true <-> 0 < cnt1_c n j x).
    { unfold touch_c, cnt1_c. destruct (n =? s_node x); simpl.
      - rewrite <- count_occ_pos_existsb. lia.
      - split; [discriminate|lia]. }
    rewrite K. lia.
Qed.

Lemma touched_c_false_count n j sls : touched_c n j sls = false <-> count_c n j sls = 0.
Proof.
  pose proof (touched_c_count n j sls) as H. pose proof (count_c_nonneg n j sls).
  destruct (touched_c n j sls); split; intro K; try discriminate; try reflexivity.
  - destruct H as [H _]. specialize (H eq_refl). lia.
  - lia.
Qed.

Lemma touched_g_hslots n j h : touched_g n j (hslots h) = true <-> 0 < count_gt n j h.
Proof.
  induction h as [|e r IH].
  - unfold hslots, count_gt. simpl. split; [discriminate|lia].
  - change (hslots (e :: r)) with (snd e ++ hslots r).
    change (count_gt n j (e :: r)) with ((if touched_g n j (snd e) then 1 else 0) + count_gt n j r).
    rewrite touched_g_app, orb_true_iff, IH.
    pose proof (count_gt_nonneg n j r).
    destruct (touched_g n j (snd e)).
    + split; intro K; [lia|left; reflexivity].
    + split; intro K; [destruct K as [K|K]; [discriminate|lia]|right; lia].
Qed.

Lemma hslots_single u sl : hslots [(u, sl)] = sl.
Proof. unfold hslots. simpl. apply app_nil_r. Qed.

Lemma sum_lfs_nonneg n sls : (forall s, In s sls -> 0 <= s_lfs s) -> 0 <= sum_lfs n sls.
Proof.
  unfold sum_lfs. induction sls as [|x r IH]; cbn [fold_right]; intro H; [lia|].
  assert (0 <= s_lfs x) by (apply H; left; reflexivity).
  assert (0 <= fold_right (fun sl a => if n =? s_node sl then s_lfs sl + a else a) 0 r)
    by (apply IH; intros s Hs; apply H; right; exact Hs).
  destruct (n =? s_node x); lia.
Qed.
Lemma sum_mem_nonneg n sls : (forall s, In s sls -> 0 <= s_mem s) -> 0 <= sum_mem n sls.
Proof.
  unfold sum_mem. induction sls as [|x r IH]; cbn [fold_right]; intro H; [lia|].
  assert (0 <= s_mem x) by (apply H; left; reflexivity).
  assert (0 <= fold_right (fun sl a => if n =? s_node sl then s_mem sl + a else a) 0 r)
    by (apply IH; intros s Hs; apply H; right; exact Hs).
  destruct (n =? s_node x); lia.
Qed.

(* ---------------- granting a fresh placement preserves the invariant ---------------- *)
Theorem inv_grant ns0 ns h u sl :
  Inv ns0 ns h -> fresh ns sl -> Inv ns0 (change_slot_states true sl ns) (h ++ [(u, sl)]).
Proof.
  intros I F.
  assert (HS : hslots (h ++ [(u, sl)]) = hslots h ++ sl) by (rewrite hslots_app, hslots_single; reflexivity).
  constructor; try rewrite HS.
  - intros n j. rewrite core_at_css, (inv_c _ _ _ I n j), touched_c_app.
    destruct (core_at ns0 n j) as [o|]; [|reflexivity].
    destruct (touched_c n j (hslots h)); destruct (touched_c n j sl); reflexivity.
  - intros n j. rewrite gpu_at_css, (inv_g _ _ _ I n j), touched_g_app.
    destruct (gpu_at ns0 n j) as [o|]; [|reflexivity].
    destruct (touched_g n j (hslots h)); destruct (touched_g n j sl); reflexivity.
  - intros n. rewrite lfs_at_css, (inv_l _ _ _ I n), sum_lfs_app.
    destruct (lfs_at ns0 n); cbn [option_map]; [f_equal; unfold sgn; lia|reflexivity].
  - intros n. rewrite mem_at_css, (inv_m _ _ _ I n), sum_mem_app.
    destruct (mem_at ns0 n); cbn [option_map]; [f_equal; unfold sgn; lia|reflexivity].
  - intros n j. rewrite touched_c_app, orb_true_iff. intros [H|H]; [apply (inv_c0 _ _ _ I), H|].
    pose proof (fr_c _ _ F n j H) as Hf. rewrite (inv_c _ _ _ I n j) in Hf.
    destruct (core_at ns0 n j) as [o|]; [|discriminate].
    destruct (touched_c n j (hslots h)); [discriminate|exact Hf].
  - intros n j. rewrite touched_g_app, orb_true_iff. intros [H|H]; [apply (inv_g0 _ _ _ I), H|].
    pose proof (fr_g _ _ F n j H) as Hf. rewrite (inv_g _ _ _ I n j) in Hf.
    destruct (gpu_at ns0 n j) as [o|]; [|discriminate].
    destruct (touched_g n j (hslots h)); [discriminate|exact Hf].
  - intros n j. rewrite count_c_app.
    pose proof (inv_dc _ _ _ I n j). pose proof (fr_dc _ _ F n j).
    pose proof (count_c_nonneg n j (hslots h)). pose proof (count_c_nonneg n j sl).
    destruct (touched_c n j sl) eqn:Et.
    + pose proof (fr_c _ _ F n j Et) as Hf. rewrite (inv_c _ _ _ I n j) in Hf.
      destruct (core_at ns0 n j) as [o|]; [|discriminate].
      destruct (touched_c n j (hslots h)) eqn:Eh; [discriminate|].
      apply touched_c_false_count in Eh. lia.
    + apply touched_c_false_count in Et. lia.
  - intros n j. rewrite count_gt_app.
    change (count_gt n j [(u, sl)]) with ((if touched_g n j sl then 1 else 0) + 0).
    pose proof (inv_dg _ _ _ I n j). pose proof (count_gt_nonneg n j h).
    destruct (touched_g n j sl) eqn:Et; [|lia].
    pose proof (fr_g _ _ F n j Et) as Hf. rewrite (inv_g _ _ _ I n j) in Hf.
    destruct (gpu_at ns0 n j) as [o|]; [|discriminate].
    destruct (touched_g n j (hslots h)) eqn:Eh; [discriminate|].
    assert (~ 0 < count_gt n j h) by (rewrite <- touched_g_hslots, Eh; discriminate). lia.
  - intros e He n j. apply in_app_iff in He as [He|[<-|[]]]; [apply (inv_gs _ _ _ I e He)|].
    simpl. apply (fr_gs _ _ F).
  - intros n x. rewrite lfs_at_css. destruct (lfs_at ns n) as [y|] eqn:E; cbn [option_map]; [|discriminate].
    intro K. assert (Hx : x = y + (-1) * sum_lfs n sl) by (change (-1) with (sgn true); congruence).
    pose proof (fr_l _ _ F n y E). lia.
  - intros n x. rewrite mem_at_css. destruct (mem_at ns n) as [y|] eqn:E; cbn [option_map]; [|discriminate].
    intro K. assert (Hx : x = y + (-1) * sum_mem n sl) by (change (-1) with (sgn true); congruence).
    pose proof (fr_m _ _ F n y E). lia.
  - intros s Hs. apply in_app_iff in Hs as [Hs|Hs]; [apply (inv_nn _ _ _ I s Hs)|apply (fr_nn _ _ F s Hs)].
Qed.

(* ---------------- releasing a held placement preserves the invariant ---------------- *)
Fixpoint first_with (u : Z) (h : held) : option (list slot) :=
  match h with [] => None | (k, sl) :: r => if k =? u then Some sl else first_with u r end.

Lemma first_with_split u h sl :
  first_with u h = Some sl ->
  exists a b, h = a ++ (u, sl) :: b /\ drop_first u h = a ++ b.
Proof.
  induction h as [|[k s] r IH]; simpl; [discriminate|].
  destruct (k =? u) eqn:E.
  - intro H. injection H as ->. apply Z.eqb_eq in E. subst k. exists [], r. auto.
  - intro H. destruct (IH H) as (a & b & -> & Hd). exists ((k, s) :: a), b. simpl. rewrite Hd. auto.
Qed.

Theorem inv_release ns0 ns h u sl :
  Inv ns0 ns h -> first_with u h = Some sl ->
  Inv ns0 (change_slot_states false sl ns) (drop_first u h).
Proof.
  intros I Hf. destruct (first_with_split _ _ _ Hf) as (a & b & -> & ->).
  assert (HS : hslots (a ++ (u, sl) :: b) = hslots a ++ sl ++ hslots b).
  { rewrite hslots_app. change ((u, sl) :: b) with ([(u, sl)] ++ b). rewrite hslots_app, hslots_single. reflexivity. }
  assert (HS' : hslots (a ++ b) = hslots a ++ hslots b) by apply hslots_app.
  pose proof (inv_c _ _ _ I) as Ic. pose proof (inv_g _ _ _ I) as Ig.
  pose proof (inv_dc _ _ _ I) as Idc. pose proof (inv_dg _ _ _ I) as Idg.
  pose proof (inv_c0 _ _ _ I) as Ic0. pose proof (inv_g0 _ _ _ I) as Ig0.
  pose proof (inv_nn _ _ _ I) as Inn.
  rewrite HS in *.
  assert (NNl : forall n, 0 <= sum_lfs n sl).
  { intro n. apply sum_lfs_nonneg. intros s Hs. apply Inn. rewrite !in_app_iff. auto. }
  assert (NNm : forall n, 0 <= sum_mem n sl).
  { intro n. apply sum_mem_nonneg. intros s Hs. apply Inn. rewrite !in_app_iff. auto. }
  constructor; try rewrite HS'.
  - intros n j. rewrite core_at_css, Ic.
    destruct (core_at ns0 n j) as [o|] eqn:E0; [|reflexivity].
    specialize (Idc n j). rewrite !count_c_app in Idc.
    pose proof (count_c_nonneg n j (hslots a)). pose proof (count_c_nonneg n j (hslots b)).
    pose proof (count_c_nonneg n j sl).
    rewrite !touched_c_app.
    destruct (touched_c n j sl) eqn:Et.
    + assert (0 < count_c n j sl) by (apply touched_c_count; exact Et).
      assert (Ea : touched_c n j (hslots a) = false) by (apply touched_c_false_count; lia).
      assert (Eb : touched_c n j (hslots b) = false) by (apply touched_c_false_count; lia).
      rewrite Ea, Eb. simpl.
      specialize (Ic0 n j). rewrite !touched_c_app, Et, orb_true_r in Ic0.
      rewrite E0 in Ic0. specialize (Ic0 eq_refl). injection Ic0 as ->. reflexivity.
    + rewrite orb_false_l.
      destruct (touched_c n j (hslots a) || touched_c n j (hslots b)); reflexivity.
  - intros n j. rewrite gpu_at_css, Ig.
    destruct (gpu_at ns0 n j) as [o|] eqn:E0; [|reflexivity].
    specialize (Idg n j). rewrite count_gt_app in Idg.
    change (count_gt n j ((u, sl) :: b)) with ((if touched_g n j sl then 1 else 0) + count_gt n j b) in Idg.
    pose proof (count_gt_nonneg n j a). pose proof (count_gt_nonneg n j b).
    rewrite !touched_g_app.
    destruct (touched_g n j sl) eqn:Et.
    + assert (Ea : touched_g n j (hslots a) = false).
      { destruct (touched_g n j (hslots a)) eqn:K; [|reflexivity]. apply touched_g_hslots in K. lia. }
      assert (Eb : touched_g n j (hslots b) = false).
      { destruct (touched_g n j (hslots b)) eqn:K; [|reflexivity]. apply touched_g_hslots in K. lia. }
      rewrite Ea, Eb. simpl.
      specialize (Ig0 n j). rewrite !touched_g_app, Et, orb_true_r in Ig0.
      rewrite E0 in Ig0. specialize (Ig0 eq_refl). injection Ig0 as ->. reflexivity.
    + rewrite orb_false_l.
      destruct (touched_g n j (hslots a) || touched_g n j (hslots b)); reflexivity.
  - intros n. rewrite lfs_at_css, (inv_l _ _ _ I n), HS, !sum_lfs_app.
    destruct (lfs_at ns0 n); cbn [option_map]; [f_equal; change (sgn false) with 1; lia|reflexivity].
  - intros n. rewrite mem_at_css, (inv_m _ _ _ I n), HS, !sum_mem_app.
    destruct (mem_at ns0 n); cbn [option_map]; [f_equal; change (sgn false) with 1; lia|reflexivity].
  - intros n j H. apply Ic0. rewrite !touched_c_app in *.
    apply orb_true_iff in H as [H|H]; rewrite H; rewrite ?orb_true_r; reflexivity.
  - intros n j H. apply Ig0. rewrite !touched_g_app in *.
    apply orb_true_iff in H as [H|H]; rewrite H; rewrite ?orb_true_r; reflexivity.
  - intros n j. specialize (Idc n j). rewrite !count_c_app in *.
    pose proof (count_c_nonneg n j sl). lia.
  - intros n j. specialize (Idg n j). rewrite count_gt_app in *.
    change (count_gt n j ((u, sl) :: b)) with ((if touched_g n j sl then 1 else 0) + count_gt n j b) in Idg.
    destruct (touched_g n j sl); lia.
  - intros e He. apply (inv_gs _ _ _ I). rewrite in_app_iff in *. simpl. tauto.
  - intros n x. rewrite lfs_at_css.
    destruct (lfs_at ns n) as [y|] eqn:E; cbn [option_map]; [|discriminate].
    intro K. assert (Hx : x = y + 1 * sum_lfs n sl) by (change 1 with (sgn false); congruence).
    pose proof (inv_ln _ _ _ I n y E). specialize (NNl n). lia.
  - intros n x. rewrite mem_at_css.
    destruct (mem_at ns n) as [y|] eqn:E; cbn [option_map]; [|discriminate].
    intro K. assert (Hx : x = y + 1 * sum_mem n sl) by (change 1 with (sgn false); congruence).
    pose proof (inv_mn _ _ _ I n y E). specialize (NNm n). lia.
  - intros s Hs. apply Inn. rewrite !in_app_iff in *. tauto.
Qed.

(* ---------------- the initial state ---------------- *)
Theorem inv_init ns0 :
  (forall nd, In nd ns0 -> 0 <= n_lfs nd /\ 0 <= n_mem nd) -> Inv ns0 ns0 [].
Proof.
  intro H. constructor; unfold hslots; simpl.
  - intros n j. destruct (core_at ns0 n j); reflexivity.
  - intros n j. destruct (gpu_at ns0 n j); reflexivity.
  - intros n. destruct (lfs_at ns0 n); simpl; [f_equal; lia|reflexivity].
  - intros n. destruct (mem_at ns0 n); simpl; [f_equal; lia|reflexivity].
  - discriminate.
  - discriminate.
  - intros; unfold count_c; simpl; lia.
  - intros; unfold count_gt; simpl; lia.
  - intros e [].
  - intros n x. unfold lfs_at. destruct (find_node n ns0) as [nd|] eqn:E; simpl; [|discriminate].
    intro K. injection K as <-.
    assert (In nd ns0).
    { clear -E. induction ns0 as [|y r IH]; simpl in E; [discriminate|].
      destruct (n_idx y =? n); [injection E as ->; left; reflexivity|right; auto]. }
    apply H; assumption.
  - intros n x. unfold mem_at. destruct (find_node n ns0) as [nd|] eqn:E; simpl; [|discriminate].
    intro K. injection K as <-.
    assert (In nd ns0).
    { clear -E. induction ns0 as [|y r IH]; simpl in E; [discriminate|].
      destruct (n_idx y =? n); [injection E as ->; left; reflexivity|right; auto]. }
    apply H; assumption.
  - intros s [].
Qed.

(* ---------------- consequences in the words of the property ---------------- *)
Lemma gsh_untouched j gl : existsb (fun ig => Nat.eqb j (fst ig)) gl = false -> gsh j gl = 0.
Proof.
  induction gl as [|[i u] r IH]; simpl; intro H; [reflexivity|].
  apply orb_false_iff in H as [H1 H2]. rewrite (Nat.eqb_sym j i) in H1. rewrite H1, (IH H2). lia.
Qed.

Lemma gshare_untouched n j sls : touched_g n j sls = false -> gshare_at n j sls = 0.
Proof.
  unfold touched_g, gshare_at. induction sls as [|x r IH]; cbn [existsb fold_right]; intro H; [reflexivity|].
  apply orb_false_iff in H as [H1 H2]. rewrite (IH H2). unfold touch_g in H1.
  destruct (n =? s_node x); simpl in H1; [rewrite (gsh_untouched _ _ H1)|]; lia.
Qed.

Lemma gshare_hslots_zero n j h : count_gt n j h = 0 -> gshare_at n j (hslots h) = 0.
Proof.
  induction h as [|e r IH]; intro H; [reflexivity|].
  change (hslots (e :: r)) with (snd e ++ hslots r). rewrite gshare_at_app.
  change (count_gt n j (e :: r)) with ((if touched_g n j (snd e) then 1 else 0) + count_gt n j r) in H.
  pose proof (count_gt_nonneg n j r).
  destruct (touched_g n j (snd e)) eqn:E; [lia|].
  rewrite (gshare_untouched _ _ _ E), IH; lia.
Qed.

(* the shares held on any GPU sum to at most one whole GPU (64/64) *)
Theorem inv_gpu_total ns0 ns h : Inv ns0 ns h -> forall n j, gshare_at n j (hslots h) <= 64.
Proof.
  intros I n j. pose proof (inv_dg _ _ _ I n j) as D. pose proof (inv_gs _ _ _ I) as G.
  clear I. induction h as [|e r IH]; [unfold hslots, gshare_at; simpl; lia|].
  change (hslots (e :: r)) with (snd e ++ hslots r). rewrite gshare_at_app.
  change (count_gt n j (e :: r)) with ((if touched_g n j (snd e) then 1 else 0) + count_gt n j r) in D.
  pose proof (count_gt_nonneg n j r).
  destruct (touched_g n j (snd e)) eqn:E.
  - rewrite (gshare_hslots_zero n j r) by lia. specialize (G e (or_introl eq_refl) n j). lia.
  - rewrite (gshare_untouched _ _ _ E). rewrite Z.add_0_l. apply IH; [lia|].
    intros e' He'. apply G. right. exact He'.
Qed.

(* storage and memory held on a node never exceed what the node has *)
Theorem inv_lfs_total ns0 ns h : Inv ns0 ns h ->
  forall n cap, lfs_at ns0 n = Some cap -> sum_lfs n (hslots h) <= cap.
Proof.
  intros I n cap H. pose proof (inv_l _ _ _ I n) as L. rewrite H in L. simpl in L.
  pose proof (inv_ln _ _ _ I n _ L). lia.
Qed.
Theorem inv_mem_total ns0 ns h : Inv ns0 ns h ->
  forall n cap, mem_at ns0 n = Some cap -> sum_mem n (hslots h) <= cap.
Proof.
  intros I n cap H. pose proof (inv_m _ _ _ I n) as L. rewrite H in L. simpl in L.
  pose proof (inv_mn _ _ _ I n _ L). lia.
Qed.

(* C03: when nothing is held, the free capacity is the initial capacity *)
Theorem inv_quiescent ns0 ns : Inv ns0 ns [] ->
  (forall n j, core_at ns n j = core_at ns0 n j) /\ (forall n j, gpu_at ns n j = gpu_at ns0 n j) /\
  (forall n, lfs_at ns n = lfs_at ns0 n) /\ (forall n, mem_at ns n = mem_at ns0 n).
Proof.
  intro I. repeat split; intros.
  - rewrite (inv_c _ _ _ I). unfold hslots; simpl. destruct (core_at ns0 n j); reflexivity.
  - rewrite (inv_g _ _ _ I). unfold hslots; simpl. destruct (gpu_at ns0 n j); reflexivity.
  - rewrite (inv_l _ _ _ I). unfold hslots, sum_lfs; simpl. destruct (lfs_at ns0 n); simpl; [f_equal; lia|reflexivity].
  - rewrite (inv_m _ _ _ I). unfold hslots, sum_mem; simpl. destruct (mem_at ns0 n); simpl; [f_equal; lia|reflexivity].
Qed.
