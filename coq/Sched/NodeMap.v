(* Pointwise view of the node list and how _change_slot_states acts on it. *)
From Coq Require Import ZArith List Bool Lia Arith.
From RP Require Import Sched.Model.
Import ListNotations.
Local Open Scope nat_scope.

Fixpoint find_node (n : Z) (ns : list node) : option node :=
  match ns with [] => None | nd :: r => if Z.eqb (n_idx nd) n then Some nd else find_node n r end.

Definition core_at (ns : list node) (n : Z) (j : nat) : option occ :=
  match find_node n ns with Some nd => nth_error (n_cores nd) j | None => None end.
Definition gpu_at (ns : list node) (n : Z) (j : nat) : option occ :=
  match find_node n ns with Some nd => nth_error (n_gpus nd) j | None => None end.
Definition lfs_at (ns : list node) (n : Z) : option Z := option_map n_lfs (find_node n ns).
Definition mem_at (ns : list node) (n : Z) : option Z := option_map n_mem (find_node n ns).

(* ---- set_nth ---- *)
Lemma nth_error_set_nth {A} (l : list A) : forall i v j,
  nth_error (set_nth i v l) j =
  match nth_error l j with None => None | Some x => if Nat.eqb i j then Some v else Some x end.
Proof.
  induction l as [|x l IH]; intros i v j.
  - destruct i; destruct j; reflexivity.
  - destruct i as [|i]; destruct j as [|j]; simpl; try reflexivity.
    + destruct (nth_error l j); reflexivity.
    + apply IH.
Qed.

Lemma nth_error_fold_set {A} (is : list nat) (v : A) : forall (l : list A) j,
  nth_error (fold_left (fun l i => set_nth i v l) is l) j =
  match nth_error l j with None => None | Some x => if existsb (Nat.eqb j) is then Some v else Some x end.
Proof.
  induction is as [|i is IH]; intros l j; simpl.
  - destruct (nth_error l j); reflexivity.
  - rewrite IH, nth_error_set_nth. destruct (nth_error l j) as [x|]; [|reflexivity].
    rewrite (Nat.eqb_sym j i). destruct (Nat.eqb i j); simpl; [|reflexivity].
    destruct (existsb (Nat.eqb j) is); reflexivity.
Qed.

Lemma nth_error_fold_set_fst {A} (is : list (nat * Z)) (v : A) : forall (l : list A) j,
  nth_error (fold_left (fun l ig => set_nth (fst ig) v l) is l) j =
  match nth_error l j with None => None
  | Some x => if existsb (fun ig => Nat.eqb j (fst ig)) is then Some v else Some x end.
Proof.
  induction is as [|i is IH]; intros l j; simpl.
  - destruct (nth_error l j); reflexivity.
  - rewrite IH, nth_error_set_nth. destruct (nth_error l j) as [x|]; [|reflexivity].
    rewrite (Nat.eqb_sym j (fst i)). destruct (Nat.eqb (fst i) j); simpl; [|reflexivity].
    destruct (existsb (fun ig => Nat.eqb j (fst ig)) is); reflexivity.
Qed.

(* ---- mark_slot ---- *)
Lemma find_node_mark_slot b sl ns : forall n,
  find_node n (mark_slot b sl ns) =
  if Z.eqb n (s_node sl) then option_map (mark_slot_node b sl) (find_node n ns) else find_node n ns.
Proof.
  induction ns as [|nd r IH]; intros n; simpl.
  - destruct (Z.eqb n (s_node sl)); reflexivity.
  - destruct (Z.eqb (n_idx nd) (s_node sl)) eqn:E.
    + apply Z.eqb_eq in E. simpl.
      destruct (Z.eqb (n_idx nd) n) eqn:E2.
      * apply Z.eqb_eq in E2. replace (Z.eqb n (s_node sl)) with true by (symmetry; apply Z.eqb_eq; lia).
        reflexivity.
      * destruct (Z.eqb n (s_node sl)) eqn:E3; [|reflexivity].
        apply Z.eqb_eq in E3. apply Z.eqb_neq in E2. lia.
    + simpl. destruct (Z.eqb (n_idx nd) n) eqn:E2.
      * apply Z.eqb_eq in E2. apply Z.eqb_neq in E.
        replace (Z.eqb n (s_node sl)) with false by (symmetry; apply Z.eqb_neq; lia). reflexivity.
      * apply IH.
Qed.

Definition touch_c (n : Z) (j : nat) (sl : slot) : bool :=
  Z.eqb n (s_node sl) && existsb (Nat.eqb j) (s_cores sl).
Definition touch_g (n : Z) (j : nat) (sl : slot) : bool :=
  Z.eqb n (s_node sl) && existsb (fun ig => Nat.eqb j (fst ig)) (s_gpus sl).
Definition occ_of (b : bool) : occ := if b then Busy else Free.

Lemma core_at_mark_slot b sl ns n j :
  core_at (mark_slot b sl ns) n j =
  match core_at ns n j with None => None
  | Some o => if touch_c n j sl then Some (occ_of b) else Some o end.
Proof.
  unfold core_at, touch_c. rewrite find_node_mark_slot.
  destruct (Z.eqb n (s_node sl)); simpl.
  - destruct (find_node n ns) as [nd|]; simpl; [|reflexivity].
    rewrite nth_error_fold_set. destruct b; reflexivity.
  - destruct (find_node n ns) as [nd|]; [|reflexivity]. destruct (nth_error (n_cores nd) j); reflexivity.
Qed.

Lemma gpu_at_mark_slot b sl ns n j :
  gpu_at (mark_slot b sl ns) n j =
  match gpu_at ns n j with None => None
  | Some o => if touch_g n j sl then Some (occ_of b) else Some o end.
Proof.
  unfold gpu_at, touch_g. rewrite find_node_mark_slot.
  destruct (Z.eqb n (s_node sl)); simpl.
  - destruct (find_node n ns) as [nd|]; simpl; [|reflexivity].
    rewrite nth_error_fold_set_fst. destruct b; reflexivity.
  - destruct (find_node n ns) as [nd|]; [|reflexivity]. destruct (nth_error (n_gpus nd) j); reflexivity.
Qed.

Definition sgn (b : bool) : Z := if b then (-1)%Z else 1%Z.

Lemma lfs_at_mark_slot b sl ns n :
  lfs_at (mark_slot b sl ns) n =
  option_map (fun x => if Z.eqb n (s_node sl) then (x + sgn b * s_lfs sl)%Z else x) (lfs_at ns n).
Proof.
  unfold lfs_at. rewrite find_node_mark_slot.
  destruct (Z.eqb n (s_node sl)); destruct (find_node n ns); simpl; try reflexivity;
    try (destruct b; reflexivity).
Qed.

Lemma mem_at_mark_slot b sl ns n :
  mem_at (mark_slot b sl ns) n =
  option_map (fun x => if Z.eqb n (s_node sl) then (x + sgn b * s_mem sl)%Z else x) (mem_at ns n).
Proof.
  unfold mem_at. rewrite find_node_mark_slot.
  destruct (Z.eqb n (s_node sl)); destruct (find_node n ns); simpl; try reflexivity;
    try (destruct b; reflexivity).
Qed.

(* ---- change_slot_states ---- *)
Definition touched_c (n : Z) (j : nat) (sls : list slot) : bool := existsb (touch_c n j) sls.
Definition touched_g (n : Z) (j : nat) (sls : list slot) : bool := existsb (touch_g n j) sls.
Definition sum_lfs (n : Z) (sls : list slot) : Z :=
  fold_right (fun sl a => if Z.eqb n (s_node sl) then (s_lfs sl + a)%Z else a) 0%Z sls.
Definition sum_mem (n : Z) (sls : list slot) : Z :=
  fold_right (fun sl a => if Z.eqb n (s_node sl) then (s_mem sl + a)%Z else a) 0%Z sls.

Lemma core_at_css b sls : forall ns n j,
  core_at (change_slot_states b sls ns) n j =
  match core_at ns n j with None => None
  | Some o => if touched_c n j sls then Some (occ_of b) else Some o end.
Proof.
  unfold change_slot_states, touched_c.
  induction sls as [|sl r IH]; intros ns n j; simpl.
  - destruct (core_at ns n j); reflexivity.
  - rewrite IH, core_at_mark_slot. destruct (core_at ns n j); [|reflexivity].
    destruct (touch_c n j sl); simpl; [|reflexivity].
    destruct (existsb (touch_c n j) r); reflexivity.
Qed.

Lemma gpu_at_css b sls : forall ns n j,
  gpu_at (change_slot_states b sls ns) n j =
  match gpu_at ns n j with None => None
  | Some o => if touched_g n j sls then Some (occ_of b) else Some o end.
Proof.
  unfold change_slot_states, touched_g.
  induction sls as [|sl r IH]; intros ns n j; simpl.
  - destruct (gpu_at ns n j); reflexivity.
  - rewrite IH, gpu_at_mark_slot. destruct (gpu_at ns n j); [|reflexivity].
    destruct (touch_g n j sl); simpl; [|reflexivity].
    destruct (existsb (touch_g n j) r); reflexivity.
Qed.

Lemma lfs_at_css b sls : forall ns n,
  lfs_at (change_slot_states b sls ns) n =
  option_map (fun x => (x + sgn b * sum_lfs n sls)%Z) (lfs_at ns n).
Proof.
  unfold change_slot_states.
  induction sls as [|sl r IH]; intros ns n; simpl.
  - destruct (lfs_at ns n); simpl; [f_equal; lia|reflexivity].
  - rewrite IH, lfs_at_mark_slot. destruct (lfs_at ns n); simpl; [|reflexivity].
    f_equal. destruct (Z.eqb n (s_node sl)); lia.
Qed.

Lemma mem_at_css b sls : forall ns n,
  mem_at (change_slot_states b sls ns) n =
  option_map (fun x => (x + sgn b * sum_mem n sls)%Z) (mem_at ns n).
Proof.
  unfold change_slot_states.
  induction sls as [|sl r IH]; intros ns n; simpl.
  - destruct (mem_at ns n); simpl; [f_equal; lia|reflexivity].
  - rewrite IH, mem_at_mark_slot. destruct (mem_at ns n); simpl; [|reflexivity].
    f_equal. destruct (Z.eqb n (s_node sl)); lia.
Qed.

Lemma touched_c_app n j a b : touched_c n j (a ++ b) = touched_c n j a || touched_c n j b.
Proof. unfold touched_c. apply existsb_app. Qed.
Lemma touched_g_app n j a b : touched_g n j (a ++ b) = touched_g n j a || touched_g n j b.
Proof. unfold touched_g. apply existsb_app. Qed.
Lemma sum_lfs_app n a b : sum_lfs n (a ++ b) = (sum_lfs n a + sum_lfs n b)%Z.
Proof. unfold sum_lfs. induction a as [|x a IH]; simpl; [reflexivity|]. destruct (Z.eqb n (s_node x)); lia. Qed.
Lemma sum_mem_app n a b : sum_mem n (a ++ b) = (sum_mem n a + sum_mem n b)%Z.
Proof. unfold sum_mem. induction a as [|x a IH]; simpl; [reflexivity|]. destruct (Z.eqb n (s_node x)); lia. Qed.
