(* Executable model of the pilot's agent scheduler:
     agent/scheduler/continuous.py : _iterate_nodes, _find_resources, schedule_task, unschedule_task
     agent/scheduler/base.py       : _change_slot_states, _try_allocation, _schedule_waitpool,
                                     _schedule_incoming, _unschedule_completed, the loop of _schedule_tasks,
                                     cancel_tasks in control_cb
     utils/component.py            : is_canceled, the intake filter of work_cb
   GPU shares are counted in units of 1/64 GPU (64 = one whole GPU).
   ru.lazy_bisect is not modelled: the sequence of checks/skips it performs is
   an input (`strategy`); theorems quantify over every strategy.
   Not modelled here: partitions, the 512 bulk limit, sleeping.  Raptor forwarding
   (tasks with a raptor_id: relay to raptor masters, backlog, cancel in the
   backlog) is RP.Relay.Model; requests here carry no raptor_id.
   Definitions only. *)
From Coq Require Import ZArith List Bool.
Import ListNotations.
Open Scope Z_scope.

Inductive occ := Free | Busy | Down.
Definition occ_eqb (a b : occ) : bool :=
  match a, b with Free, Free | Busy, Busy | Down, Down => true | _, _ => false end.

Record node := mkNode { n_idx : Z; n_cores : list occ; n_gpus : list occ; n_lfs : Z; n_mem : Z }.
Record slot := mkSlot { s_node : Z; s_cores : list nat; s_gpus : list (nat * Z); s_lfs : Z; s_mem : Z }.

Inductive ferr := EValue | EType | EAssert | ERuntime | EOther.

Record cfg := mkCfg { cpn : Z; gpn : Z; lfs_pn : Z; mem_pn : Z; scattered : bool }.

Record req := mkReq {
  r_uid : Z; r_ranks : Z; r_cpr : Z; r_gpr : Z; r_lfs : Z; r_mem : Z; r_rpn : Z;
  r_prio : Z; r_colo : option Z; r_excl : bool; r_env : option Z;
  r_slots : option (list slot) }.

(* ---------------- Continuous._find_resources ---------------- *)

(* scan a core/GPU list (the suffix starting at position [base]) for [need]
   Free entries; returns the indices found and the next loop index *)
Fixpoint take_free (l : list occ) (base : nat) (need : nat) : list nat * nat :=
  match l with
  | [] => ([], base)
  | c :: l' =>
      match c with
      | Free =>
          match need with
          | O => ([], base)
          | S O => ([base], S base)
          | S n' => let '(r, nx) := take_free l' (S base) n' in (base :: r, nx)
          end
      | _ => take_free l' (S base) need
      end
  end.

Definition occ_units (o : occ) : option Z :=
  match o with Free => Some 0 | Busy => Some 64 | Down => None end.

(* fractional share: first usable GPU at/after [base] with enough room left,
   given the shares [used] already handed out in this call; blocked GPUs are skipped *)
Fixpoint take_share (l : list occ) (used : list Z) (base : nat) (g : Z) : option nat * nat :=
  match l with
  | [] => (None, base)
  | o :: l' =>
      match occ_units o with
      | None => take_share l' (tl used) (S base) g
      | Some u =>
          let us := match used with [] => 0 | x :: _ => x end in
          if g <=? 64 - u - us then (Some base, base)
          else take_share l' (tl used) (S base) g
      end
  end.

Fixpoint add_used (used : list Z) (i : nat) (g : Z) : list Z :=
  match used, i with
  | [], _ => []
  | x :: r, O => (x + g) :: r
  | x :: r, S k => x :: add_used r k g
  end.

(* one pass of the body of `while len(slots) < n_slots` *)
Inductive one_res :=
| OneErr (e : ferr)
| OneStop                                           (* `break` *)
| OneSlot (s : slot) (ci' gi' : nat) (gused' : list Z).

Definition find_one (nd : node) (cps : nat) (g lfs mem : Z)
  (ci gi : nat) (lfs_used mem_used : Z) (gused : list Z) : one_res :=
  if (n_lfs nd - lfs_used <? lfs) || (n_mem nd - mem_used <? mem) then OneStop
  else
  let '(cores, ci') := take_free (skipn ci (n_cores nd)) ci cps in
  if (length cores <? cps)%nat then OneStop
  else if 64 <=? g then
    if negb (g mod 64 =? 0) then OneErr EValue
    else
      let cnt := Z.to_nat (g / 64) in
      let '(gp, gi') := take_free (skipn gi (n_gpus nd)) gi cnt in
      if (length gp <? cnt)%nat then OneStop
      else OneSlot (mkSlot (n_idx nd) cores (map (fun i => (i, 64)) gp) lfs mem) ci' gi' gused
  else if 0 <? g then
    match take_share (skipn gi (n_gpus nd)) (skipn gi gused) gi g with
    | (None, _) => OneStop
    | (Some k, gi') => OneSlot (mkSlot (n_idx nd) cores [(k, g)] lfs mem) ci' gi' (add_used gused k g)
    end
  else OneSlot (mkSlot (n_idx nd) cores [] lfs mem) ci' gi gused.

(* the `while len(slots) < n_slots` loop; [n] = slots still wanted *)
Fixpoint find_loop (nd : node) (n : nat) (cps : nat) (g lfs mem : Z)
  (ci gi : nat) (lfs_used mem_used : Z) (gused : list Z) : ferr + list slot :=
  match n with
  | O => inr []
  | S n' =>
      match find_one nd cps g lfs mem ci gi lfs_used mem_used gused with
      | OneErr e => inl e
      | OneStop => inr []
      | OneSlot s ci' gi' gused' =>
          match find_loop nd n' cps g lfs mem ci' gi' (lfs_used + lfs) (mem_used + mem) gused' with
          | inl e => inl e
          | inr r => inr (s :: r)
          end
      end
  end.

(* None = python None; Some [] is falsy as well *)
Definition find_resources (nd : node) (n_slots : nat) (cps : nat) (g lfs mem : Z)
  (partial : bool) : ferr + option (list slot) :=
  match find_loop nd n_slots cps g lfs mem 0 0 0 0 (map (fun _ => 0) (n_gpus nd)) with
  | inl e => inl e
  | inr sl => if negb partial && (length sl <? n_slots)%nat then inr None else inr (Some sl)
  end.

(* ---------------- Continuous.schedule_task ---------------- *)

Record sstate := mkS {
  nodes : list node; offset : nat;
  colo : list (Z * list Z);          (* _colo_history: tag -> node indices *)
  tagged : list Z;                   (* _tagged_nodes (a set) *)
  waitpool : list (Z * list req);    (* priority -> tasks, both in dict insertion order *)
  active_cnt : Z;
  named_envs : list Z;
  cancel_list : list Z;
  resources : bool;                  (* the loop's local `resources` *)
  heldg : list (Z * list slot) }.    (* GHOST (never read by the model's decisions): placements granted and not yet released *)

Fixpoint zlookup {A} (k : Z) (l : list (Z * A)) : option A :=
  match l with [] => None | (k', v) :: l' => if k' =? k then Some v else zlookup k l' end.
Fixpoint zstore {A} (k : Z) (v : A) (l : list (Z * A)) : list (Z * A) :=
  match l with
  | [] => [(k, v)]
  | (k', v') :: l' => if k' =? k then (k, v) :: l' else (k', v') :: zstore k v l'
  end.
Definition zmem (k : Z) (l : list Z) : bool := existsb (Z.eqb k) l.
Fixpoint zadd_all (ks : list Z) (s : list Z) : list Z :=
  match ks with [] => s | k :: r => zadd_all r (if zmem k s then s else s ++ [k]) end.

Definition rotate {A} (k : nat) (l : list A) : list A := skipn k l ++ firstn k l.

Record sloop := mkL { alc : list slot; rem : Z; is_first : bool; is_last : bool }.

(* the `for node in self._iterate_nodes()` loop; returns the loop state and the
   number of generator resumptions (= offset increments) *)
Fixpoint node_loop (c : cfg) (hist : option (list Z)) (colo_new_excl : bool)
  (tagged : list Z) (nnodes : nat) (mpi : bool) (spn req_slots : Z) (cps : nat) (g lfs mem : Z)
  (visit : list node) (k : nat) (st : sloop) : (ferr * nat) + (sloop * nat) :=
  match visit with
  | [] => inr (st, k)
  | nd :: rest =>
      let skip :=
        match hist with
        | Some h => negb (zmem (n_idx nd) h)
        | None => colo_new_excl && zmem (n_idx nd) tagged && (length tagged <? nnodes)%nat
        end in
      if skip then node_loop c hist colo_new_excl tagged nnodes mpi spn req_slots cps g lfs mem rest (S k) st
      else
        let last := is_last st || (rem st <? spn) in
        let partial := if negb mpi then false else is_first st || scattered c || last in
        let n_slots := Z.to_nat (Z.min (rem st) spn) in
        match find_resources nd n_slots cps g lfs mem partial with
        | inl e => inl (e, k)
        | inr r =>
            let new := match r with Some l => l | None => [] end in
            match new with
            | [] =>
                let st' := if scattered c then mkL (alc st) (rem st) (is_first st) last
                           else mkL [] req_slots true false in
                node_loop c hist colo_new_excl tagged nnodes mpi spn req_slots cps g lfs mem rest (S k) st'
            | _ =>
                let rem' := rem st - Z.of_nat (length new) in
                let st' := mkL (alc st ++ new) rem' false last in
                if rem' =? 0 then inr (st', k)
                else node_loop c hist colo_new_excl tagged nnodes mpi spn req_slots cps g lfs mem rest (S k) st'
            end
        end
  end.

Definition zdivf (a b : Z) : Z := a / b.

(* result of schedule_task: new (offset, colo, tagged) and the slots, None if
   nothing was found *)
Definition schedule_task (c : cfg) (s : sstate) (t : req)
  : (ferr * nat) + (nat * list (Z * list Z) * list Z * option (list slot)) :=
  let mpi := 1 <? r_ranks t in
  let cps := if r_cpr t =? 0 then 1 else r_cpr t in
  if negb (cps <=? cpn c) then inl (EAssert, offset s)
  else if negb (r_gpr t <=? 64 * gpn c) then inl (EAssert, offset s)
  else if negb (r_lfs t <=? lfs_pn c) then inl (EAssert, offset s)
  else if negb (r_mem t <=? mem_pn c) then inl (EAssert, offset s)
  else
    let spn0 := cpn c / cps in
    let spn1 := if r_rpn t =? 0 then spn0 else Z.min spn0 (r_rpn t) in
    let spn2 := if r_gpr t =? 0 then spn1 else Z.min spn1 ((64 * gpn c) / r_gpr t) in
    let spn3 := if r_lfs t =? 0 then spn2 else Z.min spn2 (lfs_pn c / r_lfs t) in
    let spn  := if r_mem t =? 0 then spn3 else Z.min spn3 (mem_pn c / r_mem t) in
    if negb mpi && (spn <? r_ranks t) then inl (EValue, offset s)
    else
      let hist := match r_colo t with Some tag => zlookup tag (colo s) | None => None end in
      let new_excl := match r_colo t with Some _ => r_excl t | None => false end in
      let nn := length (nodes s) in
      let visit := rotate (offset s) (nodes s) in
      match node_loop c hist new_excl (tagged s) nn mpi spn (r_ranks t) (Z.to_nat cps)
                      (r_gpr t) (r_lfs t) (r_mem t) visit 0 (mkL [] (r_ranks t) true false) with
      | inl (e, k) => inl (e, match nn with O => O | _ => Nat.modulo (offset s + k) nn end)
      | inr (st, k) =>
          let off' := match nn with O => O | _ => Nat.modulo (offset s + k) nn end in
          if 0 <? rem st then inr (off', colo s, tagged s, None)
          else
            match r_colo t with
            | Some tag =>
                let idxs := map s_node (alc st) in
                inr (off', zstore tag idxs (colo s), zadd_all idxs (tagged s), Some (alc st))
            | None => inr (off', colo s, tagged s, Some (alc st))
            end
      end.

(* ---------------- base: _change_slot_states ---------------- *)
Fixpoint set_nth {A} (i : nat) (v : A) (l : list A) : list A :=
  match l, i with
  | [], _ => []
  | _ :: r, O => v :: r
  | x :: r, S k => x :: set_nth k v r
  end.

Definition mark_slot_node (busy : bool) (sl : slot) (nd : node) : node :=
  let v := if busy then Busy else Free in
  let cores' := fold_left (fun l i => set_nth i v l) (s_cores sl) (n_cores nd) in
  let gpus' := fold_left (fun l ig => set_nth (fst ig) v l) (s_gpus sl) (n_gpus nd) in
  let d := if busy then -1 else 1 in
  mkNode (n_idx nd) cores' gpus' (n_lfs nd + d * s_lfs sl) (n_mem nd + d * s_mem sl).

(* the first node with that index is updated *)
Fixpoint mark_slot (busy : bool) (sl : slot) (ns : list node) : list node :=
  match ns with
  | [] => []
  | nd :: r => if n_idx nd =? s_node sl then mark_slot_node busy sl nd :: r
               else nd :: mark_slot busy sl r
  end.

Definition change_slot_states (busy : bool) (sls : list slot) (ns : list node) : list node :=
  fold_left (fun ns sl => mark_slot busy sl ns) sls ns.

(* ---------------- base: _check_slots ---------------- *)
Definition slot_known (ns : list node) (sl : slot) : bool :=
  match find (fun nd => n_idx nd =? s_node sl) ns with
  | None => false
  | Some nd => forallb (fun i => (i <? length (n_cores nd))%nat) (s_cores sl)
               && forallb (fun ig : nat * Z => (fst ig <? length (n_gpus nd))%nat) (s_gpus sl)
  end.

(* ---------------- base: _try_allocation ---------------- *)
Inductive tres := TStarted (sl : list slot) | TWait | TFail (e : ferr).

Definition set_sched (s : sstate) (ns : list node) (off : nat) (co : list (Z * list Z))
  (tg : list Z) (ac : Z) (hg : list (Z * list slot)) : sstate :=
  mkS ns off co tg (waitpool s) ac (named_envs s) (cancel_list s) (resources s) hg.

Definition try_allocation (c : cfg) (s : sstate) (t : req) : sstate * tres :=
  match schedule_task c s t with
  | inl (e, off) =>
      (set_sched s (nodes s) off (colo s) (tagged s) (active_cnt s) (heldg s), TFail e)
  | inr (off, co, tg, None) =>
      let s' := set_sched s (nodes s) off co tg (active_cnt s) (heldg s) in
      if active_cnt s =? 0 then (s', TFail ERuntime) else (s', TWait)
  | inr (off, co, tg, Some sl) =>
      (set_sched s (change_slot_states true sl (nodes s)) off co tg (active_cnt s + 1)
                 (heldg s ++ [(r_uid t, sl)]), TStarted sl)
  end.

(* ---------------- events ---------------- *)
Inductive event := Started (uid : Z) (sl : list slot) | Failed (uid : Z) (e : ferr) | Canceled (uid : Z).

(* ---------------- is_canceled ---------------- *)
Fixpoint remove_one (k : Z) (l : list Z) : list Z :=
  match l with [] => [] | x :: r => if x =? k then r else x :: remove_one k r end.

(* ---------------- _schedule_waitpool ---------------- *)
Definition env_ok (s : sstate) (t : req) : bool :=
  match r_env t with None => true | Some e => zmem e (named_envs s) end.

Definition ts_product (t : req) : Z := r_ranks t * r_cpr t * r_gpr t.

(* stable insertion sort, descending by key *)
Fixpoint insert_desc {A} (key : A -> Z) (x : A) (l : list A) : list A :=
  match l with
  | [] => [x]
  | y :: r => if key y <=? key x then x :: l else y :: insert_desc key x r
  end.
Definition sort_desc {A} (key : A -> Z) (l : list A) : list A :=
  fold_right (fun x acc => insert_desc key x acc) [] l.
(* NB: fold_right inserts the last element first, so equal keys keep their order *)

Fixpoint find_req (u : Z) (l : list req) : option req :=
  match l with [] => None | t :: r => if r_uid t =? u then Some t else find_req u r end.

(* one lazy_bisect call, replayed from its recorded decisions:
   (uid, true) = check(uid) was called, (uid, false) = skipped *)
Fixpoint bisect_replay (c : cfg) (s : sstate) (pool : list req) (evs : list (Z * bool))
  : option (sstate * list (req * list slot) * list req * list (req * ferr)) :=
  match evs with
  | [] => Some (s, [], [], [])
  | (u, chk) :: r =>
      match find_req u pool with
      | None => None
      | Some t =>
          if chk then
            let '(s1, res) := try_allocation c s t in
            match bisect_replay c s1 pool r with
            | None => None
            | Some (s2, good, bad, fail) =>
                match res with
                | TStarted sl => Some (s2, (t, sl) :: good, bad, fail)
                | TWait => Some (s2, good, t :: bad, fail)
                | TFail e => Some (s2, good, bad, (t, e) :: fail)
                end
            end
          else
            match bisect_replay c s pool r with
            | None => None
            | Some (s2, good, bad, fail) => Some (s2, good, t :: bad, fail)
            end
      end
  end.

Definition uids (l : list req) : list Z := map r_uid l.
(* the recorded calls name exactly the pool's tasks, each as often as it occurs
   (lazy_bisect handles every index once) *)
Definition zcount (x : Z) (l : list Z) : nat := length (filter (Z.eqb x) l).
Definition same_set (a b : list Z) : bool :=
  forallb (fun x => Nat.eqb (zcount x a) (zcount x b)) (a ++ b).

Definition set_pool (s : sstate) (wp : list (Z * list req)) : sstate :=
  mkS (nodes s) (offset s) (colo s) (tagged s) wp (active_cnt s) (named_envs s)
      (cancel_list s) (resources s) (heldg s).

Definition prios_desc (wp : list (Z * list req)) : list Z :=
  sort_desc (fun p => p) (map fst wp).

(* returns None when the recorded strategy does not fit the pools *)
Fixpoint waitpool_loop (c : cfg) (s : sstate) (prios : list Z) (strat : list (list (Z * bool)))
  (res act : bool) (evs : list event)
  : option (sstate * list (list (Z * bool)) * bool * bool * list event) :=
  match prios with
  | [] => Some (s, strat, res, act, evs)
  | p :: ps =>
      let pool := match zlookup p (waitpool s) with Some l => l | None => [] end in
      match pool with
      | [] => waitpool_loop c s ps strat res act evs
      | _ =>
          let to_test := sort_desc ts_product (filter (env_ok s) pool) in
          let to_wait := filter (fun t => negb (env_ok s t)) pool in
          match to_test with
          | [] => waitpool_loop c s ps strat res act evs
          | _ =>
              match strat with
              | [] => None
              | sv :: strat' =>
                  if negb (same_set (map fst sv) (uids to_test)) then None
                  else
                  match bisect_replay c s to_test sv with
                  | None => None
                  | Some (s1, good, bad, fail) =>
                      let s2 := set_pool s1 (zstore p (bad ++ to_wait) (waitpool s1)) in
                      let evs' := evs ++ map (fun te => Failed (r_uid (fst te)) ERuntime) fail   (* RuntimeError('bisect failed') *)
                                      ++ map (fun ts => Started (r_uid (fst ts)) (snd ts)) good in
                      waitpool_loop c s2 ps strat'
                        (res && match bad with [] => true | _ => false end)
                        (act || match good with [] => false | _ => true end) evs'
                  end
              end
          end
      end
  end.

Definition schedule_waitpool (c : cfg) (s : sstate) (strat : list (list (Z * bool)))
  : option (sstate * list (list (Z * bool)) * bool * bool * list event) :=
  waitpool_loop c s (prios_desc (waitpool s)) strat true false [].

(* ---------------- _schedule_incoming ---------------- *)
Inductive qitem := QSched (l : list req) | QCancel (l : list Z).

(* remove uid from whichever pool holds it *)
Fixpoint pool_remove (u : Z) (wp : list (Z * list req)) : option req * list (Z * list req) :=
  match wp with
  | [] => (None, [])
  | (p, l) :: r =>
      match find_req u l with
      | Some t => (Some t, (p, filter (fun x => negb (r_uid x =? u)) l) :: r)
      | None => let '(o, r') := pool_remove u r in (o, (p, l) :: r')
      end
  end.

Fixpoint cancel_uids (us : list Z) (wp : list (Z * list req)) (evs : list event)
  : list (Z * list req) * list event :=
  match us with
  | [] => (wp, evs)
  | u :: r =>
      match pool_remove u wp with
      | (Some _, wp') => cancel_uids r wp' (evs ++ [Canceled u])
      | (None, _) => cancel_uids r wp evs
      end
  end.

(* append to a per-priority bucket, creating it at the end (defaultdict(list)) *)
Fixpoint bucket_add (p : Z) (t : req) (b : list (Z * list req)) : list (Z * list req) :=
  match b with
  | [] => [(p, [t])]
  | (p', l) :: r => if p' =? p then (p', l ++ [t]) :: r else (p', l) :: bucket_add p t r
  end.

(* drain the queue: cancel items act on the wait pool at once, tasks are bucketed *)
Fixpoint drain (q : list qitem) (wp : list (Z * list req)) (bk : list (Z * list req))
  (evs : list event) : list (Z * list req) * list (Z * list req) * list event :=
  match q with
  | [] => (wp, bk, evs)
  | QCancel us :: r => let '(wp', evs') := cancel_uids us wp evs in drain r wp' bk evs'
  | QSched ts :: r =>
      let '(bk', evs') :=
        fold_left (fun '(b, e) t =>
                     if r_ranks t <=? 0 then (b, e ++ [Failed (r_uid t) EValue])
                     else (bucket_add (r_prio t) t b, e)) ts (bk, evs) in
      drain r wp bk' evs'
  end.

(* the per-task part of the `for task in sorted(tasks ...)` loop *)
Fixpoint place_tasks (c : cfg) (s : sstate) (ts : list req) (to_wait : list req) (evs : list event)
  : sstate * list req * list event :=
  match ts with
  | [] => (s, to_wait, evs)
  | t :: r =>
      if negb (env_ok s t) then place_tasks c s r (to_wait ++ [t]) evs
      else
        match r_slots t with
        | Some (sl0 :: sls) =>
            let sl := sl0 :: sls in
            (* `self._check_slots(td['slots'])`: a placement naming a node, core or gpu the pilot does not
               have fails the task before anything is marked *)
            if negb (forallb (slot_known (nodes s)) sl)
            then place_tasks c s r to_wait (evs ++ [Failed (r_uid t) EValue])
            else
            let s' := set_sched s (change_slot_states true sl (nodes s)) (offset s) (colo s) (tagged s)
                                (active_cnt s + 1) (heldg s ++ [(r_uid t, sl)]) in
            place_tasks c s' r to_wait (evs ++ [Started (r_uid t) sl])
        | _ =>
            let '(s', res) := try_allocation c s t in
            match res with
            | TStarted sl => place_tasks c s' r to_wait (evs ++ [Started (r_uid t) sl])
            | TWait => place_tasks c s' r (to_wait ++ [t]) evs
            | TFail e => place_tasks c s' r to_wait (evs ++ [Failed (r_uid t) e])
            end
        end
  end.

(* add the waiting tasks to the pool, honouring cancel requests that arrived meanwhile *)
Fixpoint pool_insert (p : Z) (ts : list req) (wp : list (Z * list req)) (cl : list Z) (evs : list event)
  : list (Z * list req) * list Z * list event :=
  match ts with
  | [] => (wp, cl, evs)
  | t :: r =>
      let cur := match zlookup p wp with Some l => l | None => [] end in
      let cur' := filter (fun x => negb (r_uid x =? r_uid t)) cur in
      if zmem (r_uid t) cl
      then pool_insert p r (zstore p cur' wp) (remove_one (r_uid t) cl) (evs ++ [Canceled (r_uid t)])
      else pool_insert p r (zstore p (cur' ++ [t]) wp) cl evs
  end.

Fixpoint incoming_prios (c : cfg) (s : sstate) (bk : list (Z * list req)) (ps : list Z)
  (last_wait : bool) (evs : list event) : sstate * bool * list event :=
  match ps with
  | [] => (s, last_wait, evs)
  | p :: r =>
      let tasks := match zlookup p bk with Some l => l | None => [] end in
      let '(s1, to_wait, evs1) := place_tasks c s (sort_desc r_ranks tasks) [] evs in
      let '(wp, cl, evs2) := pool_insert p to_wait (waitpool s1) (cancel_list s1) evs1 in
      let s2 := mkS (nodes s1) (offset s1) (colo s1) (tagged s1) wp (active_cnt s1) (named_envs s1)
                    cl (resources s1) (heldg s1) in
      incoming_prios c s2 bk r (match to_wait with [] => false | _ => true end) evs2
  end.

(* returns r_inc : option bool (None = python None), active *)
Definition schedule_incoming (c : cfg) (s : sstate) (q : list qitem)
  : sstate * option bool * bool * list event :=
  let '(wp, bk, evs) := drain q (waitpool s) [] [] in
  let s0 := set_pool s wp in
  match bk with
  | [] => (s0, None, false, evs)
  | _ =>
      let '(s1, lw, evs1) := incoming_prios c s0 bk (prios_desc bk) false evs in
      (s1, Some (negb lw), true, evs1)
  end.

(* ---------------- _unschedule_completed ---------------- *)
Fixpoint drop_first (u : Z) (h : list (Z * list slot)) : list (Z * list slot) :=
  match h with [] => [] | (k, sl) :: r => if k =? u then r else (k, sl) :: drop_first u r end.

(* each unschedule message carries the task with the slots it was given *)
Fixpoint unschedule (us : list (Z * list slot)) (s : sstate) : sstate :=
  match us with
  | [] => s
  | (u, sl) :: r =>
      unschedule r (set_sched s (change_slot_states false sl (nodes s)) (offset s) (colo s) (tagged s)
                              (active_cnt s - 1) (drop_first u (heldg s)))
  end.

(* ---------------- one iteration of the loop in _schedule_tasks ---------------- *)
Definition set_res (s : sstate) (b : bool) : sstate :=
  mkS (nodes s) (offset s) (colo s) (tagged s) (waitpool s) (active_cnt s) (named_envs s)
      (cancel_list s) b (heldg s).

(* the first two phases: wait pool (only if `resources`), then incoming *)
Definition iterate_pre (c : cfg) (s : sstate) (q : list qitem) (strat : list (list (Z * bool)))
  : option (sstate * bool * option bool * list event) :=
  let w := if resources s then schedule_waitpool c s strat
           else Some (s, strat, false, false, []) in
  match w with
  | None => None
  | Some (s1, strat', r_wait, _, evs1) =>
      match strat' with
      | _ :: _ => None                      (* the recorded strategy has unused calls *)
      | [] =>
          let '(s2, r_inc, _, evs2) := schedule_incoming c s1 q in
          Some (s2, r_wait, r_inc, evs1 ++ evs2)
      end
  end.

Definition iterate (c : cfg) (s : sstate) (q : list qitem) (unq : list (Z * list slot))
  (strat : list (list (Z * bool))) : option (sstate * list event) :=
  match iterate_pre c s q strat with
  | None => None
  | Some (s2, r_wait, r_inc, evs) =>
      let res1 := if resources s2 && negb r_wait &&
                     match r_inc with Some false => true | _ => false end
                  then false else resources s2 in
      let s3 := unschedule unq s2 in
      let res2 := if negb res1 && match unq with [] => false | _ => true end then true else res1 in
      Some (set_res s3 res2, evs)
  end.

(* ---------------- operations between iterations ---------------- *)
Inductive op :=
| Arrive (l : list req)         (* tasks pulled from the input queue by work_cb -> work *)
| CancelMsg (l : list Z)        (* control message cancel_tasks *)
| Unsched (l : list (Z * list slot))   (* AGENT_UNSCHEDULE_PUBSUB message(s): tasks with their slots *)
| NamedEnv (e : Z)              (* control message register_named_env *)
| Iterate (strat : list (list (Z * bool)))
(* the two halves of BaseComponent._control_cb for cancel_tasks, when the
   scheduler loop runs between them (CancelMsg = CancelReg; CancelQ at once) *)
| CancelReg (l : list Z)        (* with self._cancel_lock: self._cancel_list += uids *)
| CancelQ (l : list Z).         (* control_cb: the CANCEL message is put on the scheduler queue *)

(* pending queues live outside sstate *)
Record world := mkW { st : sstate; q_sched : list qitem; q_unsched : list (Z * list slot); log : list event }.

(* intake filter of work_cb: `if self._cancel_list: things = [x for x in things if not is_canceled(x)]` *)
Fixpoint intake (ts : list req) (cl : list Z) (evs : list event) : list req * list Z * list event :=
  match ts with
  | [] => ([], cl, evs)
  | t :: r =>
      if zmem (r_uid t) cl
      then intake r (remove_one (r_uid t) cl) (evs ++ [Canceled (r_uid t)])
      else let '(k, cl', evs') := intake r cl evs in (t :: k, cl', evs')
  end.

Definition set_cl (s : sstate) (cl : list Z) : sstate :=
  mkS (nodes s) (offset s) (colo s) (tagged s) (waitpool s) (active_cnt s) (named_envs s)
      cl (resources s) (heldg s).

Definition step (c : cfg) (w : world) (o : op) : option world :=
  match o with
  | Arrive ts =>
      let '(keep, cl, evs) := intake ts (cancel_list (st w)) [] in
      Some (mkW (set_cl (st w) cl) (q_sched w ++ [QSched keep]) (q_unsched w) (log w ++ evs))
  | CancelMsg us =>
      Some (mkW (set_cl (st w) (cancel_list (st w) ++ us)) (q_sched w ++ [QCancel us]) (q_unsched w) (log w))
  | Unsched us => Some (mkW (st w) (q_sched w) (q_unsched w ++ us) (log w))
  | NamedEnv e =>
      let s := st w in
      Some (mkW (mkS (nodes s) (offset s) (colo s) (tagged s) (waitpool s) (active_cnt s)
                     (named_envs s ++ [e]) (cancel_list s) (resources s) (heldg s))
                (q_sched w) (q_unsched w) (log w))
  | Iterate strat =>
      match iterate c (st w) (q_sched w) (q_unsched w) strat with
      | None => None
      | Some (s', evs) => Some (mkW s' [] [] (log w ++ evs))
      end
  | CancelReg us =>
      Some (mkW (set_cl (st w) (cancel_list (st w) ++ us)) (q_sched w) (q_unsched w) (log w))
  | CancelQ us =>
      Some (mkW (st w) (q_sched w ++ [QCancel us]) (q_unsched w) (log w))
  end.

Fixpoint run (c : cfg) (w : world) (ops : list op) : option world :=
  match ops with
  | [] => Some w
  | o :: r => match step c w o with None => None | Some w' => run c w' r end
  end.

Definition init_state (ns : list node) : sstate := mkS ns 0 [] [] [] 0 [] [] true [].
Definition init_world (ns : list node) : world := mkW (init_state ns) [] [] [].
