(* Specification of Continuous._find_resources (model: take_free, take_share,
   find_loop, find_resources). *)
From Coq Require Import ZArith List Bool Lia Arith.
From RP Require Import Sched.Model Sched.ListAux.
Import ListNotations.
Local Open Scope nat_scope.

Lemma take_free_spec_gen (L : list occ) : forall l base need r nx,
  (forall i, nth_error l i = nth_error L (base + i)) ->
  take_free l base need = (r, nx) ->
  incr_from base r /\ all_lt nx r /\ base <= nx /\ nx <= base + length l /\
  (forall i, In i r -> nth_error L i = Some Free) /\ length r <= need.
Proof.
  induction l as [|c l IH]; intros base need r nx HL H; simpl in H.
  - injection H as <- <-. simpl. repeat split; auto; try lia. intros x [].
  - assert (HL' : forall i, nth_error l i = nth_error L (S base + i)).
    { intro i. specialize (HL (S i)). simpl in HL. rewrite HL. f_equal. lia. }
    assert (Hc : nth_error L base = Some c).
    { specialize (HL 0). simpl in HL. rewrite Nat.add_0_r in HL. auto. }
    destruct c.
    + destruct need as [|[|n']].
      * injection H as <- <-. simpl. repeat split; auto; try lia. intros x [].
      * injection H as <- <-. simpl. repeat split; auto; try lia.
        -- intros x [<-|[]]. lia.
        -- intros x [<-|[]]. exact Hc.
      * destruct (take_free l (S base) (S n')) as [r' nx'] eqn:E.
        injection H as <- <-.
        destruct (IH _ _ _ _ HL' E) as (A & B & C & D & F & G).
        simpl. repeat split; auto; try lia.
        -- intros x [<-|Hx]; [lia|apply B, Hx].
        -- intros x [<-|Hx]; [exact Hc|apply F, Hx].
    + destruct (IH _ _ _ _ HL' H) as (A & B & C & D & F & G).
      repeat split; auto; try lia.
      * eapply incr_from_weaken; [|exact A]. lia.
      * simpl. lia.
    + destruct (IH _ _ _ _ HL' H) as (A & B & C & D & F & G).
      repeat split; auto; try lia.
      * eapply incr_from_weaken; [|exact A]. lia.
      * simpl. lia.
Qed.

Lemma take_free_spec (L : list occ) base need r nx :
  take_free (skipn base L) base need = (r, nx) ->
  incr_from base r /\ all_lt nx r /\ base <= nx /\
  (forall i, In i r -> nth_error L i = Some Free) /\ length r <= need.
Proof.
  intro H. destruct (take_free_spec_gen L (skipn base L) base need r nx) as (A & B & C & D & F & G); auto.
  - intro i. apply nth_error_skipn.
Qed.

(* ---------------- take_share ---------------- *)
Lemma take_share_spec (G : list occ) (U : list Z) : forall l u base g k nx,
  (forall i, nth_error l i = nth_error G (base + i)) ->
  (forall i, nth i u 0%Z = nth (base + i) U 0%Z) ->
  take_share l u base g = (Some k, nx) ->
  base <= k /\ nx = k /\
  exists o uu, nth_error G k = Some o /\ occ_units o = Some uu /\ (g <= 64 - uu - nth k U 0)%Z.
Proof.
  induction l as [|o l IH]; intros u base g k nx HL HU H; cbn [take_share] in H; [discriminate|].
  assert (HL' : forall i, nth_error l i = nth_error G (S base + i)).
  { intro i. specialize (HL (S i)). simpl in HL. rewrite HL. f_equal. lia. }
  assert (HU' : forall i, nth i (tl u) 0%Z = nth (S base + i) U 0%Z).
  { intro i. specialize (HU (S i)). replace (S base + i) with (base + S i) by lia. rewrite <- HU.
    destruct u; [destruct i; reflexivity|reflexivity]. }
  assert (Ho : nth_error G base = Some o).
  { specialize (HL 0). simpl in HL. rewrite Nat.add_0_r in HL. auto. }
  assert (Hu0 : match u with [] => 0%Z | x :: _ => x end = nth base U 0%Z).
  { specialize (HU 0). rewrite Nat.add_0_r in HU. rewrite <- HU. destruct u; reflexivity. }
  destruct (occ_units o) as [uu|] eqn:Eo.
  - cbv zeta in H. rewrite Hu0 in H.
    destruct (g <=? 64 - uu - nth base U 0)%Z eqn:Eg.
    + injection H as <- <-. split; [lia|]. split; [reflexivity|].
      exists o, uu. repeat split; auto. apply Z.leb_le in Eg. exact Eg.
    + destruct (IH _ _ _ _ _ HL' HU' H) as (A & B & C). split; [lia|]. split; auto.
  - destruct (IH _ _ _ _ _ HL' HU' H) as (A & B & C). split; [lia|]. split; auto.
Qed.

Lemma nth_skipn {A} (d : A) (l : list A) : forall k i, nth i (skipn k l) d = nth (k + i) l d.
Proof.
  induction l as [|x l IH]; intros k i.
  - rewrite skipn_nil. destruct i, k; reflexivity.
  - destruct k; simpl; [reflexivity|apply IH].
Qed.

Lemma nth_add_used (u : list Z) : forall j g k,
  nth k (add_used u j g) 0%Z = Z.add (nth k u 0%Z) (if Nat.eqb k j && Nat.ltb j (length u) then g else 0%Z).
Proof.
  induction u as [|x u IH]; intros j g k; simpl.
  - destruct k; simpl; rewrite ?andb_false_r; lia.
  - destruct j as [|j].
    + destruct k; simpl; [lia|]. lia.
    + destruct k; simpl; [lia|]. rewrite IH.
      replace (S j <? S (length u)) with (j <? length u) by reflexivity. reflexivity.
Qed.

Lemma length_add_used (u : list Z) : forall j g, length (add_used u j g) = length u.
Proof. induction u as [|x u IH]; intros [|j] g; simpl; auto. Qed.

(* ---------------- find_one ---------------- *)
Definition core_free (nd : node) (i : nat) : Prop := nth_error (n_cores nd) i = Some Free.
Definition gpu_free (nd : node) (k : nat) : Prop := nth_error (n_gpus nd) k = Some Free.

Definition gpus_ok (nd : node) (g : Z) (gi : nat) (gused : list Z) (s : slot)
  (gi' : nat) (gu' : list Z) : Prop :=
  ((g <= 0)%Z /\ s_gpus s = [] /\ gi' = gi /\ gu' = gused) \/
  ((64 <= g)%Z /\ (g mod 64 = 0)%Z /\ gu' = gused /\
   exists gp, s_gpus s = map (fun i => (i, 64%Z)) gp /\ length gp = Z.to_nat (g / 64) /\
              incr_from gi gp /\ all_lt gi' gp /\ gi <= gi' /\ forall k, In k gp -> gpu_free nd k) \/
  ((0 < g < 64)%Z /\
   exists k, s_gpus s = [(k, g)] /\ gi <= k /\ gi' = k /\ gu' = add_used gused k g /\
             k < length (n_gpus nd) /\
             exists o uu, nth_error (n_gpus nd) k = Some o /\ occ_units o = Some uu /\
                          (g <= 64 - uu - nth k gused 0)%Z).

Lemma find_one_spec nd cps g lfs mem ci gi lu mu gused s ci' gi' gu' :
  find_one nd cps g lfs mem ci gi lu mu gused = OneSlot s ci' gi' gu' ->
  s_node s = n_idx nd /\ s_lfs s = lfs /\ s_mem s = mem /\
  length (s_cores s) = cps /\ incr_from ci (s_cores s) /\ all_lt ci' (s_cores s) /\ ci <= ci' /\
  (forall i, In i (s_cores s) -> core_free nd i) /\
  (lfs <= n_lfs nd - lu)%Z /\ (mem <= n_mem nd - mu)%Z /\
  gpus_ok nd g gi gused s gi' gu'.
Proof.
  unfold find_one. intro H.
  destruct ((n_lfs nd - lu <? lfs)%Z || (n_mem nd - mu <? mem)%Z) eqn:E0; [discriminate|].
  apply orb_false_iff in E0 as [E0a E0b]. apply Z.ltb_ge in E0a. apply Z.ltb_ge in E0b.
  destruct (take_free (skipn ci (n_cores nd)) ci cps) as [cores cn] eqn:Ec.
  destruct (take_free_spec _ _ _ _ _ Ec) as (C1 & C2 & C3 & C4 & C5).
  destruct (length cores <? cps) eqn:El; [discriminate|]. apply Nat.ltb_ge in El.
  assert (Hlen : length cores = cps) by lia.
  destruct (64 <=? g)%Z eqn:E64.
  - apply Z.leb_le in E64.
    destruct (negb (g mod 64 =? 0)%Z) eqn:Em; [discriminate|].
    apply negb_false_iff in Em. apply Z.eqb_eq in Em.
    destruct (take_free (skipn gi (n_gpus nd)) gi (Z.to_nat (g / 64))) as [gp gn] eqn:Eg.
    destruct (take_free_spec _ _ _ _ _ Eg) as (G1 & G2 & G3 & G4 & G5).
    destruct (length gp <? Z.to_nat (g / 64)) eqn:Elg; [discriminate|]. apply Nat.ltb_ge in Elg.
    injection H as <- <- <- <-. simpl. repeat split; auto.
    right; left. repeat split; auto. exists gp. repeat split; auto. lia.
  - apply Z.leb_gt in E64.
    destruct (0 <? g)%Z eqn:Ep.
    + apply Z.ltb_lt in Ep.
      destruct (take_share (skipn gi (n_gpus nd)) (skipn gi gused) gi g) as [[k|] gn] eqn:Es; [|discriminate].
      injection H as <- <- <- <-. simpl. repeat split; auto.
      right; right. split; [lia|].
      destruct (take_share_spec (n_gpus nd) gused _ _ _ _ _ _
                  (fun i => nth_error_skipn (n_gpus nd) gi i) (fun i => nth_skipn 0%Z gused gi i) Es)
        as (S1 & S2 & o & uu & S3 & S4 & S5).
      exists k. repeat split; auto.
      * apply nth_error_Some. rewrite S3. discriminate.
      * exists o, uu. auto.
    + apply Z.ltb_ge in Ep.
      injection H as <- <- <- <-. simpl. repeat split; auto.
      left. auto.
Qed.

(* ---------------- find_loop ---------------- *)
Definition all_cores (sl : list slot) : list nat := concat (map s_cores sl).
Definition all_gidx (sl : list slot) : list nat := concat (map (fun s => map fst (s_gpus s)) sl).

Fixpoint gshare (k : nat) (gl : list (nat * Z)) : Z :=
  match gl with
  | [] => 0%Z
  | (i, u) :: r => Z.add (if Nat.eqb i k then u else 0%Z) (gshare k r)
  end.
Fixpoint share_on (k : nat) (sl : list slot) : Z :=
  match sl with [] => 0%Z | s :: r => Z.add (gshare k (s_gpus s)) (share_on k r) end.

Definition slot_local_ok (nd : node) (cps : nat) (g lfs mem : Z) (s : slot) : Prop :=
  s_node s = n_idx nd /\ s_lfs s = lfs /\ s_mem s = mem /\ length (s_cores s) = cps /\
  (forall i, In i (s_cores s) -> core_free nd i).

Lemma find_loop_basic nd cps g lfs mem : forall n ci gi lu mu gused sl,
  (0 <= lfs)%Z -> (0 <= mem)%Z ->
  find_loop nd n cps g lfs mem ci gi lu mu gused = inr sl ->
  length sl <= n /\
  Forall (slot_local_ok nd cps g lfs mem) sl /\
  incr_from ci (all_cores sl) /\
  (sl = [] \/ (lu + lfs * Z.of_nat (length sl) <= n_lfs nd)%Z) /\
  (sl = [] \/ (mu + mem * Z.of_nat (length sl) <= n_mem nd)%Z).
Proof.
  induction n as [|n IH]; intros ci gi lu mu gused sl Hl Hm H; cbn [find_loop] in H.
  - injection H as <-. simpl. repeat split; auto.
  - destruct (find_one nd cps g lfs mem ci gi lu mu gused) as [e| |s ci' gi' gu'] eqn:E1; [discriminate| |].
    + injection H as <-. simpl. repeat split; auto. lia.
    + destruct (find_loop nd n cps g lfs mem ci' gi' (lu + lfs) (mu + mem) gu') as [e|r] eqn:E2; [discriminate|].
      injection H as <-.
      destruct (find_one_spec _ _ _ _ _ _ _ _ _ _ _ _ _ _ E1)
        as (S1 & S2 & S3 & S4 & S5 & S6 & S7 & S8 & S9 & S10 & S11).
      destruct (IH _ _ _ _ _ _ Hl Hm E2) as (A & B & C & D & F).
      simpl. repeat split.
      * lia.
      * constructor; [repeat split; auto|exact B].
      * unfold all_cores. simpl. apply (incr_from_app _ ci ci'); auto.
      * right. destruct D as [->|D]; simpl; [lia|]. simpl in D. lia.
      * right. destruct F as [->|F]; simpl; [lia|]. simpl in F. lia.
Qed.

Lemma all_cores_NoDup nd cps g lfs mem n ci gi lu mu gused sl :
  (0 <= lfs)%Z -> (0 <= mem)%Z ->
  find_loop nd n cps g lfs mem ci gi lu mu gused = inr sl -> NoDup (all_cores sl).
Proof.
  intros Hl Hm H. destruct (find_loop_basic _ _ _ _ _ _ _ _ _ _ _ _ Hl Hm H) as (_ & _ & C & _).
  eapply incr_from_NoDup; exact C.
Qed.

(* ---------------- GPUs ---------------- *)
Definition slot_gpu_amount (s : slot) : Z := fold_right (fun ig a => Z.add (snd ig) a) 0%Z (s_gpus s).

Lemma gshare_absent k gl : ~ In k (map fst gl) -> gshare k gl = 0%Z.
Proof.
  induction gl as [|[i u] r IH]; simpl; intro H; [reflexivity|].
  destruct (Nat.eqb i k) eqn:E; [apply Nat.eqb_eq in E; subst; tauto|]. rewrite IH; [lia|tauto].
Qed.

Lemma share_on_absent k sl : ~ In k (all_gidx sl) -> share_on k sl = 0%Z.
Proof.
  induction sl as [|s r IH]; simpl; intro H; [reflexivity|].
  unfold all_gidx in H. simpl in H. rewrite in_app_iff in H.
  rewrite gshare_absent by tauto. rewrite IH; [lia|]. unfold all_gidx. tauto.
Qed.

Lemma gshare_whole k gp : NoDup gp ->
  gshare k (map (fun i => (i, 64%Z)) gp) = if existsb (Nat.eqb k) gp then 64%Z else 0%Z.
Proof.
  induction gp as [|i r IH]; simpl; intro H; [reflexivity|].
  inversion H as [|? ? Hn Hr]; subst. rewrite (IH Hr).
  rewrite (Nat.eqb_sym k i).
  destruct (Nat.eqb i k) eqn:E; simpl; [|lia].
  apply Nat.eqb_eq in E; subst.
  destruct (existsb (Nat.eqb k) r) eqn:Ex; [|lia].
  apply existsb_exists in Ex as (x & Hx & Hk). apply Nat.eqb_eq in Hk; subst. contradiction.
Qed.

Lemma gidx_whole gp : map fst (map (fun i : nat => (i, 64%Z)) gp) = gp.
Proof. induction gp; simpl; congruence. Qed.

Lemma amount_whole gp : fold_right (fun ig a => Z.add (snd ig) a) 0%Z (map (fun i : nat => (i, 64%Z)) gp)
                        = (64 * Z.of_nat (length gp))%Z.
Proof. induction gp as [|i r IH]; [reflexivity|]. cbn [map fold_right snd length]. rewrite IH. lia. Qed.

Lemma find_loop_gpus nd cps g lfs mem : forall n ci gi lu mu gused sl,
  (0 <= g)%Z -> (forall k, 0 <= nth k gused 0)%Z ->
  ((64 <= g)%Z -> forall k, nth k gused 0%Z = 0%Z) ->
  length gused = length (n_gpus nd) ->
  find_loop nd n cps g lfs mem ci gi lu mu gused = inr sl ->
  (forall s, In s sl -> forall k u, In (k, u) (s_gpus s) -> gpu_free nd k /\ (0 < u <= 64)%Z) /\
  (forall k, share_on k sl = 0%Z \/ (nth k gused 0 + share_on k sl <= 64)%Z) /\
  ((64 <= g)%Z -> incr_from gi (all_gidx sl)) /\
  Forall (fun s => slot_gpu_amount s = g /\ NoDup (map fst (s_gpus s))) sl.
Proof.
  induction n as [|n IH]; intros ci gi lu mu gused sl Hg Hu Hz HL H; cbn [find_loop] in H.
  - injection H as <-. simpl. repeat split; auto; try (intros; contradiction).
  - destruct (find_one nd cps g lfs mem ci gi lu mu gused) as [e| |s ci' gi' gu'] eqn:E1; [discriminate| |].
    + injection H as <-. simpl. repeat split; auto; try (intros; contradiction).
    + destruct (find_loop nd n cps g lfs mem ci' gi' (lu + lfs) (mu + mem) gu') as [e|r] eqn:E2; [discriminate|].
      injection H as <-.
      destruct (find_one_spec _ _ _ _ _ _ _ _ _ _ _ _ _ _ E1)
        as (_ & _ & _ & _ & _ & _ & _ & _ & _ & _ & GO).
      destruct GO as [(G0 & G1 & G2 & G3) | [(G0 & G1 & G2 & gp & G3 & G4 & G5 & G6 & G7 & G8) |
                      (G0 & k0 & G1 & G2 & G3 & G4 & G5 & o & uu & G6 & G7 & G8)]].
      * (* no GPUs *)
        subst gu' gi'.
        destruct (IH _ _ _ _ _ _ Hg Hu Hz HL E2) as (A & B & C & D).
        split; [|split; [|split]].
        -- intros s' [<-|Hs] kk vv Hin; [rewrite G1 in Hin; destruct Hin|eapply A; eauto].
        -- intro k. simpl. rewrite G1. simpl. apply B.
        -- intro H64. lia.
        -- constructor; [|exact D]. unfold slot_gpu_amount. rewrite G1. simpl. split; [lia|constructor].
      * (* whole GPUs *)
        subst gu'.
        destruct (IH _ _ _ _ _ _ Hg Hu Hz HL E2) as (A & B & C & D).
        assert (Hnd : NoDup gp) by (eapply incr_from_NoDup; exact G5).
        split; [|split; [|split]].
        -- intros s' [<-|Hs] kk vv Hin; [|eapply A; eauto].
           rewrite G3 in Hin. apply in_map_iff in Hin as (i & Hi & Hin). injection Hi as <- <-.
           split; [apply G8; exact Hin|lia].
        -- intro k. cbn [share_on]. rewrite G3, (gshare_whole k gp Hnd). rewrite (Hz G0 k).
           destruct (existsb (Nat.eqb k) gp) eqn:Ex.
           ++ right. apply existsb_exists in Ex as (x & Hx & Hk). apply Nat.eqb_eq in Hk; subst x.
              rewrite share_on_absent; [lia|].
              intro Hin. pose proof (incr_from_ge _ _ _ (C G0) Hin). pose proof (G6 _ Hx). lia.
           ++ destruct (B k) as [B0|B1]; [left; lia|right]. rewrite (Hz G0 k) in B1. lia.
        -- intros _. unfold all_gidx. cbn [map concat]. rewrite G3, gidx_whole.
           apply (incr_from_app _ gi gi'); auto.
        -- constructor; [|exact D]. unfold slot_gpu_amount. rewrite G3, amount_whole, gidx_whole, G4.
           split; [|exact Hnd]. rewrite Z2Nat.id by (apply Z.div_pos; lia).
           pose proof (Z.div_mod g 64). lia.
      * (* a share of one GPU *)
        subst gu' gi'.
        assert (Hu' : forall k, (0 <= nth k (add_used gused k0 g) 0)%Z).
        { intro k. rewrite nth_add_used. specialize (Hu k).
          destruct (Nat.eqb k k0 && Nat.ltb k0 (length gused)); lia. }
        assert (Hz' : (64 <= g)%Z -> forall k, nth k (add_used gused k0 g) 0%Z = 0%Z) by lia.
        assert (HL' : length (add_used gused k0 g) = length (n_gpus nd)) by (rewrite length_add_used; exact HL).
        destruct (IH _ _ _ _ _ _ Hg Hu' Hz' HL' E2) as (A & B & C & D).
        assert (Huu : uu = 0%Z /\ o = Free).
        { specialize (Hu k0). destruct o; simpl in G7; try discriminate; injection G7 as <-; [auto|lia]. }
        destruct Huu as [-> ->].
        split; [|split; [|split]].
        -- intros s' [<-|Hs] kk vv Hin; [|eapply A; eauto].
           rewrite G1 in Hin. destruct Hin as [Hin|[]]. injection Hin as <- <-. split; [exact G6|lia].
        -- intro k. cbn [share_on]. rewrite G1. cbn [gshare].
           specialize (B k). rewrite nth_add_used in B. specialize (Hu k).
           destruct (Nat.eqb k0 k) eqn:Ek.
           ++ apply Nat.eqb_eq in Ek; subst k0. right.
              rewrite Nat.eqb_refl in B.
              destruct (Nat.ltb k (length gused)) eqn:El.
              ** simpl in B. destruct B as [B|B]; lia.
              ** (* k beyond gused: the share is not recorded, but then nth = 0 throughout *)
                 apply Nat.ltb_ge in El. lia.
           ++ rewrite (Nat.eqb_sym k k0), Ek in B. simpl in B.
              destruct B as [B|B]; [left|right]; lia.
        -- intro H64. lia.
        -- constructor; [|exact D]. unfold slot_gpu_amount. rewrite G1. simpl. split; [lia|].
           constructor; [intros []|constructor].
Qed.
