(* C04, last sentence: "when a release lets only one of two waiting tasks run,
   the one with the higher priority is started" *)
From Coq Require Import ZArith List Bool Lia.
From RP Require Import Sched.Model.
Import ListNotations.
Open Scope Z_scope.

Lemma waitpool_loop_extends c : forall prios s strat res act evs s' strat' res' act' evs',
  waitpool_loop c s prios strat res act evs = Some (s', strat', res', act', evs') ->
  exists tail, evs' = evs ++ tail.
Proof.
  induction prios as [|p ps IH]; intros s strat res act evs s' strat' res' act' evs' H; cbn [waitpool_loop] in H.
  - injection H as <- <- <- <- <-. exists []. now rewrite app_nil_r.
  - destruct (match zlookup p (waitpool s) with Some l => l | None => [] end) as [|t0 pool0] eqn:Hp.
    + eapply IH; eassumption.
    + destruct (sort_desc ts_product (filter (env_ok s) (t0 :: pool0))) as [|x xs] eqn:Ht.
      * eapply IH; eassumption.
      * destruct strat as [|sv st']; [discriminate|].
        destruct (negb (same_set (map fst sv) (uids (x :: xs)))); [discriminate|].
        destruct (bisect_replay c s (x :: xs) sv) as [[[[s1 good] bad] fail]|]; [|discriminate].
        apply IH in H. destruct H as [tail ->]. rewrite <- !app_assoc. eexists. reflexivity.
Qed.

Lemma waitpool_loop_cons c s p ps strat res act evs :
  waitpool_loop c s (p :: ps) strat res act evs =
      let pool := match zlookup p (waitpool s) with Some l => l | None => [] end in
      match pool with
      | [] => waitpool_loop c s ps strat res act evs
      | _ =>
          let to_test := sort_desc ts_product (filter (env_ok s) pool) in
          let to_wait := filter (fun t => negb (env_ok s t)) pool in
          match to_test with
          | [] => waitpool_loop c s ps strat res act evs
          | _ =>
              match strat with
              | [] => None
              | sv :: strat' =>
                  if negb (same_set (map fst sv) (uids to_test)) then None
                  else
                  match bisect_replay c s to_test sv with
                  | None => None
                  | Some (s1, good, bad, fail) =>
                      let s2 := set_pool s1 (zstore p (bad ++ to_wait) (waitpool s1)) in
                      let evs' := evs ++ map (fun te => Failed (r_uid (fst te)) ERuntime) fail
                                      ++ map (fun ts => Started (r_uid (fst ts)) (snd ts)) good in
                      waitpool_loop c s2 ps strat'
                        (res && match bad with [] => true | _ => false end)
                        (act || match good with [] => false | _ => true end) evs'
                  end
              end
          end
      end.
Proof. reflexivity. Qed.

Lemma same_set_single u : same_set [u] [u] = true.
Proof. unfold same_set, zcount. cbn. rewrite Z.eqb_refl. reflexivity. Qed.

Lemma prios_two pH pL : pL < pH ->
  prios_desc [(pH, @nil req)] = [pH] /\
  forall (a b : list req), prios_desc [(pH, a); (pL, b)] = [pH; pL] /\ prios_desc [(pL, b); (pH, a)] = [pH; pL].
Proof.
  intros Hlt. split; [reflexivity|]. intros a b. unfold prios_desc, sort_desc. cbn [map fst fold_right insert_desc].
  split.
  - destruct (pL <=? pH) eqn:E; [reflexivity|]. apply Z.leb_gt in E. lia.
  - destruct (pH <=? pL) eqn:E; [|reflexivity]. apply Z.leb_le in E. lia.
Qed.

(* two waiting tasks in two pools: the higher-priority one is tried first, on
   the state exactly as the release left it (before any grant of this pass);
   if it fits there it is started in this pass *)
Theorem higher_priority_tried_first c s H L pH pL :
  pL < pH ->
  (waitpool s = [(pH, [H]); (pL, [L])] \/ waitpool s = [(pL, [L]); (pH, [H])]) ->
  r_env H = None ->
  forall s' rest res act evs,
    schedule_waitpool c s [[(r_uid H, true)]; [(r_uid L, true)]] = Some (s', rest, res, act, evs) ->
    match snd (try_allocation c s H) with
    | TStarted slH => In (Started (r_uid H) slH) evs
    | _ => True
    end.
Proof.
  intros Hlt Hwp HeH s' rest res act evs Hrun.
  destruct (snd (try_allocation c s H)) as [slH| |e] eqn:Hres; [|exact I|exact I].
  unfold schedule_waitpool in Hrun.
  assert (Hpr : prios_desc (waitpool s) = [pH; pL]).
  { destruct (prios_two pH pL Hlt) as [_ Hp]. destruct (Hp [H] [L]) as [P1 P2]. destruct Hwp as [-> | ->]; assumption. }
  rewrite Hpr in Hrun. rewrite waitpool_loop_cons in Hrun. cbv zeta in Hrun.
  assert (Hlk : zlookup pH (waitpool s) = Some [H]).
  { destruct Hwp as [-> | ->]; cbn [zlookup].
    - rewrite Z.eqb_refl. reflexivity.
    - destruct (pL =? pH) eqn:E; [apply Z.eqb_eq in E; lia|]. rewrite Z.eqb_refl. reflexivity. }
  rewrite Hlk in Hrun.
  assert (Hok : env_ok s H = true) by (unfold env_ok; rewrite HeH; reflexivity).
  cbn [filter] in Hrun. rewrite Hok in Hrun. cbn [negb filter] in Hrun.
  change (sort_desc ts_product [H]) with [H] in Hrun.
  cbn [map fst uids] in Hrun. rewrite same_set_single in Hrun. cbn [negb] in Hrun.
  cbn [bisect_replay find_req] in Hrun. rewrite Z.eqb_refl in Hrun.
  destruct (try_allocation c s H) as [s1 rH] eqn:Hta. cbn [snd] in Hres. subst rH.
  apply waitpool_loop_extends in Hrun. destruct Hrun as [tail ->].
  cbn [map fst snd app]. left. reflexivity.
Qed.

(* ... but NOT in general: with more tasks in the higher-priority pool, the
   recorded behaviour of ru.lazy_bisect leaves tasks unchecked ("skipped")
   when tasks near them in the size-sorted pool failed; a skipped task that
   fits the idle pilot keeps waiting while a lower-priority task is started.
   Witness: the minimised history found by the correspondence harness on the
   real scheduler (replays/findings/C04-bisect-skips-fitting-higher-priority.json) *)
Definition rq (u ranks cpr gpr lfs mem rpn prio : Z) (colo : option Z) (excl : bool) : req :=
  mkReq u ranks cpr gpr lfs mem rpn prio colo excl None None.
Definition wit_cfg := mkCfg 4 2 100 64 true.
Definition wit_H := rq 17 1 0 0 0 40 2 1 None false.
Definition wit_L := rq 9 1 0 64 100 0 0 (-1) (Some 1) true.
Definition wit_state : sstate :=
  mkS [mkNode 0 [Free; Free; Free; Free] [Free; Free] 100 64] 0 [] []
      [(-1, [wit_L]);
       (1, [rq 8 2 4 32 10 64 1 1 None false; rq 16 6 1 0 0 0 3 1 None false; rq 12 4 1 128 0 0 1 1 None false;
            wit_H; rq 21 6 1 0 0 0 0 1 None false; rq 23 2 1 96 100 64 0 1 None false])]
      0 [] [] true [].
Definition wit_strat : list (list (Z * bool)) :=
  [[(21, true); (16, true); (17, false); (23, true); (8, true); (12, true)]; [(9, true)]].

Theorem higher_priority_first_refuted :
  exists s' rest res act evs slL slH,
    schedule_waitpool wit_cfg wit_state wit_strat = Some (s', rest, res, act, evs) /\
    r_prio wit_L < r_prio wit_H /\
    In (Started (r_uid wit_L) slL) evs /\
    (forall sl, ~ In (Started (r_uid wit_H) sl) evs) /\
    In wit_H (concat (map snd (waitpool s'))) /\
    snd (try_allocation wit_cfg wit_state wit_H) = TStarted slH.
Proof.
  remember (schedule_waitpool wit_cfg wit_state wit_strat) as r eqn:Hr.
  vm_compute in Hr.
  destruct r as [[[[[s' rest] res] act] evs]|]; [|discriminate].
  injection Hr as -> -> -> -> ->.
  do 5 eexists.
  exists [mkSlot 0 [0%nat] [(0%nat, 64)] 100 0].
  eexists.
  split; [reflexivity|]. split; [reflexivity|].
  split; [cbn; tauto|].
  split.
  - intros sl Hin. cbn in Hin. repeat (destruct Hin as [Hin|Hin]; [discriminate Hin|]). exact Hin.
  - split; [cbn; tauto|]. vm_compute. reflexivity.
Qed.
