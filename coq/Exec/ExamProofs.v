(* Exec.ExamProofs -- a named task that was launched is examined for
   cancellation after it entered the executor's registry (Oracle.ok_named_examined),
   for every scenario and every schedule of Exec.Model.  The argument is the
   order inside BaseComponent._control_cb: the uids of a request are appended
   to the cancel list BEFORE control_cb looks them up in self._tasks; so when
   the lookup comes too early for a task (it is not yet registered), the late
   check of _launch_task finds the uid on the cancel list. *)
From Coq Require Import ZArith List Bool Lia Permutation.
From RP Require Import Common.Eqb Exec.Model Exec.Oracle Exec.Local Exec.Proj Exec.ProjProofs Exec.WfProofs Exec.Proofs.
Import ListNotations.
Local Open Scope Z_scope.

Definition looplist (p : cpc) : list Z := match p with CIdle => [] | CLoop us => us | CK _ _ r => r end.
(* a lookup of u by the cancel handler is still to come *)
Definition pend (u : Z) (s : state) : Prop := In u (looplist (cpc_ s)) \/ In u (concat (c_rest s)).
(* the intake has still to deal with u (and has not canceled it in its filter) *)
Definition live (u : Z) (s : state) : Prop :=
  In u (uids (ipending s)) /\ (forall x k r, ipc_ s = IFilterPub x k r -> d_uid x <> u).

Record einv (u : Z) (s : state) (g : gex) : Prop := mkEinv {
  e1 : (g = G0 \/ g = G1) -> pend u s \/ In u (clist s) \/ ~ live u s;
  e2 : g = G3 -> pend u s;
  e3 : In u (looplist (cpc_ s)) -> In u (clist s) \/ ~ live u s }.

Lemma looplist_next m : looplist (cloop_next m) = m.
Proof. destruct m; reflexivity. Qed.

Lemma in_remove1_neq u y l : u <> y -> In u l -> In u (remove1 y l).
Proof.
  intros N. induction l as [|z l IH]; [intros []|]. cbn [remove1]. destruct (z =? y) eqn:E.
  - apply Z.eqb_eq in E. subst z. intros [H|H]; [congruence | exact H].
  - intros [H|H]; [left; exact H | right; exact (IH H)].
Qed.

(* ---- which recorded actions move the examination state ---- *)
Ltac gsame :=
  cbn [fold_left app]; unfold gex_ev, ev;
  repeat match goal with |- context [negb (?a =? ?b)] => destruct (a =? b) end;
  cbn; try reflexivity.

Lemma gex_other u th g k v a :
  (k =? K_TASKS_UPDATE) = false -> (k =? K_TASKS_GET) = false -> (k =? K_CLIST_IN) = false -> gex_ev u th g (k, v, a) = g.
Proof. intros A B C. unfold gex_ev. rewrite A, B, C. cbn [andb]. destruct (negb (v =? u)); reflexivity. Qed.
Lemma gex_lock u th g l a : gex_ev u th g (ev K_LOCK l a) = g.
Proof. apply gex_other; reflexivity. Qed.
Lemma gex_clrm u th g v a : gex_ev u th g (ev K_CLIST_REMOVE v a) = g.
Proof. apply gex_other; reflexivity. Qed.
Lemma gex_clin_I u g v a :
  gex_ev u ThI g (ev K_CLIST_IN v a) = if v =? u then match g with G1 => if a =? 1 then G2 else G3 | _ => g end else g.
Proof. unfold gex_ev, ev. destruct (v =? u); reflexivity. Qed.
Lemma gex_upd u th g v : gex_ev u th g (ev K_TASKS_UPDATE v 0) = if v =? u then match g with G0 => G1 | _ => g end else g.
Proof. unfold gex_ev, ev. destruct (v =? u); reflexivity. Qed.

Lemma gex_kstep u th x k s s1 k' es ms g : kstep x k s = (s1, k', es, ms) -> fold_left (gex_ev u th) es g = g.
Proof.
  destruct k; cbn [kstep]; intros H;
    repeat match type of H with context [match ?X with _ => _ end] => destruct X end; inversion H; subst; gsame.
Qed.

Lemma gex_wqget u th g l : fold_left (gex_ev u th) (map (fun v => ev K_WQ_GET v 0) l) g = g.
Proof. induction l as [|y l IH]; [reflexivity|]. cbn [map fold_left]. rewrite <- IH at 2. f_equal. gsame. Qed.

Lemma gex_wstep u s s' es ms g : wstep s = (s', es, ms) -> fold_left (gex_ev u ThW) es g = g.
Proof.
  unfold wstep. destruct (wpc_ s) as [|pc x r adv|adv|adv].
  - intros H; injection H as <- <- <-. rewrite !fold_left_app, gex_wqget.
    destruct (Nat.ltb (length (firstn bulk (wq s))) bulk); cbn [fold_left]; unfold ev; rewrite ?gex_other by reflexivity; reflexivity.
  - destruct pc; split_match; intros H; inversion H; subst; try destruct (tasks s x); gsame.
  - intros H; inversion H; subst; reflexivity.
  - intros H; inversion H; subst; reflexivity.
Qed.

(* ---- live can only be lost ---- *)
Lemma live_back k u ch s s' es ms : wf k u s -> exec_step ch s = (s', es, ms) -> live u s' -> live u s.
Proof.
  intros W H [L1 L2].
  assert (Hk : ch <> CI -> ipc_ s' = ipc_ s /\ i_rest s' = i_rest s).
  { intros N. destruct ch; cbn [exec_step] in H; try congruence.
    - destruct (cstep_keeps _ _ _ _ H) as (A & B & _). auto.
    - destruct (wstep_keeps _ _ _ _ H) as (A & B & _). auto.
    - destruct (tstep_keeps _ _ _ _ H) as (A & B & _). auto.
    - unfold xstep in H. destruct (is_running (world s u0)); inversion H; subst; fields; auto. }
  destruct ch; try (destruct Hk as [A B]; [discriminate|];
                    split; [rewrite <- (ipending_ext s s' A B); exact L1 | intros x kk r E; apply (L2 x kk r); congruence]).
  cbn [exec_step] in H. destruct (istep_pending _ _ _ _ H) as [l P].
  assert (L1' : In u (uids (ipending s))).
  { unfold uids in *. apply in_map_iff in L1 as [y [Ey Hy]]. apply in_map_iff. exists y. split; [exact Ey|].
    apply (Permutation_in _ (Permutation_sym P)). apply in_or_app. right. exact Hy. }
  split; [exact L1'|]. intros x kk r E Eu.
  (* the intake was about to publish the unschedule of the filtered u: afterwards u is gone *)
  pose proof (wf_nodup _ _ _ W) as ND. unfold ipending, icur in ND. rewrite E in ND.
  unfold istep in H. rewrite E in H. inversion H; subst s' es ms; clear H.
  rewrite ipending_filt_next in L1. unfold later in *. fields.
  cbn [app uids map] in ND. apply NoDup_cons_iff in ND as [NI _].
  apply NI. rewrite Eu. exact L1.
Qed.

Lemma einv_transfer u s s' g g' :
  einv u s g ->
  (live u s' -> live u s) ->
  (pend u s -> pend u s') -> (In u (clist s) -> In u (clist s')) ->
  (In u (looplist (cpc_ s')) -> In u (looplist (cpc_ s))) ->
  ((g' = G0 \/ g' = G1) -> (g = G0 \/ g = G1)) -> (g' = G3 -> g = G3) ->
  einv u s' g'.
Proof.
  intros [E1 E2 E3] HL HP HC HLo H01 H3. constructor.
  - intros Hg. destruct (E1 (H01 Hg)) as [A|[A|A]]; [left; auto | right; left; auto | right; right; intros L; exact (A (HL L))].
  - intros Hg. exact (HP (E2 (H3 Hg))).
  - intros Hi. destruct (E3 (HLo Hi)) as [A|A]; [left; auto | right; intros L; exact (A (HL L))].
Qed.

Lemma pend_ext u s s' : cpc_ s' = cpc_ s -> c_rest s' = c_rest s -> pend u s -> pend u s'.
Proof. unfold pend. intros -> ->. auto. Qed.

(* ---- one step ---- *)
Lemma einv_cstep k u s s' es ms g :
  wf k u s -> einv u s g -> cstep s = (s', es, ms) -> einv u s' (fold_left (gex_ev u ThC) es g).
Proof.
  intros W E H. pose proof (live_back k u CC s s' es ms W H) as LB.
  unfold cstep in H. destruct (cpc_ s) as [|us|kk x r] eqn:EC.
  - destruct (c_rest s) as [|m ms'] eqn:ER; inversion H; subst s' es ms; clear H.
    + exact E.
    + assert (Hg : fold_left (gex_ev u ThC) [ev K_LOCK L_CANCEL 0; ev K_CLIST_EXTEND 0 (zlen m)] g = g) by gsame.
      rewrite Hg. destruct E as [E1 E2 E3].
      assert (HP : pend u s -> pend u (set_cpc (set_c_rest (set_clist s (clist s ++ m)) ms') (cloop_next m))).
      { unfold pend. fields. rewrite EC, ER, looplist_next. cbn [looplist concat]. rewrite in_app_iff. intros [[]|A]; exact A. }
      constructor; fields; rewrite ?looplist_next.
      * intros Hg'. destruct (E1 Hg') as [A|[A|A]]; [left; auto | right; left; apply in_or_app; auto | right; right; intros L; exact (A (LB L))].
      * intros Hg'. exact (HP (E2 Hg')).
      * intros Hi. left. apply in_or_app. right. exact Hi.
  - destruct us as [|u0 r]; inversion H; subst s' es ms; clear H.
    + apply (einv_transfer u s _ g g E LB); fields; auto.
      * unfold pend. fields. rewrite EC. cbn [looplist]. auto.
      * intros [].
    + assert (Hl : looplist (if tasks s u0 then CK KGet u0 r else cloop_next r) = r)
        by (destruct (tasks s u0); [reflexivity | apply looplist_next]).
      destruct E as [E1 E2 E3]. rewrite EC in E3. cbn [looplist] in E3.
      assert (HP : u0 <> u -> pend u s -> pend u (set_cpc s (if tasks s u0 then CK KGet u0 r else cloop_next r))).
      { intros N. unfold pend. fields. rewrite EC, Hl. cbn [looplist]. intros [[A|A]|A]; [congruence | auto | auto]. }
      cbn [fold_left]. unfold gex_ev, ev, K_TASKS_GET, K_TASKS_UPDATE. cbn [Z.eqb Pos.eqb andb thread_eqb].
      destruct (u0 =? u) eqn:Eu; cbn [negb].
      * apply Z.eqb_eq in Eu. subst u0.
        constructor; fields; rewrite ?Hl.
        -- intros Hg'. assert (g = G0) by (destruct g; destruct Hg' as [X|X]; try discriminate X; reflexivity). subst g.
           destruct (E1 (or_introl eq_refl)) as [A|[A|A]].
           ++ unfold pend in A. rewrite EC in A. cbn [looplist] in A. destruct A as [[_|A]|A].
              ** destruct (E3 (or_introl eq_refl)) as [B|B]; [right; left; exact B | right; right; intros L; exact (B (LB L))].
              ** left. unfold pend. fields. rewrite Hl. left. exact A.
              ** left. unfold pend. fields. right. exact A.
           ++ right. left. exact A.
           ++ right. right. intros L. exact (A (LB L)).
        -- intros Hg'. destruct g; discriminate Hg'.
        -- intros Hi. destruct (E3 (or_intror Hi)) as [B|B]; [left; exact B | right; intros L; exact (B (LB L))].
      * apply Z.eqb_neq in Eu.
        constructor; fields; rewrite ?Hl.
        -- intros Hg'. destruct (E1 Hg') as [A|[A|A]]; [left; exact (HP Eu A) | right; left; exact A | right; right; intros L; exact (A (LB L))].
        -- intros Hg'. exact (HP Eu (E2 Hg')).
        -- intros Hi. destruct (E3 (or_intror Hi)) as [B|B]; [left; exact B | right; intros L; exact (B (LB L))].
  - destruct (kstep x kk s) as [[[s1 k'] es1] ms1] eqn:EK. inversion H; subst s' es ms; clear H.
    pose proof (kstep_ctl _ _ _ _ _ _ _ EK) as (C1 & C2 & C3 & C4 & C5 & C6 & C7 & C8 & C9 & C10).
    rewrite (gex_kstep _ _ _ _ _ _ _ _ _ g EK).
    assert (Hl : looplist (match k' with Some k2 => CK k2 x r | None => cloop_next r end) = r)
      by (destruct k'; [reflexivity | apply looplist_next]).
    apply (einv_transfer u s _ g g E LB); fields; rewrite ?Hl, ?C1, ?EC; auto.
    unfold pend. fields. rewrite Hl, C7, EC. auto.
Qed.

Lemma einv_istep k u s s' es ms g :
  wf k u s -> einv u s g -> istep s = (s', es, ms) -> einv u s' (fold_left (gex_ev u ThI) es g).
Proof.
  intros W E H. pose proof (live_back k u CI s s' es ms W H) as LB.
  destruct (istep_keeps _ _ _ _ H) as (K1 & K2 & K3 & _ & _).
  assert (HPe : pend u s -> pend u s') by (apply pend_ext; assumption).
  assert (HLo : In u (looplist (cpc_ s')) -> In u (looplist (cpc_ s))) by (rewrite K1; auto).
  (* the generic case: the cancel list is unchanged and no action moves the examination state *)
  assert (Gen : clist s' = clist s -> fold_left (gex_ev u ThI) es g = g -> einv u s' (fold_left (gex_ev u ThI) es g)).
  { intros Hc Hg. rewrite Hg. apply (einv_transfer u s s' g g E LB HPe); auto. rewrite Hc. auto. }
  unfold istep in H. destruct (ipc_ s) as [|kept rest|x kept r|kept|pc x rest] eqn:EI.
  - destruct (i_rest s); inversion H; subst s' es ms; [exact E|]. apply Gen; [reflexivity | gsame].
  - destruct rest as [|x r].
    + inversion H; subst s' es ms. apply Gen; reflexivity.
    + assert (Lv : d_uid x = u -> live u s).
      { intros Eu. split.
        - unfold ipending, icur. rewrite EI, !uids_app. cbn [uids map]. apply in_or_app. left. apply in_or_app. right. left. exact Eu.
        - intros x0 k0 r0 E0. rewrite EI in E0. discriminate E0. }
      destruct (mem (d_uid x) (clist s)) eqn:EM; inversion H; subst s' es ms; clear H.
      * (* filter hit *)
        destruct (Z.eq_dec (d_uid x) u) as [Eu|N].
        -- assert (NL : ~ live u (set_ipc (set_clist s (remove1 (d_uid x) (clist s))) (IFilterPub x kept r))).
           { intros [_ L2]. exact (L2 x kept r eq_refl Eu). }
           destruct E as [E1 E2 E3]. constructor.
           ++ intros _. right. right. exact NL.
           ++ cbn [fold_left]. rewrite gex_lock, gex_clin_I, gex_clrm, (proj2 (Z.eqb_eq _ _) Eu). cbn [Z.eqb Pos.eqb].
              intros Hg; apply HPe; apply E2; destruct g; try discriminate Hg; reflexivity.
           ++ intros _. right. exact NL.
        -- assert (Hg : fold_left (gex_ev u ThI) [ev K_LOCK L_CANCEL 0; ev K_CLIST_IN (d_uid x) 1; ev K_CLIST_REMOVE (d_uid x) 0] g = g).
           { cbn [fold_left]. rewrite gex_lock, gex_clin_I, gex_clrm, (neq_eqb _ _ N). reflexivity. }
           rewrite Hg. apply (einv_transfer u s _ g g E LB HPe); auto.
           fields. apply in_remove1_neq. congruence.
      * (* filter miss *)
        destruct (Z.eq_dec (d_uid x) u) as [Eu|N].
        -- destruct E as [E1 E2 E3].
           assert (NI : ~ In u (clist s)) by (apply mem_false; rewrite <- Eu; exact EM).
           assert (HP1 : g = G0 \/ g = G1 -> pend u s).
           { intros Hg. destruct (E1 Hg) as [A|[A|A]]; [exact A | contradiction | exfalso; exact (A (Lv Eu))]. }
           cbn [fold_left]. rewrite gex_lock, gex_clin_I, (proj2 (Z.eqb_eq _ _) Eu). cbn [Z.eqb Pos.eqb].
           constructor; fields.
           ++ intros Hg. left. apply HPe. apply HP1. destruct g; cbn in Hg; destruct Hg as [X|X]; try discriminate X; auto.
           ++ intros Hg. apply HPe. destruct g; cbn in Hg; try discriminate Hg; [apply HP1; auto | apply E2; reflexivity].
           ++ intros Hi. try rewrite K1 in Hi. destruct (E3 Hi) as [B|B]; [left; exact B | right; intros L; exact (B (LB L))].
        -- apply Gen; [reflexivity|]. cbn [fold_left]. rewrite gex_lock, gex_clin_I, (neq_eqb _ _ N). reflexivity.
  - inversion H; subst s' es ms. apply Gen; reflexivity.
  - inversion H; subst s' es ms. apply Gen; reflexivity.
  - assert (Lv : d_uid x = u -> live u s).
    { intros Eu. split.
      - unfold ipending, icur. rewrite EI, uids_app. cbn [uids map]. apply in_or_app. left. left. exact Eu.
      - intros x0 k0 r0 E0. rewrite EI in E0. discriminate E0. }
    destruct pc as [| | | | | |kk| | |].
    + (* ITUpdate *) inversion H; subst s' es ms; clear H.
      destruct (Z.eq_dec (d_uid x) u) as [Eu|N].
      * cbn [fold_left]. rewrite gex_upd, (proj2 (Z.eqb_eq _ _) Eu).
        apply (einv_transfer u s _ g _ E LB HPe); fields; auto.
        -- intros Hg. destruct g; cbn in Hg; destruct Hg as [X|X]; try discriminate X; auto.
        -- intros Hg. destruct g; try discriminate Hg; reflexivity.
      * apply Gen; [reflexivity|]. cbn [fold_left]. rewrite gex_upd, (neq_eqb _ _ N). reflexivity.
    + destruct (d_fault x); inversion H; subst s' es ms; (apply Gen; [reflexivity | gsame]).
    + destruct (procattr s (d_uid x)); [destruct (d_fault x)|]; inversion H; subst s' es ms; (apply Gen; [reflexivity | gsame]).
    + inversion H; subst s' es ms. apply Gen; [reflexivity | gsame].
    + inversion H; subst s' es ms. apply Gen; [reflexivity | gsame].
    + (* ITLate *) inversion H; subst s' es ms; clear H.
      destruct (Z.eq_dec (d_uid x) u) as [Eu|N].
      * destruct E as [E1 E2 E3].
        cbn [fold_left]. rewrite gex_lock, gex_clin_I, (proj2 (Z.eqb_eq _ _) Eu).
        rewrite Eu in *.
        destruct (mem u (clist s)) eqn:EM.
        -- constructor; fields.
           ++ intros Hg. destruct (E1 ltac:(destruct g; cbn in Hg; destruct Hg as [X|X]; try discriminate X; auto)) as [A|[A|A]];
                [left; exact (HPe A) | right; left; exact A | right; right; intros L; exact (A (LB L))].
           ++ intros Hg. apply HPe. apply E2. destruct g; cbn in Hg; try discriminate Hg; reflexivity.
           ++ intros Hi. try rewrite K1 in Hi. destruct (E3 Hi) as [B|B]; [left; exact B | right; intros L; exact (B (LB L))].
        -- assert (NI : ~ In u (clist s)) by (apply mem_false; exact EM).
           assert (HP1 : g = G0 \/ g = G1 -> pend u s).
           { intros Hg. destruct (E1 Hg) as [A|[A|A]]; [exact A | contradiction | exfalso; exact (A (Lv eq_refl))]. }
           constructor; fields.
           ++ intros Hg. left. apply HPe. apply HP1. destruct g; cbn in Hg; destruct Hg as [X|X]; try discriminate X; auto.
           ++ intros Hg. apply HPe. destruct g; cbn in Hg; try discriminate Hg; [apply HP1; auto | apply E2; reflexivity].
           ++ intros Hi. try rewrite K1 in Hi. destruct (E3 Hi) as [B|B]; [left; exact B | right; intros L; exact (B (LB L))].
      * apply Gen; [reflexivity|]. cbn [fold_left]. rewrite gex_lock, gex_clin_I, (neq_eqb _ _ N). reflexivity.
    + destruct (kstep (d_uid x) kk s) as [[[s1 k'] es1] ms1] eqn:EK. inversion H; subst s' es ms.
      pose proof (kstep_ctl _ _ _ _ _ _ _ EK) as (C1 & _). apply Gen; [fields; exact C1 | exact (gex_kstep _ _ _ _ _ _ _ _ _ g EK)].
    + inversion H; subst s' es ms. apply Gen; [reflexivity | gsame].
    + inversion H; subst s' es ms. apply Gen; reflexivity.
    + inversion H; subst s' es ms. apply Gen; reflexivity.
Qed.

Lemma einv_same k u ch s s' es ms g :
  wf k u s -> einv u s g -> exec_step ch s = (s', es, ms) ->
  cpc_ s' = cpc_ s -> c_rest s' = c_rest s -> clist s' = clist s ->
  fold_left (gex_ev u (thread_of ch)) es g = g -> einv u s' (fold_left (gex_ev u (thread_of ch)) es g).
Proof.
  intros W E H A B C Hg. rewrite Hg.
  apply (einv_transfer u s s' g g E (live_back k u ch s s' es ms W H)); auto.
  - apply pend_ext; assumption.
  - rewrite C. auto.
  - rewrite A. auto.
Qed.

Theorem einv_step k u ch s s' es ms g :
  wf k u s -> einv u s g -> exec_step ch s = (s', es, ms) ->
  einv u s' (fold_left (gex_ev u (thread_of ch)) es g).
Proof.
  intros W E H. destruct ch.
  - exact (einv_istep k u s s' es ms g W E H).
  - exact (einv_cstep k u s s' es ms g W E H).
  - pose proof H as H'. cbn [exec_step] in H'. destruct (wstep_keeps _ _ _ _ H') as (_ & _ & A & B & C & _).
    apply (einv_same k u CW s s' es ms g W E H A B C). exact (gex_wstep u s s' es ms g H').
  - pose proof H as H'. cbn [exec_step] in H'. destruct (tstep_keeps _ _ _ _ H') as (_ & _ & A & B & C).
    apply (einv_same k u CT s s' es ms g W E H A B C). cbn [thread_of].
    unfold tstep in H'. destruct (tpc_ s) as [|kk x r].
    + inversion H'; subst. cbn [fold_left]. apply gex_lock.
    + destruct (kstep x kk s) as [[[s1 k'] es1] ms1] eqn:EK. inversion H'; subst. exact (gex_kstep _ _ _ _ _ _ _ _ _ g EK).
  - pose proof H as H'. cbn [exec_step] in H'. unfold xstep in H'.
    destruct (is_running (world s u0)); inversion H'; subst s' es ms.
    + apply (einv_same k u (CX u0 code) s _ _ _ g W E H); fields; try reflexivity.
      cbn [fold_left thread_of]. apply gex_other; reflexivity.
    + exact E.
Qed.

Lemma gex_of_snoc u tr o : gex_of u (tr ++ [o]) = gex_step u (gex_of u tr) o.
Proof. unfold gex_of. rewrite fold_left_app. reflexivity. Qed.

Lemma run_einv k u : forall sched s tr0 s' tr,
  wf k u s -> einv u s (gex_of u tr0) -> run s sched = (s', tr) -> einv u s' (gex_of u (tr0 ++ tr)).
Proof.
  induction sched as [|ch r IH]; intros s tr0 s' tr W E H.
  - cbn [run] in H. inversion H; subst. rewrite app_nil_r. exact E.
  - cbn [run] in H. destruct (exec_step ch s) as [[s1 es] ms] eqn:ES.
    destruct (run s1 r) as [s2 tr2] eqn:ER. inversion H; subst s' tr; clear H.
    pose proof (wf_step _ _ _ _ _ _ _ W ES) as W1.
    pose proof (einv_step k u ch s s1 es ms _ W E ES) as E1.
    assert (E1' : einv u s1 (gex_of u (tr0 ++ [(thread_of ch, es, ms)]))) by (rewrite gex_of_snoc; exact E1).
    pose proof (IH _ _ _ _ W1 E1' ER) as E2. rewrite <- app_assoc in E2. exact E2.
Qed.

(* For every scenario and every schedule: at quiescence, a delivered uid that
   some cancel request names is not in state G3 -- if it was launched far
   enough to reach the late check, it has been examined for cancellation after
   it entered self._tasks (looked up by the cancel handler, or found on the
   cancel list by the late check, which then calls cancel_task). *)
Theorem named_examined sc sched s tr u :
  NoDup (delivered sc) -> In u (delivered sc) -> In u (named sc) ->
  run (init sc) sched = (s, tr) -> quiescent s = true -> gex_of u tr <> G3.
Proof.
  intros ND HI HN HR Q Hg.
  assert (E0 : einv u (init sc) (gex_of u [])).
  { constructor; cbn [gex_of fold_left].
    - intros _. left. right. unfold init. fields. exact HN.
    - intros X. discriminate X.
    - unfold init. fields. intros []. }
  pose proof (run_einv (kof sc u) u sched (init sc) [] s tr (wf_init sc u ND) E0 HR) as E. cbn [app] in E.
  destruct (e2 _ _ _ E Hg) as [A|A].
  - unfold quiescent in Q. destruct (ipc_ s); try discriminate Q. destruct (cpc_ s); try discriminate Q. destruct A.
  - unfold quiescent in Q. destruct (ipc_ s); try discriminate Q. destruct (cpc_ s); try discriminate Q.
    destruct (wpc_ s); try discriminate Q. destruct (tpc_ s); try discriminate Q.
    destruct (i_rest s); [|discriminate Q]. destruct (c_rest s); [destruct A | discriminate Q].
Qed.

(* the same as the oracle clause evaluated by the harness on the traces of the real code *)
Theorem model_named_examined sc sched s tr :
  NoDup (delivered sc) -> run (init sc) sched = (s, tr) -> ok_named_examined sc tr (quiescent s) = true.
Proof.
  intros ND HR. unfold ok_named_examined. destruct (quiescent s) eqn:Q; [|reflexivity]. cbn [negb orb].
  apply forallb_forall. intros u Hu. apply filter_In in Hu as [HI HN]. apply mem_In in HN.
  pose proof (named_examined sc sched s tr u ND HI HN HR Q) as G. destruct (gex_of u tr); try reflexivity. contradiction.
Qed.
