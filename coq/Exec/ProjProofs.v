(* Exec.ProjProofs -- every step of the global model, seen from one uid, is
   invisible or a local move (global |= local simulation), and preserves the
   well-formedness invariant.  Unbounded: any number of tasks, any schedule. *)
From Coq Require Import ZArith List Bool Lia Permutation.
From RP Require Import Common.Eqb Exec.Model Exec.Oracle Exec.Local Exec.Proj.
Import ListNotations.
Local Open Scope Z_scope.

Lemma upd_same {A} (f : Z -> A) u v : upd f u v u = v.
Proof. unfold upd. rewrite Z.eqb_refl. reflexivity. Qed.
Lemma upd_other {A} (f : Z -> A) x u v : x <> u -> upd f x v u = f u.
Proof. unfold upd. intros N. destruct (u =? x) eqn:E; [apply Z.eqb_eq in E; congruence | reflexivity]. Qed.

Definition same_ctl (s s' : state) : Prop :=
  clist s' = clist s /\ to_new s' = to_new s /\ wq s' = wq s /\ ipc_ s' = ipc_ s /\ i_rest s' = i_rest s /\
  cpc_ s' = cpc_ s /\ c_rest s' = c_rest s /\ wpc_ s' = wpc_ s /\ w_watch s' = w_watch s /\ tpc_ s' = tpc_ s.

Lemma same_ctl_refl s : same_ctl s s.
Proof. repeat split. Qed.

Ltac ctl := unfold same_ctl; cbn [clist to_new wq ipc_ i_rest cpc_ c_rest wpc_ w_watch tpc_ tasks procattr world
                                  set_tasks set_procattr set_world set_clist set_to_new set_wq set_ipc set_i_rest
                                  set_cpc set_c_rest set_wpc set_w_watch set_tpc]; repeat split; try reflexivity.

Lemma kstep_ctl x k s s' k' es ms : kstep x k s = (s', k', es, ms) -> same_ctl s s'.
Proof.
  destruct k; cbn [kstep]; intros H;
    repeat match type of H with context [match ?X with _ => _ end] => destruct X end; inversion H; subst; ctl.
Qed.

(* events and emissions about another uid do not count *)
Lemma ev_del_neq u x a : x <> u -> event_eqb (ev K_TASKS_DEL u 1) (ev K_TASKS_DEL x a) = false.
Proof.
  intros N. unfold event_eqb, ev. replace (u =? x) with false; [rewrite andb_false_r; reflexivity|].
  symmetry. apply Z.eqb_neq. congruence.
Qed.

Lemma neq_eqb x u : x <> u -> (x =? u) = false.
Proof. intros N. apply Z.eqb_neq. exact N. Qed.
Lemma neq_eqb' x u : x <> u -> (u =? x) = false.
Proof. intros N. apply Z.eqb_neq. congruence. Qed.

Lemma cn_plus_uns_other c u x : x <> u -> (exists e, c = cnt_of u e) -> cn_plus c [EUns [x]] u = c.
Proof.
  intros N [e ->]. unfold cn_plus, cnt_of; cbn. rewrite (neq_eqb' _ _ N). cbn. rewrite !addc_0. reflexivity.
Qed.
Lemma cn_plus_adv_other c u x st cd tg p :
  x <> u -> (exists e, c = cnt_of u e) -> cn_plus c [EAdv st [(x, cd, tg)] p] u = c.
Proof.
  intros N [e ->]. unfold cn_plus, cnt_of; cbn. rewrite (neq_eqb _ _ N).
  destruct st, p; cbn; rewrite ?andb_false_l; cbn; rewrite !addc_0; reflexivity.
Qed.

(* cancel_task(x) leaves every other uid alone *)
Lemma kstep_other u x k s s' k' es ms c :
  x <> u -> kstep x k s = (s', k', es, ms) -> (exists e, c = cnt_of u e) ->
  tasks s' u = tasks s u /\ procattr s' u = procattr s u /\ world s' u = world s u /\
  cn_plus c ms u = c /\ existsb (event_eqb (ev K_TASKS_DEL u 1)) es = false.
Proof.
  intros N H Hc. destruct k; cbn [kstep] in H;
    repeat match type of H with context [match ?X with _ => _ end] => destruct X eqn:? end;
    inversion H; subst; clear H;
    cbn [tasks procattr world set_tasks set_procattr set_world];
    rewrite ?(upd_other _ _ _ _ N);
    (repeat split; try reflexivity;
     try (apply cn_plus_nil; exact Hc); try (apply cn_plus_uns_other; assumption);
     try (apply cn_plus_adv_other; assumption)).
  all: cbn [existsb app]; unfold ev, event_eqb, K_TASKS_DEL, K_PROC_GET, K_POLL, K_LOCK, K_TASKS_IN, K_PID, K_KILL, K_WAIT, K_PROC_DEL;
    cbn; rewrite ?(neq_eqb' _ _ N); cbn; try reflexivity.
  all: try (destruct (tasks s x); cbn; rewrite ?(neq_eqb' _ _ N); cbn; reflexivity).
Qed.

Lemma lrunning_of p : lrunning (lworld_of p) = is_running p.
Proof. destruct p; reflexivity. Qed.

Lemma cn_plus_uns_same e u : cn_plus (cnt_of u e) [EUns [u]] u = n_uns_ (cnt_of u e) 1.
Proof. unfold cn_plus, n_uns_, cnt_of; cbn. rewrite Z.eqb_refl. cbn. rewrite !addc_0. reflexivity. Qed.
Lemma cn_plus_stcncl_same e u : cn_plus (cnt_of u e) [EAdv SStaging [(u, None, TgCanceled)] true] u = n_stcncl_ (cnt_of u e) 1.
Proof. unfold cn_plus, n_stcncl_, cnt_of; cbn. rewrite Z.eqb_refl. cbn. rewrite !addc_0. reflexivity. Qed.
Lemma cn_plus_fail_same e u x : d_uid x = u -> cn_plus (cnt_of u e) [EAdv SFailed [exec_item x] false] u = n_fail_ (cnt_of u e) 1.
Proof. intros <-. unfold cn_plus, n_fail_, cnt_of, exec_item; cbn. rewrite Z.eqb_refl. cbn. rewrite !addc_0. reflexivity. Qed.
Lemma cn_plus_canc_same e u x : d_uid x = u -> cn_plus (cnt_of u e) [EAdv SCanceled [exec_item x] false] u = n_canc_ (cnt_of u e) 1.
Proof. intros <-. unfold cn_plus, n_canc_, cnt_of, exec_item; cbn. rewrite Z.eqb_refl. cbn. rewrite !addc_0. reflexivity. Qed.

(* cancel_task(u), seen from u, is the local cancel_task *)
Lemma kstep_same kc u k s s' k' es ms i c t w e o :
  kstep u k s = (s', k', es, ms) ->
  lkstep k (mkL kc (mkSh (tasks s u) (procattr s u) (lworld_of (world s u))) i c t w (cnt_of u e) o)
  = (mkL kc (mkSh (tasks s' u) (procattr s' u) (lworld_of (world s' u))) i c t w (cn_plus (cnt_of u e) ms u)
         (o || existsb (event_eqb (ev K_TASKS_DEL u 1)) es), k').
Proof.
  intros H. destruct k; cbn [kstep] in H;
    [ | | | destruct (world s u) eqn:EW | destruct (world s u) eqn:EW; cbn [is_running] in H | | | ];
    inversion H; subst s' k' es ms; clear H;
    cbn [lkstep l_sh l_n h_tasks h_proc h_world tasks procattr world set_tasks set_procattr set_world
         w_own w_sh w_n sh_tasks sh_proc sh_world l_k l_i l_c l_t l_w l_own];
    rewrite ?lrunning_of, ?upd_same, ?cn_plus_uns_same, ?cn_plus_stcncl_same, ?(cn_plus_nil _ _ (ex_intro _ e eq_refl)),
      ?EW; cbn [lworld_of lrunning is_running].
  all: try (cbn; rewrite ?orb_false_r; reflexivity).
  all: try (cbn; rewrite orb_false_r; destruct (procattr s u); reflexivity).
  all: try (cbn; rewrite orb_false_r; destruct (is_running (world s u)); reflexivity).
  all: destruct (tasks s u) eqn:E; cbn; rewrite ?Z.eqb_refl; cbn; rewrite ?orb_false_r, ?orb_true_r; reflexivity.
Qed.

(* ---- the statement, per step ---- *)
Definition proj_ok (k : lconst) (u : Z) (s s' : state) (tr : list stepobs) (o : stepobs) : Prop :=
  view k u s' (tr ++ [o]) = view k u s tr \/ In (view k u s' (tr ++ [o])) (lnext (view k u s tr)).

Lemma view_snoc k u s' tr th es ms :
  view k u s' (tr ++ [(th, es, ms)]) =
  mkL k (mkSh (tasks s' u) (procattr s' u) (lworld_of (world s' u))) (view_i u s') (view_c u s') (view_t u s') (view_w u s')
      (cn_plus (cnt_of u (emissions tr)) ms u)
      (own_of u tr || (negb (thread_eqb th ThW) && existsb (event_eqb (ev K_TASKS_DEL u 1)) es)).
Proof. unfold view. rewrite emissions_snoc, cnt_of_app, own_of_snoc. reflexivity. Qed.

Lemma view_i_ext u a b : ipc_ a = ipc_ b -> i_rest a = i_rest b -> view_i u a = view_i u b.
Proof. unfold view_i, pos_in, later. intros -> ->. reflexivity. Qed.
Lemma view_c_ext u a b : cpc_ a = cpc_ b -> view_c u a = view_c u b.
Proof. unfold view_c. intros ->. reflexivity. Qed.
Lemma view_t_ext u a b : tpc_ a = tpc_ b -> view_t u a = view_t u b.
Proof. unfold view_t. intros ->. reflexivity. Qed.
Lemma view_w_ext u a b : wpc_ a = wpc_ b -> wq a = wq b -> w_watch a = w_watch b -> view_w u a = view_w u b.
Proof. unfold view_w. intros -> -> ->. reflexivity. Qed.

Lemma in_act_env v x : In x (act_env v) -> In x (lnext v).
Proof. unfold lnext. rewrite !in_app_iff. tauto. Qed.
Lemma in_act_i v x : In x (act_i v) -> In x (lnext v).
Proof. unfold lnext. rewrite !in_app_iff. tauto. Qed.
Lemma in_act_c v x : In x (act_c v) -> In x (lnext v).
Proof. unfold lnext. rewrite !in_app_iff. tauto. Qed.
Lemma in_act_t v x : In x (act_t v) -> In x (lnext v).
Proof. unfold lnext. rewrite !in_app_iff. tauto. Qed.
Lemma in_act_w v x : In x (act_w v) -> In x (lnext v).
Proof. unfold lnext. rewrite !in_app_iff. tauto. Qed.

Ltac fields := cbn [clist to_new wq ipc_ i_rest cpc_ c_rest wpc_ w_watch tpc_ tasks procattr world
                    set_tasks set_procattr set_world set_clist set_to_new set_wq set_ipc set_i_rest
                    set_cpc set_c_rest set_wpc set_w_watch set_tpc].

Lemma cnt_ex u tr : exists e, cnt_of u (emissions tr) = cnt_of u e.
Proof. eexists; reflexivity. Qed.

(* an unchanged view *)
Lemma view_same k u s s' tr th es ms :
  tasks s' u = tasks s u -> procattr s' u = procattr s u -> world s' u = world s u ->
  view_i u s' = view_i u s -> view_c u s' = view_c u s -> view_t u s' = view_t u s -> view_w u s' = view_w u s ->
  cn_plus (cnt_of u (emissions tr)) ms u = cnt_of u (emissions tr) ->
  negb (thread_eqb th ThW) && existsb (event_eqb (ev K_TASKS_DEL u 1)) es = false ->
  view k u s' (tr ++ [(th, es, ms)]) = view k u s tr.
Proof.
  intros H1 H2 H3 H4 H5 H6 H7 H8 H9. rewrite view_snoc, H1, H2, H3, H4, H5, H6, H7, H8, H9, orb_false_r. reflexivity.
Qed.

Ltac same_auto :=
  apply view_same; fields; try reflexivity; try assumption;
  try (apply cn_plus_nil; eexists; reflexivity);
  try (apply view_i_ext; fields; first [reflexivity | assumption]);
  try (apply view_c_ext; fields; first [reflexivity | assumption]);
  try (apply view_t_ext; fields; first [reflexivity | assumption]);
  try (apply view_w_ext; fields; first [reflexivity | assumption]).

(* ---- control thread ---- *)
Lemma cstep_proj k u s s' es ms tr :
  wf k u s -> cstep s = (s', es, ms) -> proj_ok k u s s' tr (ThC, es, ms).
Proof.
  intros W H. unfold proj_ok. unfold cstep in H.
  destruct (cpc_ s) as [|us|kk x r] eqn:EC.
  - (* CIdle *)
    destruct (c_rest s) as [|m ms'] eqn:ER; inversion H; subst s' es ms; clear H.
    + left. same_auto.
    + left. same_auto. unfold view_c. fields. rewrite EC. destruct m; reflexivity.
  - (* CLoop *)
    destruct us as [|u0 r]; inversion H; subst s' es ms; clear H.
    + left. same_auto. unfold view_c. fields. rewrite EC. reflexivity.
    + destruct (tasks s u0 && (u0 =? u)) eqn:EF.
      * (* cancel_task(u) starts *)
        apply andb_true_iff in EF as [Ef Eu]. apply Z.eqb_eq in Eu. subst u0.
        right. apply in_act_c. rewrite view_snoc. fields.
        assert (Hn : k_named k = true).
        { destruct (k_named k) eqn:En; [reflexivity|]. exfalso. apply (wf_named _ _ _ W En).
          unfold cpending. rewrite EC. left. reflexivity. }
        assert (Hc : view_c u s = LkOut) by (unfold view_c; rewrite EC; reflexivity).
        unfold act_c. change (l_c (view k u s tr)) with (view_c u s). rewrite Hc.
        change (l_k (view k u s tr)) with k. rewrite Hn.
        assert (Hc' : view_c u (set_cpc s (if tasks s u then CK KGet u r else cloop_next r)) = LkAt KGet)
          by (unfold view_c; fields; rewrite Ef, Z.eqb_refl; reflexivity).
        rewrite Hc'.
        rewrite (cn_plus_nil _ _ (cnt_ex u tr)). cbn [negb thread_eqb andb existsb].
        unfold event_eqb, ev, K_TASKS_DEL, K_TASKS_GET. cbn. rewrite orb_false_r.
        left. unfold w_c, view. cbn [l_k l_sh l_i l_c l_t l_w l_n l_own].
        f_equal; reflexivity.
      * left. same_auto. unfold view_c. fields. rewrite EC.
        destruct (tasks s u0); cbn [andb] in EF; [rewrite EF; reflexivity | destruct r; reflexivity].
  - (* CK *)
    destruct (kstep x kk s) as [[[s1 k'] es1] ms1] eqn:EK. inversion H; subst s' es ms; clear H.
    pose proof (kstep_ctl _ _ _ _ _ _ _ EK) as (C1 & C2 & C3 & C4 & C5 & C6 & C7 & C8 & C9 & C10).
    destruct (Z.eq_dec x u) as [->|N].
    + right. apply in_act_c. rewrite view_snoc. fields.
      assert (Hc : view_c u s = LkAt kk) by (unfold view_c; rewrite EC, Z.eqb_refl; reflexivity).
      unfold act_c. change (l_c (view k u s tr)) with (view_c u s). rewrite Hc.
      unfold view at 1. rewrite (kstep_same _ _ _ _ _ _ _ _ _ _ _ _ _ _ EK). left.
      unfold w_c. cbn [l_k l_sh l_i l_c l_t l_w l_n l_own negb thread_eqb andb].
      f_equal; try reflexivity.
      all: try (symmetry; apply view_i_ext; fields; assumption).
      all: try (symmetry; apply view_t_ext; fields; assumption).
      all: try (symmetry; apply view_w_ext; fields; assumption).
      all: try (unfold view_c; fields; destruct k'; [rewrite Z.eqb_refl; reflexivity | destruct r; reflexivity]).
    + destruct (kstep_other u x kk s s1 k' es1 ms1 _ N EK (cnt_ex u tr)) as (K1 & K2 & K3 & K4 & K5).
      left. same_auto.
      unfold view_c. fields. rewrite EC, (neq_eqb _ _ N).
      destruct k'; [rewrite (neq_eqb _ _ N); reflexivity | destruct r; reflexivity].
Qed.

(* ---- timeout thread ---- *)
Lemma tstep_proj k u s s' es ms tr :
  wf k u s -> tstep s = (s', es, ms) -> proj_ok k u s s' tr (ThT, es, ms).
Proof.
  intros W H. unfold proj_ok. unfold tstep in H.
  destruct (tpc_ s) as [|kk x r] eqn:EC.
  - (* TAbsorb *)
    inversion H; subst s' es ms; clear H.
    destruct (to_new s) as [|u0 r] eqn:ET.
    + left. same_auto. unfold view_t. fields. rewrite EC. reflexivity.
    + destruct (u0 =? u) eqn:Eu.
      * apply Z.eqb_eq in Eu. subst u0.
        right. apply in_act_t. rewrite view_snoc. fields.
        assert (Hn : k_to k = true).
        { destruct (k_to k) eqn:En; [reflexivity|]. exfalso. apply (wf_to _ _ _ W En).
          unfold tpending. rewrite EC, ET. left. reflexivity. }
        assert (Hc : view_t u s = LkOut) by (unfold view_t; rewrite EC; reflexivity).
        unfold act_t. change (l_t (view k u s tr)) with (view_t u s). rewrite Hc.
        change (l_k (view k u s tr)) with k. rewrite Hn.
        assert (Hc' : view_t u (set_tpc (set_to_new s []) (tloop_next (u :: r))) = LkAt KGet)
          by (unfold view_t; fields; cbn [tloop_next]; rewrite Z.eqb_refl; reflexivity).
        rewrite Hc'.
        rewrite (cn_plus_nil _ _ (cnt_ex u tr)). cbn [negb thread_eqb andb existsb].
        unfold event_eqb, ev, K_TASKS_DEL, K_LOCK. cbn. rewrite orb_false_r.
        left. unfold w_t, view. cbn [l_k l_sh l_i l_c l_t l_w l_n l_own].
        f_equal; reflexivity.
      * left. same_auto. unfold view_t. fields. rewrite EC. cbn [tloop_next]. rewrite Eu. reflexivity.
  - (* TK *)
    destruct (kstep x kk s) as [[[s1 k'] es1] ms1] eqn:EK. inversion H; subst s' es ms; clear H.
    pose proof (kstep_ctl _ _ _ _ _ _ _ EK) as (C1 & C2 & C3 & C4 & C5 & C6 & C7 & C8 & C9 & C10).
    assert (Hto : forall y r', r = y :: r' -> y = u -> k_to k = true).
    { intros y r' -> ->. destruct (k_to k) eqn:En; [reflexivity|]. exfalso. apply (wf_to _ _ _ W En).
      unfold tpending. rewrite EC. right. apply in_or_app. left. left. reflexivity. }
    destruct (Z.eq_dec x u) as [->|N].
    + right. apply in_act_t. rewrite view_snoc. fields.
      assert (Hc : view_t u s = LkAt kk) by (unfold view_t; rewrite EC, Z.eqb_refl; reflexivity).
      unfold act_t. change (l_t (view k u s tr)) with (view_t u s). rewrite Hc.
      unfold view at 1. rewrite (kstep_same _ _ _ _ _ _ _ _ _ _ _ _ _ _ EK).
      cbn [l_k].
      assert (Hi : view_i u (set_tpc s1 match k' with Some k2 => TK k2 u r | None => tloop_next r end) = view_i u s)
        by (apply view_i_ext; fields; assumption).
      assert (Hcc : view_c u (set_tpc s1 match k' with Some k2 => TK k2 u r | None => tloop_next r end) = view_c u s)
        by (apply view_c_ext; fields; assumption).
      assert (Hw : view_w u (set_tpc s1 match k' with Some k2 => TK k2 u r | None => tloop_next r end) = view_w u s)
        by (apply view_w_ext; fields; assumption).
      rewrite Hi, Hcc, Hw. cbn [negb thread_eqb andb]. change (l_k (view k u s tr)) with k.
      destruct k' as [k2|].
      * left. unfold view_t. fields. rewrite Z.eqb_refl. reflexivity.
      * destruct r as [|y r'].
        -- left. reflexivity.
        -- unfold view_t. fields. cbn [tloop_next]. destruct (y =? u) eqn:Ey.
           ++ apply Z.eqb_eq in Ey. rewrite (Hto _ _ eq_refl Ey). right. left. reflexivity.
           ++ left. reflexivity.
    + destruct (kstep_other u x kk s s1 k' es1 ms1 _ N EK (cnt_ex u tr)) as (K1 & K2 & K3 & K4 & K5).
      assert (Hc : view_t u s = LkOut) by (unfold view_t; rewrite EC, (neq_eqb _ _ N); reflexivity).
      destruct k' as [k2|]; [|destruct r as [|y r']; [|destruct (y =? u) eqn:Ey]].
      * left. same_auto. unfold view_t. fields. rewrite EC, !(neq_eqb _ _ N). reflexivity.
      * left. same_auto. unfold view_t. fields. rewrite EC, !(neq_eqb _ _ N). reflexivity.
      * (* the next timeout entry is u: cancel_task(u) starts *)
        apply Z.eqb_eq in Ey. subst y.
        right. apply in_act_t. rewrite view_snoc. fields.
        unfold act_t. change (l_t (view k u s tr)) with (view_t u s). rewrite Hc.
        change (l_k (view k u s tr)) with k. rewrite (Hto _ _ eq_refl eq_refl).
        left. rewrite K1, K2, K3, K4, K5, andb_false_r, orb_false_r.
        unfold w_t, view. cbn [l_k l_sh l_i l_c l_t l_w l_n l_own].
        f_equal.
        -- symmetry. apply view_i_ext; fields; assumption.
        -- symmetry. apply view_c_ext; fields; assumption.
        -- unfold view_t. fields. cbn [tloop_next]. rewrite Z.eqb_refl. reflexivity.
        -- symmetry. apply view_w_ext; fields; assumption.
      * left. same_auto. unfold view_t. fields. rewrite EC, (neq_eqb _ _ N). cbn [tloop_next]. rewrite Ey. reflexivity.
Qed.

(* ---- environment: a process exits ---- *)
Lemma xstep_proj k u s s' es ms tr x c :
  xstep x c s = (s', es, ms) -> proj_ok k u s s' tr (ThX, es, ms).
Proof.
  intros H. unfold proj_ok. unfold xstep in H.
  destruct (is_running (world s x)) eqn:ER; inversion H; subst s' es ms; clear H.
  - destruct (Z.eq_dec x u) as [->|N].
    + right. apply in_act_env. rewrite view_snoc. fields. rewrite upd_same.
      unfold act_env. change (h_world (l_sh (view k u s tr))) with (lworld_of (world s u)).
      destruct (world s u); try discriminate ER; cbn [lworld_of];
        (left; rewrite (cn_plus_nil _ _ (cnt_ex u tr)); cbn; rewrite orb_false_r;
         unfold w_sh, sh_world, view; cbn [l_k l_sh l_i l_c l_t l_w l_n l_own h_tasks h_proc]; reflexivity).
    + left. same_auto. apply upd_other. exact N.
  - left. same_auto.
Qed.

(* ---- watcher ---- *)
Definition vw (u : Z) (q w : bool) (pc : wpc) : lwf :=
  match pc with
  | WDrain => mkWf q w false 0%nat LwDrainPos
  | WTask pc x r adv => mkWf q w (mem u r) (sat (cnt u (map fst adv))) (if x =? u then LwAt (lwt_of pc) else LwIter)
  | WPub adv => mkWf q w false (sat (cnt u (map fst adv))) LwPub
  | WAdv adv => mkWf q w false (sat (cnt u (map fst adv))) LwAdv
  end.
Lemma view_w_vw u s : view_w u s = vw u (mem u (wq s)) (mem u (w_watch s)) (wpc_ s).
Proof. unfold view_w, vw. destruct (wpc_ s); reflexivity. Qed.

Lemma w_view k u s s' tr es ms :
  ipc_ s' = ipc_ s -> i_rest s' = i_rest s -> cpc_ s' = cpc_ s -> tpc_ s' = tpc_ s ->
  view k u s' (tr ++ [(ThW, es, ms)]) =
  mkL k (mkSh (tasks s' u) (procattr s' u) (lworld_of (world s' u))) (view_i u s) (view_c u s) (view_t u s)
      (vw u (mem u (wq s')) (mem u (w_watch s')) (wpc_ s'))
      (cn_plus (cnt_of u (emissions tr)) ms u) (own_of u tr).
Proof.
  intros H1 H2 H3 H4. rewrite view_snoc. cbn [negb thread_eqb andb]. rewrite orb_false_r.
  rewrite (view_i_ext u s' s H1 H2), (view_c_ext u s' s H3), (view_t_ext u s' s H4), view_w_vw. reflexivity.
Qed.

Lemma view_unfold k u s tr :
  view k u s tr =
  mkL k (mkSh (tasks s u) (procattr s u) (lworld_of (world s u))) (view_i u s) (view_c u s) (view_t u s)
      (vw u (mem u (wq s)) (mem u (w_watch s)) (wpc_ s)) (cnt_of u (emissions tr)) (own_of u tr).
Proof. unfold view. rewrite view_w_vw. reflexivity. Qed.

(* moving on to the next list element *)
Lemma iter_next_in u v q w r adv ph :
  l_w v = mkWf q w (mem u r) (sat (cnt u (map fst adv))) ph ->
  In (w_w v (vw u q w (witer_next r adv))) (iter_advs v).
Proof.
  intros Hw. unfold iter_advs. rewrite Hw. cbn [f_iter f_inq f_watch f_adv f_ph wf_ph wf_iter].
  destruct r as [|y r'].
  - cbn [mem existsb witer_next vw]. cbn. right. left. reflexivity.
  - cbn [witer_next vw]. rewrite mem_cons. destruct (y =? u) eqn:Ey.
    + apply Z.eqb_eq in Ey. subst y. rewrite Z.eqb_refl. cbn [orb app].
      destruct (mem u r'); [left | right; left]; reflexivity.
    + rewrite (Z.eqb_sym u y), Ey. cbn [orb].
      destruct (mem u r'); cbn [app]; [right; right; left | left]; reflexivity.
Qed.

Lemma iter_next_in' u kc sh i c t n o q w r adv ph :
  In (mkL kc sh i c t (vw u q w (witer_next r adv)) n o)
     (iter_advs (mkL kc sh i c t (mkWf q w (mem u r) (sat (cnt u (map fst adv))) ph) n o)).
Proof. apply (iter_next_in u (mkL kc sh i c t (mkWf q w (mem u r) (sat (cnt u (map fst adv))) ph) n o) q w r adv ph). reflexivity. Qed.

Lemma cnt_snoc_other u x (c : Z) adv : x <> u -> cnt u (map fst (adv ++ [(x, c)])) = cnt u (map fst adv).
Proof. intros N. rewrite map_app, cnt_app. cbn [map fst]. rewrite cnt_one, (neq_eqb _ _ N). lia. Qed.
Lemma cnt_snoc_same u (c : Z) adv : cnt u (map fst (adv ++ [(u, c)])) = (cnt u (map fst adv) + 1)%nat.
Proof. rewrite map_app, cnt_app. cbn [map fst]. rewrite cnt_one, Z.eqb_refl. reflexivity. Qed.

Lemma n_uns_list u l : n_uns u [EUns l] = cnt u l.
Proof. cbn. unfold cnt. lia. Qed.
Lemma items_adv_cnt u adv : cnt_items (for_uid u) (map adv_item adv) = cnt u (map fst adv).
Proof.
  unfold cnt_items, cnt. induction adv as [|[x c] adv IH]; [reflexivity|].
  cbn [map filter fst adv_item for_uid]. rewrite (Z.eqb_sym u x). destruct (x =? u); cbn [length]; rewrite IH; reflexivity.
Qed.
Lemma items_adv_coll u adv :
  cnt_items (fun i : item => let '(v, c, _) := i in (v =? u) && match c with Some _ => true | None => false end) (map adv_item adv)
  = cnt u (map fst adv).
Proof.
  unfold cnt_items, cnt. induction adv as [|[x c] adv IH]; [reflexivity|].
  cbn [map filter fst adv_item]. rewrite (Z.eqb_sym u x), andb_true_r. destruct (x =? u); cbn [length]; rewrite IH; reflexivity.
Qed.
Lemma items_adv_cncl u adv :
  cnt_items (fun i : item => let '(v, _, t) := i in (v =? u) && tgt_eqb t TgCanceled) (map adv_item adv) = 0%nat.
Proof.
  unfold cnt_items. induction adv as [|[x c] adv IH]; [reflexivity|].
  cbn [map filter adv_item fst snd]. destruct (c =? 0); cbn [tgt_eqb]; rewrite andb_false_r; exact IH.
Qed.

Lemma cn_plus_wpub e u l : cn_plus (cnt_of u e) [EUns l] u = n_uns_ (cnt_of u e) (sat (cnt u l)).
Proof.
  unfold cn_plus, n_uns_, cnt_of; cbn [c_exec c_canc c_fail c_stage c_coll c_cncl c_uns n_adv n_collected n_canceled].
  rewrite n_uns_list, !addc_0, addc_sat2, addc_sat. reflexivity.
Qed.
Lemma cn_plus_wadv e u adv :
  cn_plus (cnt_of u e) [EAdv SStaging (map adv_item adv) true] u = n_stcoll_ (cnt_of u e) (sat (cnt u (map fst adv))).
Proof.
  unfold cn_plus, n_stcoll_, cnt_of;
    cbn [c_exec c_canc c_fail c_stage c_coll c_cncl c_uns n_adv n_uns n_collected n_canceled est_eqb].
  rewrite items_adv_cnt, items_adv_coll, items_adv_cncl, !Nat.add_0_r, !addc_0, !addc_sat2, !addc_sat. reflexivity.
Qed.

Ltac lproj := cbn [l_k l_sh l_i l_c l_t l_w l_n l_own h_tasks h_proc h_world f_inq f_watch f_iter f_adv f_ph
                   w_sh w_i w_c w_t w_w w_n w_own sh_tasks sh_proc sh_world wf_ph wf_iter wf_watch].

Lemma wstep_proj k u s s' es ms tr :
  wstep s = (s', es, ms) -> proj_ok k u s s' tr (ThW, es, ms).
Proof.
  intros H. unfold proj_ok. unfold wstep in H.
  destruct (wpc_ s) as [|pc x r adv|adv|adv] eqn:EW.
  - (* WDrain *)
    injection H as <- <- <-.
    rewrite (w_view k u s) by (fields; reflexivity). rewrite (view_unfold k u s tr), EW. fields.
    rewrite (cn_plus_nil _ _ (cnt_ex u tr)), mem_app.
    right. apply in_act_w. unfold act_w. lproj. cbn [vw f_ph f_watch f_inq f_adv]. lproj.
    assert (Hq : mem u (wq s) = mem u (firstn bulk (wq s)) || mem u (skipn bulk (wq s)))
      by (rewrite <- mem_app, firstn_skipn; reflexivity).
    apply in_flat_map. exists (mem u (firstn bulk (wq s)), mem u (skipn bulk (wq s))). split.
    + rewrite Hq. destruct (mem u (firstn bulk (wq s))), (mem u (skipn bulk (wq s))); cbn; auto.
    + destruct (w_watch s ++ firstn bulk (wq s)) as [|y r'] eqn:ET.
      * apply app_eq_nil in ET as [E1 E2]. rewrite E1, E2. cbn [mem existsb orb witer_next vw app map fst cnt filter length sat].
        right. left. reflexivity.
      * assert (Hwa : mem u (w_watch s) || mem u (firstn bulk (wq s)) = (u =? y) || mem u r').
        { rewrite <- mem_app, ET. reflexivity. }
        rewrite Hwa. cbn [witer_next vw].
        destruct (y =? u) eqn:Ey.
        -- apply Z.eqb_eq in Ey. subst y. rewrite Z.eqb_refl. cbn [orb app].
           destruct (mem u r'); [right; left | right; right; left]; reflexivity.
        -- rewrite (Z.eqb_sym u y), Ey. cbn [orb]. left. reflexivity.
  - (* WTask *)
    destruct (Z.eq_dec x u) as [->|N].
    + (* the watcher looks at u *)
      destruct pc as [| |c|c|c].
      * (* WGet *)
        destruct (procattr s u) eqn:EP; inversion H; subst s' es ms; clear H;
          rewrite (w_view k u s) by (fields; reflexivity); rewrite (view_unfold k u s tr), EW; fields;
          rewrite (cn_plus_nil _ _ (cnt_ex u tr)); right; apply in_act_w; unfold act_w; lproj;
          cbn [vw f_ph lwt_of]; rewrite Z.eqb_refl; lproj; rewrite EP.
        -- left. reflexivity.
        -- apply in_flat_map. unfold drop_watch. lproj.
           destruct (mem u (w_watch s)) eqn:EWa.
           ++ destruct (mem u (remove1 u (w_watch s))) eqn:ER.
              ** eexists. split; [right; left; reflexivity|]. apply iter_next_in'.
              ** eexists. split; [left; reflexivity|]. lproj. apply iter_next_in'.
           ++ assert (ER : mem u (remove1 u (w_watch s)) = false).
              { destruct (mem u (remove1 u (w_watch s))) eqn:E; [|reflexivity].
                apply mem_remove1_sub in E. congruence. }
              rewrite ER. eexists. split; [left; reflexivity|]. apply iter_next_in'.
      * (* WPoll *)
        destruct (world s u) as [| | |c|] eqn:EWo; inversion H; subst s' es ms; clear H;
          rewrite (w_view k u s) by (fields; reflexivity); rewrite (view_unfold k u s tr), EW; fields;
          rewrite (cn_plus_nil _ _ (cnt_ex u tr)); right; apply in_act_w; unfold act_w; lproj;
          cbn [vw f_ph lwt_of]; rewrite Z.eqb_refl; lproj; rewrite EWo; cbn [lworld_of].
        -- apply iter_next_in'.
        -- apply iter_next_in'.
        -- apply iter_next_in'.
        -- left. reflexivity.
        -- left. reflexivity.
      * (* WWait *)
        inversion H; subst s' es ms; clear H.
        rewrite (w_view k u s) by (fields; reflexivity). rewrite (view_unfold k u s tr), EW. fields.
        rewrite (cn_plus_nil _ _ (cnt_ex u tr)). right. apply in_act_w. unfold act_w. lproj.
        cbn [vw f_ph lwt_of]. rewrite Z.eqb_refl. lproj.
        apply in_map_iff. unfold drop_watch. lproj.
        destruct (mem u (w_watch s)) eqn:EWa.
        -- destruct (mem u (remove1 u (w_watch s))) eqn:ER.
           ++ eexists; split; [|right; left; reflexivity]; lproj; reflexivity.
           ++ eexists; split; [|left; reflexivity]; lproj; reflexivity.
        -- assert (ER : mem u (remove1 u (w_watch s)) = false).
           { destruct (mem u (remove1 u (w_watch s))) eqn:E; [|reflexivity].
             apply mem_remove1_sub in E. congruence. }
           rewrite ER. eexists; split; [|left; reflexivity]; lproj; reflexivity.
      * (* WDel *)
        inversion H; subst s' es ms; clear H.
        rewrite (w_view k u s) by (fields; reflexivity). rewrite (view_unfold k u s tr), EW. fields.
        rewrite (cn_plus_nil _ _ (cnt_ex u tr)), upd_same. right. apply in_act_w. unfold act_w. lproj.
        cbn [vw f_ph lwt_of]. rewrite Z.eqb_refl. lproj. left. reflexivity.
      * (* WLock *)
        inversion H; subst s' es ms; clear H.
        rewrite (w_view k u s) by (fields; reflexivity). rewrite (view_unfold k u s tr), EW. fields.
        rewrite (cn_plus_nil _ _ (cnt_ex u tr)), upd_same. right. apply in_act_w. unfold act_w. lproj.
        cbn [vw f_ph lwt_of]. rewrite Z.eqb_refl. lproj.
        destruct (tasks s u) eqn:ET.
        -- replace (addc (sat (cnt u (map fst adv))) 1) with (sat (cnt u (map fst (adv ++ [(u, c)]))))
             by (rewrite cnt_snoc_same, addc_sat; reflexivity).
           apply iter_next_in'.
        -- apply iter_next_in'.
    + (* the watcher looks at another task *)
      assert (Hsame : forall pc', view k u (set_wpc s (WTask pc' x r adv)) (tr ++ [(ThW, es, [])]) = view k u s tr).
      { intros pc'. rewrite (w_view k u s) by (fields; reflexivity). rewrite (view_unfold k u s tr), EW. fields.
        rewrite (cn_plus_nil _ _ (cnt_ex u tr)). cbn [vw]. rewrite (neq_eqb _ _ N). reflexivity. }
      assert (Hnext : forall s1 adv', ipc_ s1 = ipc_ s -> i_rest s1 = i_rest s -> cpc_ s1 = cpc_ s -> tpc_ s1 = tpc_ s ->
                 tasks s1 u = tasks s u -> procattr s1 u = procattr s u -> world s1 u = world s u ->
                 wq s1 = wq s -> mem u (w_watch s1) = mem u (w_watch s) -> cnt u (map fst adv') = cnt u (map fst adv) ->
                 In (view k u (set_wpc s1 (witer_next r adv')) (tr ++ [(ThW, es, [])])) (lnext (view k u s tr))).
      { intros s1 adv' H1 H2 H3 H4 H5 H6 H7 H8 H9 H10.
        rewrite (w_view k u s) by (fields; assumption). rewrite (view_unfold k u s tr), EW. fields.
        rewrite (cn_plus_nil _ _ (cnt_ex u tr)), H5, H6, H7, H8, H9. apply in_act_w. unfold act_w. lproj.
        cbn [vw f_ph]. rewrite (neq_eqb _ _ N). lproj.
        rewrite <- H10. apply iter_next_in'. }
      destruct pc as [| |c|c|c].
      * destruct (procattr s x) eqn:EP; inversion H; subst s' es ms; clear H.
        -- left. apply Hsame.
        -- right. apply Hnext; fields; try reflexivity. apply mem_remove1_neq. exact N.
      * destruct (world s x) as [| | |c|] eqn:EWo; inversion H; subst s' es ms; clear H.
        -- right. apply Hnext; fields; reflexivity.
        -- right. apply Hnext; fields; reflexivity.
        -- right. apply Hnext; fields; reflexivity.
        -- left. apply Hsame.
        -- left. apply Hsame.
      * inversion H; subst s' es ms; clear H.
        left. rewrite (w_view k u s) by (fields; reflexivity). rewrite (view_unfold k u s tr), EW. fields.
        rewrite (cn_plus_nil _ _ (cnt_ex u tr)). cbn [vw]. rewrite (neq_eqb _ _ N), (mem_remove1_neq _ _ _ N). reflexivity.
      * inversion H; subst s' es ms; clear H.
        left. rewrite (w_view k u s) by (fields; reflexivity). rewrite (view_unfold k u s tr), EW. fields.
        rewrite (cn_plus_nil _ _ (cnt_ex u tr)), (upd_other _ _ _ _ N). cbn [vw]. rewrite (neq_eqb _ _ N). reflexivity.
      * inversion H; subst s' es ms; clear H.
        right. apply Hnext; fields; try reflexivity.
        -- apply upd_other. exact N.
        -- destruct (tasks s x); [apply cnt_snoc_other; exact N | reflexivity].
  - (* WPub *)
    inversion H; subst s' es ms; clear H.
    rewrite (w_view k u s) by (fields; reflexivity). rewrite (view_unfold k u s tr), EW. fields.
    rewrite cn_plus_wpub. right. apply in_act_w. unfold act_w. lproj. cbn [vw f_ph f_adv]. lproj.
    destruct adv as [|a adv'].
    + cbn [map cnt filter length sat vw]. right. left. reflexivity.
    + left. reflexivity.
  - (* WAdv *)
    inversion H; subst s' es ms; clear H.
    rewrite (w_view k u s) by (fields; reflexivity). rewrite (view_unfold k u s tr), EW. fields.
    rewrite cn_plus_wadv. right. apply in_act_w. unfold act_w. lproj. cbn [vw f_ph f_adv f_inq f_watch f_iter]. lproj.
    left. reflexivity.
Qed.

(* ---- intake ---- *)
Lemma i_view k u s s' tr es ms :
  cpc_ s' = cpc_ s -> tpc_ s' = tpc_ s -> wpc_ s' = wpc_ s -> w_watch s' = w_watch s ->
  view k u s' (tr ++ [(ThI, es, ms)]) =
  mkL k (mkSh (tasks s' u) (procattr s' u) (lworld_of (world s' u))) (view_i u s') (view_c u s) (view_t u s)
      (vw u (mem u (wq s')) (mem u (w_watch s)) (wpc_ s))
      (cn_plus (cnt_of u (emissions tr)) ms u)
      (own_of u tr || existsb (event_eqb (ev K_TASKS_DEL u 1)) es).
Proof.
  intros H1 H2 H3 H4. rewrite view_snoc. cbn [negb thread_eqb andb].
  rewrite (view_c_ext u s' s H1), (view_t_ext u s' s H2), view_w_vw, H3, H4. reflexivity.
Qed.

Lemma uids_app a b : uids (a ++ b) = uids a ++ uids b.
Proof. unfold uids. apply map_app. Qed.

Lemma mem_uids_cons u x l : mem u (uids (x :: l)) = (u =? d_uid x) || mem u (uids l).
Proof. reflexivity. Qed.

(* the position of u relative to the intake, when the intake moves on to the next task of the batch *)
Lemma next_task_other k u s x pc rest :
  wf k u s -> ipc_ s = ITask pc x rest -> d_uid x <> u ->
  view_i u (set_ipc s (next_task rest)) = view_i u s \/
  (view_i u s = LiAdvd /\ view_i u (set_ipc s (next_task rest)) = LiAt ITUpdate).
Proof.
  intros W EI N.
  assert (Hv : view_i u s = if mem u (uids rest) then LiAdvd else if mem u (uids (later s)) then LiBefore else LiDone)
    by (unfold view_i; rewrite EI, (neq_eqb _ _ N); reflexivity).
  rewrite Hv. clear Hv.
  destruct rest as [|y r].
  - left. unfold view_i, pos_in, later. fields. cbn [next_task uids map mem existsb orb]. reflexivity.
  - unfold view_i, later. fields. cbn [next_task]. rewrite mem_uids_cons.
    destruct (d_uid y =? u) eqn:Ey.
    + apply Z.eqb_eq in Ey. rewrite Ey, Z.eqb_refl. cbn [orb]. right. split; reflexivity.
    + rewrite (Z.eqb_sym u (d_uid y)), Ey. cbn [orb]. left. reflexivity.
Qed.

Lemma nodup_cur k u s x pc rest :
  wf k u s -> ipc_ s = ITask pc x rest -> d_uid x = u ->
  mem u (uids rest) = false /\ mem u (uids (later s)) = false.
Proof.
  intros W EI Eu. pose proof (wf_nodup _ _ _ W) as ND. unfold ipending, icur in ND. rewrite EI in ND.
  rewrite uids_app in ND. cbn [uids map app] in ND. apply NoDup_cons_iff in ND as [NI _].
  rewrite Eu in NI. split; apply mem_false; intros HI; apply NI; apply in_or_app; [left|right]; exact HI.
Qed.

Lemma view_i_done k u s x pc rest :
  wf k u s -> ipc_ s = ITask pc x rest -> d_uid x = u -> view_i u (set_ipc s (next_task rest)) = LiDone.
Proof.
  intros W EI Eu. destruct (nodup_cur _ _ _ _ _ _ W EI Eu) as [H1 H2].
  unfold view_i. fields. destruct rest as [|y r]; cbn [next_task].
  - unfold pos_in, later. fields. unfold later in H2. cbn [uids map mem existsb orb]. rewrite H2. reflexivity.
  - rewrite mem_uids_cons in H1. apply orb_false_iff in H1 as [H1 H3].
    rewrite (Z.eqb_sym (d_uid y) u), H1, H3. unfold later in *. fields. rewrite H2. reflexivity.
Qed.

Lemma desc_cur k u s x pc rest :
  wf k u s -> ipc_ s = ITask pc x rest -> d_uid x = u -> d_fault x = k_fault k /\ d_to x = k_to k /\ d_stub x = k_stub k.
Proof.
  intros W EI Eu. apply (wf_desc _ _ _ W); [|exact Eu]. unfold ipending, icur. rewrite EI. left. reflexivity.
Qed.

(* the intake works on another task x: u sees nothing, or its turn begins *)
Lemma i_other k u s s1 x pc rest tr es ms (npc : ipc) :
  wf k u s -> ipc_ s = ITask pc x rest -> d_uid x <> u ->
  (npc = next_task rest \/ exists pc', npc = ITask pc' x rest) ->
  i_rest s1 = i_rest s -> cpc_ s1 = cpc_ s -> tpc_ s1 = tpc_ s -> wpc_ s1 = wpc_ s -> w_watch s1 = w_watch s ->
  tasks s1 u = tasks s u -> procattr s1 u = procattr s u -> world s1 u = world s u -> mem u (wq s1) = mem u (wq s) ->
  cn_plus (cnt_of u (emissions tr)) ms u = cnt_of u (emissions tr) ->
  existsb (event_eqb (ev K_TASKS_DEL u 1)) es = false ->
  proj_ok k u s (set_ipc s1 npc) tr (ThI, es, ms).
Proof.
  intros W EI N Hn H2 H3 H4 H5 H6 H7 H8 H9 H10 H11 H12. unfold proj_ok.
  rewrite (i_view k u s) by (fields; assumption). fields.
  rewrite H7, H8, H9, H10, H11, H12, orb_false_r. rewrite (view_unfold k u s tr).
  assert (Hx : view_i u (set_ipc s1 npc) = view_i u (set_ipc s npc)) by (apply view_i_ext; fields; [reflexivity|assumption]).
  rewrite Hx. clear Hx.
  destruct Hn as [->|[pc' ->]].
  - destruct (next_task_other _ _ _ _ _ _ W EI N) as [E|[E1 E2]].
    + left. rewrite E. reflexivity.
    + right. apply in_act_i. unfold act_i. lproj. rewrite E1, E2. left. reflexivity.
  - left. f_equal. unfold view_i, later. fields. rewrite EI, (neq_eqb _ _ N). reflexivity.
Qed.

Lemma cn_plus_uns_same' e x : cn_plus (cnt_of (d_uid x) e) [EUns [d_uid x]] (d_uid x) = n_uns_ (cnt_of (d_uid x) e) 1.
Proof. apply cn_plus_uns_same. Qed.

(* the intake works on u itself *)
Lemma i_same k s s' x pc rest tr es ms :
  wf k (d_uid x) s -> ipc_ s = ITask pc x rest -> istep s = (s', es, ms) ->
  proj_ok k (d_uid x) s s' tr (ThI, es, ms).
Proof.
  intros W EI H. set (u := d_uid x) in *.
  destruct (desc_cur _ _ _ _ _ _ W EI eq_refl) as (Ef & Et & Es).
  assert (Hv : view_i u s = LiAt pc) by (unfold view_i; rewrite EI; unfold u; rewrite Z.eqb_refl; reflexivity).
  assert (Hst : forall s1 pc', view_i u (set_ipc s1 (ITask pc' x rest)) = LiAt pc')
    by (intros; unfold view_i; fields; unfold u; rewrite Z.eqb_refl; reflexivity).
  assert (Hfin : forall s1, i_rest s1 = i_rest s -> view_i u (set_ipc s1 (next_task rest)) = LiDone).
  { intros s1 E. rewrite <- (view_i_done _ _ _ _ _ _ W EI eq_refl). apply view_i_ext; fields; [reflexivity|exact E]. }
  unfold proj_ok. unfold istep in H. rewrite EI in H. fold u in H.
  destruct pc as [| | | | | |kk| | |].
  - (* ITUpdate *)
    inversion H; subst s' es ms; clear H.
    rewrite (i_view k u s) by (fields; reflexivity). fields. rewrite (view_unfold k u s tr).
    right. apply in_act_i. unfold act_i. lproj. rewrite Hv, Hst, upd_same, <- Ef.
    rewrite (cn_plus_nil _ _ (cnt_ex u tr)). cbn [existsb]. unfold event_eqb, ev, K_TASKS_DEL, K_TASKS_UPDATE. cbn.
    rewrite orb_false_r. left. reflexivity.
  - (* ITSpawn *)
    destruct (d_fault x) eqn:EF; inversion H; subst s' es ms; clear H;
      rewrite (i_view k u s) by (fields; reflexivity); fields; rewrite (view_unfold k u s tr);
      right; apply in_act_i; unfold act_i; lproj; rewrite Hv, Hst, <- Ef, <- ?Es, ?upd_same;
      rewrite (cn_plus_nil _ _ (cnt_ex u tr)); cbn [existsb]; unfold event_eqb, ev, K_TASKS_DEL, K_SPAWN, K_PROC_SET; cbn;
      rewrite ?orb_false_r; left; destruct (d_stub x); reflexivity.
  - (* ITPid *)
    destruct (procattr s u) eqn:EP; [destruct (d_fault x) eqn:EF|]; inversion H; subst s' es ms; clear H;
      rewrite (i_view k u s) by (fields; reflexivity); fields; rewrite (view_unfold k u s tr);
      right; apply in_act_i; unfold act_i; lproj; rewrite Hv, Hst, EP, <- ?Ef, <- ?Et;
      rewrite (cn_plus_nil _ _ (cnt_ex u tr)); cbn [existsb]; unfold event_eqb, ev, K_TASKS_DEL, K_PROC_ITEM, K_PID; cbn;
      rewrite ?orb_false_r; left; unfold after_pid; reflexivity.
  - (* ITHto *)
    inversion H; subst s' es ms; clear H.
    rewrite (i_view k u s) by (fields; reflexivity). fields. rewrite (view_unfold k u s tr).
    right. apply in_act_i. unfold act_i. lproj. rewrite Hv, Hst.
    rewrite (cn_plus_nil _ _ (cnt_ex u tr)). cbn [existsb]. unfold event_eqb, ev, K_TASKS_DEL, K_LOCK. cbn.
    rewrite orb_false_r. left. reflexivity.
  - (* ITPut *)
    inversion H; subst s' es ms; clear H.
    rewrite (i_view k u s) by (fields; reflexivity). fields. rewrite (view_unfold k u s tr).
    right. apply in_act_i. unfold act_i. lproj. rewrite Hv, Hst.
    rewrite (cn_plus_nil _ _ (cnt_ex u tr)). cbn [existsb]. unfold event_eqb, ev, K_TASKS_DEL, K_WQ_PUT. cbn.
    rewrite orb_false_r. left.
    assert (Hq : mem u (wq s ++ [u]) = true) by (rewrite mem_app; cbn; rewrite Z.eqb_refl; apply orb_true_r).
    rewrite Hq. destruct (wpc_ s); reflexivity.
  - (* ITLate *)
    inversion H; subst s' es ms; clear H.
    rewrite (i_view k u s) by (fields; reflexivity). fields. rewrite (view_unfold k u s tr).
    right. apply in_act_i. unfold act_i. lproj. rewrite Hv.
    rewrite (cn_plus_nil _ _ (cnt_ex u tr)). cbn [existsb]. unfold event_eqb, ev, K_TASKS_DEL, K_LOCK, K_CLIST_IN. cbn.
    rewrite orb_false_r.
    destruct (mem u (clist s)) eqn:EM.
    + assert (Hn : k_named k = true).
      { destruct (k_named k) eqn:En; [reflexivity|]. exfalso. apply (wf_named _ _ _ W En).
        unfold cpending. apply in_or_app. right. apply in_or_app. right. apply mem_In. exact EM. }
      rewrite Hn, Hst. right. left. reflexivity.
    + rewrite Hfin by reflexivity. left. reflexivity.
  - (* ITK *)
    destruct (kstep u kk s) as [[[s1 k'] es1] ms1] eqn:EK. inversion H; subst s' es ms; clear H.
    pose proof (kstep_ctl _ _ _ _ _ _ _ EK) as (C1 & C2 & C3 & C4 & C5 & C6 & C7 & C8 & C9 & C10).
    rewrite (i_view k u s) by (fields; assumption). fields. rewrite (view_unfold k u s tr).
    right. apply in_act_i. unfold act_i. lproj. rewrite Hv.
    rewrite (kstep_same _ _ _ _ _ _ _ _ _ _ _ _ _ _ EK). left. lproj. rewrite C3.
    destruct k' as [k2|]; cbn [li_of]; [rewrite Hst | rewrite (Hfin s1 C5)]; reflexivity.
  - (* ITXLock *)
    inversion H; subst s' es ms; clear H.
    rewrite (i_view k u s) by (fields; reflexivity). fields. rewrite (view_unfold k u s tr).
    right. apply in_act_i. unfold act_i. lproj. rewrite Hv, upd_same.
    rewrite (cn_plus_nil _ _ (cnt_ex u tr)). cbn [existsb]. unfold event_eqb, ev, K_TASKS_DEL, K_LOCK, K_TASKS_POP. cbn.
    rewrite orb_false_r.
    destruct (tasks s u) eqn:ET.
    + rewrite Hst. left. reflexivity.
    + rewrite Hfin by reflexivity. left. reflexivity.
  - (* ITXPub *)
    inversion H; subst s' es ms; clear H.
    rewrite (i_view k u s) by (fields; reflexivity). fields. rewrite (view_unfold k u s tr).
    right. apply in_act_i. unfold act_i. lproj. rewrite Hv, Hst, (cn_plus_uns_same (emissions tr) u).
    cbn [existsb]. rewrite orb_false_r. left. reflexivity.
  - (* ITXAdv *)
    inversion H; subst s' es ms; clear H.
    rewrite (i_view k u s) by (fields; reflexivity). fields. rewrite (view_unfold k u s tr).
    right. apply in_act_i. unfold act_i. lproj. rewrite Hv, (Hfin s eq_refl), (cn_plus_fail_same _ u x eq_refl).
    cbn [existsb]. rewrite orb_false_r. left. reflexivity.
Qed.

Lemma i_task_other k u s s' x pc rest tr es ms :
  wf k u s -> ipc_ s = ITask pc x rest -> d_uid x <> u -> istep s = (s', es, ms) ->
  proj_ok k u s s' tr (ThI, es, ms).
Proof.
  intros W EI N H. unfold istep in H. rewrite EI in H.
  pose proof (cnt_ex u tr) as CE.
  destruct pc as [| | | | | |kk| | |].
  - (* ITUpdate *) inversion H; subst s' es ms; clear H.
    eapply i_other; try eassumption; fields; try reflexivity; try (right; eexists; reflexivity).
    + apply upd_other. exact N.
    + apply cn_plus_nil. exact CE.
  - (* ITSpawn *)
    destruct (d_fault x); inversion H; subst s' es ms; clear H;
      (eapply i_other; try eassumption; fields; try reflexivity; try (right; eexists; reflexivity);
       try (apply upd_other; exact N); try (apply cn_plus_nil; exact CE)).
  - (* ITPid *)
    destruct (procattr s (d_uid x)); [destruct (d_fault x)|]; inversion H; subst s' es ms; clear H;
      (eapply i_other; try eassumption; fields; try reflexivity; try (right; eexists; reflexivity);
       try (apply cn_plus_nil; exact CE)).
  - (* ITHto *) inversion H; subst s' es ms; clear H.
    eapply i_other; try eassumption; fields; try reflexivity; try (right; eexists; reflexivity).
    apply cn_plus_nil. exact CE.
  - (* ITPut *) inversion H; subst s' es ms; clear H.
    eapply i_other; try eassumption; fields; try reflexivity; try (right; eexists; reflexivity).
    + rewrite mem_app. cbn [mem existsb]. rewrite (neq_eqb' _ _ N). rewrite !orb_false_r. reflexivity.
    + apply cn_plus_nil. exact CE.
  - (* ITLate *) inversion H; subst s' es ms; clear H.
    eapply i_other; try eassumption; fields; try reflexivity.
    + destruct (mem (d_uid x) (clist s)); [right; eexists; reflexivity | left; reflexivity].
    + apply cn_plus_nil. exact CE.
  - (* ITK *)
    destruct (kstep (d_uid x) kk s) as [[[s1 k'] es1] ms1] eqn:EK. inversion H; subst s' es ms; clear H.
    pose proof (kstep_ctl _ _ _ _ _ _ _ EK) as (C1 & C2 & C3 & C4 & C5 & C6 & C7 & C8 & C9 & C10).
    destruct (kstep_other u _ kk s s1 k' es1 ms1 _ N EK CE) as (K1 & K2 & K3 & K4 & K5).
    eapply i_other; try eassumption.
    + destruct k'; [right; eexists; reflexivity | left; reflexivity].
    + rewrite C3. reflexivity.
  - (* ITXLock *) inversion H; subst s' es ms; clear H.
    eapply i_other; try eassumption; fields; try reflexivity.
    + destruct (tasks s (d_uid x)); [right; eexists; reflexivity | left; reflexivity].
    + apply upd_other. exact N.
    + apply cn_plus_nil. exact CE.
  - (* ITXPub *) inversion H; subst s' es ms; clear H.
    eapply i_other; try eassumption; fields; try reflexivity; try (right; eexists; reflexivity).
    apply cn_plus_uns_other; assumption.
  - (* ITXAdv *) inversion H; subst s' es ms; clear H.
    eapply i_other; try eassumption; fields; try reflexivity; try (left; reflexivity).
    unfold exec_item. apply cn_plus_adv_other; assumption.
Qed.

Lemma nodup_app_l {A} (a b : list A) : NoDup (a ++ b) -> NoDup a.
Proof.
  induction a as [|x a IH]; intros H; [constructor|]. cbn [app] in H. apply NoDup_cons_iff in H as [NI ND].
  constructor; [intros HI; apply NI; apply in_or_app; left; exact HI | exact (IH ND)].
Qed.
Lemma cnt_notin u l : mem u l = false -> cnt u l = 0%nat.
Proof.
  unfold cnt. induction l as [|y l IH]; [reflexivity|]. rewrite mem_cons. intros H.
  apply orb_false_iff in H as [H1 H2]. cbn [filter]. rewrite H1. exact (IH H2).
Qed.
Lemma cnt_nodup u l : NoDup l -> cnt u l = if mem u l then 1%nat else 0%nat.
Proof.
  induction 1 as [|y l NI ND IH]; [reflexivity|]. rewrite mem_cons. unfold cnt in *. cbn [filter].
  destruct (u =? y) eqn:E.
  - apply Z.eqb_eq in E. subst y. cbn [orb length]. f_equal.
    apply (cnt_notin u l). apply mem_false. exact NI.
  - cbn [orb]. exact IH.
Qed.

Lemma items_exec_cnt u l : cnt_items (for_uid u) (map exec_item l) = cnt u (uids l).
Proof.
  unfold cnt_items, cnt, uids. induction l as [|y l IH]; [reflexivity|].
  cbn [map filter exec_item for_uid]. rewrite (Z.eqb_sym u (d_uid y)). destruct (d_uid y =? u); cbn [length]; rewrite IH; reflexivity.
Qed.
Lemma cn_plus_iadv e u l :
  cn_plus (cnt_of u e) [EAdv SExecuting (map exec_item l) false] u = n_exec_ (cnt_of u e) (cnt u (uids l)).
Proof.
  unfold cn_plus, n_exec_, cnt_of;
    cbn [c_exec c_canc c_fail c_stage c_coll c_cncl c_uns n_adv n_uns n_collected n_canceled est_eqb].
  rewrite items_exec_cnt, !Nat.add_0_r, !addc_0. reflexivity.
Qed.
Lemma n_exec_0 e u : n_exec_ (cnt_of u e) 0 = cnt_of u e.
Proof. unfold n_exec_, cnt_of. cbn [c_exec c_canc c_fail c_stage c_coll c_cncl c_uns]. rewrite addc_0. reflexivity. Qed.

Lemma i_view' k u s s' tr es ms :
  cpc_ s' = cpc_ s -> tpc_ s' = tpc_ s -> wpc_ s' = wpc_ s -> w_watch s' = w_watch s -> wq s' = wq s ->
  tasks s' = tasks s -> procattr s' = procattr s -> world s' = world s ->
  existsb (event_eqb (ev K_TASKS_DEL u 1)) es = false ->
  view k u s' (tr ++ [(ThI, es, ms)]) =
  mkL k (mkSh (tasks s u) (procattr s u) (lworld_of (world s u))) (view_i u s') (view_c u s) (view_t u s)
      (vw u (mem u (wq s)) (mem u (w_watch s)) (wpc_ s))
      (cn_plus (cnt_of u (emissions tr)) ms u) (own_of u tr).
Proof.
  intros H1 H2 H3 H4 H5 H6 H7 H8 H9. rewrite (i_view k u s) by assumption. rewrite H5, H6, H7, H8, H9, orb_false_r. reflexivity.
Qed.

Lemma filt_next_kept_nonempty kept x r : filt_next (kept ++ [x]) r = match r with [] => IAdv (kept ++ [x]) | _ => IFilter (kept ++ [x]) r end.
Proof. unfold filt_next. destruct r; [|reflexivity]. destruct (kept ++ [x]) eqn:E; [apply app_eq_nil in E as [_ E]; discriminate E | reflexivity]. Qed.

Lemma mem_uids_snoc u kept x : mem u (uids (kept ++ [x])) = mem u (uids kept) || (u =? d_uid x).
Proof. rewrite uids_app, mem_app. cbn. rewrite orb_false_r. reflexivity. Qed.

(* the remaining intake steps: batch start, filter, announcement *)
Lemma i_batch_proj k u s s' tr es ms :
  wf k u s -> (forall pc x rest, ipc_ s <> ITask pc x rest) -> istep s = (s', es, ms) ->
  proj_ok k u s s' tr (ThI, es, ms).
Proof.
  intros W NT H. unfold proj_ok. unfold istep in H.
  pose proof (wf_nodup _ _ _ W) as ND. unfold ipending, icur in ND.
  destruct (ipc_ s) as [|kept rest|x kept r|kept|pc x rest] eqn:EI; [| | | |exfalso; eapply NT; reflexivity].
  - (* IIdle *)
    destruct (i_rest s) as [|b bs] eqn:ER; inversion H; subst s' es ms; clear H.
    + left. same_auto.
    + assert (Hv : view_i u s = if mem u (uids b) || mem u (uids (concat bs)) then LiBefore else LiDone).
      { unfold view_i, pos_in, later. rewrite EI, ER. cbn [concat]. rewrite uids_app, mem_app.
        change (uids []) with (@nil Z). change (mem u []) with false. cbn [orb]. reflexivity. }
      rewrite (i_view' k u s) by (fields; reflexivity). fields. rewrite (view_unfold k u s tr), Hv.
      rewrite (cn_plus_nil _ _ (cnt_ex u tr)).
      destruct (negb match clist s with [] => true | _ => false end).
      * left. f_equal. unfold view_i, pos_in, later, filt_next. fields.
        destruct b as [|y b']; fields; cbn [uids map mem existsb orb]; reflexivity.
      * unfold filt_next. destruct b as [|y b'].
        -- left. f_equal.
        -- unfold view_i, pos_in, later. fields. change (uids []) with (@nil Z). change (mem u []) with false.
           cbn [orb]. destruct (mem u (uids (y :: b'))) eqn:Eb.
           ++ right. apply in_act_i. unfold act_i. lproj. cbn [orb]. left. reflexivity.
           ++ left. reflexivity.
  - (* IFilter *)
    destruct rest as [|x r].
    + inversion H; subst s' es ms; clear H.
      left. same_auto. unfold view_i, filt_next. fields. rewrite EI. destruct kept; reflexivity.
    + rewrite !uids_app in ND. cbn [uids map] in ND. rewrite <- app_assoc in ND. cbn [app] in ND.
      assert (Hb : d_uid x = u -> view_i u s = LiBefore).
      { intros Eu. unfold view_i, pos_in. rewrite EI.
        assert (Hk : mem u (uids kept) = false).
        { apply mem_false. intros HI. apply NoDup_remove_2 in ND. apply ND. rewrite Eu. apply in_or_app. left. exact HI. }
        rewrite Hk, mem_uids_cons, Eu, Z.eqb_refl. reflexivity. }
      assert (Ho : d_uid x <> u -> view_i u s = pos_in u kept r s).
      { intros N. unfold view_i, pos_in. rewrite EI, mem_uids_cons, (neq_eqb' _ _ N). reflexivity. }
      destruct (mem (d_uid x) (clist s)) eqn:EM; inversion H; subst s' es ms; clear H.
      * (* canceled at intake *)
        rewrite (i_view' k u s) by (fields; reflexivity). fields. rewrite (view_unfold k u s tr).
        destruct (Z.eq_dec (d_uid x) u) as [Eu|N].
        -- right. apply in_act_i. unfold act_i. lproj. rewrite (Hb Eu).
           assert (Hn : k_named k = true).
           { destruct (k_named k) eqn:En; [reflexivity|]. exfalso. apply (wf_named _ _ _ W En).
             unfold cpending. apply in_or_app. right. apply in_or_app. right. apply mem_In. rewrite <- Eu. exact EM. }
           rewrite Hn. right. left. unfold view_i. fields. rewrite Eu, Z.eqb_refl.
           rewrite (cn_plus_canc_same _ _ _ Eu). reflexivity.
        -- left. rewrite (Ho N). unfold exec_item. rewrite (cn_plus_adv_other _ _ _ _ _ _ _ N (cnt_ex u tr)).
           f_equal. unfold view_i, pos_in, later. fields. rewrite (neq_eqb _ _ N). reflexivity.
      * rewrite (i_view' k u s) by (fields; reflexivity). fields. rewrite (view_unfold k u s tr).
        rewrite (cn_plus_nil _ _ (cnt_ex u tr)), filt_next_kept_nonempty.
        destruct (Z.eq_dec (d_uid x) u) as [Eu|N].
        -- right. apply in_act_i. unfold act_i. lproj. rewrite (Hb Eu). left.
           f_equal. unfold view_i, pos_in. destruct r; fields; rewrite mem_uids_snoc, Eu, Z.eqb_refl, orb_true_r; reflexivity.
        -- left. rewrite (Ho N). f_equal. unfold view_i, pos_in, later.
           destruct r; fields; rewrite mem_uids_snoc, (neq_eqb' _ _ N), orb_false_r; reflexivity.
  - (* IFilterPub *)
    inversion H; subst s' es ms; clear H.
    rewrite (i_view' k u s) by (fields; reflexivity). fields. rewrite (view_unfold k u s tr).
    cbn [app uids map] in ND. rewrite !uids_app in ND. apply NoDup_cons_iff in ND as [NI ND].
    destruct (Z.eq_dec (d_uid x) u) as [Eu|N].
    + right. apply in_act_i. unfold act_i. lproj.
      assert (Hv : view_i u s = LiFilterPub) by (unfold view_i; rewrite EI, Eu, Z.eqb_refl; reflexivity).
      rewrite Hv. left. rewrite <- Eu at 3 4. rewrite Eu. rewrite (cn_plus_uns_same (emissions tr) u) || idtac.
      assert (Hd : view_i u (set_ipc s (filt_next kept r)) = LiDone).
      { rewrite Eu in NI. rewrite !in_app_iff in NI.
        assert (H1 : mem u (uids kept) = false) by (apply mem_false; tauto).
        assert (H2 : mem u (uids r) = false) by (apply mem_false; tauto).
        assert (H3 : mem u (uids (later s)) = false) by (apply mem_false; tauto).
        unfold view_i, filt_next, pos_in. destruct r; [destruct kept|]; fields; unfold later in *; fields;
          rewrite ?H1, ?H2, ?H3; cbn [uids map mem existsb orb]; rewrite ?H3; reflexivity. }
      rewrite Hd. reflexivity.
    + left. rewrite (cn_plus_uns_other _ _ _ N (cnt_ex u tr)). f_equal.
      unfold view_i, filt_next, pos_in, later. rewrite EI, (neq_eqb _ _ N).
      destruct r; [destruct kept|]; fields; reflexivity.
  - (* IAdv *)
    inversion H; subst s' es ms; clear H.
    rewrite (i_view' k u s) by (fields; reflexivity). fields. rewrite (view_unfold k u s tr).
    rewrite cn_plus_iadv. rewrite uids_app in ND. pose proof (nodup_app_l _ _ ND) as NDk.
    rewrite (cnt_nodup _ _ NDk).
    assert (Hv : view_i u s = pos_in u kept [] s) by (unfold view_i; rewrite EI; reflexivity).
    rewrite Hv. unfold pos_in.
    destruct kept as [|y r].
    + left. cbn [uids map mem existsb]. rewrite n_exec_0. f_equal.
    + destruct (mem u (uids (y :: r))) eqn:Ek.
      * right. apply in_act_i. unfold act_i. lproj.
        unfold view_i. fields. cbn [next_task]. rewrite mem_uids_cons in Ek.
        destruct (d_uid y =? u) eqn:Ey.
        -- left. reflexivity.
        -- rewrite (Z.eqb_sym u (d_uid y)), Ey in Ek. cbn [orb] in Ek. rewrite Ek. right. left. reflexivity.
      * left. rewrite n_exec_0. f_equal. unfold view_i, later. fields. cbn [next_task].
        rewrite mem_uids_cons in Ek. apply orb_false_iff in Ek as [E1 E2].
        rewrite (Z.eqb_sym (d_uid y) u), E1, E2. cbn [uids map mem existsb orb]. reflexivity.
Qed.
