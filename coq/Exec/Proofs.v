(* Exec.Proofs -- C07 over the global model: every run (any number of tasks,
   any schedule) projects, for every delivered uid, onto a path of the local
   transition system; the clauses checked on the reachable local states carry
   over. *)
From Coq Require Import ZArith List Bool Lia Permutation.
From RP Require Import Common.Eqb Exec.Model Exec.Oracle Exec.Local Exec.LocalProofs Exec.Proj Exec.ProjProofs Exec.WfProofs.
Import ListNotations.
Local Open Scope Z_scope.

Theorem step_proj k u ch s s' es ms tr :
  wf k u s -> exec_step ch s = (s', es, ms) -> proj_ok k u s s' tr (thread_of ch, es, ms).
Proof.
  intros W H. destruct ch; cbn [exec_step thread_of] in *.
  - destruct (ipc_ s) as [|kept rest|x kept r|kept|pc x rest] eqn:EI.
    1-4: apply (i_batch_proj _ _ _ _ _ _ _ W); [intros pc x0 rest0; rewrite EI; discriminate | exact H].
    destruct (Z.eq_dec (d_uid x) u) as [<-|N].
    + exact (i_same _ _ _ _ _ _ _ _ _ W EI H).
    + exact (i_task_other _ _ _ _ _ _ _ _ _ _ W EI N H).
  - exact (cstep_proj _ _ _ _ _ _ _ W H).
  - exact (wstep_proj _ _ _ _ _ _ _ H).
  - exact (tstep_proj _ _ _ _ _ _ _ W H).
  - exact (xstep_proj _ _ _ _ _ _ _ _ _ H).
Qed.

Lemma run_reach k u : forall sched s tr0 s' tr,
  wf k u s -> lreach k (view k u s tr0) -> run s sched = (s', tr) ->
  wf k u s' /\ lreach k (view k u s' (tr0 ++ tr)).
Proof.
  induction sched as [|ch r IH]; intros s tr0 s' tr W R H.
  - cbn [run] in H. inversion H; subst. rewrite app_nil_r. split; assumption.
  - cbn [run] in H. destruct (exec_step ch s) as [[s1 es] ms] eqn:ES.
    destruct (run s1 r) as [s2 tr2] eqn:ER. inversion H; subst s' tr; clear H.
    pose proof (wf_step _ _ _ _ _ _ _ W ES) as W1.
    assert (R1 : lreach k (view k u s1 (tr0 ++ [(thread_of ch, es, ms)]))).
    { pose proof (step_proj k u ch s s1 es ms tr0 W ES) as P. unfold proj_ok in P.
      destruct P as [E|HI]; [exact (eq_ind_r (lreach k) R E) | exact (lr_step _ _ _ R HI)]. }
    destruct (IH _ _ _ _ W1 R1 ER) as [W2 R2]. split; [exact W2|].
    rewrite <- app_assoc in R2. exact R2.
Qed.

(* ---- the initial state ---- *)
Definition kof (sc : scenario) (u : Z) : lconst :=
  match find (fun x => d_uid x =? u) (concat (sc_batches sc)) with
  | Some x => mkK (d_fault x) (mem u (named sc)) (d_to x) (d_stub x)
  | None => mkK FNone (mem u (named sc)) false false
  end.

Lemma concat_filter_nonempty {A} (l : list (list A)) : concat (filter nonempty l) = concat l.
Proof. induction l as [|[|a b] l IH]; cbn [filter nonempty concat]; rewrite ?IH; reflexivity. Qed.

Lemma nodup_map_inj {A} (f : A -> Z) (l : list A) a b :
  NoDup (map f l) -> In a l -> In b l -> f a = f b -> a = b.
Proof.
  induction l as [|y l IH]; intros ND Ha Hb E; [destruct Ha|].
  cbn [map] in ND. apply NoDup_cons_iff in ND as [NI ND].
  destruct Ha as [->|Ha], Hb as [->|Hb]; try reflexivity.
  - exfalso. apply NI. rewrite E. apply in_map. exact Hb.
  - exfalso. apply NI. rewrite <- E. apply in_map. exact Ha.
  - exact (IH ND Ha Hb E).
Qed.

Lemma wf_init sc u : NoDup (delivered sc) -> wf (kof sc u) u (init sc).
Proof.
  intros ND. unfold delivered in ND.
  assert (HP : ipending (init sc) = concat (sc_batches sc)).
  { unfold ipending, icur, later, init. fields. cbn [app]. apply concat_filter_nonempty. }
  constructor.
  - rewrite HP. exact ND.
  - rewrite HP. intros x Hx Eu. unfold kof.
    destruct (find (fun x0 => d_uid x0 =? u) (concat (sc_batches sc))) as [x'|] eqn:EF.
    + apply find_some in EF as [Hx' E']. apply Z.eqb_eq in E'.
      assert (x' = x) by (apply (nodup_map_inj d_uid _ _ _ ND Hx' Hx); congruence). subst x'. repeat split; reflexivity.
    + exfalso. apply (find_none _ _ EF) in Hx. apply Z.eqb_neq in Hx. contradiction.
  - intros En HI. unfold cpending, init in HI. fields. cbn [app] in HI. rewrite app_nil_r in HI.
    assert (Hn : k_named (kof sc u) = mem u (named sc)) by (unfold kof; destruct (find _ _); reflexivity).
    rewrite Hn in En. apply mem_false in En. exact (En HI).
  - intros _ HI. unfold tpending, init in HI. fields. destruct HI.
  - intros x r E. unfold init in E. fields. discriminate E.
Qed.

Lemma view_init sc u : In u (delivered sc) -> view (kof sc u) u (init sc) [] = linit (kof sc u).
Proof.
  intros HI. unfold view, linit. f_equal.
  unfold view_i, pos_in, later, init. fields. rewrite concat_filter_nonempty.
  change (uids []) with (@nil Z). change (mem u []) with false. cbn [orb].
  apply mem_In in HI. unfold delivered in HI. unfold uids. rewrite HI. reflexivity.
Qed.

(* ---- every run stays inside the safe local states ---- *)
Theorem run_safe sc sched s tr u :
  NoDup (delivered sc) -> In u (delivered sc) -> run (init sc) sched = (s, tr) ->
  safe (view (kof sc u) u s tr) = true.
Proof.
  intros ND HI HR. apply (lreach_safe (kof sc u)).
  assert (R0 : lreach (kof sc u) (view (kof sc u) u (init sc) [])) by (rewrite (view_init _ _ HI); apply lr_init).
  destruct (run_reach _ _ _ _ _ _ _ (wf_init sc u ND) R0 HR) as [_ R]. exact R.
Qed.

Lemma quiescent_local k u s tr : quiescent s = true -> lquiescent (view k u s tr) = true.
Proof.
  unfold quiescent, lquiescent. intros H.
  destruct (ipc_ s) eqn:EI; try discriminate H. destruct (cpc_ s) eqn:EC; try discriminate H.
  destruct (wpc_ s) eqn:EW; try discriminate H. destruct (tpc_ s) eqn:ET; try discriminate H.
  destruct (i_rest s) eqn:E1; [|discriminate H]. destruct (c_rest s) eqn:E2; [|discriminate H].
  destruct (to_new s) eqn:E3; [|discriminate H]. destruct (w_watch s) eqn:E4; [|discriminate H].
  destruct (wq s) eqn:E5; [|discriminate H].
  cbn [view l_i l_c l_t l_w]. unfold view_i, view_c, view_t, view_w, pos_in, later.
  rewrite EI, EC, EW, ET, E1, E4, E5. reflexivity.
Qed.

(* reading numbers back from saturated counters *)
Lemma sat_le1 n : Nat.leb (sat n) 1 = true -> (n <= 1)%nat.
Proof. destruct n as [|[|n]]; cbn; intros H; try lia; discriminate H. Qed.
Lemma sat_eq1 n : Nat.eqb (sat n) 1 = true -> n = 1%nat.
Proof. destruct n as [|[|n]]; cbn; intros H; try lia; discriminate H. Qed.
Lemma sat_eq0 n : Nat.eqb (sat n) 0 = true -> n = 0%nat.
Proof. destruct n as [|[|n]]; cbn; intros H; try lia; discriminate H. Qed.
Lemma sat_pos n : Nat.ltb 0 (sat n) = Nat.ltb 0 n.
Proof. destruct n as [|[|n]]; reflexivity. Qed.
Lemma sat3_le1 a b c : Nat.leb (sat a + sat b + sat c) 1 = true -> (a + b + c <= 1)%nat.
Proof. rewrite !sat_min. intros H. apply Nat.leb_le in H. lia. Qed.
Lemma sat3_eq1 a b c : Nat.eqb (sat a + sat b + sat c) 1 = true -> (a + b + c = 1)%nat.
Proof. rewrite !sat_min. intros H. apply Nat.eqb_eq in H. lia. Qed.

Ltac boolnat H :=
  repeat first [ rewrite andb_true_iff in H | rewrite orb_true_iff in H | rewrite negb_true_iff in H
               | rewrite andb_false_iff in H | rewrite Nat.leb_le in H | rewrite Nat.eqb_eq in H
               | rewrite Nat.ltb_lt in H | rewrite Nat.ltb_ge in H ].

(* ---- C07: at any time nothing happens twice ---- *)
Theorem at_most_once sc sched s tr u :
  NoDup (delivered sc) -> In u (delivered sc) -> run (init sc) sched = (s, tr) ->
  let ems := emissions tr in
  (n_adv SExecuting u ems <= 1)%nat /\ (n_hand u ems <= 1)%nat /\ (n_uns u ems <= 1)%nat /\
  ~ (0 < n_collected u ems /\ 0 < n_canceled u ems)%nat /\
  ((0 < n_adv SStaging u ems + n_adv SFailed u ems)%nat -> n_adv SExecuting u ems = 1%nat).
Proof.
  intros ND HI HR ems. pose proof (run_safe _ _ _ _ _ ND HI HR) as S.
  unfold safe in S. apply andb_true_iff in S as [S _]. apply andb_true_iff in S as [S _]. apply andb_true_iff in S as [S _].
  unfold safe_always, le1, hand in S.
  cbn [view l_n l_w cnt_of c_exec c_canc c_fail c_stage c_coll c_cncl c_uns] in S. fold ems in S.
  boolnat S. rewrite !sat_min in S. unfold n_hand. lia.
Qed.

(* ---- C07: under fair completion everything happens exactly once ---- *)
Theorem exactly_once sc sched s tr u :
  NoDup (delivered sc) -> In u (delivered sc) -> run (init sc) sched = (s, tr) -> quiescent s = true ->
  let ems := emissions tr in
  (n_adv SExecuting u ems = 1 /\ n_adv SCanceled u ems = 0 \/ n_adv SExecuting u ems = 0 /\ n_adv SCanceled u ems = 1)%nat /\
  n_hand u ems = 1%nat /\ n_uns u ems = 1%nat /\ tasks s u = false.
Proof.
  intros ND HI HR Q ems. pose proof (run_safe _ _ _ _ _ ND HI HR) as S.
  unfold safe in S. apply andb_true_iff in S as [S _]. apply andb_true_iff in S as [S _]. apply andb_true_iff in S as [_ S].
  unfold safe_quiescent in S. rewrite (quiescent_local _ _ _ _ Q) in S. cbn [negb orb] in S. unfold hand in S.
  cbn [view l_n l_sh cnt_of c_exec c_canc c_fail c_stage c_coll c_cncl c_uns h_tasks h_proc] in S. fold ems in S.
  apply andb_true_iff in S as [S _]. apply andb_true_iff in S as [S T]. apply negb_true_iff in T.
  boolnat S. rewrite !sat_min in S. unfold n_hand. split; [|split; [|split]]; try exact T; lia.
Qed.

(* the same facts in the form of the oracle clauses that the harness evaluates
   on the traces of the real code *)
Theorem model_clauses sc sched s tr :
  NoDup (delivered sc) -> run (init sc) sched = (s, tr) ->
  let dl := delivered sc in let q := quiescent s in let ems := emissions tr in
  ok_announced dl q ems = true /\ ok_handed_on dl q ems = true /\ ok_unscheduled dl q ems = true /\
  ok_not_both dl ems = true.
Proof.
  intros ND HR dl q ems.
  assert (P : forall u, In u dl ->
     (Nat.leb (n_adv SExecuting u ems) 1 && (negb q || Nat.eqb (n_adv SExecuting u ems) 1
        || Nat.eqb (n_adv SExecuting u ems) 0 && Nat.eqb (n_adv SCanceled u ems) 1)) = true /\
     once q (n_hand u ems) = true /\ once q (n_uns u ems) = true /\
     negb (Nat.ltb 0 (n_collected u ems) && Nat.ltb 0 (n_canceled u ems)) = true).
  { intros u HI. destruct (at_most_once _ _ _ _ _ ND HI HR) as (A1 & A2 & A3 & A4 & _). fold ems in A1, A2, A3, A4.
    assert (B4 : negb (Nat.ltb 0 (n_collected u ems) && Nat.ltb 0 (n_canceled u ems)) = true).
    { apply negb_true_iff. apply andb_false_iff.
      destruct (Nat.ltb 0 (n_collected u ems)) eqn:E1; [|left; reflexivity].
      destruct (Nat.ltb 0 (n_canceled u ems)) eqn:E2; [|right; reflexivity].
      exfalso. apply A4. apply Nat.ltb_lt in E1. apply Nat.ltb_lt in E2. split; assumption. }
    unfold once. destruct q eqn:Q.
    - destruct (exactly_once _ _ _ _ _ ND HI HR Q) as (E1 & E2 & E3 & _). fold ems in E1, E2, E3.
      rewrite E2, E3. cbn [negb orb Nat.eqb]. repeat split; try assumption.
      apply andb_true_iff. split; [apply Nat.leb_le; exact A1|].
      destruct E1 as [[a b]|[a b]]; rewrite a, b; reflexivity.
    - cbn [negb orb]. rewrite andb_true_r. repeat split; try assumption; apply Nat.leb_le; assumption. }
  unfold ok_announced, ok_handed_on, ok_unscheduled, ok_not_both. rewrite !forallb_forall.
  repeat split; intros u HI; destruct (P u HI) as (P1 & P2 & P3 & P4); assumption.
Qed.
