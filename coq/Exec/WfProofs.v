(* Exec.WfProofs -- the well-formedness invariant of Exec.Proj is preserved by
   every step and holds initially. *)
From Coq Require Import ZArith List Bool Lia Permutation.
From RP Require Import Common.Eqb Exec.Model Exec.Oracle Exec.Local Exec.Proj Exec.ProjProofs.
Import ListNotations.
Local Open Scope Z_scope.

Lemma in_remove1 u x l : In u (remove1 x l) -> In u l.
Proof.
  induction l as [|y l IH]; [intros H; exact H|]. cbn [remove1]. destruct (y =? x).
  - intros H. right. exact H.
  - intros [H|H]; [left; exact H | right; exact (IH H)].
Qed.

Lemma wf_from k u s s' l :
  wf k u s ->
  Permutation (ipending s) (l ++ ipending s') ->
  (In u (cpending s') -> In u (cpending s)) ->
  (In u (tpending s') -> In u (tpending s) \/ k_to k = true) ->
  (forall x r, ipc_ s' = ITask ITHto x r -> d_to x = true) -> wf k u s'.
Proof.
  intros W P HC HT HH. constructor.
  - pose proof (wf_nodup _ _ _ W) as ND.
    assert (P2 : Permutation (uids (ipending s)) (uids l ++ uids (ipending s'))).
    { unfold uids. rewrite <- map_app. apply Permutation_map. exact P. }
    apply (Permutation_NoDup P2) in ND. clear P2.
    induction (uids l) as [|y yl IH]; [exact ND|]. apply IH. cbn [app] in ND. apply NoDup_cons_iff in ND as [_ ND]. exact ND.
  - intros x Hx Eu. apply (wf_desc _ _ _ W); [|exact Eu].
    apply (Permutation_in _ (Permutation_sym P)). apply in_or_app. right. exact Hx.
  - intros En HI. exact (wf_named _ _ _ W En (HC HI)).
  - intros En HI. destruct (HT HI) as [H|H]; [exact (wf_to _ _ _ W En H) | congruence].
  - exact HH.
Qed.

Lemma ipending_ext s s' : ipc_ s' = ipc_ s -> i_rest s' = i_rest s -> ipending s' = ipending s.
Proof. unfold ipending, icur, later. intros -> ->. reflexivity. Qed.
Lemma cpending_ext s s' : cpc_ s' = cpc_ s -> c_rest s' = c_rest s -> clist s' = clist s -> cpending s' = cpending s.
Proof. unfold cpending. intros -> -> ->. reflexivity. Qed.
Lemma tpending_ext s s' : tpc_ s' = tpc_ s -> to_new s' = to_new s -> tpending s' = tpending s.
Proof. unfold tpending. intros -> ->. reflexivity. Qed.

Lemma wf_ctl k u s s' : wf k u s -> same_ctl s s' -> wf k u s'.
Proof.
  intros W (C1 & C2 & C3 & C4 & C5 & C6 & C7 & C8 & C9 & C10).
  apply (wf_from k u s s' [] W).
  - rewrite (ipending_ext s s' C4 C5). apply Permutation_refl.
  - rewrite (cpending_ext s s' C6 C7 C1). auto.
  - rewrite (tpending_ext s s' C10 C2). auto.
  - intros x r E. rewrite C4 in E. exact (wf_hto _ _ _ W _ _ E).
Qed.

Lemma wf_xstep k u s s' es ms x c : wf k u s -> xstep x c s = (s', es, ms) -> wf k u s'.
Proof.
  intros W H. unfold xstep in H. destruct (is_running (world s x)); inversion H; subst; [|exact W].
  apply (wf_ctl _ _ _ _ W). ctl.
Qed.

Ltac split_match :=
  repeat match goal with
         | |- ((match ?X with _ => _ end) = _) -> _ => destruct X
         | |- ((if ?X then _ else _) = _) -> _ => destruct X
         | |- ((let '(_, _) := ?X in _) = _) -> _ => destruct X
         end.

Lemma wstep_keeps s s' es ms : wstep s = (s', es, ms) ->
  ipc_ s' = ipc_ s /\ i_rest s' = i_rest s /\ cpc_ s' = cpc_ s /\ c_rest s' = c_rest s /\ clist s' = clist s /\
  tpc_ s' = tpc_ s /\ to_new s' = to_new s.
Proof.
  unfold wstep. split_match; intros H; inversion H; subst; fields; repeat split; reflexivity.
Qed.

Lemma wf_wstep k u s s' es ms : wf k u s -> wstep s = (s', es, ms) -> wf k u s'.
Proof.
  intros W H. destruct (wstep_keeps _ _ _ _ H) as (K1 & K2 & K3 & K4 & K5 & K6 & K7).
  apply (wf_from k u s s' [] W).
  - rewrite (ipending_ext s s' K1 K2). apply Permutation_refl.
  - rewrite (cpending_ext s s' K3 K4 K5). auto.
  - rewrite (tpending_ext s s' K6 K7). auto.
  - intros x r E. rewrite K1 in E. exact (wf_hto _ _ _ W _ _ E).
Qed.

Lemma cstep_keeps s s' es ms : cstep s = (s', es, ms) ->
  ipc_ s' = ipc_ s /\ i_rest s' = i_rest s /\ tpc_ s' = tpc_ s /\ to_new s' = to_new s.
Proof.
  unfold cstep. destruct (cpc_ s) as [|us|kk x r].
  - destruct (c_rest s); intros H; inversion H; subst; fields; repeat split; reflexivity.
  - destruct us; intros H; inversion H; subst; fields; repeat split; reflexivity.
  - destruct (kstep x kk s) as [[[s1 k'] es1] ms1] eqn:EK. intros H; inversion H; subst.
    pose proof (kstep_ctl _ _ _ _ _ _ _ EK) as (C1 & C2 & C3 & C4 & C5 & C6 & C7 & C8 & C9 & C10).
    fields. repeat split; assumption.
Qed.

Lemma in_cloop_next u m : In u (match cloop_next m with CIdle => [] | CLoop us => us | CK _ x r => x :: r end) -> In u m.
Proof. destruct m; cbn; auto. Qed.

Lemma wf_cstep k u s s' es ms : wf k u s -> cstep s = (s', es, ms) -> wf k u s'.
Proof.
  intros W H. destruct (cstep_keeps _ _ _ _ H) as (K1 & K2 & K3 & K4).
  apply (wf_from k u s s' [] W).
  - rewrite (ipending_ext s s' K1 K2). apply Permutation_refl.
  - unfold cstep in H. unfold cpending. destruct (cpc_ s) as [|us|kk x r] eqn:EC.
    + destruct (c_rest s) as [|m ms'] eqn:ER; inversion H; subst; fields.
      * rewrite ?EC, ?ER. auto.
      * cbn [concat]. rewrite !in_app_iff. intros [HI|[HI|[HI|HI]]]; auto. apply in_cloop_next in HI. auto.
    + destruct us as [|u0 r]; inversion H; subst; fields.
      * rewrite ?EC. auto.
      * rewrite !in_app_iff. intros [HI|HI]; [|auto]. left.
        destruct (tasks s u0); [exact HI | apply in_cloop_next in HI; right; exact HI].
    + destruct (kstep x kk s) as [[[s1 k'] es1] ms1] eqn:EK. inversion H; subst.
      pose proof (kstep_ctl _ _ _ _ _ _ _ EK) as (C1 & C2 & C3 & C4 & C5 & C6 & C7 & C8 & C9 & C10).
      fields. rewrite C1, C7. rewrite !in_app_iff. intros [HI|HI]; [|auto]. left.
      destruct k'; [exact HI | apply in_cloop_next in HI; right; exact HI].
  - rewrite (tpending_ext s s' K3 K4). auto.
  - intros x r E. rewrite K1 in E. exact (wf_hto _ _ _ W _ _ E).
Qed.

Lemma tstep_keeps s s' es ms : tstep s = (s', es, ms) ->
  ipc_ s' = ipc_ s /\ i_rest s' = i_rest s /\ cpc_ s' = cpc_ s /\ c_rest s' = c_rest s /\ clist s' = clist s.
Proof.
  unfold tstep. destruct (tpc_ s) as [|kk x r].
  - intros H; inversion H; subst; fields; repeat split; reflexivity.
  - destruct (kstep x kk s) as [[[s1 k'] es1] ms1] eqn:EK. intros H; inversion H; subst.
    pose proof (kstep_ctl _ _ _ _ _ _ _ EK) as (C1 & C2 & C3 & C4 & C5 & C6 & C7 & C8 & C9 & C10).
    fields. repeat split; assumption.
Qed.

Lemma in_tloop_next u m : In u (match tloop_next m with TAbsorb => [] | TK _ x r => x :: r end) -> In u m.
Proof. destruct m; cbn; auto. Qed.

Lemma wf_tstep k u s s' es ms : wf k u s -> tstep s = (s', es, ms) -> wf k u s'.
Proof.
  intros W H. destruct (tstep_keeps _ _ _ _ H) as (K1 & K2 & K3 & K4 & K5).
  apply (wf_from k u s s' [] W).
  - rewrite (ipending_ext s s' K1 K2). apply Permutation_refl.
  - rewrite (cpending_ext s s' K3 K4 K5). auto.
  - unfold tstep in H. unfold tpending. destruct (tpc_ s) as [|kk x r] eqn:EC.
    + inversion H; subst; fields. rewrite !in_app_iff. intros [HI|HI]; [|destruct HI].
      apply in_tloop_next in HI. left. right. exact HI.
    + destruct (kstep x kk s) as [[[s1 k'] es1] ms1] eqn:EK. inversion H; subst.
      pose proof (kstep_ctl _ _ _ _ _ _ _ EK) as (C1 & C2 & C3 & C4 & C5 & C6 & C7 & C8 & C9 & C10).
      fields. rewrite C2. rewrite !in_app_iff. intros [HI|HI]; [|auto]. left. left.
      destruct k'; [exact HI | apply in_tloop_next in HI; right; exact HI].
  - intros x r E. rewrite K1 in E. exact (wf_hto _ _ _ W _ _ E).
Qed.

(* ---- intake ---- *)
Lemma istep_keeps s s' es ms : istep s = (s', es, ms) ->
  cpc_ s' = cpc_ s /\ c_rest s' = c_rest s /\ tpc_ s' = tpc_ s /\
  (forall v, In v (clist s') -> In v (clist s)) /\
  (to_new s' = to_new s \/ exists x r, ipc_ s = ITask ITHto x r /\ to_new s' = to_new s ++ [d_uid x]).
Proof.
  unfold istep. destruct (ipc_ s) as [|kept rest|x kept r|kept|pc x rest] eqn:EI.
  - destruct (i_rest s); intros H; inversion H; subst; fields; repeat split; auto.
  - destruct rest as [|x r]; [|destruct (mem (d_uid x) (clist s))]; intros H; inversion H; subst; fields; repeat split; auto.
    intros v HI. exact (in_remove1 _ _ _ HI).
  - intros H; inversion H; subst; fields; repeat split; auto.
  - intros H; inversion H; subst; fields; repeat split; auto.
  - destruct pc as [| | | | | |kk| | |].
    + intros H; inversion H; subst; fields; repeat split; auto.
    + destruct (d_fault x); intros H; inversion H; subst; fields; repeat split; auto.
    + destruct (procattr s (d_uid x)); [destruct (d_fault x)|]; intros H; inversion H; subst; fields; repeat split; auto.
    + intros H; inversion H; subst; fields; repeat split; auto. right. eexists; eexists; split; reflexivity.
    + intros H; inversion H; subst; fields; repeat split; auto.
    + intros H; inversion H; subst; fields; repeat split; auto.
    + destruct (kstep (d_uid x) kk s) as [[[s1 k'] es1] ms1] eqn:EK. intros H; inversion H; subst.
      pose proof (kstep_ctl _ _ _ _ _ _ _ EK) as (C1 & C2 & C3 & C4 & C5 & C6 & C7 & C8 & C9 & C10).
      fields. rewrite C1, C2. repeat split; auto.
    + intros H; inversion H; subst; fields; repeat split; auto.
    + intros H; inversion H; subst; fields; repeat split; auto.
    + intros H; inversion H; subst; fields; repeat split; auto.
Qed.

Lemma ipending_filt_next s1 kept r : ipending (set_ipc s1 (filt_next kept r)) = (kept ++ r) ++ later s1.
Proof.
  unfold ipending, icur, later, filt_next. fields.
  destruct r; [destruct kept|]; fields; rewrite ?app_nil_r; reflexivity.
Qed.
Lemma ipending_next_task s1 rest : ipending (set_ipc s1 (next_task rest)) = rest ++ later s1.
Proof. unfold ipending, icur, later, next_task. fields. destruct rest; reflexivity. Qed.
Lemma ipending_task s1 pc x rest : ipending (set_ipc s1 (ITask pc x rest)) = (x :: rest) ++ later s1.
Proof. unfold ipending, icur, later. fields. reflexivity. Qed.
Lemma later_ext s s1 : i_rest s1 = i_rest s -> later s1 = later s.
Proof. unfold later. intros ->. reflexivity. Qed.

Lemma istep_pending s s' es ms : istep s = (s', es, ms) ->
  exists l, Permutation (ipending s) (l ++ ipending s').
Proof.
  unfold istep. destruct (ipc_ s) as [|kept rest|x kept r|kept|pc x rest] eqn:EI.
  - destruct (i_rest s) as [|b bs] eqn:ER; intros H; injection H as <- <- <-.
    + exists []. apply Permutation_refl.
    + exists []. cbn [app]. unfold ipending at 1. unfold icur, later. rewrite EI, ER. cbn [concat app].
      change (match b with [] => IIdle | _ :: _ => IAdv b end) with (filt_next b []).
      destruct (negb match clist s with [] => true | _ => false end);
        rewrite ipending_filt_next; unfold later; fields; rewrite ?app_nil_r; apply Permutation_refl.
  - unfold ipending at 1. unfold icur. rewrite EI.
    destruct rest as [|x r]; [|destruct (mem (d_uid x) (clist s))]; intros H; injection H as <- <- <-.
    + exists []. change (match kept with [] => IIdle | _ :: _ => IAdv kept end) with (filt_next kept []).
      rewrite ipending_filt_next. apply Permutation_refl.
    + exists []. cbn [app]. unfold ipending, icur. fields. unfold later. fields.
      apply Permutation_app_tail. apply Permutation_sym. apply Permutation_middle.
    + exists []. rewrite ipending_filt_next. rewrite <- (app_assoc kept [x] r). apply Permutation_refl.
  - unfold ipending at 1. unfold icur. rewrite EI. intros H; injection H as <- <- <-.
    exists [x]. rewrite ipending_filt_next. apply Permutation_refl.
  - unfold ipending at 1. unfold icur. rewrite EI. intros H; injection H as <- <- <-.
    exists []. rewrite ipending_next_task. apply Permutation_refl.
  - unfold ipending at 1. unfold icur. rewrite EI.
    assert (Hst : forall s1 pc', i_rest s1 = i_rest s ->
               exists l, Permutation ((x :: rest) ++ later s) (l ++ ipending (set_ipc s1 (ITask pc' x rest)))).
    { intros s1 pc' E. exists []. rewrite ipending_task, (later_ext s s1 E). apply Permutation_refl. }
    assert (Hfin : forall s1, i_rest s1 = i_rest s ->
               exists l, Permutation ((x :: rest) ++ later s) (l ++ ipending (set_ipc s1 (next_task rest)))).
    { intros s1 E. exists [x]. rewrite ipending_next_task, (later_ext s s1 E). apply Permutation_refl. }
    destruct pc as [| | | | | |kk| | |].
    + intros H; injection H as <- <- <-. apply Hst. reflexivity.
    + destruct (d_fault x); intros H; injection H as <- <- <-; apply Hst; reflexivity.
    + destruct (procattr s (d_uid x)); [destruct (d_fault x)|]; intros H; injection H as <- <- <-; apply Hst; reflexivity.
    + intros H; injection H as <- <- <-. apply Hst. reflexivity.
    + intros H; injection H as <- <- <-. apply Hst. reflexivity.
    + intros H; injection H as <- <- <-. destruct (mem (d_uid x) (clist s)); [apply Hst | apply Hfin]; reflexivity.
    + destruct (kstep (d_uid x) kk s) as [[[s1 k'] es1] ms1] eqn:EK. intros H; injection H as <- <- <-.
      pose proof (kstep_ctl _ _ _ _ _ _ _ EK) as (C1 & C2 & C3 & C4 & C5 & C6 & C7 & C8 & C9 & C10).
      destruct k'; [apply Hst | apply Hfin]; exact C5.
    + intros H; injection H as <- <- <-. destruct (tasks s (d_uid x)); [apply Hst | apply Hfin]; reflexivity.
    + intros H; injection H as <- <- <-. apply Hst. reflexivity.
    + intros H; injection H as <- <- <-. apply Hfin. reflexivity.
Qed.

Lemma istep_hto s s' es ms : istep s = (s', es, ms) ->
  forall x r, ipc_ s' = ITask ITHto x r -> d_to x = true.
Proof.
  unfold istep. destruct (ipc_ s) as [|kept rest|x0 kept r0|kept|pc x0 rest] eqn:EI.
  - destruct (i_rest s) as [|b bs]; intros H; inversion H; subst; fields; intros x r E.
    + congruence.
    + unfold filt_next in E. destruct (negb _), b; discriminate E.
  - destruct rest as [|x1 r1]; [|destruct (mem (d_uid x1) (clist s))]; intros H; inversion H; subst; fields; intros x r E;
      unfold filt_next in E; try discriminate E.
    + destruct kept; discriminate E.
    + destruct r1; [destruct (kept ++ [x1])|]; discriminate E.
  - intros H; inversion H; subst; fields; intros x r E. unfold filt_next in E. destruct r0; [destruct kept|]; discriminate E.
  - intros H; inversion H; subst; fields; intros x r E. unfold next_task in E. destruct kept; discriminate E.
  - assert (Hn : forall x r, next_task rest = ITask ITHto x r -> d_to x = true).
    { intros x r E. unfold next_task in E. destruct rest; discriminate E. }
    destruct pc as [| | | | | |kk| | |].
    + intros H; inversion H; subst; fields; intros x r E. destruct (d_fault x0); discriminate E.
    + destruct (d_fault x0); intros H; inversion H; subst; fields; intros x r E; discriminate E.
    + destruct (procattr s (d_uid x0)); [destruct (d_fault x0)|]; intros H; inversion H; subst; fields; intros x r E;
        try discriminate E; unfold after_pid in E; destruct (d_to x0) eqn:ET; try discriminate E; inversion E; subst; exact ET.
    + intros H; inversion H; subst; fields; intros x r E. discriminate E.
    + intros H; inversion H; subst; fields; intros x r E. discriminate E.
    + intros H; inversion H; subst; fields; intros x r E. destruct (mem (d_uid x0) (clist s)); [discriminate E | exact (Hn _ _ E)].
    + destruct (kstep (d_uid x0) kk s) as [[[s1 k'] es1] ms1] eqn:EK. intros H; inversion H; subst; fields; intros x r E.
      destruct k'; [discriminate E | exact (Hn _ _ E)].
    + intros H; inversion H; subst; fields; intros x r E. destruct (tasks s (d_uid x0)); [discriminate E | exact (Hn _ _ E)].
    + intros H; inversion H; subst; fields; intros x r E. discriminate E.
    + intros H; inversion H; subst; fields; intros x r E. exact (Hn _ _ E).
Qed.

Lemma wf_istep k u s s' es ms : wf k u s -> istep s = (s', es, ms) -> wf k u s'.
Proof.
  intros W H. destruct (istep_keeps _ _ _ _ H) as (K1 & K2 & K3 & K4 & K5).
  destruct (istep_pending _ _ _ _ H) as [l P].
  apply (wf_from k u s s' l W P).
  - unfold cpending. rewrite K1, K2, !in_app_iff. intros [HI|[HI|HI]]; auto.
  - unfold tpending. rewrite K3, !in_app_iff. destruct K5 as [E|(x & r & E1 & E2)].
    + rewrite E. auto.
    + rewrite E2, in_app_iff. intros [HI|[HI|HI]]; auto. cbn in HI. destruct HI as [HI|[]].
      right. pose proof (wf_hto _ _ _ W _ _ E1) as Ht.
      assert (Hd : d_to x = k_to k).
      { apply (wf_desc _ _ _ W); [|exact HI]. unfold ipending, icur. rewrite E1. left. reflexivity. }
      congruence.
  - exact (istep_hto _ _ _ _ H).
Qed.

Theorem wf_step k u ch s s' es ms : wf k u s -> exec_step ch s = (s', es, ms) -> wf k u s'.
Proof.
  intros W H. destruct ch; cbn [exec_step] in H.
  - exact (wf_istep _ _ _ _ _ _ W H).
  - exact (wf_cstep _ _ _ _ _ _ W H).
  - exact (wf_wstep _ _ _ _ _ _ W H).
  - exact (wf_tstep _ _ _ _ _ _ W H).
  - exact (wf_xstep _ _ _ _ _ _ _ _ W H).
Qed.
