(* Exec.HandlerProofs -- the cancel handler examines every uid of every
   request (Oracle.ok_handler_covers): control_cb walks the uid list of the
   message as received -- not the component's shared cancel list, from which
   the intake filter removes uids concurrently -- so for every scenario and
   every schedule, at quiescence the control thread has looked every uid up in
   self._tasks exactly as often as requests name it. *)
From Coq Require Import ZArith List Bool Lia.
From RP Require Import Common.Eqb Exec.Model Exec.Oracle Exec.Local Exec.Proj Exec.ProjProofs Exec.WfProofs Exec.ExamProofs.
Import ListNotations.
Local Open Scope Z_scope.

(* lookups of u that the handler has still to perform *)
Definition todo (u : Z) (s : state) : nat := (occ u (looplist (cpc_ s)) + occ u (concat (c_rest s)))%nat.

Lemma occ_app u a b : occ u (a ++ b) = (occ u a + occ u b)%nat.
Proof. unfold occ. rewrite filter_app, app_length. reflexivity. Qed.

Lemma kstep_no_lookup u x k s s1 k' es ms : kstep x k s = (s1, k', es, ms) -> length (filter (lookup_ev u) es) = 0%nat.
Proof.
  destruct k; cbn [kstep]; intros H;
    repeat match type of H with context [match ?X with _ => _ end] => destruct X end; inversion H; subst; reflexivity.
Qed.

Lemma step_lookups u ch s s1 es ms :
  exec_step ch s = (s1, es, ms) ->
  ((if thread_eqb (thread_of ch) ThC then length (filter (lookup_ev u) es) else 0%nat) + todo u s1 = todo u s)%nat.
Proof.
  intros H. destruct ch; cbn [exec_step thread_of thread_eqb] in *.
  - destruct (istep_keeps _ _ _ _ H) as (K1 & K2 & _). unfold todo. rewrite K1, K2. reflexivity.
  - unfold cstep in H. unfold todo. destruct (cpc_ s) as [|us|kk x r] eqn:EC.
    + destruct (c_rest s) as [|m ms'] eqn:ER; inversion H; subst s1 es ms; clear H; fields.
      * rewrite EC, ER. reflexivity.
      * rewrite looplist_next. cbn [concat looplist]. rewrite occ_app.
        change (occ u []) with 0%nat. cbn [filter lookup_ev ev]. unfold K_LOCK, K_CLIST_EXTEND, K_TASKS_GET. cbn [Z.eqb Pos.eqb andb length]. lia.
    + destruct us as [|u0 r]; inversion H; subst s1 es ms; clear H; fields.
      * reflexivity.
      * assert (Hl : looplist (if tasks s u0 then CK KGet u0 r else cloop_next r) = r)
          by (destruct (tasks s u0); [reflexivity | apply looplist_next]).
        rewrite Hl. cbn [looplist filter lookup_ev ev]. unfold occ at 3. cbn [filter].
        unfold K_TASKS_GET. rewrite Z.eqb_refl. cbn [andb]. rewrite (Z.eqb_sym u u0).
        destruct (u0 =? u); cbn [length]; unfold occ; lia.
    + destruct (kstep x kk s) as [[[s2 k'] es1] ms1] eqn:EK. inversion H; subst s1 es ms; clear H.
      pose proof (kstep_ctl _ _ _ _ _ _ _ EK) as (_ & _ & _ & _ & _ & _ & C7 & _).
      rewrite (kstep_no_lookup u _ _ _ _ _ _ _ EK). fields. rewrite C7.
      assert (Hl : looplist (match k' with Some k2 => CK k2 x r | None => cloop_next r end) = r)
        by (destruct k'; [reflexivity | apply looplist_next]).
      rewrite Hl. reflexivity.
  - destruct (wstep_keeps _ _ _ _ H) as (_ & _ & K3 & K4 & _). unfold todo. rewrite K3, K4. reflexivity.
  - destruct (tstep_keeps _ _ _ _ H) as (_ & _ & K3 & K4 & _). unfold todo. rewrite K3, K4. reflexivity.
  - unfold xstep in H. destruct (is_running (world s u0)); inversion H; subst; reflexivity.
Qed.

Lemma run_lookups u : forall sched s s' tr,
  run s sched = (s', tr) -> (n_lookups u tr + todo u s' = todo u s)%nat.
Proof.
  induction sched as [|ch r IH]; intros s s' tr H.
  - cbn [run] in H. inversion H; subst. reflexivity.
  - cbn [run] in H. destruct (exec_step ch s) as [[s1 es] ms] eqn:ES.
    destruct (run s1 r) as [s2 tr2] eqn:ER. inversion H; subst s' tr; clear H.
    cbn [n_lookups]. pose proof (step_lookups u ch s s1 es ms ES) as A. pose proof (IH _ _ _ ER) as B.
    lia.
Qed.

(* For every scenario and every schedule, at quiescence: the control thread
   has looked u up in self._tasks once for every occurrence of u in the
   cancel requests. *)
Theorem handler_covers sc sched s tr u :
  run (init sc) sched = (s, tr) -> quiescent s = true -> n_lookups u tr = occ u (named sc).
Proof.
  intros HR Q. pose proof (run_lookups u sched (init sc) s tr HR) as A.
  assert (T1 : todo u s = 0%nat).
  { unfold quiescent in Q. unfold todo. destruct (ipc_ s); try discriminate Q. destruct (cpc_ s); try discriminate Q.
    destruct (wpc_ s); try discriminate Q. destruct (tpc_ s); try discriminate Q.
    destruct (i_rest s); [|discriminate Q]. destruct (c_rest s); [reflexivity | discriminate Q]. }
  assert (T0 : todo u (init sc) = occ u (named sc)) by (unfold todo, init, named; fields; reflexivity).
  lia.
Qed.

Theorem model_handler_covers sc sched s tr :
  run (init sc) sched = (s, tr) -> ok_handler_covers sc tr (quiescent s) = true.
Proof.
  intros HR. unfold ok_handler_covers. destruct (quiescent s) eqn:Q; [|reflexivity]. cbn [negb orb].
  apply forallb_forall. intros u _. apply Nat.eqb_eq. exact (handler_covers sc sched s tr u HR Q).
Qed.
