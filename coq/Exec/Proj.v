(* Exec.Proj -- the view of one uid in a global state, and the well-formedness
   invariant under which every global step projects to a local move. *)
From Coq Require Import ZArith List Bool Lia Permutation.
From RP Require Import Common.Eqb Exec.Model Exec.Oracle Exec.Local.
Import ListNotations.
Local Open Scope Z_scope.

Definition lworld_of (p : pstate) : lworld :=
  match p with PNone => LNone | PRunning => LRun | PStubborn => LStub | PExited _ => LExit | PKilled => LKill end.
Definition uids (l : list tdesc) : list Z := map d_uid l.
Definition later (s : state) : list tdesc := concat (i_rest s).
Definition cnt (u : Z) (l : list Z) : nat := length (filter (Z.eqb u) l).

Definition pos_in (u : Z) (kept rest : list tdesc) (s : state) : li :=
  if mem u (uids kept) then LiKept
  else if mem u (uids rest) || mem u (uids (later s)) then LiBefore else LiDone.

Definition view_i (u : Z) (s : state) : li :=
  match ipc_ s with
  | IIdle => pos_in u [] [] s
  | IFilter kept rest => pos_in u kept rest s
  | IFilterPub x kept rest => if d_uid x =? u then LiFilterPub else pos_in u kept rest s
  | IAdv kept => pos_in u kept [] s
  | ITask pc x rest =>
      if d_uid x =? u then LiAt pc
      else if mem u (uids rest) then LiAdvd
      else if mem u (uids (later s)) then LiBefore else LiDone
  end.

Definition view_c (u : Z) (s : state) : lk :=
  match cpc_ s with CK k x _ => if x =? u then LkAt k else LkOut | _ => LkOut end.
Definition view_t (u : Z) (s : state) : lk :=
  match tpc_ s with TK k x _ => if x =? u then LkAt k else LkOut | _ => LkOut end.

Definition lwt_of (p : wtpc) : lwt :=
  match p with WGet => LGet | WPoll => LPoll | WWait _ => LWait | WDel _ => LDel | WLock _ => LLock end.

Definition view_w (u : Z) (s : state) : lwf :=
  let q := mem u (wq s) in let w := mem u (w_watch s) in
  match wpc_ s with
  | WDrain => mkWf q w false 0%nat LwDrainPos
  | WTask pc x r adv => mkWf q w (mem u r) (sat (cnt u (map fst adv))) (if x =? u then LwAt (lwt_of pc) else LwIter)
  | WPub adv => mkWf q w false (sat (cnt u (map fst adv))) LwPub
  | WAdv adv => mkWf q w false (sat (cnt u (map fst adv))) LwAdv
  end.

Definition cnt_of (u : Z) (ems : list emission) : lcn :=
  mkCn (sat (n_adv SExecuting u ems)) (sat (n_adv SCanceled u ems)) (sat (n_adv SFailed u ems))
       (sat (n_adv SStaging u ems)) (sat (n_collected u ems)) (sat (n_canceled u ems)) (sat (n_uns u ems)).

Definition owns (u : Z) (o : stepobs) : bool :=
  let '(th, es, _) := o in negb (thread_eqb th ThW) && existsb (event_eqb (ev K_TASKS_DEL u 1)) es.
Definition own_of (u : Z) (tr : list stepobs) : bool := existsb (owns u) tr.

Definition view (k : lconst) (u : Z) (s : state) (tr : list stepobs) : lstate :=
  mkL k (mkSh (tasks s u) (procattr s u) (lworld_of (world s u)))
      (view_i u s) (view_c u s) (view_t u s) (view_w u s) (cnt_of u (emissions tr)) (own_of u tr).

(* ---- well-formedness ---- *)
Definition icur (s : state) : list tdesc :=
  match ipc_ s with
  | IIdle => [] | IFilter kept rest => kept ++ rest | IFilterPub x kept rest => x :: kept ++ rest
  | IAdv kept => kept | ITask _ x rest => x :: rest
  end.
Definition ipending (s : state) : list tdesc := icur s ++ later s.
Definition cpending (s : state) : list Z :=
  match cpc_ s with CIdle => [] | CLoop us => us | CK _ x r => x :: r end ++ concat (c_rest s) ++ clist s.
Definition tpending (s : state) : list Z :=
  match tpc_ s with TAbsorb => [] | TK _ x r => x :: r end ++ to_new s.

Record wf (k : lconst) (u : Z) (s : state) : Prop := mkWfS {
  wf_nodup : NoDup (uids (ipending s));
  wf_desc : forall x, In x (ipending s) -> d_uid x = u -> d_fault x = k_fault k /\ d_to x = k_to k /\ d_stub x = k_stub k;
  wf_named : k_named k = false -> ~ In u (cpending s);
  wf_to : k_to k = false -> ~ In u (tpending s);
  wf_hto : forall x r, ipc_ s = ITask ITHto x r -> d_to x = true }.

(* ---- small facts ---- *)
Lemma mem_In u l : mem u l = true <-> In u l.
Proof.
  unfold mem. rewrite existsb_exists. split.
  - intros [x [Hx E]]. apply Z.eqb_eq in E. subst. exact Hx.
  - intros H. exists u. split; [exact H | apply Z.eqb_refl].
Qed.
Lemma mem_false u l : mem u l = false <-> ~ In u l.
Proof.
  split; intros H.
  - intros HI. apply mem_In in HI. congruence.
  - destruct (mem u l) eqn:E; [apply mem_In in E; contradiction | reflexivity].
Qed.
Lemma mem_app u a b : mem u (a ++ b) = mem u a || mem u b.
Proof. unfold mem. apply existsb_app. Qed.
Lemma mem_cons u x l : mem u (x :: l) = (u =? x) || mem u l.
Proof. reflexivity. Qed.
Lemma mem_remove1_neq u x l : x <> u -> mem u (remove1 x l) = mem u l.
Proof.
  intros N. induction l as [|y l IH]; [reflexivity|]. cbn [remove1].
  destruct (y =? x) eqn:E.
  - apply Z.eqb_eq in E. subst y. rewrite mem_cons. replace (u =? x) with false; [reflexivity|].
    symmetry. apply Z.eqb_neq. congruence.
  - rewrite !mem_cons, IH. reflexivity.
Qed.
Lemma mem_remove1_sub u x l : mem u (remove1 x l) = true -> mem u l = true.
Proof.
  induction l as [|y l IH]; [intros H; exact H|]. cbn [remove1].
  destruct (y =? x); rewrite ?mem_cons; intros H.
  - rewrite H. apply orb_true_r.
  - apply orb_true_iff in H as [H|H]; [rewrite H; reflexivity | rewrite (IH H); apply orb_true_r].
Qed.

Lemma cnt_app u a b : cnt u (a ++ b) = (cnt u a + cnt u b)%nat.
Proof. unfold cnt. rewrite filter_app, app_length. reflexivity. Qed.
Lemma cnt_nil u : cnt u [] = 0%nat.
Proof. reflexivity. Qed.
Lemma cnt_one u x : cnt u [x] = if x =? u then 1%nat else 0%nat.
Proof. unfold cnt. cbn [filter]. rewrite (Z.eqb_sym u x). destruct (x =? u); reflexivity. Qed.

Lemma sat_min n : sat n = Nat.min n 2.
Proof. destruct n as [|[|n]]; cbn [sat]; lia. Qed.
Lemma sat_sat n : sat (sat n) = sat n.
Proof. rewrite !sat_min. lia. Qed.
Lemma sat_add a b : sat (sat a + sat b) = sat (a + b).
Proof. rewrite !sat_min. lia. Qed.
Lemma sat_add_l a b : sat (sat a + b) = sat (a + b).
Proof. rewrite !sat_min. lia. Qed.
Lemma addc_sat a b : addc (sat a) b = sat (a + b).
Proof. unfold addc. apply sat_add_l. Qed.
Lemma addc_sat2 a b : addc (sat a) (sat b) = sat (a + b).
Proof. unfold addc. apply sat_add. Qed.
Lemma addc_0 a : addc (sat a) 0 = sat a.
Proof. rewrite addc_sat, Nat.add_0_r. reflexivity. Qed.

(* counting over concatenated traces *)
Lemma n_adv_app st u a b : n_adv st u (a ++ b) = (n_adv st u a + n_adv st u b)%nat.
Proof. induction a as [|[s items p|us|] a IH]; cbn [app n_adv]; rewrite ?IH; lia. Qed.
Lemma n_uns_app u a b : n_uns u (a ++ b) = (n_uns u a + n_uns u b)%nat.
Proof. induction a as [|[s items p|us|] a IH]; cbn [app n_uns]; rewrite ?IH; lia. Qed.
Lemma n_collected_app u a b : n_collected u (a ++ b) = (n_collected u a + n_collected u b)%nat.
Proof. induction a as [|[[] items []|us|] a IH]; cbn [app n_collected]; rewrite ?IH; lia. Qed.
Lemma n_canceled_app u a b : n_canceled u (a ++ b) = (n_canceled u a + n_canceled u b)%nat.
Proof. induction a as [|[[] items []|us|] a IH]; cbn [app n_canceled]; rewrite ?IH; lia. Qed.

Lemma emissions_snoc tr th es ms : emissions (tr ++ [(th, es, ms)]) = emissions tr ++ ms.
Proof. unfold emissions. rewrite map_app, concat_app. cbn. rewrite app_nil_r. reflexivity. Qed.

Lemma own_of_snoc u tr o : own_of u (tr ++ [o]) = own_of u tr || owns u o.
Proof. unfold own_of. rewrite existsb_app. cbn. rewrite orb_false_r. reflexivity. Qed.

(* the counters after one more step, as the local moves compute them *)
Definition delta (u : Z) (ms : list emission) : lcn := cnt_of u ms.
Definition cn_plus (c : lcn) (d : list emission) (u : Z) : lcn :=
  mkCn (addc (c_exec c) (n_adv SExecuting u d)) (addc (c_canc c) (n_adv SCanceled u d)) (addc (c_fail c) (n_adv SFailed u d))
       (addc (c_stage c) (n_adv SStaging u d)) (addc (c_coll c) (n_collected u d)) (addc (c_cncl c) (n_canceled u d))
       (addc (c_uns c) (n_uns u d)).
Lemma cnt_of_app u a b : cnt_of u (a ++ b) = cn_plus (cnt_of u a) b u.
Proof.
  unfold cnt_of, cn_plus; cbn [c_exec c_canc c_fail c_stage c_coll c_cncl c_uns].
  rewrite !n_adv_app, n_uns_app, n_collected_app, n_canceled_app, !addc_sat. reflexivity.
Qed.
Lemma cn_plus_nil c u : (exists ems, c = cnt_of u ems) -> cn_plus c [] u = c.
Proof.
  intros [ems ->]. unfold cn_plus, cnt_of; cbn [c_exec c_canc c_fail c_stage c_coll c_cncl c_uns n_adv n_uns n_collected n_canceled].
  rewrite !addc_0. reflexivity.
Qed.
