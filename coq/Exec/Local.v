(* Exec.Local -- the executor seen from ONE task uid: a finite transition
   system.  Every step of the global model (Exec.Model.exec_step), projected on
   a uid, is either invisible or one of the local moves below (Exec.Proj).
   Lists are abstracted to membership flags, counters saturate at 2, and the
   cancel/timeout threads may call cancel_task(u) at any time (when the uid is
   named in a request / has a run-time limit): an over-approximation of what
   the threads do.  The set of reachable local states is computed and checked
   closed by the kernel (vm_compute); the clauses of C07/C08 are then read off
   that set.  Definitions only; proofs in Exec.LocalProofs. *)
From Coq Require Import ZArith List Bool PArith FMapPositive.
From RP Require Import Exec.Model.
Import ListNotations.
Local Open Scope nat_scope.

Inductive lworld := LNone | LRun | LStub | LExit | LKill.
Inductive lk := LkOut | LkAt (k : kpc).
Inductive li := LiBefore | LiFilterPub | LiKept | LiAdvd | LiAt (pc : itpc) | LiDone.
Inductive lwt := LGet | LPoll | LWait | LDel | LLock.
Inductive lwph := LwDrainPos | LwIter | LwAt (pc : lwt) | LwPub | LwAdv.

Record lconst := mkK { k_fault : fault; k_named : bool; k_to : bool; k_stub : bool }.
Record lsh := mkSh { h_tasks : bool; h_proc : bool; h_world : lworld }.
Record lwf := mkWf { f_inq : bool; f_watch : bool; f_iter : bool; f_adv : nat; f_ph : lwph }.
Record lcn := mkCn { c_exec : nat; c_canc : nat; c_fail : nat; c_stage : nat; c_coll : nat; c_cncl : nat; c_uns : nat }.
Record lstate := mkL { l_k : lconst; l_sh : lsh; l_i : li; l_c : lk; l_t : lk; l_w : lwf; l_n : lcn;
                       l_own : bool (* ghost: some cancel_task(u) removed u from _tasks *) }.

Definition sat (n : nat) : nat := match n with 0 => 0 | 1 => 1 | _ => 2 end.
Definition addc (n k : nat) : nat := sat (n + k).

Definition w_sh v x := mkL (l_k v) x (l_i v) (l_c v) (l_t v) (l_w v) (l_n v) (l_own v).
Definition w_i v x := mkL (l_k v) (l_sh v) x (l_c v) (l_t v) (l_w v) (l_n v) (l_own v).
Definition w_c v x := mkL (l_k v) (l_sh v) (l_i v) x (l_t v) (l_w v) (l_n v) (l_own v).
Definition w_t v x := mkL (l_k v) (l_sh v) (l_i v) (l_c v) x (l_w v) (l_n v) (l_own v).
Definition w_w v x := mkL (l_k v) (l_sh v) (l_i v) (l_c v) (l_t v) x (l_n v) (l_own v).
Definition w_n v x := mkL (l_k v) (l_sh v) (l_i v) (l_c v) (l_t v) (l_w v) x (l_own v).
Definition w_own v x := mkL (l_k v) (l_sh v) (l_i v) (l_c v) (l_t v) (l_w v) (l_n v) x.

Definition sh_tasks h b := mkSh b (h_proc h) (h_world h).
Definition sh_proc h b := mkSh (h_tasks h) b (h_world h).
Definition sh_world h w := mkSh (h_tasks h) (h_proc h) w.

Definition n_exec_ c k := mkCn (addc (c_exec c) k) (c_canc c) (c_fail c) (c_stage c) (c_coll c) (c_cncl c) (c_uns c).
Definition n_canc_ c k := mkCn (c_exec c) (addc (c_canc c) k) (c_fail c) (c_stage c) (c_coll c) (addc (c_cncl c) k) (c_uns c).
Definition n_fail_ c k := mkCn (c_exec c) (c_canc c) (addc (c_fail c) k) (c_stage c) (c_coll c) (c_cncl c) (c_uns c).
Definition n_stcoll_ c k := mkCn (c_exec c) (c_canc c) (c_fail c) (addc (c_stage c) k) (addc (c_coll c) k) (c_cncl c) (c_uns c).
Definition n_stcncl_ c k := mkCn (c_exec c) (c_canc c) (c_fail c) (addc (c_stage c) k) (c_coll c) (addc (c_cncl c) k) (c_uns c).
Definition n_uns_ c k := mkCn (c_exec c) (c_canc c) (c_fail c) (c_stage c) (c_coll c) (c_cncl c) (addc (c_uns c) k).

Definition wf_ph w p := mkWf (f_inq w) (f_watch w) (f_iter w) (f_adv w) p.
Definition wf_iter w b := mkWf (f_inq w) (f_watch w) b (f_adv w) (f_ph w).
Definition wf_watch w b := mkWf (f_inq w) b (f_iter w) (f_adv w) (f_ph w).

Definition lrunning (w : lworld) : bool := match w with LRun | LStub => true | _ => false end.

(* ---- cancel_task(u), locally: new state and continuation ---- *)
Definition lkstep (k : kpc) (v : lstate) : lstate * option kpc :=
  let h := l_sh v in
  match k with
  | KGet => (v, if h_proc h then Some KPoll else None)
  | KPoll => (v, if lrunning (h_world h) then Some KLock else None)
  | KLock => if h_tasks h then (w_own (w_sh v (sh_tasks h false)) true, Some KKill) else (v, None)
  | KKill => (w_sh v (sh_world h (match h_world h with LRun => LKill | w => w end)), Some KWait)
  | KWait => (v, if lrunning (h_world h) then Some KWait else Some KDel)     (* blocked while the process runs *)
  | KDel => (w_sh v (sh_proc h false), Some KPub)
  | KPub => (w_n v (n_uns_ (l_n v) 1), Some KAdv)
  | KAdv => (w_n v (n_stcncl_ (l_n v) 1), None)
  end.

Definition lk_of (o : option kpc) : lk := match o with Some k => LkAt k | None => LkOut end.
Definition li_of (o : option kpc) : li := match o with Some k => LiAt (ITK k) | None => LiDone end.

(* ---- what the watcher does after it is done with one list element ---- *)
Definition iter_advs (v : lstate) : list lstate :=
  let w := l_w v in
  (if f_iter w then [w_w v (wf_iter (wf_ph w (LwAt LGet)) true); w_w v (wf_iter (wf_ph w (LwAt LGet)) false)] else [])
  ++ [w_w v (wf_ph w LwIter)]
  ++ (if f_iter w then [] else [w_w v (wf_ph w LwPub)]).

(* remove(u) from to_watch: u may still be in the list if it was there twice *)
Definition drop_watch (v : lstate) : list lstate :=
  let w := l_w v in if f_watch w then [w_w v (wf_watch w false); v] else [v].

(* ---- the local moves ---- *)
Definition act_env (v : lstate) : list lstate :=
  match h_world (l_sh v) with LRun | LStub => [w_sh v (sh_world (l_sh v) LExit)] | _ => [] end.

Definition act_i (v : lstate) : list lstate :=
  let h := l_sh v in let k := l_k v in
  match l_i v with
  | LiBefore => [w_i v LiKept] ++ (if k_named k then [w_n (w_i v LiFilterPub) (n_canc_ (l_n v) 1)] else [])
  | LiFilterPub => [w_n (w_i v LiDone) (n_uns_ (l_n v) 1)]
  | LiKept => [w_n (w_i v (LiAt ITUpdate)) (n_exec_ (l_n v) 1); w_n (w_i v LiAdvd) (n_exec_ (l_n v) 1)]
  | LiAdvd => [w_i v (LiAt ITUpdate)]
  | LiDone => []
  | LiAt pc =>
      match pc with
      | ITUpdate => [w_i (w_sh v (sh_tasks h true))
                         (LiAt (match k_fault k with FNoLauncher | FScript => ITXLock | _ => ITSpawn end))]
      | ITSpawn => match k_fault k with
                   | FSpawn => [w_i v (LiAt ITXLock)]
                   | _ => [w_i (w_sh v (mkSh (h_tasks h) true (if k_stub k then LStub else LRun))) (LiAt ITPid)]
                   end
      | ITPid => if h_proc h
                 then match k_fault k with
                      | FAfterSpawn => [w_i v (LiAt ITXLock)]
                      | _ => [w_i v (LiAt (if k_to k then ITHto else ITPut))]
                      end
                 else [w_i v (LiAt ITXLock)]
      | ITHto => [w_i v (LiAt ITPut)]
      | ITPut => [w_i (w_w v (mkWf true (f_watch (l_w v)) (f_iter (l_w v)) (f_adv (l_w v)) (f_ph (l_w v)))) (LiAt ITLate)]
      | ITLate => [w_i v LiDone] ++ (if k_named k then [w_i v (LiAt (ITK KGet))] else [])
      | ITK kk => let '(v', o) := lkstep kk v in [w_i v' (li_of o)]
      | ITXLock => if h_tasks h then [w_i (w_sh v (sh_tasks h false)) (LiAt ITXPub)] else [w_i v LiDone]
      | ITXPub => [w_n (w_i v (LiAt ITXAdv)) (n_uns_ (l_n v) 1)]
      | ITXAdv => [w_n (w_i v LiDone) (n_fail_ (l_n v) 1)]
      end
  end.

Definition act_c (v : lstate) : list lstate :=
  match l_c v with
  | LkOut => if k_named (l_k v) then [w_c v (LkAt KGet)] else []
  | LkAt kk => let '(v', o) := lkstep kk v in [w_c v' (lk_of o)]
  end.

Definition act_t (v : lstate) : list lstate :=
  match l_t v with
  | LkOut => if k_to (l_k v) then [w_t v (LkAt KGet)] else []
  | LkAt kk => let '(v', o) := lkstep kk v in
               [w_t v' (lk_of o)] ++
               (* the next entry of the timeout table is taken up in the same step *)
               match o with None => if k_to (l_k v) then [w_t v' (LkAt KGet)] else [] | Some _ => [] end
  end.

Definition act_w (v : lstate) : list lstate :=
  let w := l_w v in let h := l_sh v in
  match f_ph w with
  | LwDrainPos =>
      (* one round of pulls takes at most MAX_QUEUE_BULKSIZE entries: u is taken (t) and/or stays queued (r) *)
      flat_map (fun tr : bool * bool =>
                  let '(t, r) := tr in
                  let wa := f_watch w || t in
                  [w_w v (mkWf r wa wa (f_adv w) LwIter)]
                  ++ (if wa then [w_w v (mkWf r wa true (f_adv w) (LwAt LGet)); w_w v (mkWf r wa false (f_adv w) (LwAt LGet))]
                      else [w_w v (mkWf r wa false (f_adv w) LwPub)]))
               (if f_inq w then [(true, false); (false, true); (true, true)] else [(false, false)])
  | LwIter => iter_advs v
  | LwAt LGet => if h_proc h then [w_w v (wf_ph w (LwAt LPoll))] else flat_map iter_advs (drop_watch v)
  | LwAt LPoll => match h_world h with
                  | LExit | LKill => [w_w v (wf_ph w (LwAt LWait))]
                  | _ => iter_advs v
                  end
  | LwAt LWait => map (fun v' => w_w v' (wf_ph (l_w v') (LwAt LDel))) (drop_watch v)
  | LwAt LDel => [w_w (w_sh v (sh_proc h false)) (wf_ph w (LwAt LLock))]
  | LwAt LLock =>
      if h_tasks h
      then iter_advs (w_w (w_sh v (sh_tasks h false)) (mkWf (f_inq w) (f_watch w) (f_iter w) (addc (f_adv w) 1) (f_ph w)))
      else iter_advs v
  | LwPub =>
      let v1 := w_n v (n_uns_ (l_n v) (f_adv w)) in
      [w_w v1 (wf_ph w LwAdv)] ++ (match f_adv w with 0 => [w_w v1 (wf_ph w LwDrainPos)] | _ => [] end)
  | LwAdv =>
      [w_w (w_n v (n_stcoll_ (l_n v) (f_adv w))) (mkWf (f_inq w) (f_watch w) (f_iter w) 0 LwDrainPos)]
  end.

Definition lnext (v : lstate) : list lstate := act_env v ++ act_i v ++ act_c v ++ act_t v ++ act_w v.

Definition linit (k : lconst) : lstate :=
  mkL k (mkSh false false LNone) LiBefore LkOut LkOut (mkWf false false false 0 LwDrainPos) (mkCn 0 0 0 0 0 0 0) false.

(* ---- boolean equality and an injective key ---- *)
Definition fault_n (f : fault) : N := match f with FNone => 0 | FNoLauncher => 1 | FScript => 2 | FSpawn => 3 | FAfterSpawn => 4 end.
Definition kpc_n (k : kpc) : N := match k with KGet => 0 | KPoll => 1 | KLock => 2 | KKill => 3 | KWait => 4 | KDel => 5 | KPub => 6 | KAdv => 7 end.
Definition itpc_n (p : itpc) : N :=
  match p with ITUpdate => 0 | ITSpawn => 1 | ITPid => 2 | ITHto => 3 | ITPut => 4 | ITLate => 5 | ITXLock => 6
             | ITXPub => 7 | ITXAdv => 8 | ITK k => 9 + kpc_n k end.
Definition li_n (i : li) : N :=
  match i with LiBefore => 0 | LiFilterPub => 1 | LiKept => 2 | LiAdvd => 3 | LiDone => 4 | LiAt p => 5 + itpc_n p end.
Definition lk_n (k : lk) : N := match k with LkOut => 0 | LkAt k => 1 + kpc_n k end.
Definition lwt_n (p : lwt) : N := match p with LGet => 0 | LPoll => 1 | LWait => 2 | LDel => 3 | LLock => 4 end.
Definition lwph_n (p : lwph) : N := match p with LwDrainPos => 0 | LwIter => 1 | LwPub => 2 | LwAdv => 3 | LwAt p => 4 + lwt_n p end.
Definition lworld_n (w : lworld) : N := match w with LNone => 0 | LRun => 1 | LExit => 2 | LKill => 3 | LStub => 4 end.
Definition b_n (b : bool) : N := if b then 1 else 0.

Local Open Scope N_scope.
Definition mix (acc radix d : N) : N := acc * radix + d.
Definition enc_n (v : lstate) : N :=
  let k := l_k v in let h := l_sh v in let w := l_w v in let c := l_n v in
  let a := fault_n (k_fault k) in
  let a := mix a 2 (b_n (k_named k)) in let a := mix a 2 (b_n (k_to k)) in let a := mix a 2 (b_n (k_stub k)) in
  let a := mix a 2 (b_n (h_tasks h)) in let a := mix a 2 (b_n (h_proc h)) in let a := mix a 8 (lworld_n (h_world h)) in
  let a := mix a 32 (li_n (l_i v)) in let a := mix a 16 (lk_n (l_c v)) in let a := mix a 16 (lk_n (l_t v)) in
  let a := mix a 2 (b_n (f_inq w)) in let a := mix a 2 (b_n (f_watch w)) in let a := mix a 2 (b_n (f_iter w)) in
  let a := mix a 4 (N.of_nat (f_adv w)) in let a := mix a 16 (lwph_n (f_ph w)) in
  let a := mix a 4 (N.of_nat (c_exec c)) in let a := mix a 4 (N.of_nat (c_canc c)) in let a := mix a 4 (N.of_nat (c_fail c)) in
  let a := mix a 4 (N.of_nat (c_stage c)) in let a := mix a 4 (N.of_nat (c_coll c)) in let a := mix a 4 (N.of_nat (c_cncl c)) in
  let a := mix a 4 (N.of_nat (c_uns c)) in
  mix a 2 (b_n (l_own v)).
Definition enc (v : lstate) : positive := N.succ_pos (enc_n v).
Local Close Scope N_scope.

Definition lstate_eqb (a b : lstate) : bool :=
  let ka := l_k a in let kb := l_k b in let ha := l_sh a in let hb := l_sh b in
  let wa := l_w a in let wb := l_w b in let ca := l_n a in let cb := l_n b in
  N.eqb (fault_n (k_fault ka)) (fault_n (k_fault kb)) && Bool.eqb (k_named ka) (k_named kb) && Bool.eqb (k_to ka) (k_to kb)
  && Bool.eqb (k_stub ka) (k_stub kb)
  && Bool.eqb (h_tasks ha) (h_tasks hb) && Bool.eqb (h_proc ha) (h_proc hb) && N.eqb (lworld_n (h_world ha)) (lworld_n (h_world hb))
  && N.eqb (li_n (l_i a)) (li_n (l_i b)) && N.eqb (lk_n (l_c a)) (lk_n (l_c b)) && N.eqb (lk_n (l_t a)) (lk_n (l_t b))
  && Bool.eqb (f_inq wa) (f_inq wb) && Bool.eqb (f_watch wa) (f_watch wb) && Bool.eqb (f_iter wa) (f_iter wb)
  && Nat.eqb (f_adv wa) (f_adv wb) && N.eqb (lwph_n (f_ph wa)) (lwph_n (f_ph wb))
  && Nat.eqb (c_exec ca) (c_exec cb) && Nat.eqb (c_canc ca) (c_canc cb) && Nat.eqb (c_fail ca) (c_fail cb)
  && Nat.eqb (c_stage ca) (c_stage cb) && Nat.eqb (c_coll ca) (c_coll cb) && Nat.eqb (c_cncl ca) (c_cncl cb)
  && Nat.eqb (c_uns ca) (c_uns cb) && Bool.eqb (l_own a) (l_own b).

(* ---- reachable set ---- *)
Module PM := PositiveMap.
Definition lset := PM.t lstate.
Definition in_set (v : lstate) (m : lset) : bool :=
  match PM.find (enc v) m with Some v' => lstate_eqb v v' | None => false end.

Definition visit (acc : lset * list lstate) (v : lstate) : lset * list lstate :=
  let '(m, nw) := acc in
  match PM.find (enc v) m with
  | Some _ => acc
  | None => (PM.add (enc v) v m, v :: nw)
  end.

Fixpoint bfs (fuel : nat) (frontier : list lstate) (m : lset) : lset :=
  match fuel with
  | O => m
  | S f =>
      match frontier with
      | [] => m
      | _ => let '(m', nw) := fold_left (fun acc v => fold_left visit (lnext v) acc) frontier (m, []) in
             bfs f nw m'
      end
  end.

Definition all_consts : list lconst :=
  flat_map (fun f => flat_map (fun n => flat_map (fun t => map (fun b => mkK f n t b) [false; true]) [false; true]) [false; true])
           [FNone; FNoLauncher; FScript; FSpawn; FAfterSpawn].
Definition linits : list lstate := map linit all_consts.
Definition reach_set : lset :=
  let '(m, nw) := fold_left visit linits (PM.empty lstate, []) in bfs 5000 nw m.

(* checks over all elements of the set (a fold over the tree: no deep recursion) *)
Definition allp (m : lset) (p : lstate -> bool) : bool := PM.fold (fun _ v acc => acc && p v) m true.
Definition closed (m : lset) : bool := allp m (fun v => forallb (fun v' => in_set v' m) (lnext v)).
Definition all_in (m : lset) (p : lstate -> bool) : bool := allp m p.

(* ---- what is read off the reachable set ---- *)
Definition lquiescent (v : lstate) : bool :=
  match l_i v, l_c v, l_t v, f_ph (l_w v) with
  | LiDone, LkOut, LkOut, LwDrainPos => negb (f_inq (l_w v)) && negb (f_watch (l_w v))
  | _, _, _, _ => false
  end.

Definition le1 (n : nat) : bool := Nat.leb n 1.
Definition hand (c : lcn) : nat := c_stage c + c_fail c + c_canc c.

(* C07, at any time: nothing twice, never both collected and canceled, announced first *)
Definition safe_always (v : lstate) : bool :=
  let c := l_n v in
  le1 (c_exec c) && le1 (hand c) && le1 (c_uns c) && le1 (f_adv (l_w v))
  && negb (Nat.ltb 0 (c_coll c) && Nat.ltb 0 (c_cncl c))
  && (Nat.eqb (c_stage c + c_fail c) 0 || Nat.eqb (c_exec c) 1)
  && (Nat.eqb (c_uns c) 0 || Nat.eqb (c_exec c) 1 || Nat.eqb (c_canc c) 1)
  && Nat.eqb (c_stage c) (c_coll c + (c_cncl c - c_canc c)).

(* C07, at quiescence: exactly once, and not left behind *)
Definition safe_quiescent (v : lstate) : bool :=
  let c := l_n v in
  negb (lquiescent v) ||
  ((Nat.eqb (c_exec c) 1 && Nat.eqb (c_canc c) 0 || Nat.eqb (c_exec c) 0 && Nat.eqb (c_canc c) 1)
   && Nat.eqb (hand c) 1 && Nat.eqb (c_uns c) 1 && negb (h_tasks (l_sh v))
   && (negb (h_proc (l_sh v)) || match k_fault (l_k v) with FAfterSpawn => true | _ => false end)).

(* C08: canceled => the process does not run; a task canceled at intake was never launched;
   once a cancel_task owns the task it is never collected and ends CANCELED *)
Definition safe_cancel (v : lstate) : bool :=
  let c := l_n v in
  (Nat.eqb (c_cncl c) 0 || negb (lrunning (h_world (l_sh v))))
  && (Nat.eqb (c_canc c) 0 || (match h_world (l_sh v) with LNone => true | _ => false end) && Nat.eqb (c_exec c) 0)
  && (negb (l_own v) || Nat.eqb (c_coll c) 0 && Nat.eqb (c_fail c) 0 && negb (lrunning (h_world (l_sh v)))
                        || match l_c v, l_t v, l_i v with
                           | LkAt KKill, _, _ | _, LkAt KKill, _ | _, _, LiAt (ITK KKill)
                           | LkAt KWait, _, _ | _, LkAt KWait, _ | _, _, LiAt (ITK KWait) => Nat.eqb (c_coll c) 0 && Nat.eqb (c_fail c) 0
                           | _, _, _ => false end)
  && (negb (l_own v && lquiescent v) || Nat.eqb (c_cncl c) 1 && Nat.eqb (c_stage c) 1).

(* C08: a task that is not named and has no run-time limit is never killed or
   canceled, and ends with its own outcome *)
Definition safe_bystander (v : lstate) : bool :=
  let c := l_n v in let k := l_k v in
  k_named k || k_to k ||
  (negb (match h_world (l_sh v) with LKill => true | _ => false end) && Nat.eqb (c_cncl c) 0 && negb (l_own v)
   && (negb (lquiescent v) ||
       match k_fault k with
       | FNone => Nat.eqb (c_coll c) 1 && Nat.eqb (c_fail c) 0
       | _ => Nat.eqb (c_fail c) 1 && Nat.eqb (c_stage c) 0
       end)).

Definition safe (v : lstate) : bool := safe_always v && safe_quiescent v && safe_cancel v && safe_bystander v.
