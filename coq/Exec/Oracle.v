(* Exec.Oracle -- boolean checkers of C07 (and of the executor part of C08)
   evaluated on the trace recorded from the real methods, and the rows
   [model agrees with the observation; clause ...] used by the harness. *)
From Coq Require Import ZArith List Bool.
From RP Require Import Common.Eqb Exec.Model.
Import ListNotations.
Open Scope Z_scope.

(* ---- equality of observations ---- *)
Definition event_eqb (a b : event) : bool :=
  let '(k1, u1, a1) := a in let '(k2, u2, a2) := b in (k1 =? k2) && (u1 =? u2) && (a1 =? a2).
Definition tgt_eqb (a b : tgt) : bool :=
  match a, b with
  | TgNone, TgNone | TgDone, TgDone | TgFailed, TgFailed | TgCanceled, TgCanceled => true
  | _, _ => false end.
Definition est_eqb (a b : est) : bool :=
  match a, b with
  | SExecuting, SExecuting | SCanceled, SCanceled | SFailed, SFailed | SStaging, SStaging | SOther, SOther => true
  | _, _ => false end.
Definition item_eqb (a b : item) : bool :=
  let '(u1, c1, t1) := a in let '(u2, c2, t2) := b in
  (u1 =? u2) && eqb_option Z.eqb c1 c2 && tgt_eqb t1 t2.
Definition emission_eqb (a b : emission) : bool :=
  match a, b with
  | EAdv s1 i1 p1, EAdv s2 i2 p2 => est_eqb s1 s2 && eqb_list item_eqb i1 i2 && Bool.eqb p1 p2
  | EUns u1, EUns u2 => eqb_list Z.eqb u1 u2
  | EPub, EPub => true
  | _, _ => false end.
Definition thread_eqb (a b : thread) : bool :=
  match a, b with
  | ThI, ThI | ThC, ThC | ThW, ThW | ThT, ThT | ThX, ThX => true
  | _, _ => false end.
Definition stepobs_eqb (a b : stepobs) : bool :=
  let '(t1, e1, m1) := a in let '(t2, e2, m2) := b in
  thread_eqb t1 t2 && eqb_list event_eqb e1 e2 && eqb_list emission_eqb m1 m2.
Definition pstate_eqb (a b : pstate) : bool :=
  match a, b with
  | PNone, PNone | PRunning, PRunning | PStubborn, PStubborn | PKilled, PKilled => true
  | PExited c1, PExited c2 => c1 =? c2
  | _, _ => false end.

(* final shared state, restricted to the delivered uids (in delivery order) *)
Definition final := (list Z * list Z * list Z * list (Z * pstate))%type.
Definition final_of (dl : list Z) (s : state) : final :=
  (filter (tasks s) dl, filter (procattr s) dl, clist s, map (fun u => (u, world s u)) dl).
Definition final_eqb (a b : final) : bool :=
  let '(t1, p1, c1, w1) := a in let '(t2, p2, c2, w2) := b in
  eqb_list Z.eqb t1 t2 && eqb_list Z.eqb p1 p2 && eqb_list Z.eqb c1 c2
  && eqb_list (eqb_prod Z.eqb pstate_eqb) w1 w2.

Definition corr_bit (sc : scenario) (sched : list choice) (obs : list stepobs) (q : bool) (fin : final) : bool :=
  let '(s, tr) := run (init sc) sched in
  eqb_list stepobs_eqb tr obs && Bool.eqb (quiescent s) q && final_eqb (final_of (delivered sc) s) fin.

(* ---- counting what was emitted about one uid ---- *)
Definition cnt_items (p : item -> bool) (l : list item) : nat := length (filter p l).
Definition for_uid (u : Z) (i : item) : bool := let '(v, _, _) := i in v =? u.

(* An advance() hands a task on when it PUSHES it to the next component or
   advances it to a final state.  A publish-only advance to the non-final state
   AGENT_STAGING_OUTPUT_PENDING (push=False) hands nothing on: nobody will ever
   pick the task up. *)
Definition counts (s : est) (push : bool) : bool := match s with SStaging => push | _ => true end.
Fixpoint n_adv (st : est) (u : Z) (ems : list emission) : nat :=
  match ems with
  | [] => 0
  | EAdv s items p :: r => (Nat.add ((if est_eqb s st && counts s p then cnt_items (for_uid u) items else 0)) (n_adv st u r))
  | _ :: r => n_adv st u r
  end.
Fixpoint n_uns (u : Z) (ems : list emission) : nat :=
  match ems with
  | [] => 0
  | EUns us :: r => (Nat.add (length (filter (Z.eqb u) us)) (n_uns u r))
  | _ :: r => n_uns u r
  end.
Definition n_hand (u : Z) (ems : list emission) : nat :=
  (Nat.add (n_adv SStaging u ems) (Nat.add (n_adv SFailed u ems) (n_adv SCanceled u ems))).

(* staged with an exit code (collected by the watcher) / staged or advanced as canceled *)
Fixpoint n_collected (u : Z) (ems : list emission) : nat :=
  match ems with
  | [] => 0
  | EAdv SStaging items true :: r =>
      (Nat.add (cnt_items (fun i => let '(v, c, _) := i in (v =? u) && match c with Some _ => true | None => false end) items) (n_collected u r))
  | _ :: r => n_collected u r
  end.
Fixpoint n_canceled (u : Z) (ems : list emission) : nat :=
  match ems with
  | [] => 0
  | EAdv SStaging items true :: r =>
      (Nat.add (cnt_items (fun i => let '(v, _, t) := i in (v =? u) && tgt_eqb t TgCanceled) items) (n_canceled u r))
  | EAdv SCanceled items _ :: r => (Nat.add (cnt_items (for_uid u) items) (n_canceled u r))
  | _ :: r => n_canceled u r
  end.

Definition once (q : bool) (n : nat) : bool := if q then Nat.eqb n 1 else Nat.leb n 1.

(* C07 clauses; q = the run was observed up to quiescence (fair completion) *)
Definition ok_announced (dl : list Z) (q : bool) (ems : list emission) : bool :=
  forallb (fun u => Nat.leb (n_adv SExecuting u ems) 1
                    && (negb q || Nat.eqb (n_adv SExecuting u ems) 1
                        || (Nat.eqb (n_adv SExecuting u ems) 0 && Nat.eqb (n_adv SCanceled u ems) 1))) dl.
Definition ok_handed_on (dl : list Z) (q : bool) (ems : list emission) : bool :=
  forallb (fun u => once q (n_hand u ems)) dl.
Definition ok_unscheduled (dl : list Z) (q : bool) (ems : list emission) : bool :=
  forallb (fun u => once q (n_uns u ems)) dl.
Definition ok_not_both (dl : list Z) (ems : list emission) : bool :=
  forallb (fun u => negb (Nat.ltb 0 (n_collected u ems) && Nat.ltb 0 (n_canceled u ems))) dl.

(* the outcome is attached to what is handed on, in the form the next component expects *)
Definition item_ok (s : est) (push : bool) (i : item) : bool :=
  let '(_, c, t) := i in
  match s with
  | SStaging => push && match c, t with
                        | Some c, TgDone => c =? 0
                        | Some c, TgFailed => negb (c =? 0)
                        | None, TgCanceled => true
                        | _, _ => false end
  | SExecuting | SCanceled | SFailed => negb push
  | SOther => false
  end.
Definition ok_outcome_attached (ems : list emission) : bool :=
  forallb (fun e => match e with EAdv s items p => forallb (item_ok s p) items | EUns _ => true | EPub => false end) ems.

(* order: a task is announced before it is handed on or released; nothing is
   emitted about a uid that was not delivered *)
Fixpoint ok_order_from (dl seen : list Z) (ems : list emission) : bool :=
  match ems with
  | [] => true
  | EAdv s items _ :: r =>
      let us := map (fun i : item => let '(u, _, _) := i in u) items in
      forallb (fun u => mem u dl) us &&
      match s with
      | SExecuting | SCanceled => ok_order_from dl (us ++ seen) r
      | _ => forallb (fun u => mem u seen) us && ok_order_from dl seen r
      end
  | EUns us :: r => forallb (fun u => mem u seen) us && ok_order_from dl seen r
  | EPub :: r => ok_order_from dl seen r
  end.
Definition ok_order (dl : list Z) (ems : list emission) : bool := ok_order_from dl [] ems.

(* the collected exit code is the one the process exited with (-9 when it was killed) *)
Definition all_events (obs : list stepobs) : list event := concat (map (fun o : stepobs => snd (fst o)) obs).
Definition ok_truthful (obs : list stepobs) : bool :=
  let evs := all_events obs in
  forallb (fun e => match e with
                    | EAdv SStaging items _ =>
                        forallb (fun i : item => let '(u, c, _) := i in
                                   match c with
                                   | None => true
                                   | Some c => existsb (event_eqb (ev K_EXIT u c)) evs
                                               || ((c =? -9) && existsb (event_eqb (ev K_KILL u 1)) evs)
                                   end) items
                    | _ => true end) (emissions obs).

Definition staged_canceled (u : Z) (e : emission) : bool :=
  match e with
  | EAdv SStaging items _ => existsb (fun i : item => let '(v, _, t) := i in (v =? u) && tgt_eqb t TgCanceled) items
  | _ => false end.

(* ---- CANCELED only if the process was running when cancel_task polled it ----
   Per uid and per thread that can run cancel_task (intake: late check; control;
   timeout watcher) the result of that thread's last proc.poll() on the task
   is tracked.  A task may be handed on as CANCELED (staged with target
   CANCELED) by a thread only if that thread's last poll of it reported a
   RUNNING process: cancel_task never takes over a task whose process had
   exited before the poll, whatever its exit code (0 included) -- such a task
   "had already finished" and keeps its own outcome. *)
Definition pol_ev (u : Z) (b : bool) (e : event) : bool :=
  let '(k, v, a) := e in if (k =? K_POLL) && (v =? u) then a =? 0 else b.
Definition pol_upd (u : Z) (t th : thread) (es : list event) (b : bool) : bool :=
  if thread_eqb t th then fold_left (pol_ev u) es b else b.
Fixpoint ok_polled_from (u : Z) (pI pC pT : bool) (obs : list stepobs) : bool :=
  match obs with
  | [] => true
  | (t, es, ms) :: r =>
      let pI' := pol_upd u t ThI es pI in let pC' := pol_upd u t ThC es pC in let pT' := pol_upd u t ThT es pT in
      let cur := match t with ThI => pI' | ThC => pC' | ThT => pT' | _ => false end in
      (negb (existsb (staged_canceled u) ms) || cur) && ok_polled_from u pI' pC' pT' r
  end.
Definition ok_cancel_polled (dl : list Z) (obs : list stepobs) : bool :=
  forallb (fun u => ok_polled_from u false false false obs) dl.

(* ---- the kill reaches the running process; cancel does not wait for the natural end ----
   Per uid, over the recorded actions: whether its process runs (spawned, and
   neither exited nor killed since), whether a kill attempt is under way
   (between the signals of LaunchMethod.cancel_task and the return of
   proc.wait()), and whether a signal of that attempt was delivered without
   effect (a process that outlives the kill).
   kill_reaches_running_process: a signal is answered "no such process"
     (K_KILL u 0) only when the process of u does not run -- a running process
     is reached by the kill.
   cancel_does_not_wait_for_natural_end: while a kill attempt is under way the
     process ends by itself (K_EXIT u) only if a signal was delivered without
     effect: cancel_task does not sit in proc.wait() for the natural end of a
     process that it failed to signal. *)
Record kst := mkKst { ks_ok1 : bool; ks_ok2 : bool; ks_run : bool; ks_killing : bool; ks_noeff : bool }.
Definition kst0 : kst := mkKst true true false false false.
Definition kst_ev (u : Z) (st : kst) (e : event) : kst :=
  let '(k, v, a) := e in
  if negb (v =? u) then st
  else if k =? K_SPAWN then (if a =? 1 then mkKst (ks_ok1 st) (ks_ok2 st) true false false else st)
  else if k =? K_EXIT then
         mkKst (ks_ok1 st) (ks_ok2 st && (negb (ks_killing st) || ks_noeff st)) false (ks_killing st) (ks_noeff st)
  else if k =? K_KILL then
         let ne := if ks_killing st then ks_noeff st else false in
         if a =? 1 then mkKst (ks_ok1 st) (ks_ok2 st) false true ne
         else if a =? 0 then mkKst (ks_ok1 st && negb (ks_run st)) (ks_ok2 st) (ks_run st) true ne
         else mkKst (ks_ok1 st) (ks_ok2 st) (ks_run st) true true
  else if k =? K_WAIT then mkKst (ks_ok1 st) (ks_ok2 st) (ks_run st) false (ks_noeff st)
  else st.
Definition kst_of (u : Z) (evs : list event) : kst := fold_left (kst_ev u) evs kst0.
Definition ok_kill_reaches (dl : list Z) (obs : list stepobs) : bool :=
  let evs := all_events obs in forallb (fun u => ks_ok1 (kst_of u evs)) dl.
Definition ok_no_natural_wait (dl : list Z) (obs : list stepobs) : bool :=
  let evs := all_events obs in forallb (fun u => ks_ok2 (kst_of u evs)) dl.

(* bystanders are not signalled: no signal goes to the process group of the
   executor (which holds the agent and every task without a session of its
   own), and the process of a task that no request names and that has no
   run-time limit is never killed *)
Definition ok_not_signalled (sc : scenario) (obs : list stepobs) : bool :=
  let evs := all_events obs in
  negb (existsb (fun e : event => let '(k, _, _) := e in k =? K_GSIG) evs)
  && forallb (fun x : tdesc => negb (existsb (event_eqb (ev K_KILL (d_uid x) 1)) evs))
             (filter (fun x => negb (mem (d_uid x) (named sc)) && negb (d_to x)) (concat (sc_batches sc))).

(* ---- the cancel handler examines every uid of every request ----
   control_cb walks the uid list of the message AS RECEIVED and looks every
   uid up in self._tasks (get_task): at quiescence the control thread has
   performed, for every uid u, exactly as many lookups of u as requests name u
   (with multiplicity) -- whatever the other threads did meanwhile, in
   particular whatever the intake filter removed from the component's cancel
   list.  No named uid is skipped. *)
Definition occ (u : Z) (l : list Z) : nat := length (filter (Z.eqb u) l).
Definition lookup_ev (u : Z) (e : event) : bool := let '(k, v, _) := e in (k =? K_TASKS_GET) && (v =? u).
Fixpoint n_lookups (u : Z) (obs : list stepobs) : nat :=
  match obs with
  | [] => 0
  | (th, es, _) :: r => Nat.add (if thread_eqb th ThC then length (filter (lookup_ev u) es) else 0%nat) (n_lookups u r)
  end.
Definition ok_handler_covers (sc : scenario) (obs : list stepobs) (q : bool) : bool :=
  negb q || forallb (fun u => Nat.eqb (n_lookups u obs) (occ u (named sc))) (named sc).

(* ---- a named task that was launched is examined for cancellation after it
        entered the executor's registry ----
   Per uid, over the recorded actions (with the thread that performed them):
     G0  not yet registered in self._tasks
     G1  registered (self._tasks.update), not yet examined
     G2  examined after the registration: the cancel handler looked it up in
         self._tasks (get_task in control_cb), or the late check of
         _launch_task found it on the cancel list (and calls cancel_task)
     G3  the late check has MISSED it and no examination has happened since
   At quiescence a named uid must not be in G3: every request that names it is
   either registered on the cancel list before the late check (then the late
   check hits), or its lookup in self._tasks comes after the task was entered
   there -- the lookup then either finds the task (cancel_task: the process is
   killed unless it has exited by then, see cancel_named_running) or the task
   has already been finished.  So a named task is stopped unless it had
   finished before the kill attempt; it cannot slip through between the
   registration of the request and the launch. *)
Inductive gex := G0 | G1 | G2 | G3.
Definition gex_eqb (a b : gex) : bool :=
  match a, b with G0, G0 | G1, G1 | G2, G2 | G3, G3 => true | _, _ => false end.
Definition gex_ev (u : Z) (th : thread) (g : gex) (e : event) : gex :=
  let '(k, v, a) := e in
  if negb (v =? u) then g
  else if k =? K_TASKS_UPDATE then match g with G0 => G1 | _ => g end
  else if (k =? K_TASKS_GET) && thread_eqb th ThC then match g with G1 | G3 => G2 | _ => g end
  else if (k =? K_CLIST_IN) && thread_eqb th ThI then match g with G1 => if a =? 1 then G2 else G3 | _ => g end
  else g.
Definition gex_step (u : Z) (g : gex) (o : stepobs) : gex :=
  let '(th, es, _) := o in fold_left (gex_ev u th) es g.
Definition gex_of (u : Z) (obs : list stepobs) : gex := fold_left (gex_step u) obs G0.
Definition ok_named_examined (sc : scenario) (obs : list stepobs) (q : bool) : bool :=
  negb q || forallb (fun u => negb (gex_eqb (gex_of u obs) G3)) (filter (fun u => mem u (named sc)) (delivered sc)).

Definition c07_clauses (sc : scenario) (obs : list stepobs) (q : bool) : list bool :=
  let dl := delivered sc in let ems := emissions obs in
  [ ok_announced dl q ems; ok_handed_on dl q ems; ok_unscheduled dl q ems; ok_not_both dl ems;
    ok_outcome_attached ems; ok_order dl ems; ok_truthful obs; ok_named_examined sc obs q; ok_cancel_polled dl obs; ok_handler_covers sc obs q;
    ok_kill_reaches dl obs; ok_no_natural_wait dl obs; ok_not_signalled sc obs ].

Definition c07_row (sc : scenario) (sched : list choice) (obs : list stepobs) (q : bool) (fin : final) : list bool :=
  corr_bit sc sched obs q fin :: c07_clauses sc obs q.

(* ---- C08, executor side ---- *)
(* events before the first emission that satisfies p *)
Fixpoint events_before (p : emission -> bool) (obs : list stepobs) : option (list event) :=
  match obs with
  | [] => None
  | (_, es, ms) :: r =>
      if existsb p ms then Some es
      else match events_before p r with Some l => Some (es ++ l) | None => None end
  end.
(* a task handed on as CANCELED by cancel_task has no running process: it was killed or had exited *)
Definition ok_canceled_stopped (dl : list Z) (obs : list stepobs) : bool :=
  forallb (fun u => match events_before (staged_canceled u) obs with
                    | None => true
                    | Some es => existsb (fun e : event => let '(k, v, a) := e in
                                            (v =? u) && (((k =? K_KILL) && (a =? 1)) || (k =? K_EXIT))) es
                    end) dl.

(* a named task: exactly one outcome, and it is CANCELED unless the task had
   exited (collected) or could not be launched (FAILED) *)
Definition ok_named_end (sc : scenario) (q : bool) (ems : list emission) : bool :=
  forallb (fun u => negb (mem u (delivered sc)) || negb q ||
                    (Nat.eqb (n_hand u ems) 1 && Nat.eqb (n_uns u ems) 1
                     && Nat.eqb (n_canceled u ems + n_collected u ems + n_adv SFailed u ems) 1)) (named sc).

(* cancel_later_met: when the request was registered before the intake
   looks the task up in the cancel list, the lookup hits; a task canceled by
   the intake filter is advanced CANCELED there and is never launched *)
Fixpoint first_check (u : Z) (msgs : list (list Z)) (reg : bool) (evs : list event) : option (bool * bool) :=
  match evs with
  | [] => None
  | (k, v, a) :: r =>
      if (k =? K_CLIST_EXTEND)
      then match msgs with
           | m :: ms => first_check u ms (reg || mem u m) r
           | [] => first_check u [] reg r
           end
      else if (k =? K_CLIST_IN) && (v =? u) then Some (reg, a =? 1)
      else first_check u msgs reg r
  end.
Definition has_event (k u : Z) (evs : list event) : bool :=
  existsb (fun e : event => let '(k', v, _) := e in (k' =? k) && (v =? u)) evs.
Definition ok_later_met (sc : scenario) (obs : list stepobs) : bool :=
  let evs := all_events obs in let ems := emissions obs in
  forallb (fun u => match first_check u (sc_cancels sc) false evs with
                    | Some (reg, hit) => implb reg hit
                    | None => true end
                    && implb (has_event K_CLIST_REMOVE u evs) (Nat.eqb (n_adv SCanceled u ems) 1)
                    && implb (Nat.ltb 0 (n_adv SCanceled u ems)) (negb (has_event K_SPAWN u evs)))
          (filter (fun u => mem u (named sc)) (delivered sc)).

(* bystanders: a task that is not named (and has no run-time limit) ends exactly
   as it would without any request -- FAILED if it cannot be launched, else
   collected with its own exit code; its process is never killed *)
Definition bystanders (sc : scenario) : list tdesc :=
  filter (fun x => negb (mem (d_uid x) (named sc)) && negb (d_to x)) (concat (sc_batches sc)).
Definition launch_fails (x : tdesc) : bool := match d_fault x with FNone => false | _ => true end.
Definition ok_bystanders (sc : scenario) (obs : list stepobs) (q : bool) : bool :=
  let evs := all_events obs in let ems := emissions obs in
  forallb (fun x => let u := d_uid x in
             negb (existsb (fun e : event => let '(k, v, a) := e in (k =? K_KILL) && (v =? u)) evs)
             && Nat.eqb (n_canceled u ems) 0
             && (negb q ||
                 (if launch_fails x
                  then Nat.eqb (n_adv SFailed u ems) 1 && Nat.eqb (n_adv SStaging u ems) 0
                  else Nat.eqb (n_collected u ems) 1 && Nat.eqb (n_adv SFailed u ems) 0)
                 && Nat.eqb (n_hand u ems) 1 && Nat.eqb (n_uns u ems) 1)) (bystanders sc).

Definition c08_exec_clauses (sc : scenario) (obs : list stepobs) (q : bool) : list bool :=
  [ ok_named_end sc q (emissions obs); ok_canceled_stopped (delivered sc) obs; ok_later_met sc obs;
    ok_bystanders sc obs q; ok_named_examined sc obs q; ok_cancel_polled (delivered sc) obs; ok_handler_covers sc obs q;
    ok_kill_reaches (delivered sc) obs; ok_no_natural_wait (delivered sc) obs; ok_not_signalled sc obs ].

Definition c08_exec_row (sc : scenario) (sched : list choice) (obs : list stepobs) (q : bool) (fin : final) : list bool :=
  corr_bit sc sched obs q fin :: c08_exec_clauses sc obs q.
