(* Exec.Enum -- enumeration of schedules by the model, for the thorough tier:
   breadth-first exploration of the reachable global states of a scenario;
   for every reached state and every enabled choice the schedule
   (path to the state ++ [choice]) is emitted, so that every transition of the
   explored state graph is replayed on the real code at least once. *)
From Coq Require Import ZArith List Bool String Ascii.
From RP Require Import Common.Eqb Exec.Model.
Import ListNotations.
Open Scope Z_scope.

(* a key that identifies a state of a scenario with delivered uids dl *)
Definition kpc_z (k : kpc) : Z := match k with KGet => 0 | KPoll => 1 | KLock => 2 | KKill => 3 | KWait => 4 | KDel => 5 | KPub => 6 | KAdv => 7 end.
Definition itpc_z (p : itpc) : Z :=
  match p with ITUpdate => 0 | ITSpawn => 1 | ITPid => 2 | ITHto => 3 | ITPut => 4 | ITLate => 5 | ITXLock => 6
             | ITXPub => 7 | ITXAdv => 8 | ITK k => 10 + kpc_z k end.
Definition tds (l : list tdesc) : list Z := map d_uid l.
Definition ipc_key (p : ipc) : list Z :=
  match p with
  | IIdle => [100]
  | IFilter k r => [101] ++ tds k ++ [-1] ++ tds r
  | IFilterPub x k r => [102; d_uid x] ++ tds k ++ [-1] ++ tds r
  | IAdv k => [103] ++ tds k
  | ITask pc x r => [104; itpc_z pc; d_uid x] ++ tds r
  end.
Definition cpc_key (p : cpc) : list Z :=
  match p with CIdle => [200] | CLoop us => 201 :: us | CK k u r => [202; kpc_z k; u] ++ r end.
Definition wtpc_key (p : wtpc) : list Z :=
  match p with WGet => [0] | WPoll => [1] | WWait c => [2; c] | WDel c => [3; c] | WLock c => [4; c] end.
Definition adv_key (a : list (Z * Z)) : list Z := flat_map (fun p => [fst p; snd p]) a.
Definition wpc_key (p : wpc) : list Z :=
  match p with
  | WDrain => [300]
  | WTask pc u r a => [301] ++ wtpc_key pc ++ [u] ++ r ++ [-1] ++ adv_key a
  | WPub a => 302 :: adv_key a
  | WAdv a => 303 :: adv_key a
  end.
Definition tpc_key (p : tpc) : list Z := match p with TAbsorb => [400] | TK k u r => [401; kpc_z k; u] ++ r end.
Definition ps_z (p : pstate) : list Z := match p with PNone => [0] | PRunning => [1] | PExited c => [2; c] | PKilled => [3] | PStubborn => [4] end.

Definition state_key (dl : list Z) (s : state) : list Z :=
  flat_map (fun u => [b2z (tasks s u); b2z (procattr s u)] ++ ps_z (world s u)) dl
  ++ [-2] ++ clist s ++ [-2] ++ to_new s ++ [-2] ++ wq s ++ [-2] ++ w_watch s
  ++ [-2] ++ ipc_key (ipc_ s) ++ [-2] ++ map (fun b => Z.of_nat (List.length b)) (i_rest s)
  ++ [-2] ++ cpc_key (cpc_ s) ++ [-2] ++ map (fun b => Z.of_nat (List.length b)) (c_rest s)
  ++ [-2] ++ wpc_key (wpc_ s) ++ [-2] ++ tpc_key (tpc_ s).

Definition key_eqb := eqb_list Z.eqb.
Definition seen (k : list Z) (vs : list (list Z)) : bool := existsb (key_eqb k) vs.

Definition choices (exits : list (Z * Z)) : list choice :=
  [CI; CC; CW; CT] ++ map (fun p => CX (fst p) (snd p)) exits.

(* one BFS level: frontier of (state, reversed path) *)
Definition expand (dl : list Z) (exits : list (Z * Z))
  (acc : list (list Z) * list (state * list choice) * list (list choice)) (n : state * list choice)
  : list (list Z) * list (state * list choice) * list (list choice) :=
  fold_left (fun acc ch =>
               let '(vs, nf, out) := acc in
               let '(s1, es, ms) := exec_step ch (fst n) in
               match es, ms with
               | [], [] => acc                               (* not enabled *)
               | _, _ =>
                   let p := ch :: snd n in
                   let k := state_key dl s1 in
                   if seen k vs then (vs, nf, rev p :: out) else (k :: vs, (s1, p) :: nf, rev p :: out)
               end) (choices exits) acc.

Fixpoint bfs_scheds (fuel : nat) (dl : list Z) (exits : list (Z * Z)) (max_states : nat)
  (vs : list (list Z)) (frontier : list (state * list choice)) (out : list (list choice)) : list (list choice) :=
  match fuel with
  | O => out
  | S f =>
      match frontier with
      | [] => out
      | _ =>
          if Nat.ltb max_states (List.length vs) then out
          else let '(vs', nf, out') := fold_left (expand dl exits) frontier (vs, [], out) in
               bfs_scheds f dl exits max_states vs' (rev nf) out'
      end
  end.

(* all transitions of the state graph reachable from the state reached by
   `prefix`, explored breadth-first up to max_states states *)
Definition enum_scheds (sc : scenario) (exits : list (Z * Z)) (prefix : list choice) (depth max_states : nat)
  : list (list choice) :=
  let s0 := fst (run (init sc) prefix) in let dl := delivered sc in
  rev (bfs_scheds depth dl exits max_states [state_key dl s0] [(s0, rev prefix)] []).

(* printing: I,C,W,T,X<uid> separated by ',', schedules separated by ';' *)
Fixpoint digits (fuel : nat) (n : Z) (acc : string) : string :=
  match fuel with
  | O => acc
  | S f => let d := String (ascii_of_nat (48 + Z.to_nat (n mod 10))) acc in
           if n / 10 =? 0 then d else digits f (n / 10) d
  end.
Definition show_z (n : Z) : string := digits 20 n EmptyString.
Definition show_choice (c : choice) : string :=
  match c with CI => "I" | CC => "C" | CW => "W" | CT => "T" | CX u _ => append "X" (show_z u) end.
Fixpoint show_sched (l : list choice) : string :=
  match l with
  | [] => EmptyString
  | [c] => show_choice c
  | c :: r => append (show_choice c) (append "," (show_sched r))
  end.
Fixpoint show_scheds (l : list (list choice)) : string :=
  match l with [] => EmptyString | s :: r => append (show_sched s) (append ";" (show_scheds r)) end.
