(* Exec.Model -- the Popen executor as four interleaved thread programs.

   Mirrors (branch by branch) the code of
     agent/executing/popen.py : work, _handle_task (one fallible step), _launch_task,
                                _watch/_check_running, cancel_task, is_canceled
     agent/executing/base.py  : control_cb, _to_watcher, handle_timeout
     utils/component.py       : work_cb (intake filter), is_canceled, _control_cb
     agent/launch_method/base.py : cancel_task
   Threads: I intake, C control/cancel handler, W process watcher, T timeout
   watcher; X is the environment step "process exits".  One step = one
   lock-protected region, or one statement that touches self._tasks /
   task['proc'] / the process table / the cancel list / the queues, or one
   advance()/publish().  Every step reports the recorded actions (events) it
   performs and its emissions -- the harness (harness/execlib.py) records the
   same on the real methods.  Definitions only. *)
From Coq Require Import ZArith List Bool.
Import ListNotations.
Open Scope Z_scope.

(* ---- inputs ---- *)
Inductive fault := FNone | FNoLauncher | FScript | FSpawn | FAfterSpawn.
(* d_stub: the launch process of the task outlives a kill (it is no process
   group leader / the payload detached / it hangs in uninterruptible I/O): the
   signals of LaunchMethod.cancel_task have no effect, the process ends only by
   itself (environment step X) *)
Record tdesc := mkTd { d_uid : Z; d_fault : fault; d_to : bool; d_stub : bool }.
Record scenario := mkSc { sc_batches : list (list tdesc); sc_cancels : list (list Z) }.
Inductive choice := CI | CC | CW | CT | CX (u code : Z).

(* ---- observations ---- *)
Definition event := (Z * Z * Z)%type.          (* kind, uid (or lock id), argument *)
Inductive tgt := TgNone | TgDone | TgFailed | TgCanceled.
Inductive est := SExecuting | SCanceled | SFailed | SStaging | SOther.
Definition item := (Z * option Z * tgt)%type.  (* uid, exit_code, target_state *)
Inductive emission :=
| EAdv (s : est) (items : list item) (push : bool)   (* self.advance(items, s, push=push) *)
| EUns (us : list Z)                                (* publish(AGENT_UNSCHEDULE_PUBSUB, us) *)
| EPub.                                             (* any other publication *)
Inductive thread := ThI | ThC | ThW | ThT | ThX.
Definition stepobs := (thread * list event * list emission)%type.

Definition ev (k u a : Z) : event := (k, u, a).
Definition b2z (b : bool) : Z := if b then 1 else 0.
Definition zlen {A} (l : list A) : Z := Z.of_nat (length l).

(* ---- process world ---- *)
Inductive pstate := PNone | PRunning | PStubborn | PExited (c : Z) | PKilled.
Definition is_running (p : pstate) : bool := match p with PRunning | PStubborn => true | _ => false end.

(* ---- program counters ---- *)
Inductive kpc := KGet | KPoll | KLock | KKill | KWait | KDel | KPub | KAdv.
Inductive itpc := ITUpdate | ITSpawn | ITPid | ITHto | ITPut | ITLate | ITK (k : kpc) | ITXLock | ITXPub | ITXAdv.
Inductive ipc :=
| IIdle
| IFilter (kept rest : list tdesc)
| IFilterPub (x : tdesc) (kept rest : list tdesc)
| IAdv (kept : list tdesc)
| ITask (pc : itpc) (x : tdesc) (rest : list tdesc).
Inductive cpc := CIdle | CLoop (us : list Z) | CK (k : kpc) (u : Z) (rest : list Z).
Inductive wtpc := WGet | WPoll | WWait (c : Z) | WDel (c : Z) | WLock (c : Z).
Inductive wpc :=
| WDrain
| WTask (pc : wtpc) (u : Z) (rest : list Z) (adv : list (Z * Z))
| WPub (adv : list (Z * Z))
| WAdv (adv : list (Z * Z)).
Inductive tpc := TAbsorb | TK (k : kpc) (u : Z) (rest : list Z).

Record state := mkSt {
  tasks : Z -> bool;          (* uid in self._tasks *)
  procattr : Z -> bool;       (* 'proc' in task dict *)
  world : Z -> pstate;        (* the process table *)
  clist : list Z;             (* self._cancel_list *)
  to_new : list Z;            (* self._to_tasks *)
  wq : list Z;                (* self._watch_queue *)
  ipc_ : ipc; i_rest : list (list tdesc);
  cpc_ : cpc; c_rest : list (list Z);
  wpc_ : wpc; w_watch : list Z;
  tpc_ : tpc }.

Definition upd {A} (f : Z -> A) (u : Z) (v : A) : Z -> A := fun x => if x =? u then v else f x.
Definition mem (u : Z) (l : list Z) : bool := existsb (Z.eqb u) l.
Fixpoint remove1 (u : Z) (l : list Z) : list Z :=
  match l with [] => [] | x :: r => if x =? u then r else x :: remove1 u r end.

Definition set_tasks s v := mkSt v (procattr s) (world s) (clist s) (to_new s) (wq s) (ipc_ s) (i_rest s) (cpc_ s) (c_rest s) (wpc_ s) (w_watch s) (tpc_ s).
Definition set_procattr s v := mkSt (tasks s) v (world s) (clist s) (to_new s) (wq s) (ipc_ s) (i_rest s) (cpc_ s) (c_rest s) (wpc_ s) (w_watch s) (tpc_ s).
Definition set_world s v := mkSt (tasks s) (procattr s) v (clist s) (to_new s) (wq s) (ipc_ s) (i_rest s) (cpc_ s) (c_rest s) (wpc_ s) (w_watch s) (tpc_ s).
Definition set_clist s v := mkSt (tasks s) (procattr s) (world s) v (to_new s) (wq s) (ipc_ s) (i_rest s) (cpc_ s) (c_rest s) (wpc_ s) (w_watch s) (tpc_ s).
Definition set_to_new s v := mkSt (tasks s) (procattr s) (world s) (clist s) v (wq s) (ipc_ s) (i_rest s) (cpc_ s) (c_rest s) (wpc_ s) (w_watch s) (tpc_ s).
Definition set_wq s v := mkSt (tasks s) (procattr s) (world s) (clist s) (to_new s) v (ipc_ s) (i_rest s) (cpc_ s) (c_rest s) (wpc_ s) (w_watch s) (tpc_ s).
Definition set_ipc s v := mkSt (tasks s) (procattr s) (world s) (clist s) (to_new s) (wq s) v (i_rest s) (cpc_ s) (c_rest s) (wpc_ s) (w_watch s) (tpc_ s).
Definition set_i_rest s v := mkSt (tasks s) (procattr s) (world s) (clist s) (to_new s) (wq s) (ipc_ s) v (cpc_ s) (c_rest s) (wpc_ s) (w_watch s) (tpc_ s).
Definition set_cpc s v := mkSt (tasks s) (procattr s) (world s) (clist s) (to_new s) (wq s) (ipc_ s) (i_rest s) v (c_rest s) (wpc_ s) (w_watch s) (tpc_ s).
Definition set_c_rest s v := mkSt (tasks s) (procattr s) (world s) (clist s) (to_new s) (wq s) (ipc_ s) (i_rest s) (cpc_ s) v (wpc_ s) (w_watch s) (tpc_ s).
Definition set_wpc s v := mkSt (tasks s) (procattr s) (world s) (clist s) (to_new s) (wq s) (ipc_ s) (i_rest s) (cpc_ s) (c_rest s) v (w_watch s) (tpc_ s).
Definition set_w_watch s v := mkSt (tasks s) (procattr s) (world s) (clist s) (to_new s) (wq s) (ipc_ s) (i_rest s) (cpc_ s) (c_rest s) (wpc_ s) v (tpc_ s).
Definition set_tpc s v := mkSt (tasks s) (procattr s) (world s) (clist s) (to_new s) (wq s) (ipc_ s) (i_rest s) (cpc_ s) (c_rest s) (wpc_ s) (w_watch s) v.

(* event kinds, as recorded by harness/execlib.py *)
Definition K_CLIST_BOOL := 1.  Definition K_LOCK := 2.  Definition K_CLIST_IN := 3.
Definition K_CLIST_REMOVE := 4.  Definition K_CLIST_EXTEND := 5.
Definition K_TASKS_UPDATE := 7.  Definition K_TASKS_IN := 8.  Definition K_TASKS_DEL := 9.
Definition K_TASKS_GET := 10.  Definition K_TASKS_POP := 11.
Definition K_SPAWN := 12.  Definition K_PROC_SET := 13.  Definition K_PROC_GET := 14.
Definition K_PROC_ITEM := 15.  Definition K_PROC_DEL := 16.  Definition K_PID := 17.
Definition K_POLL := 18.  Definition K_WAIT := 19.  Definition K_KILL := 20.
Definition K_WQ_PUT := 23.  Definition K_WQ_GET := 24.  Definition K_WQ_EMPTY := 25.  Definition K_EXIT := 26.
Definition K_CHECK := 27.      (* the watcher enters _check_running *)
Definition K_GSIG := 28.       (* a signal was sent to the process group of the executor itself (never by this model) *)
(* MAX_QUEUE_BULKSIZE of Popen._watch: at most that many tasks are pulled from the watch queue per round *)
Definition bulk : nat := 100.
Arguments bulk : simpl never.
Global Opaque bulk.          (* tactics keep it folded; vm_compute still evaluates it *)
Definition L_CHECK := 1.  Definition L_CANCEL := 2.  Definition L_TO := 3.

(* ---- Popen.cancel_task(task), one step; None = the call returned ---- *)
Definition kstep (u : Z) (k : kpc) (s : state) : state * option kpc * list event * list emission :=
  match k with
  | KGet =>          (* proc = task.get('proc'); if not proc: return *)
      let f := procattr s u in
      (s, if f then Some KPoll else None, [ev K_PROC_GET u (b2z f)], [])
  | KPoll =>         (* exit_code = proc.poll(); if exit_code is not None: return *)
      let r := is_running (world s u) in
      (s, if r then Some KLock else None, [ev K_POLL u (b2z (negb r))], [])
  | KLock =>         (* with self._check_lock: if tid not in self._tasks: return; del self._tasks[tid] *)
      let f := tasks s u in
      (set_tasks s (upd (tasks s) u false), if f then Some KKill else None,
       [ev K_LOCK L_CHECK 0; ev K_TASKS_IN u (b2z f)] ++ (if f then [ev K_TASKS_DEL u 1] else []), [])
  | KKill =>         (* launcher.cancel_task(task, proc.pid): killpg TERM, killpg KILL *)
      match world s u with
      | PRunning => (set_world s (upd (world s) u PKilled), Some KWait, [ev K_PID u 1; ev K_KILL u 1; ev K_KILL u 0], [])
      | PStubborn => (s, Some KWait, [ev K_PID u 1; ev K_KILL u 2; ev K_KILL u 2], [])   (* both signals without effect *)
      | _ => (s, Some KWait, [ev K_PID u 1; ev K_KILL u 0], [])                          (* OSError: already gone *)
      end
  | KWait =>         (* proc.wait(): blocks -- the thread has no step -- until the process has exited *)
      if is_running (world s u) then (s, Some KWait, [], [])
      else (s, Some KDel, [ev K_WAIT u 1], [])
  | KDel =>          (* try: del task['proc'] except KeyError *)
      (set_procattr s (upd (procattr s) u false), Some KPub, [ev K_PROC_DEL u (b2z (procattr s u))], [])
  | KPub =>          (* exit_code = None; target_state = CANCELED; publish(AGENT_UNSCHEDULE_PUBSUB, task) *)
      (s, Some KAdv, [], [EUns [u]])
  | KAdv =>          (* advance([task], AGENT_STAGING_OUTPUT_PENDING, publish=True, push=True) *)
      (s, None, [], [EAdv SStaging [(u, None, TgCanceled)] true])
  end.

(* ---- intake: BaseComponent.work_cb + Popen.work ---- *)
Definition filt_next (kept rest : list tdesc) : ipc :=
  match rest with
  | [] => match kept with [] => IIdle | _ => IAdv kept end
  | _ => IFilter kept rest
  end.
Definition next_task (rest : list tdesc) : ipc :=
  match rest with [] => IIdle | y :: r => ITask ITUpdate y r end.
Definition after_pid (x : tdesc) : itpc := if d_to x then ITHto else ITPut.
Definition exec_item (x : tdesc) : item := (d_uid x, None, TgNone).

Definition istep (s : state) : state * list event * list emission :=
  match ipc_ s with
  | IIdle =>
      match i_rest s with
      | [] => (s, [], [])                             (* thread finished *)
      | b :: bs =>      (* things = queue.get_nowait(); if self._cancel_list: ... *)
          let ne := negb (match clist s with [] => true | _ => false end) in
          (set_ipc (set_i_rest s bs) (if ne then filt_next [] b else filt_next b []),
           [ev K_CLIST_BOOL 0 (b2z ne)], [])
      end
  | IFilter kept rest =>
      match rest with
      | [] => (set_ipc s (filt_next kept []), [], [])   (* unreachable: filt_next never builds it *)
      | x :: r =>       (* Popen.is_canceled(x) -> BaseComponent.is_canceled(x), under _cancel_lock *)
          let u := d_uid x in
          if mem u (clist s)
          then (set_ipc (set_clist s (remove1 u (clist s))) (IFilterPub x kept r),
                [ev K_LOCK L_CANCEL 0; ev K_CLIST_IN u 1; ev K_CLIST_REMOVE u 0],
                [EAdv SCanceled [exec_item x] false])
          else (set_ipc s (filt_next (kept ++ [x]) r), [ev K_LOCK L_CANCEL 0; ev K_CLIST_IN u 0], [])
      end
  | IFilterPub x kept r =>   (* Popen.is_canceled: a task canceled on intake releases its slots *)
      (set_ipc s (filt_next kept r), [], [EUns [d_uid x]])
  | IAdv kept =>             (* work: advance_tasks(tasks, AGENT_EXECUTING, publish=True, push=False) *)
      (set_ipc s (next_task kept), [], [EAdv SExecuting (map exec_item kept) false])
  | ITask pc x rest =>
      let u := d_uid x in
      match pc with
      | ITUpdate =>          (* self._tasks.update({uid: task}); _handle_task up to the spawn *)
          (set_ipc (set_tasks s (upd (tasks s) u true))
                   (ITask (match d_fault x with FNoLauncher | FScript => ITXLock | _ => ITSpawn end) x rest),
           [ev K_TASKS_UPDATE u 0], [])
      | ITSpawn =>           (* task['proc'] = sp.Popen(...) *)
          match d_fault x with
          | FSpawn => (set_ipc s (ITask ITXLock x rest), [ev K_SPAWN u 0], [])
          | _ => (set_ipc (set_procattr (set_world s (upd (world s) u (if d_stub x then PStubborn else PRunning)))
                                        (upd (procattr s) u true))
                          (ITask ITPid x rest), [ev K_SPAWN u 1; ev K_PROC_SET u 0], [])
          end
      | ITPid =>             (* _pids.append(task['proc'].pid) *)
          if procattr s u
          then match d_fault x with
               | FAfterSpawn => (set_ipc s (ITask ITXLock x rest), [ev K_PROC_ITEM u 1; ev K_PID u 0], [])
               | _ => (set_ipc s (ITask (after_pid x) x rest), [ev K_PROC_ITEM u 1; ev K_PID u 1], [])
               end
          else (set_ipc s (ITask ITXLock x rest), [ev K_PROC_ITEM u 0], [])     (* KeyError: canceled meanwhile *)
      | ITHto =>             (* handle_timeout: with self._to_lock: self._to_tasks.append(...) *)
          (set_ipc (set_to_new s (to_new s ++ [u])) (ITask ITPut x rest), [ev K_LOCK L_TO (zlen (to_new s))], [])
      | ITPut =>             (* self._watch_queue.put(task) *)
          (set_ipc (set_wq s (wq s ++ [u])) (ITask ITLate x rest), [ev K_WQ_PUT u 0], [])
      | ITLate =>            (* with self._cancel_lock: canceled = tid in self._cancel_list *)
          let h := mem u (clist s) in
          (set_ipc s (if h then ITask (ITK KGet) x rest else next_task rest),
           [ev K_LOCK L_CANCEL 0; ev K_CLIST_IN u (b2z h)], [])
      | ITK k =>             (* self.cancel_task(task) *)
          let '(s', k', es, ms) := kstep u k s in
          (set_ipc s' (match k' with Some k2 => ITask (ITK k2) x rest | None => next_task rest end), es, ms)
      | ITXLock =>           (* except: with self._check_lock: if self._tasks.pop(uid, None) is None: continue *)
          let f := tasks s u in
          (set_ipc (set_tasks s (upd (tasks s) u false)) (if f then ITask ITXPub x rest else next_task rest),
           [ev K_LOCK L_CHECK 0; ev K_TASKS_POP u (b2z f)], [])
      | ITXPub =>            (* publish(AGENT_UNSCHEDULE_PUBSUB, task) *)
          (set_ipc s (ITask ITXAdv x rest), [], [EUns [u]])
      | ITXAdv =>            (* advance_tasks(task, FAILED, publish=True, push=False) *)
          (set_ipc s (next_task rest), [], [EAdv SFailed [exec_item x] false])
      end
  end.

(* ---- control: BaseComponent._control_cb + AgentExecutingComponent.control_cb ---- *)
Definition cloop_next (us : list Z) : cpc := match us with [] => CIdle | _ => CLoop us end.

Definition cstep (s : state) : state * list event * list emission :=
  match cpc_ s with
  | CIdle =>
      match c_rest s with
      | [] => (s, [], [])
      | m :: ms =>           (* with self._cancel_lock: self._cancel_list += uids *)
          (set_cpc (set_c_rest (set_clist s (clist s ++ m)) ms) (cloop_next m),
           [ev K_LOCK L_CANCEL 0; ev K_CLIST_EXTEND 0 (zlen m)], [])
      end
  | CLoop us =>
      match us with
      | [] => (set_cpc s CIdle, [], [])               (* unreachable *)
      | u :: r =>            (* task = self.get_task(tid); if task: self.cancel_task(task) *)
          let f := tasks s u in
          (set_cpc s (if f then CK KGet u r else cloop_next r), [ev K_TASKS_GET u (b2z f)], [])
      end
  | CK k u r =>
      let '(s', k', es, ms) := kstep u k s in
      (set_cpc s' (match k' with Some k2 => CK k2 u r | None => cloop_next r end), es, ms)
  end.

(* ---- watcher: Popen._watch + _check_running ---- *)
Definition witer_next (rest : list Z) (adv : list (Z * Z)) : wpc :=
  match rest with [] => WPub adv | u :: r => WTask WGet u r adv end.
Definition adv_item (a : Z * Z) : item :=
  (fst a, Some (snd a), if snd a =? 0 then TgDone else TgFailed).

Definition wstep (s : state) : state * list event * list emission :=
  match wpc_ s with
  | WDrain =>                (* while count < MAX_QUEUE_BULKSIZE: to_watch.append(self._watch_queue.get_nowait())
                                -- until queue.Empty or the bulk is full; then _check_running(to_watch) is entered *)
      let take := firstn bulk (wq s) in
      let tw := w_watch s ++ take in
      (set_wpc (set_w_watch (set_wq s (skipn bulk (wq s))) tw) (witer_next tw []),
       map (fun u => ev K_WQ_GET u 0) take
       ++ (if Nat.ltb (length take) bulk then [ev K_WQ_EMPTY 0 0] else []) ++ [ev K_CHECK 0 0], [])
  | WTask pc u r adv =>
      match pc with
      | WGet =>              (* task_proc = task.get('proc'); if None: to_watch.remove(task); continue *)
          if procattr s u
          then (set_wpc s (WTask WPoll u r adv), [ev K_PROC_GET u 1], [])
          else (set_wpc (set_w_watch s (remove1 u (w_watch s))) (witer_next r adv), [ev K_PROC_GET u 0], [])
      | WPoll =>             (* exit_code = task_proc.poll() *)
          match world s u with
          | PExited c => (set_wpc s (WTask (WWait c) u r adv), [ev K_POLL u 1], [])
          | PKilled => (set_wpc s (WTask (WWait (-9)) u r adv), [ev K_POLL u 1], [])
          | _ => (set_wpc s (witer_next r adv), [ev K_POLL u 0], [])
          end
      | WWait c =>           (* task_proc.wait(); to_watch.remove(task) *)
          (set_wpc (set_w_watch s (remove1 u (w_watch s))) (WTask (WDel c) u r adv),
           [ev K_WAIT u (b2z (negb (is_running (world s u))))], [])
      | WDel c =>            (* try: del task['proc'] except KeyError *)
          (set_wpc (set_procattr s (upd (procattr s) u false)) (WTask (WLock c) u r adv),
           [ev K_PROC_DEL u (b2z (procattr s u))], [])
      | WLock c =>           (* with self._check_lock: if tid not in self._tasks: continue; del self._tasks[tid] *)
          let f := tasks s u in
          (set_wpc (set_tasks s (upd (tasks s) u false)) (witer_next r (if f then adv ++ [(u, c)] else adv)),
           [ev K_LOCK L_CHECK 0; ev K_TASKS_IN u (b2z f)] ++ (if f then [ev K_TASKS_DEL u 1] else []), [])
      end
  | WPub adv =>              (* self.publish(AGENT_UNSCHEDULE_PUBSUB, tasks_to_advance) -- also when empty *)
      (set_wpc s (match adv with [] => WDrain | _ => WAdv adv end), [], [EUns (map fst adv)])
  | WAdv adv =>              (* self.advance(tasks_to_advance, AGENT_STAGING_OUTPUT_PENDING, push=True) *)
      (set_wpc s WDrain, [], [EAdv SStaging (map adv_item adv) true])
  end.

(* ---- timeout watcher: AgentExecutingComponent._to_watcher (every registered
        timeout is taken to have expired when the thread looks at it: the
        schedule decides when that is) ---- *)
Definition tloop_next (l : list Z) : tpc := match l with [] => TAbsorb | u :: r => TK KGet u r end.

Definition tstep (s : state) : state * list event * list emission :=
  match tpc_ s with
  | TAbsorb =>               (* with self._to_lock: to_tasks[uid] = ...; self._to_tasks = list() *)
      (set_tpc (set_to_new s []) (tloop_next (to_new s)), [ev K_LOCK L_TO (zlen (to_new s))], [])
  | TK k u r =>              (* self.cancel_task(task=task); del to_tasks[uid] *)
      let '(s', k', es, ms) := kstep u k s in
      (set_tpc s' (match k' with Some k2 => TK k2 u r | None => tloop_next r end), es, ms)
  end.

(* ---- environment: the process of task u exits with code c ---- *)
Definition xstep (u c : Z) (s : state) : state * list event * list emission :=
  if is_running (world s u)
  then (set_world s (upd (world s) u (PExited c)), [ev K_EXIT u c], [])
  else (s, [], []).

Definition thread_of (ch : choice) : thread :=
  match ch with CI => ThI | CC => ThC | CW => ThW | CT => ThT | CX _ _ => ThX end.

Definition exec_step (ch : choice) (s : state) : state * list event * list emission :=
  match ch with
  | CI => istep s | CC => cstep s | CW => wstep s | CT => tstep s | CX u c => xstep u c s
  end.

Fixpoint run (s : state) (sched : list choice) : state * list stepobs :=
  match sched with
  | [] => (s, [])
  | ch :: r =>
      let '(s1, es, ms) := exec_step ch s in
      let '(s2, tr) := run s1 r in
      (s2, (thread_of ch, es, ms) :: tr)
  end.

Definition nonempty {A} (l : list A) : bool := match l with [] => false | _ => true end.

Definition init (sc : scenario) : state :=
  mkSt (fun _ => false) (fun _ => false) (fun _ => PNone) [] [] []
       IIdle (filter nonempty (sc_batches sc)) CIdle (sc_cancels sc) WDrain [] TAbsorb.

Definition is_nil {A} (l : list A) : bool := match l with [] => true | _ => false end.

Definition quiescent (s : state) : bool :=
  match ipc_ s, cpc_ s, wpc_ s, tpc_ s with
  | IIdle, CIdle, WDrain, TAbsorb =>
      is_nil (i_rest s) && is_nil (c_rest s) && is_nil (to_new s) && is_nil (w_watch s) && is_nil (wq s)
  | _, _, _, _ => false
  end.

Definition delivered (sc : scenario) : list Z := map d_uid (concat (sc_batches sc)).
Definition named (sc : scenario) : list Z := concat (sc_cancels sc).
Definition emissions (tr : list stepobs) : list emission := concat (map snd tr).
