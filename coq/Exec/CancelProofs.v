(* Exec.CancelProofs -- the executor side of C08 (cancel stops the named tasks
   and nothing else), over the same model and by the same projection. *)
From Coq Require Import ZArith List Bool Lia.
From RP Require Import Common.Eqb Exec.Model Exec.Oracle Exec.Local Exec.LocalProofs Exec.Proj Exec.ProjProofs Exec.WfProofs Exec.Proofs.
Import ListNotations.
Local Open Scope Z_scope.

Definition fault_of (sc : scenario) (u : Z) : fault := k_fault (kof sc u).
Definition has_limit (sc : scenario) (u : Z) : bool := k_to (kof sc u).

Lemma kof_named sc u : k_named (kof sc u) = mem u (named sc).
Proof. unfold kof. destruct (find _ _); reflexivity. Qed.

Lemma quiescent_pcs k u s tr : quiescent s = true ->
  l_i (view k u s tr) = LiDone /\ l_c (view k u s tr) = LkOut /\ l_t (view k u s tr) = LkOut.
Proof.
  unfold quiescent. intros H.
  destruct (ipc_ s) eqn:EI; try discriminate H. destruct (cpc_ s) eqn:EC; try discriminate H.
  destruct (wpc_ s) eqn:EW; try discriminate H. destruct (tpc_ s) eqn:ET; try discriminate H.
  destruct (i_rest s) eqn:E1; [|discriminate H].
  cbn [view l_i l_c l_t]. unfold view_i, view_c, view_t, pos_in, later. rewrite EI, EC, ET, E1. repeat split; reflexivity.
Qed.

Lemma lworld_running p : lrunning (lworld_of p) = is_running p.
Proof. destruct p; reflexivity. Qed.

(* cancel_named_running: once a cancel_task(u) -- called for a cancel request
   (or a run-time limit) -- has found the process running and taken u out of
   self._tasks [own_of], u is never collected and never failed; at quiescence
   it has been handed on exactly once, as CANCELED, its resources were
   released exactly once, and its process does not run any more (it was
   killed, or had exited by itself before the kill). *)
Theorem cancel_named_running sc sched s tr u :
  NoDup (delivered sc) -> In u (delivered sc) -> run (init sc) sched = (s, tr) -> own_of u tr = true ->
  let ems := emissions tr in
  n_collected u ems = 0%nat /\ n_adv SFailed u ems = 0%nat /\
  (quiescent s = true ->
   n_canceled u ems = 1%nat /\ n_adv SStaging u ems = 1%nat /\ n_hand u ems = 1%nat /\ n_uns u ems = 1%nat /\
   is_running (world s u) = false).
Proof.
  intros ND HI HR HO ems. pose proof (run_safe _ _ _ _ _ ND HI HR) as S.
  unfold safe in S. apply andb_true_iff in S as [S _]. apply andb_true_iff in S as [_ S].
  unfold safe_cancel in S. apply andb_true_iff in S as [S S4]. apply andb_true_iff in S as [_ S3].
  change (l_own (view (kof sc u) u s tr)) with (own_of u tr) in *. rewrite HO in *. cbn [negb orb andb] in *.
  assert (C0 : n_collected u ems = 0%nat /\ n_adv SFailed u ems = 0%nat).
  { apply orb_true_iff in S3 as [S3|S3].
    - apply andb_true_iff in S3 as [S3 _].
      cbn [view l_n cnt_of c_coll c_fail] in S3. fold ems in S3. boolnat S3. rewrite !sat_min in S3. lia.
    - destruct (l_c (view (kof sc u) u s tr)) as [|[]], (l_t (view (kof sc u) u s tr)) as [|[]],
        (l_i (view (kof sc u) u s tr)) as [| | | |[| | | | | |[]| | |]|]; try discriminate S3;
        cbn [view l_n cnt_of c_coll c_fail] in S3; fold ems in S3; boolnat S3; rewrite !sat_min in S3; lia. }
  split; [exact (proj1 C0)|]. split; [exact (proj2 C0)|].
  intros Q. destruct (exactly_once _ _ _ _ _ ND HI HR Q) as (E1 & E2 & E3 & E4). fold ems in E1, E2, E3.
  rewrite (quiescent_local _ _ _ _ Q) in S4. cbn [view l_n cnt_of c_cncl c_stage] in S4. fold ems in S4.
  boolnat S4. rewrite !sat_min in S4.
  destruct (quiescent_pcs (kof sc u) u s tr Q) as (P1 & P2 & P3).
  rewrite P1, P2, P3 in S3. rewrite orb_false_r in S3. apply andb_true_iff in S3 as [_ S3].
  cbn [view l_sh h_world] in S3. rewrite lworld_running in S3. apply negb_true_iff in S3.
  repeat split; try assumption; lia.
Qed.

(* cancel_later_met, step level: the intake filter meets a task whose uid is
   on the cancel list: it is advanced CANCELED there, taken out of the batch
   (the next step publishes the unschedule message), and work() never sees it *)
Theorem cancel_later_met_step s kept x r :
  ipc_ s = IFilter kept (x :: r) -> mem (d_uid x) (clist s) = true ->
  exists s', istep s = (s', [ev K_LOCK L_CANCEL 0; ev K_CLIST_IN (d_uid x) 1; ev K_CLIST_REMOVE (d_uid x) 0],
                        [EAdv SCanceled [exec_item x] false])
             /\ ipc_ s' = IFilterPub x kept r /\ tasks s' = tasks s /\ world s' = world s.
Proof.
  intros EI EM. unfold istep. rewrite EI, EM. eexists. split; [reflexivity|]. fields. repeat split; reflexivity.
Qed.

(* cancel_later_met, run level: a task canceled at intake was never launched
   nor announced as executing *)
Theorem cancel_later_met sc sched s tr u :
  NoDup (delivered sc) -> In u (delivered sc) -> run (init sc) sched = (s, tr) ->
  (0 < n_adv SCanceled u (emissions tr))%nat ->
  world s u = PNone /\ n_adv SExecuting u (emissions tr) = 0%nat /\ n_adv SCanceled u (emissions tr) = 1%nat.
Proof.
  intros ND HI HR HC. pose proof (run_safe _ _ _ _ _ ND HI HR) as S.
  destruct (at_most_once _ _ _ _ _ ND HI HR) as (_ & A2 & _). unfold n_hand in A2.
  unfold safe in S. apply andb_true_iff in S as [S _]. apply andb_true_iff in S as [_ S].
  unfold safe_cancel in S. apply andb_true_iff in S as [S _]. apply andb_true_iff in S as [S _].
  apply andb_true_iff in S as [_ S2].
  cbn [view l_n l_sh cnt_of c_canc c_exec h_world] in S2. apply orb_true_iff in S2 as [S2|S2].
  - boolnat S2. rewrite sat_min in S2. lia.
  - apply andb_true_iff in S2 as [S2 S2']. boolnat S2'. rewrite sat_min in S2'.
    destruct (world s u); try discriminate S2. repeat split; lia.
Qed.

(* bystanders_untouched_exec: a delivered task that no request names and that
   has no run-time limit is never killed and never canceled, whatever
   requests there are and whatever the schedule; at quiescence it has been
   handed on exactly once with its own outcome -- FAILED if it cannot be
   launched, else collected with its process' exit code *)
Theorem bystanders_untouched_exec sc sched s tr u :
  NoDup (delivered sc) -> In u (delivered sc) -> run (init sc) sched = (s, tr) ->
  mem u (named sc) = false -> has_limit sc u = false ->
  let ems := emissions tr in
  world s u <> PKilled /\ n_canceled u ems = 0%nat /\ own_of u tr = false /\
  (quiescent s = true ->
   n_adv SExecuting u ems = 1%nat /\ n_uns u ems = 1%nat /\
   match fault_of sc u with
   | FNone => n_collected u ems = 1%nat /\ n_adv SStaging u ems = 1%nat /\ n_adv SFailed u ems = 0%nat
   | _ => n_adv SFailed u ems = 1%nat /\ n_adv SStaging u ems = 0%nat /\ n_collected u ems = 0%nat
   end).
Proof.
  intros ND HI HR HN HT ems. pose proof (run_safe _ _ _ _ _ ND HI HR) as S.
  destruct (at_most_once _ _ _ _ _ ND HI HR) as (A1 & A2 & A3 & A4 & A5). fold ems in A1, A2, A3, A4, A5.
  unfold safe in S. apply andb_true_iff in S as [S SB]. apply andb_true_iff in S as [S _]. apply andb_true_iff in S as [SA _].
  unfold safe_bystander in SB. cbn [view l_k] in SB. rewrite kof_named, HN in SB. unfold has_limit in HT. rewrite HT in SB.
  cbn [orb] in SB. apply andb_true_iff in SB as [SB SQ]. apply andb_true_iff in SB as [SB S3]. apply andb_true_iff in SB as [S1 S2].
  cbn [view l_sh l_n l_own h_world cnt_of c_cncl] in S1, S2, S3. fold ems in S2.
  boolnat S2. rewrite sat_min in S2. apply negb_true_iff in S3.
  split; [|split; [lia|split; [exact S3|]]].
  - intros E. rewrite E in S1. discriminate S1.
  - intros Q. destruct (exactly_once _ _ _ _ _ ND HI HR Q) as (E1 & E2 & E3 & _). fold ems in E1, E2, E3.
    rewrite (quiescent_local _ _ _ _ Q) in SQ. cbn [negb orb] in SQ.
    unfold safe_always in SA. cbn [view l_n l_w cnt_of c_exec c_canc c_fail c_stage c_coll c_cncl c_uns hand le1] in SA.
    fold ems in SA. boolnat SA. rewrite !sat_min in SA.
    assert (Hc : n_adv SCanceled u ems = 0%nat).
    { destruct (Nat.eq_dec (n_adv SCanceled u ems) 0) as [|N]; [assumption|].
      destruct (cancel_later_met _ _ _ _ _ ND HI HR) as (_ & _ & C); [fold ems; lia|]. fold ems in C.
      assert (n_canceled u ems >= n_adv SCanceled u ems)%nat.
      { clear. induction ems as [|[[] items []|us|] e IH]; cbn [n_canceled n_adv est_eqb counts andb]; lia. }
      lia. }
    unfold fault_of. unfold n_hand in E2.
    destruct (k_fault (kof sc u)); cbn [view l_n cnt_of c_coll c_fail c_stage] in SQ; fold ems in SQ;
      boolnat SQ; rewrite !sat_min in SQ; repeat split; lia.
Qed.

(* consequently two runs -- with whatever requests (none, or requests naming
   other tasks) and whatever schedules -- give a bystander the same outcome *)
Definition outcome (u : Z) (ems : list emission) : list nat :=
  [n_adv SExecuting u ems; n_adv SStaging u ems; n_adv SFailed u ems; n_adv SCanceled u ems;
   n_collected u ems; n_canceled u ems; n_uns u ems].

Theorem bystander_same_outcome sc1 sc2 sched1 sched2 s1 tr1 s2 tr2 u :
  sc_batches sc1 = sc_batches sc2 ->
  NoDup (delivered sc1) -> In u (delivered sc1) ->
  run (init sc1) sched1 = (s1, tr1) -> run (init sc2) sched2 = (s2, tr2) ->
  quiescent s1 = true -> quiescent s2 = true ->
  mem u (named sc1) = false -> mem u (named sc2) = false -> has_limit sc1 u = false ->
  outcome u (emissions tr1) = outcome u (emissions tr2).
Proof.
  intros EB ND HI R1 R2 Q1 Q2 N1 N2 HT.
  assert (ED : delivered sc2 = delivered sc1) by (unfold delivered; rewrite EB; reflexivity).
  assert (HT2 : has_limit sc2 u = false).
  { unfold has_limit in *. unfold kof in *. rewrite EB in HT. destruct (find _ _); exact HT. }
  assert (EF : fault_of sc2 u = fault_of sc1 u).
  { unfold fault_of, kof. rewrite EB. destruct (find _ _); reflexivity. }
  destruct (bystanders_untouched_exec _ _ _ _ _ ND HI R1 N1 HT) as (_ & C1 & _ & B1).
  assert (ND2 : NoDup (delivered sc2)) by (rewrite ED; exact ND).
  assert (HI2 : In u (delivered sc2)) by (rewrite ED; exact HI).
  destruct (bystanders_untouched_exec _ _ _ _ _ ND2 HI2 R2 N2 HT2) as (_ & C2 & _ & B2).
  specialize (B1 Q1). specialize (B2 Q2). rewrite EF in B2.
  destruct (exactly_once _ _ _ _ _ ND HI R1 Q1) as (X1 & _). destruct (exactly_once _ _ _ _ _ ND2 HI2 R2 Q2) as (X2 & _).
  unfold outcome. destruct (fault_of sc1 u); destruct B1 as (a1 & a2 & a3 & a4 & a5), B2 as (b1 & b2 & b3 & b4 & b5);
    (replace (n_adv SExecuting u (emissions tr1)) with (n_adv SExecuting u (emissions tr2)) by lia;
     replace (n_adv SStaging u (emissions tr1)) with (n_adv SStaging u (emissions tr2)) by lia;
     replace (n_adv SFailed u (emissions tr1)) with (n_adv SFailed u (emissions tr2)) by lia;
     replace (n_adv SCanceled u (emissions tr1)) with (n_adv SCanceled u (emissions tr2)) by lia;
     replace (n_collected u (emissions tr1)) with (n_collected u (emissions tr2)) by lia;
     replace (n_canceled u (emissions tr1)) with (n_canceled u (emissions tr2)) by lia;
     replace (n_uns u (emissions tr1)) with (n_uns u (emissions tr2)) by lia; reflexivity).
Qed.
