(* Exec.LocalProofs -- the computed set of local states is closed under the
   local moves and contains the initial states; every clause of `safe` holds
   on it.  Hence `safe` holds in every reachable local state. *)
From Coq Require Import ZArith List Bool PArith FMapPositive Lia.
From RP Require Import Exec.Model Exec.Local.
Import ListNotations.
Local Open Scope nat_scope.

(* ---- lstate_eqb decides equality ---- *)
Lemma fault_n_inj a b : N.eqb (fault_n a) (fault_n b) = true -> a = b.
Proof. destruct a, b; simpl; intros H; try reflexivity; discriminate H. Qed.
Lemma kpc_n_inj a b : kpc_n a = kpc_n b -> a = b.
Proof. destruct a, b; simpl; intros H; try reflexivity; discriminate H. Qed.
Lemma itpc_n_inj a b : itpc_n a = itpc_n b -> a = b.
Proof.
  destruct a as [| | | | | |ka| | |], b as [| | | | | |kb| | |];
    try destruct ka; try destruct kb; intros H; try reflexivity; vm_compute in H; discriminate H.
Qed.
Lemma li_n_inj a b : N.eqb (li_n a) (li_n b) = true -> a = b.
Proof.
  intros H; apply N.eqb_eq in H.
  destruct a as [| | | |[| | | | | |ka| | |]|], b as [| | | |[| | | | | |kb| | |]|];
    try destruct ka; try destruct kb; try reflexivity; vm_compute in H; discriminate H.
Qed.
Lemma lk_n_inj a b : N.eqb (lk_n a) (lk_n b) = true -> a = b.
Proof.
  intros H; apply N.eqb_eq in H.
  destruct a as [|[]], b as [|[]]; try reflexivity; vm_compute in H; discriminate H.
Qed.
Lemma lwt_n_inj a b : lwt_n a = lwt_n b -> a = b.
Proof. destruct a, b; simpl; intros H; try reflexivity; discriminate H. Qed.
Lemma lwph_n_inj a b : N.eqb (lwph_n a) (lwph_n b) = true -> a = b.
Proof.
  intros H; apply N.eqb_eq in H.
  destruct a as [| |[]| |], b as [| |[]| |]; try reflexivity; vm_compute in H; discriminate H.
Qed.
Lemma lworld_n_inj a b : N.eqb (lworld_n a) (lworld_n b) = true -> a = b.
Proof. destruct a, b; simpl; intros H; try reflexivity; discriminate H. Qed.

Lemma lstate_eqb_eq a b : lstate_eqb a b = true -> a = b.
Proof.
  destruct a as [[fa na ta sa] [hta hpa hwa] ia ca tta [wia wwa wita wada wpa] [c1 c2 c3 c4 c5 c6 c7] oa].
  destruct b as [[fb nb tb sb] [htb hpb hwb] ib cb ttb [wib wwb witb wadb wpb] [d1 d2 d3 d4 d5 d6 d7] ob].
  unfold lstate_eqb; cbn [l_k l_sh l_i l_c l_t l_w l_n l_own k_fault k_named k_to k_stub h_tasks h_proc h_world
                          f_inq f_watch f_iter f_adv f_ph c_exec c_canc c_fail c_stage c_coll c_cncl c_uns].
  intros H. repeat (apply andb_true_iff in H; destruct H as [H ?]).
  repeat match goal with
         | X : Bool.eqb _ _ = true |- _ => apply Bool.eqb_prop in X
         | X : Nat.eqb _ _ = true |- _ => apply Nat.eqb_eq in X
         end.
  apply fault_n_inj in H.
  repeat match goal with
         | X : N.eqb (lworld_n _) _ = true |- _ => apply lworld_n_inj in X
         | X : N.eqb (li_n _) _ = true |- _ => apply li_n_inj in X
         | X : N.eqb (lk_n _) _ = true |- _ => apply lk_n_inj in X
         | X : N.eqb (lwph_n _) _ = true |- _ => apply lwph_n_inj in X
         end.
  subst. reflexivity.
Qed.

(* ---- any set that passes `check` ---- *)
Definition check (m : lset) : bool :=
  closed m && all_in m safe && forallb (fun v => in_set v m) linits.

Section Checked.
Variable m : lset.
Hypothesis Hm : check m = true.

Definition InS (v : lstate) : Prop := in_set v m = true.

Lemma m_checks :
  closed m = true /\ all_in m safe = true /\ forallb (fun v => in_set v m) linits = true.
Proof.
  pose proof Hm as C. unfold check in C.
  apply andb_true_iff in C as [C C3]. apply andb_true_iff in C as [C1 C2]. auto.
Qed.

Lemma InS_elements v : InS v -> In (enc v, v) (PM.elements m).
Proof.
  unfold InS, in_set. intros H.
  destruct (PM.find (enc v) m) as [v0|] eqn:E; [|discriminate H].
  apply lstate_eqb_eq in H. subst v0. apply PM.elements_correct. exact E.
Qed.

Lemma fold_and (p : lstate -> bool) (l : list (positive * lstate)) : forall acc,
  fold_left (fun a (kv : positive * lstate) => a && p (snd kv)) l acc = true ->
  acc = true /\ forall kv, In kv l -> p (snd kv) = true.
Proof.
  induction l as [|x l IH]; intros acc H; cbn [fold_left] in H.
  - split; [exact H | intros kv []].
  - destruct (IH _ H) as [Ha Hl]. apply andb_true_iff in Ha as [Ha Hx].
    split; [exact Ha|]. intros kv [<-|Hk]; [exact Hx | exact (Hl _ Hk)].
Qed.

Lemma allp_spec (mm : lset) p : allp mm p = true -> forall kv, In kv (PM.elements mm) -> p (snd kv) = true.
Proof.
  unfold allp. rewrite PM.fold_1. intros H. exact (proj2 (fold_and p _ _ H)).
Qed.

Lemma InS_next v v' : InS v -> In v' (lnext v) -> InS v'.
Proof.
  intros Hv Hn. destruct m_checks as [C _].
  pose proof (allp_spec _ _ C _ (InS_elements _ Hv)) as C'. cbn [snd] in C'. rewrite forallb_forall in C'.
  exact (C' _ Hn).
Qed.

Lemma InS_safe v : InS v -> safe v = true.
Proof.
  intros Hv. destruct m_checks as [_ [C _]].
  exact (allp_spec _ _ C _ (InS_elements _ Hv)).
Qed.

Lemma all_consts_complete k : In k all_consts.
Proof. destruct k as [[] [] [] []]; vm_compute; repeat (first [left; reflexivity | right]). Qed.

Lemma InS_init k : InS (linit k).
Proof.
  destruct m_checks as [_ [_ C]].
  rewrite forallb_forall in C.
  assert (H : In (linit k) linits) by (unfold linits; apply in_map; apply all_consts_complete).
  unfold InS. exact (C _ H).
Qed.
End Checked.

(* ---- the computed set passes (this is the finite part, done by the kernel) ---- *)
Lemma reach_set_checked : check reach_set = true.
Proof. vm_cast_no_check (eq_refl true). Qed.     (* the kernel evaluates the check once, at Qed *)

(* ---- reachability in the local transition system ---- *)
Inductive lreach (k : lconst) : lstate -> Prop :=
| lr_init : lreach k (linit k)
| lr_step v v' : lreach k v -> In v' (lnext v) -> lreach k v'.

Lemma lreach_InS k v : lreach k v -> InS reach_set v.
Proof.
  induction 1 as [|v v' _ IH Hn];
    [exact (InS_init reach_set reach_set_checked k) | exact (InS_next reach_set reach_set_checked _ _ IH Hn)].
Qed.

Theorem lreach_safe k v : lreach k v -> safe v = true.
Proof. intros H. exact (InS_safe reach_set reach_set_checked _ (lreach_InS _ _ H)). Qed.
