(* Exec.PollProofs -- a task is handed on as CANCELED by cancel_task only if the
   same invocation's proc.poll() reported a running process
   (Oracle.ok_cancel_polled), for every scenario and every schedule of
   Exec.Model: a task whose process had exited before the poll -- with
   whatever exit code -- is left to the watcher and keeps its own outcome. *)
From Coq Require Import ZArith List Bool Lia.
From RP Require Import Common.Eqb Exec.Model Exec.Oracle Exec.Local Exec.Proj Exec.ProjProofs Exec.WfProofs.
Import ListNotations.
Local Open Scope Z_scope.

(* cancel_task is past its poll *)
Definition late (k : kpc) : bool := match k with KGet | KPoll => false | _ => true end.

(* the invariant: a thread that is past the poll of cancel_task(u) has seen a running process *)
Definition pinv (u : Z) (s : state) (pI pC pT : bool) : Prop :=
  (forall k x r, ipc_ s = ITask (ITK k) x r -> d_uid x = u -> late k = true -> pI = true) /\
  (forall k r, cpc_ s = CK k u r -> late k = true -> pC = true) /\
  (forall k r, tpc_ s = TK k u r -> late k = true -> pT = true).

Lemma staged_canceled_other u x s0 c t p : x <> u -> staged_canceled u (EAdv s0 [(x, c, t)] p) = false.
Proof. intros N. unfold staged_canceled. destruct s0; try reflexivity. cbn. rewrite (neq_eqb _ _ N). reflexivity. Qed.

(* one step of cancel_task(x) *)
Lemma kstep_pol u x k s s1 k' es ms b :
  kstep x k s = (s1, k', es, ms) ->
  let b' := fold_left (pol_ev u) es b in
  (existsb (staged_canceled u) ms = true -> late k = true /\ x = u) /\
  (late k = true -> b' = b) /\
  (forall k2, k' = Some k2 -> late k2 = true -> x = u -> (late k = true -> b = true) -> b' = true).
Proof.
  intros H b'. subst b'.
  destruct k; cbn [kstep] in H;
    repeat match type of H with context [match ?X with _ => _ end] => destruct X eqn:? end;
    inversion H; subst; clear H; cbn [fold_left app existsb late].
  all: repeat split; try discriminate; try (intros; reflexivity); try (intros; discriminate).
  all: try (intros k2 E; inversion E; subst; cbn [late]; try discriminate).
  all: unfold pol_ev, ev, K_POLL, K_PROC_GET, K_LOCK, K_TASKS_IN, K_TASKS_DEL, K_PID, K_KILL, K_WAIT, K_PROC_DEL, L_CHECK;
    cbn [Z.eqb Pos.eqb andb]; auto.
  all: try (intros _ ->; rewrite Z.eqb_refl; reflexivity).
  all: try (intros Hs; unfold staged_canceled in Hs; cbn in Hs; rewrite orb_false_r, andb_true_r in Hs;
            apply Z.eqb_eq in Hs; auto).
  all: try (intros _ _ HH; apply HH; reflexivity).
  all: try (match goal with H : staged_canceled _ _ || false = true |- _ =>
              unfold staged_canceled in H; cbn in H; rewrite !orb_false_r, andb_true_r in H; apply Z.eqb_eq in H; exact H end).
Qed.

Lemma staged_adv_items u adv : staged_canceled u (EAdv SStaging (map adv_item adv) true) = false.
Proof.
  unfold staged_canceled. induction adv as [|[x c] adv IH]; [reflexivity|].
  cbn [map existsb adv_item fst snd]. destruct (c =? 0); cbn [tgt_eqb]; rewrite andb_false_r; exact IH.
Qed.

(* intake steps outside cancel_task: nothing is handed on as CANCELED, and cancel_task is entered at its start *)
Lemma istep_nonk u s s' es ms :
  (forall k x r, ipc_ s <> ITask (ITK k) x r) -> istep s = (s', es, ms) ->
  existsb (staged_canceled u) ms = false /\ (forall k x r, ipc_ s' = ITask (ITK k) x r -> late k = false).
Proof.
  intros NK. unfold istep. destruct (ipc_ s) as [|kept rest|x0 kept r0|kept|pc x0 rest] eqn:EI.
  - destruct (i_rest s) as [|b bs]; intros H; inversion H; subst; fields; (split; [reflexivity|]); intros k x r E.
    + rewrite EI in E. discriminate E.
    + unfold filt_next in E. destruct (negb _), b; discriminate E.
  - destruct rest as [|x1 r1]; [|destruct (mem (d_uid x1) (clist s))]; intros H; inversion H; subst; fields;
      (split; [reflexivity|]); intros k x r E; unfold filt_next in E; try discriminate E.
    + destruct kept; discriminate E.
    + destruct r1; [destruct (kept ++ [x1])|]; discriminate E.
  - intros H; inversion H; subst; fields. split; [reflexivity|]. intros k x r E. unfold filt_next in E.
    destruct r0; [destruct kept|]; discriminate E.
  - intros H; inversion H; subst; fields. split; [reflexivity|]. intros k x r E. unfold next_task in E.
    destruct kept; discriminate E.
  - assert (Hn : forall k x r, next_task rest = ITask (ITK k) x r -> late k = false).
    { intros k x r E. unfold next_task in E. destruct rest; discriminate E. }
    destruct pc as [| | | | | |kk| | |]; try (exfalso; exact (NK kk x0 rest eq_refl)).
    + intros H; inversion H; subst; fields. split; [reflexivity|]. intros k x r E. destruct (d_fault x0); discriminate E.
    + destruct (d_fault x0); intros H; inversion H; subst; fields; (split; [reflexivity|]); intros k x r E; discriminate E.
    + destruct (procattr s (d_uid x0)); [destruct (d_fault x0)|]; intros H; inversion H; subst; fields;
        (split; [reflexivity|]); intros k x r E; try discriminate E; unfold after_pid in E; destruct (d_to x0); discriminate E.
    + intros H; inversion H; subst; fields. split; [reflexivity|]. intros k x r E. discriminate E.
    + intros H; inversion H; subst; fields. split; [reflexivity|]. intros k x r E. discriminate E.
    + intros H; inversion H; subst; fields. split; [reflexivity|]. intros k x r E.
      destruct (mem (d_uid x0) (clist s)); [inversion E; reflexivity | exact (Hn _ _ _ E)].
    + intros H; inversion H; subst; fields. split; [reflexivity|]. intros k x r E.
      destruct (tasks s (d_uid x0)); [discriminate E | exact (Hn _ _ _ E)].
    + intros H; inversion H; subst; fields. split; [reflexivity|]. intros k x r E. discriminate E.
    + intros H; inversion H; subst; fields. split; [reflexivity|]. intros k x r E. exact (Hn _ _ _ E).
Qed.

Lemma late_false_vac k : late k = false -> late k = true -> False.
Proof. intros A B. congruence. Qed.

Theorem step_pol u ch s s1 es ms pI pC pT :
  pinv u s pI pC pT -> exec_step ch s = (s1, es, ms) ->
  let t := thread_of ch in
  let pI' := pol_upd u t ThI es pI in let pC' := pol_upd u t ThC es pC in let pT' := pol_upd u t ThT es pT in
  pinv u s1 pI' pC' pT' /\
  (negb (existsb (staged_canceled u) ms) || match t with ThI => pI' | ThC => pC' | ThT => pT' | _ => false end) = true.
Proof.
  intros (PI & PC & PT) H. destruct ch; cbn [exec_step thread_of] in *; cbv zeta; unfold pol_upd; cbn [thread_eqb].
  - (* intake *)
    destruct (istep_keeps _ _ _ _ H) as (K1 & K2 & K3 & _ & _).
    assert (PCT : (forall k r, cpc_ s1 = CK k u r -> late k = true -> pC = true) /\
                  (forall k r, tpc_ s1 = TK k u r -> late k = true -> pT = true))
      by (rewrite K1, K3; auto).
    destruct (ipc_ s) as [| | | |pc x rest] eqn:EI.
    1-4: (destruct (istep_nonk u s s1 es ms) as [A B]; [intros k9 x9 r9; rewrite EI; discriminate | exact H |];
          rewrite A; split; [|reflexivity]; split; [|exact PCT];
          intros k9 x9 r9 E _ L; exfalso; exact (late_false_vac _ (B _ _ _ E) L)).
    destruct pc as [| | | | | |kk| | |].
    7: { unfold istep in H. rewrite EI in H.
         destruct (kstep (d_uid x) kk s) as [[[s2 k'] es1] ms1] eqn:EK. inversion H; subst s1 es ms; clear H.
         destruct (kstep_pol u (d_uid x) kk s s2 k' es1 ms1 pI EK) as (A & B & C).
         split; [split; [|exact PCT]|].
         - fields. intros k x0 r E Eu L. destruct k' as [k2|].
           + inversion E; subst. apply (C k eq_refl L eq_refl). intros L0. exact (PI kk x0 r eq_refl eq_refl L0).
           + exfalso. unfold next_task in E. destruct rest; discriminate E.
         - destruct (existsb (staged_canceled u) ms1) eqn:Es; [|reflexivity]. cbn [negb orb].
           destruct (A eq_refl) as [L Eu]. rewrite (B L). exact (PI kk x rest eq_refl Eu L). }
    all: (destruct (istep_nonk u s s1 es ms) as [A B]; [intros k9 x9 r9; rewrite EI; discriminate | exact H |];
          rewrite A; split; [|reflexivity]; split; [|exact PCT];
          intros k9 x9 r9 E _ L; exfalso; exact (late_false_vac _ (B _ _ _ E) L)).
  - (* control *)
    destruct (cstep_keeps _ _ _ _ H) as (K1 & _ & K3 & _).
    assert (PIT : (forall k x r, ipc_ s1 = ITask (ITK k) x r -> d_uid x = u -> late k = true -> pI = true) /\
                  (forall k r, tpc_ s1 = TK k u r -> late k = true -> pT = true))
      by (rewrite K1, K3; auto).
    destruct PIT as [PI1 PT1]. unfold cstep in H. destruct (cpc_ s) as [|us|kk x r] eqn:EC.
    + destruct (c_rest s) as [|m ms']; inversion H; subst s1 es ms; clear H; fields; (split; [|reflexivity]);
        (split; [exact PI1 | split; [|exact PT1]]); intros k r E L.
      * rewrite EC in E. discriminate E.
      * destruct m; discriminate E.
    + destruct us as [|u0 r]; inversion H; subst s1 es ms; clear H; fields; (split; [|reflexivity]);
        (split; [exact PI1 | split; [|exact PT1]]); intros k r0 E L.
      * discriminate E.
      * destruct (tasks s u0); [inversion E; subst; discriminate L | destruct r; discriminate E].
    + destruct (kstep x kk s) as [[[s2 k'] es1] ms1] eqn:EK. inversion H; subst s1 es ms; clear H.
      destruct (kstep_pol u x kk s s2 k' es1 ms1 pC EK) as (A & B & C).
      split; [split; [exact PI1 | split; [|exact PT1]]|].
      * fields. intros k r0 E L. destruct k' as [k2|].
        -- inversion E; subst. apply (C k eq_refl L eq_refl). intros L0. exact (PC kk r0 eq_refl L0).
        -- exfalso. destruct r; discriminate E.
      * destruct (existsb (staged_canceled u) ms1) eqn:Es; [|reflexivity]. cbn [negb orb].
        destruct (A eq_refl) as [L Eu]. subst x. rewrite (B L). exact (PC kk r eq_refl L).
  - (* watcher *)
    destruct (wstep_keeps _ _ _ _ H) as (K1 & _ & K3 & _ & _ & K6 & _).
    split; [split; [|split]; rewrite ?K1, ?K3, ?K6; auto|].
    rewrite orb_false_r. apply negb_true_iff.
    unfold wstep in H. destruct (wpc_ s) as [|pc x r adv|adv|adv].
    + inversion H; reflexivity.
    + destruct pc; revert H; split_match; intros H; inversion H; reflexivity.
    + inversion H; reflexivity.
    + inversion H; subst. cbn [existsb]. rewrite staged_adv_items. reflexivity.
  - (* timeout watcher *)
    destruct (tstep_keeps _ _ _ _ H) as (K1 & _ & K3 & _).
    assert (PIC : (forall k x r, ipc_ s1 = ITask (ITK k) x r -> d_uid x = u -> late k = true -> pI = true) /\
                  (forall k r, cpc_ s1 = CK k u r -> late k = true -> pC = true))
      by (rewrite K1, K3; auto).
    destruct PIC as [PI1 PC1]. unfold tstep in H. destruct (tpc_ s) as [|kk x r] eqn:EC.
    + inversion H; subst s1 es ms; clear H; fields. split; [|reflexivity].
      split; [exact PI1 | split; [exact PC1|]]. intros k r E L.
      destruct (to_new s); [discriminate E | inversion E; subst; discriminate L].
    + destruct (kstep x kk s) as [[[s2 k'] es1] ms1] eqn:EK. inversion H; subst s1 es ms; clear H.
      destruct (kstep_pol u x kk s s2 k' es1 ms1 pT EK) as (A & B & C).
      split; [split; [exact PI1 | split; [exact PC1|]]|].
      * fields. intros k r0 E L. destruct k' as [k2|].
        -- inversion E; subst. apply (C k eq_refl L eq_refl). intros L0. exact (PT kk r0 eq_refl L0).
        -- exfalso. destruct r; [discriminate E | inversion E; subst; discriminate L].
      * destruct (existsb (staged_canceled u) ms1) eqn:Es; [|reflexivity]. cbn [negb orb].
        destruct (A eq_refl) as [L Eu]. subst x. rewrite (B L). exact (PT kk r eq_refl L).
  - (* environment *)
    unfold xstep in H. destruct (is_running (world s u0)); inversion H; subst; fields; (split; [|reflexivity]);
      (split; [exact PI | split; [exact PC | exact PT]]).
Qed.

Lemma run_polled u : forall sched s pI pC pT s' tr,
  pinv u s pI pC pT -> run s sched = (s', tr) -> ok_polled_from u pI pC pT tr = true.
Proof.
  induction sched as [|ch r IH]; intros s pI pC pT s' tr P H.
  - cbn [run] in H. inversion H; reflexivity.
  - cbn [run] in H. destruct (exec_step ch s) as [[s1 es] ms] eqn:ES.
    destruct (run s1 r) as [s2 tr2] eqn:ER. inversion H; subst s' tr; clear H.
    destruct (step_pol u ch s s1 es ms pI pC pT P ES) as [P1 C1]. cbv zeta in P1, C1.
    cbn [ok_polled_from]. rewrite C1. cbn [andb]. exact (IH _ _ _ _ _ _ P1 ER).
Qed.

(* For every scenario and every schedule: whenever a thread hands a task on
   as CANCELED, the last proc.poll() of that thread on the task reported a
   running process. *)
Theorem canceled_only_if_polled_running sc sched s tr u :
  run (init sc) sched = (s, tr) -> ok_polled_from u false false false tr = true.
Proof.
  intros HR. apply (run_polled u sched (init sc) false false false s tr); [|exact HR].
  unfold pinv, init. fields. repeat split; intros; discriminate.
Qed.

Theorem model_cancel_polled sc sched s tr :
  run (init sc) sched = (s, tr) -> ok_cancel_polled (delivered sc) tr = true.
Proof.
  intros HR. unfold ok_cancel_polled. apply forallb_forall. intros u _. exact (canceled_only_if_polled_running sc sched s tr u HR).
Qed.
