(* corollaries of Exec.Proofs about the release of resources (C03, executor side) *)
From Coq Require Import ZArith List Bool Lia.
From RP Require Import Exec.Model Exec.Oracle Exec.Local Exec.LocalProofs Exec.Proj Exec.Proofs.
Import ListNotations.

(* every task the executor received asks for the release of its resources at
   most once at any point of any schedule, and exactly once when the run is
   quiescent -- whichever of watcher, cancel handler, timeout watcher, intake
   filter or launch-error path ends it *)
Theorem released_exactly_once sc sched s tr u :
  NoDup (delivered sc) -> In u (delivered sc) -> run (init sc) sched = (s, tr) ->
  (n_uns u (emissions tr) <= 1)%nat /\ (quiescent s = true -> n_uns u (emissions tr) = 1%nat).
Proof.
  intros Hnd Hin Hr. split.
  - pose proof (at_most_once sc sched s tr u Hnd Hin Hr) as H. cbv zeta in H. tauto.
  - intros Hq. pose proof (exactly_once sc sched s tr u Hnd Hin Hr Hq) as H. cbv zeta in H. tauto.
Qed.

(* C05, executor side: one hand-over per received task, and it tells the
   truth -- never both collected (exit code attached) and canceled; CANCELED
   only if the task was named by a cancel request or has a run-time limit;
   FAILED exactly when its launch fails, otherwise collected once *)
From RP Require Import Exec.CancelProofs.
Theorem one_truthful_handover sc sched s tr u :
  NoDup (delivered sc) -> In u (delivered sc) -> run (init sc) sched = (s, tr) -> quiescent s = true ->
  let ems := emissions tr in
  n_hand u ems = 1%nat /\
  ~ (0 < n_collected u ems /\ 0 < n_canceled u ems)%nat /\
  (mem u (named sc) = false -> has_limit sc u = false ->
   n_canceled u ems = 0%nat /\
   match fault_of sc u with
   | FNone => n_collected u ems = 1%nat /\ n_adv SFailed u ems = 0%nat
   | _ => n_adv SFailed u ems = 1%nat /\ n_collected u ems = 0%nat
   end).
Proof.
  intros Hnd Hin Hr Hq ems.
  pose proof (exactly_once sc sched s tr u Hnd Hin Hr Hq) as H1. cbv zeta in H1. fold ems in H1.
  pose proof (at_most_once sc sched s tr u Hnd Hin Hr) as H2. cbv zeta in H2. fold ems in H2.
  split; [tauto|]. split; [tauto|].
  intros Hn Hl.
  pose proof (bystanders_untouched_exec sc sched s tr u Hnd Hin Hr Hn Hl) as H3. cbv zeta in H3. fold ems in H3.
  destruct H3 as (_ & Hc & _ & Hqq). specialize (Hqq Hq). destruct Hqq as (_ & _ & Hm).
  split; [exact Hc|]. destruct (fault_of sc u); tauto.
Qed.
