(* Exec.KillProofs -- the kill reaches the running process, cancel_task does not
   wait for a natural end, bystanders are not signalled
   (Oracle.ok_kill_reaches, ok_no_natural_wait, ok_not_signalled), for every
   scenario and every schedule of Exec.Model, of any length.  The invariant
   relates the process table of the model to the history of recorded actions:
   the process of u runs iff the history says so (spawned, neither exited nor
   killed since), and while a kill attempt on u is under way and no signal was
   delivered without effect, the process does not run. *)
From Coq Require Import ZArith List Bool Lia.
From RP Require Import Common.Eqb Exec.Model Exec.Oracle Exec.Local Exec.Proj Exec.ProjProofs Exec.WfProofs Exec.Proofs Exec.CancelProofs.
Import ListNotations.
Local Open Scope Z_scope.

(* recorded actions that say nothing about the process of u *)
Definition irrel (u : Z) (e : event) : bool :=
  let '(k, v, a) := e in
  negb (k =? K_GSIG) &&
  (negb (v =? u) || negb ((k =? K_SPAWN) || (k =? K_EXIT) || (k =? K_KILL)) || ((k =? K_SPAWN) && negb (a =? 1))).

Definition kinv (u : Z) (s : state) (st : kst) : Prop :=
  ks_ok1 st = true /\ ks_ok2 st = true /\ ks_run st = is_running (world s u) /\
  (ks_killing st = true -> ks_noeff st = false -> is_running (world s u) = false).

Lemma kst_irrel u e st : irrel u e = true ->
  let st' := kst_ev u st e in
  ks_ok1 st' = ks_ok1 st /\ ks_ok2 st' = ks_ok2 st /\ ks_run st' = ks_run st /\ ks_noeff st' = ks_noeff st /\
  (ks_killing st' = true -> ks_killing st = true).
Proof.
  destruct e as [[k v] a]. unfold irrel, kst_ev. intros H. apply andb_true_iff in H as [_ H].
  destruct (v =? u); cbn [negb orb] in *; [|repeat split; auto].
  destruct (k =? K_SPAWN) eqn:E1.
  - cbn [orb negb andb] in H. destruct (a =? 1); [discriminate H | repeat split; auto].
  - destruct (k =? K_EXIT); [discriminate H|]. destruct (k =? K_KILL); [discriminate H|].
    destruct (k =? K_WAIT); cbn; repeat split; auto. intros X; discriminate X.
Qed.

Lemma kst_irrels u es : forall st, forallb (irrel u) es = true ->
  let st' := fold_left (kst_ev u) es st in
  ks_ok1 st' = ks_ok1 st /\ ks_ok2 st' = ks_ok2 st /\ ks_run st' = ks_run st /\ ks_noeff st' = ks_noeff st /\
  (ks_killing st' = true -> ks_killing st = true).
Proof.
  induction es as [|e es IH]; intros st H; cbn [fold_left].
  - repeat split; auto.
  - cbn [forallb] in H. apply andb_true_iff in H as [H1 H2].
    destruct (kst_irrel u e st H1) as (A & B & C & D & E). destruct (IH (kst_ev u st e) H2) as (A' & B' & C' & D' & E').
    repeat split; try congruence. auto.
Qed.

Lemma kinv_irrel u s s1 es st :
  kinv u s st -> world s1 u = world s u -> forallb (irrel u) es = true -> kinv u s1 (fold_left (kst_ev u) es st).
Proof.
  intros (I1 & I2 & I3 & I4) W H. destruct (kst_irrels u es st H) as (A & B & C & D & E).
  unfold kinv. rewrite W. repeat split; try congruence. intros K N. apply I4; [auto | congruence].
Qed.

(* what a step can do to the process of u, and what it records about it *)
Definition step_kind (u : Z) (s s1 : state) (es : list event) : Prop :=
  (world s1 u = world s u /\ forallb (irrel u) es = true) \/
  (es = [ev K_SPAWN u 1; ev K_PROC_SET u 0] /\ is_running (world s1 u) = true) \/
  (exists c, es = [ev K_EXIT u c] /\ is_running (world s u) = true /\ is_running (world s1 u) = false) \/
  (es = [ev K_PID u 1; ev K_KILL u 1; ev K_KILL u 0] /\ is_running (world s u) = true /\ world s1 u = PKilled) \/
  (es = [ev K_PID u 1; ev K_KILL u 2; ev K_KILL u 2] /\ world s1 u = world s u) \/
  (es = [ev K_PID u 1; ev K_KILL u 0] /\ is_running (world s u) = false /\ world s1 u = world s u).

Ltac irr :=
  cbn [forallb app]; unfold irrel, ev;
  repeat match goal with |- context [negb (?a =? ?b) || _] => destruct (a =? b) end;
  cbn; rewrite ?orb_true_r; try reflexivity.

Lemma irrel_other u x k a : x <> u -> (k =? K_GSIG) = false -> irrel u (k, x, a) = true.
Proof. intros N G. unfold irrel. rewrite G, (neq_eqb _ _ N). reflexivity. Qed.

Lemma kstep_kind u x k s s1 k' es ms : kstep x k s = (s1, k', es, ms) -> step_kind u s s1 es.
Proof.
  intros H. unfold step_kind. destruct (Z.eq_dec x u) as [->|N].
  - destruct k; cbn [kstep] in H.
    4: { destruct (world s u) eqn:EW; inversion H; subst; clear H; fields.
         - right. right. right. right. right. repeat split; rewrite ?EW; reflexivity.
         - right. right. right. left. rewrite ?upd_same. repeat split; rewrite ?EW; reflexivity.
         - right. right. right. right. left. repeat split; rewrite ?EW; reflexivity.
         - right. right. right. right. right. repeat split; rewrite ?EW; reflexivity.
         - right. right. right. right. right. repeat split; rewrite ?EW; reflexivity. }
    all: left; repeat match type of H with context [match ?X with _ => _ end] => destruct X end;
      inversion H; subst; clear H; fields; (split; [reflexivity | irr]).
  - left. destruct (kstep_other u x k s s1 k' es ms (cnt_of u []) N H (ex_intro _ [] eq_refl)) as (_ & _ & W & _).
    split; [exact W|].
    destruct k; cbn [kstep] in H;
      repeat match type of H with context [match ?X with _ => _ end] => destruct X end;
      inversion H; subst; clear H; cbn [forallb app]; unfold ev;
      rewrite ?(irrel_other u x _ _ N) by reflexivity; try reflexivity.
    all: unfold irrel; cbn; rewrite ?orb_true_r; try reflexivity;
      repeat match goal with |- context [negb (?a =? ?b)] => destruct (a =? b) end; reflexivity.
Qed.

Lemma step_kind_ext u s s1 s1' es : world s1' = world s1 -> step_kind u s s1 es -> step_kind u s s1' es.
Proof. unfold step_kind. intros ->. auto. Qed.

Lemma irrel_wqget u l : forallb (irrel u) (map (fun v => ev K_WQ_GET v 0) l) = true.
Proof. induction l as [|y l IH]; [reflexivity|]. cbn [map forallb]. rewrite IH, andb_true_r. irr. Qed.

Lemma wstep_world s s' es ms : wstep s = (s', es, ms) -> world s' = world s.
Proof. unfold wstep. split_match; intros H; inversion H; subst; reflexivity. Qed.

Theorem exec_step_kind u ch s s1 es ms : exec_step ch s = (s1, es, ms) -> step_kind u s s1 es.
Proof.
  intros H. destruct ch; cbn [exec_step] in H.
  - (* intake *)
    unfold istep in H. destruct (ipc_ s) as [|kept rest|x kept r|kept|pc x rest] eqn:EI.
    + destruct (i_rest s); inversion H; subst; left; (split; [reflexivity | irr]).
    + destruct rest as [|x r]; [|destruct (mem (d_uid x) (clist s))]; inversion H; subst; left; (split; [reflexivity | irr]).
    + inversion H; subst; left; (split; [reflexivity | irr]).
    + inversion H; subst; left; (split; [reflexivity | irr]).
    + destruct pc as [| | | | | |kk| | |].
      * inversion H; subst; left; (split; [reflexivity | irr]).
      * (* ITSpawn *)
        destruct (d_fault x) eqn:EF; inversion H; subst; clear H; unfold step_kind; fields.
        4: { left. split; [reflexivity | irr]. }
        all: destruct (Z.eq_dec (d_uid x) u) as [Eu|N];
          [ right; left; rewrite Eu, upd_same; split; [reflexivity | destruct (d_stub x); reflexivity]
          | left; split; [apply upd_other; exact N | cbn [forallb]; unfold ev; rewrite !(irrel_other u _ _ _ N) by reflexivity; reflexivity] ].
      * destruct (procattr s (d_uid x)); [destruct (d_fault x)|]; inversion H; subst; left; (split; [reflexivity | irr]).
      * inversion H; subst; left; (split; [reflexivity | irr]).
      * inversion H; subst; left; (split; [reflexivity | irr]).
      * inversion H; subst; left; (split; [reflexivity | irr]).
      * destruct (kstep (d_uid x) kk s) as [[[s2 k'] es1] ms1] eqn:EK. inversion H; subst.
        apply (step_kind_ext u s s2); [reflexivity | exact (kstep_kind u _ _ _ _ _ _ _ EK)].
      * inversion H; subst; left; (split; [reflexivity | irr]).
      * inversion H; subst; left; (split; [reflexivity | irr]).
      * inversion H; subst; left; (split; [reflexivity | irr]).
  - (* control *)
    unfold cstep in H. destruct (cpc_ s) as [|us|kk x r].
    + destruct (c_rest s); inversion H; subst; left; (split; [reflexivity | irr]).
    + destruct us; inversion H; subst; left; (split; [reflexivity | irr]).
    + destruct (kstep x kk s) as [[[s2 k'] es1] ms1] eqn:EK. inversion H; subst.
      apply (step_kind_ext u s s2); [reflexivity | exact (kstep_kind u _ _ _ _ _ _ _ EK)].
  - (* watcher *)
    left. split; [rewrite (wstep_world _ _ _ _ H); reflexivity|].
    unfold wstep in H. destruct (wpc_ s) as [|pc x r adv|adv|adv].
    + injection H as <- <- <-. rewrite !forallb_app, irrel_wqget.
      destruct (Nat.ltb (length (firstn bulk (wq s))) bulk); irr.
    + destruct pc; revert H; split_match; intros H; inversion H; subst; try destruct (tasks s x); irr.
    + inversion H; reflexivity.
    + inversion H; reflexivity.
  - (* timeout watcher *)
    unfold tstep in H. destruct (tpc_ s) as [|kk x r].
    + inversion H; subst; left; (split; [reflexivity | irr]).
    + destruct (kstep x kk s) as [[[s2 k'] es1] ms1] eqn:EK. inversion H; subst.
      apply (step_kind_ext u s s2); [reflexivity | exact (kstep_kind u _ _ _ _ _ _ _ EK)].
  - (* environment *)
    unfold xstep in H. destruct (is_running (world s u0)) eqn:ER; inversion H; subst; clear H; unfold step_kind; fields.
    + destruct (Z.eq_dec u0 u) as [->|N].
      * right. right. left. exists code. rewrite upd_same. auto.
      * left. split; [apply upd_other; exact N | cbn [forallb]; unfold ev; rewrite (irrel_other u _ _ _ N) by reflexivity; reflexivity].
    + left. split; reflexivity.
Qed.

Lemma kinv_step u ch s s1 es ms st :
  kinv u s st -> exec_step ch s = (s1, es, ms) -> kinv u s1 (fold_left (kst_ev u) es st).
Proof.
  intros I H. destruct (exec_step_kind u ch s s1 es ms H) as [[W Hi]|[[E R]|[[c [E [R0 R1]]]|[[E [R0 R1]]|[[E W]|[E [R0 W]]]]]]].
  - exact (kinv_irrel u s s1 es st I W Hi).
  - destruct I as (I1 & I2 & I3 & I4). subst es. cbn [fold_left]. unfold kst_ev, ev, K_SPAWN, K_PROC_SET, K_EXIT, K_KILL, K_WAIT.
    rewrite Z.eqb_refl. cbn. unfold kinv. cbn. rewrite R. repeat split; auto; try (intros X; discriminate X).
  - destruct I as (I1 & I2 & I3 & I4). subst es. cbn [fold_left]. unfold kst_ev, ev, K_SPAWN, K_EXIT.
    rewrite Z.eqb_refl. cbn. unfold kinv. cbn. rewrite R1. repeat split; auto.
    rewrite I2. cbn. destruct (ks_killing st) eqn:K; [|reflexivity]. destruct (ks_noeff st) eqn:N; [reflexivity|].
    rewrite (I4 eq_refl eq_refl) in R0. discriminate R0.
  - destruct I as (I1 & I2 & I3 & I4). subst es. cbn [fold_left]. unfold kst_ev, ev, K_SPAWN, K_EXIT, K_KILL, K_PID, K_WAIT.
    rewrite Z.eqb_refl. cbn. unfold kinv. cbn. rewrite R1. cbn. repeat split; auto. rewrite I1. reflexivity.
  - destruct I as (I1 & I2 & I3 & I4). subst es. cbn [fold_left]. unfold kst_ev, ev, K_SPAWN, K_EXIT, K_KILL, K_PID, K_WAIT.
    rewrite Z.eqb_refl. cbn. unfold kinv. cbn. rewrite W. repeat split; auto; try (intros _ X; discriminate X).
  - destruct I as (I1 & I2 & I3 & I4). subst es. cbn [fold_left]. unfold kst_ev, ev, K_SPAWN, K_EXIT, K_KILL, K_PID, K_WAIT.
    rewrite Z.eqb_refl. cbn. unfold kinv. cbn. rewrite W. repeat split; auto.
    rewrite I1, I3, R0. reflexivity.
Qed.

Lemma all_events_cons th es ms tr : all_events ((th, es, ms) :: tr) = es ++ all_events tr.
Proof. reflexivity. Qed.

Lemma run_kinv u : forall sched s st s' tr,
  kinv u s st -> run s sched = (s', tr) -> kinv u s' (fold_left (kst_ev u) (all_events tr) st).
Proof.
  induction sched as [|ch r IH]; intros s st s' tr I H.
  - cbn [run] in H. inversion H; subst. exact I.
  - cbn [run] in H. destruct (exec_step ch s) as [[s1 es] ms] eqn:ES.
    destruct (run s1 r) as [s2 tr2] eqn:ER. inversion H; subst s' tr; clear H.
    rewrite all_events_cons, fold_left_app. exact (IH _ _ _ _ (kinv_step u ch s s1 es ms st I ES) ER).
Qed.

Lemma kinv_init u sc : kinv u (init sc) kst0.
Proof. unfold kinv, kst0, init. fields. cbn. repeat split; auto. Qed.

(* For every scenario and every schedule: a signal is answered "no such
   process" only when the process does not run, and while a kill attempt is
   under way the process does not end by itself unless a signal was delivered
   without effect. *)
Theorem kill_reaches_and_no_natural_wait sc sched s tr u :
  run (init sc) sched = (s, tr) ->
  ks_ok1 (kst_of u (all_events tr)) = true /\ ks_ok2 (kst_of u (all_events tr)) = true /\
  ks_run (kst_of u (all_events tr)) = is_running (world s u).
Proof.
  intros HR. destruct (run_kinv u sched (init sc) kst0 s tr (kinv_init u sc) HR) as (A & B & C & _). auto.
Qed.

Theorem model_kill_reaches sc sched s tr :
  run (init sc) sched = (s, tr) -> ok_kill_reaches (delivered sc) tr = true /\ ok_no_natural_wait (delivered sc) tr = true.
Proof.
  intros HR. unfold ok_kill_reaches, ok_no_natural_wait. split; apply forallb_forall; intros u _;
    destruct (kill_reaches_and_no_natural_wait sc sched s tr u HR) as (A & B & _); assumption.
Qed.

(* ---- bystanders are not signalled ---- *)
Lemma step_kind_no_gsig u s s1 es : step_kind u s s1 es -> forall e, In e es -> (let '(k, _, _) := e in k =? K_GSIG) = false.
Proof.
  intros [[_ Hi]|[[E _]|[[c [E _]]|[[E _]|[[E _]|[E _]]]]]] e He.
  - rewrite forallb_forall in Hi. specialize (Hi e He). destruct e as [[k v] a]. unfold irrel in Hi.
    apply andb_true_iff in Hi as [Hi _]. apply negb_true_iff in Hi. exact Hi.
  - subst es. destruct He as [<-|[<-|[]]]; reflexivity.
  - subst es. destruct He as [<-|[]]; reflexivity.
  - subst es. destruct He as [<-|[<-|[<-|[]]]]; reflexivity.
  - subst es. destruct He as [<-|[<-|[<-|[]]]]; reflexivity.
  - subst es. destruct He as [<-|[<-|[]]]; reflexivity.
Qed.

(* a recorded action of a run is recorded by some step, after some prefix of the schedule *)
Lemma event_origin : forall sched s s' tr e,
  run s sched = (s', tr) -> In e (all_events tr) ->
  exists sched1 ch s1 tr1 s2 es ms,
    run s sched1 = (s1, tr1) /\ exec_step ch s1 = (s2, es, ms) /\ In e es /\
    run s (sched1 ++ [ch]) = (s2, tr1 ++ [(thread_of ch, es, ms)]).
Proof.
  induction sched as [|ch r IH]; intros s s' tr e H He.
  - cbn [run] in H. inversion H; subst. destruct He.
  - cbn [run] in H. destruct (exec_step ch s) as [[s1 es] ms] eqn:ES.
    destruct (run s1 r) as [s2 tr2] eqn:ER. inversion H; subst s' tr; clear H.
    rewrite all_events_cons in He. apply in_app_or in He as [He|He].
    + exists [], ch, s, [], s1, es, ms. repeat split; auto. cbn [app run]. rewrite ES. reflexivity.
    + destruct (IH _ _ _ _ ER He) as (sched1 & ch1 & s3 & tr1 & s4 & es1 & ms1 & R1 & E1 & I1 & R2).
      exists (ch :: sched1), ch1, s3, ((thread_of ch, es, ms) :: tr1), s4, es1, ms1. repeat split; auto.
      * cbn [run]. rewrite ES, R1. reflexivity.
      * cbn [app run]. rewrite ES, R2. reflexivity.
Qed.

Theorem no_group_signal sc sched s tr :
  run (init sc) sched = (s, tr) -> existsb (fun e : event => let '(k, _, _) := e in k =? K_GSIG) (all_events tr) = false.
Proof.
  intros HR. destruct (existsb _ (all_events tr)) eqn:E; [|reflexivity]. exfalso.
  apply existsb_exists in E as [e [He Hk]].
  destruct (event_origin _ _ _ _ _ HR He) as (sched1 & ch & s1 & tr1 & s2 & es & ms & _ & ES & Ie & _).
  pose proof (step_kind_no_gsig 0 s1 s2 es (exec_step_kind 0 ch s1 s2 es ms ES) e Ie) as N. congruence.
Qed.

(* the process of a task that no request names and that has no run-time limit is never killed *)
Theorem bystander_never_killed sc sched s tr u :
  NoDup (delivered sc) -> In u (delivered sc) -> mem u (named sc) = false -> has_limit sc u = false ->
  run (init sc) sched = (s, tr) -> existsb (event_eqb (ev K_KILL u 1)) (all_events tr) = false.
Proof.
  intros ND HI HN HL HR. destruct (existsb _ (all_events tr)) eqn:E; [|reflexivity]. exfalso.
  apply existsb_exists in E as [e [He Hk]].
  assert (e = ev K_KILL u 1).
  { destruct e as [[k v] a]. unfold event_eqb, ev in *. apply andb_true_iff in Hk as [Hk A]. apply andb_true_iff in Hk as [K V].
    apply Z.eqb_eq in K, V, A. congruence. }
  subst e.
  destruct (event_origin _ _ _ _ _ HR He) as (sched1 & ch & s1 & tr1 & s2 & es & ms & _ & ES & Ie & R2).
  destruct (bystanders_untouched_exec sc _ _ _ u ND HI R2 HN HL) as (NK & _).
  destruct (exec_step_kind u ch s1 s2 es ms ES) as [[_ Hi]|[[E _]|[[c [E _]]|[[E [_ W]]|[[E _]|[E _]]]]]].
  - rewrite forallb_forall in Hi. specialize (Hi _ Ie). unfold irrel, ev, K_KILL, K_GSIG, K_SPAWN, K_EXIT in Hi.
    rewrite Z.eqb_refl in Hi. cbn in Hi. discriminate Hi.
  - subst es. destruct Ie as [X|[X|[]]]; discriminate X.
  - subst es. destruct Ie as [X|[]]; discriminate X.
  - exact (NK W).
  - subst es. destruct Ie as [X|[X|[X|[]]]]; discriminate X.
  - subst es. destruct Ie as [X|[X|[]]]; discriminate X.
Qed.

Lemma kof_to sc u x : NoDup (delivered sc) -> In x (concat (sc_batches sc)) -> d_uid x = u -> has_limit sc u = d_to x.
Proof.
  intros ND Hx Eu. unfold has_limit, kof.
  destruct (find (fun x0 => d_uid x0 =? u) (concat (sc_batches sc))) as [x'|] eqn:EF.
  - apply find_some in EF as [Hx' E']. apply Z.eqb_eq in E'.
    assert (x' = x) by (apply (nodup_map_inj d_uid _ _ _ ND Hx' Hx); congruence). subst x'. reflexivity.
  - exfalso. apply (find_none _ _ EF) in Hx. apply Z.eqb_neq in Hx. contradiction.
Qed.

Theorem model_not_signalled sc sched s tr :
  NoDup (delivered sc) -> run (init sc) sched = (s, tr) -> ok_not_signalled sc tr = true.
Proof.
  intros ND HR. unfold ok_not_signalled. rewrite (no_group_signal sc sched s tr HR). cbn [negb andb].
  apply forallb_forall. intros x Hx. apply filter_In in Hx as [Hx Hc]. apply andb_true_iff in Hc as [Hn Ht].
  apply negb_true_iff in Hn, Ht. apply negb_true_iff.
  apply (bystander_never_killed sc sched s tr (d_uid x) ND); auto.
  - unfold delivered. apply in_map. exact Hx.
  - rewrite (kof_to sc (d_uid x) x ND Hx eq_refl). exact Ht.
Qed.
