"""Shared helpers for the fail-closed translators (Python source -> Coq text)."""
import ast, os, sys

REPO = os.environ.get('VERIF_REPO', '/repo')
SRC  = os.path.join(REPO, 'src/radical/pilot')
GEN  = os.path.join(os.path.dirname(os.path.dirname(os.path.abspath(__file__))), 'coq', 'Gen')


class TranslationError(Exception):
    """Source no longer has the shape this translator understands."""


def fail(msg):
    raise TranslationError(msg)


def parse(relpath):
    path = os.path.join(SRC, relpath)
    with open(path) as f:
        return ast.parse(f.read(), filename=path)


def coq_string(s):
    return '"' + s.replace('"', '""') + '"%string'


def coq_z(n):
    return '(%d)%%Z' % n


def write_if_changed(path, text):
    os.makedirs(os.path.dirname(path), exist_ok=True)
    try:
        with open(path) as f:
            if f.read() == text:
                return False
    except FileNotFoundError:
        pass
    with open(path, 'w') as f:
        f.write(text)
    return True
