#!/venv/bin/python
"""configs/resource_*.json, configs/agent_*.json, resource_config.py and the
factory tables  ->  coq/Gen/Configs.v

Nothing from the repository is imported or executed:

  * configs/resource_<site>.json : comment lines (`^\\s*#.*$`, exactly the filter
    of ru.parse_json) are removed, the rest is parsed with `json`; every value
    becomes a literal of RP.Configs.Model.json (dict order kept);
  * configs/agent_<name>.json    : name + top-level keys;
  * resource_config.py (ast)     : module string constants, ENDPOINTS_DEFAULT,
    `_schema` / `_defaults` of RaptorConfig, AccessSchema, ResourceConfig -- the
    classes must derive from FastTypedDict and contain nothing else (a custom
    `_verify` would not be modelled);
  * the `impl = {KEY: Class, ...}` dict literal inside ResourceManager.get_manager,
    LaunchMethod.create, AgentSchedulingComponent.create,
    AgentExecutingComponent.create (ast), keys resolved through the module's
    string constants.

Anything of another shape => TranslationError (fail closed).
"""
import ast, glob, json, os, re, sys
sys.path.insert(0, os.path.dirname(os.path.abspath(__file__)))
from common import *

CFG_DIR = os.path.join(SRC, 'configs')


# ------------------------------------------------------------------------------
# JSON side
#
def _no_const(x):
    fail('non-finite JSON number %s' % x)


def load_json(path):
    with open(path) as f:
        txt = f.read()
    txt = '\n'.join(re.sub(r'^\s*#.*$', '', line) for line in txt.split('\n'))
    try:
        return json.loads(txt, parse_constant=_no_const)
    except ValueError as e:
        fail('%s: %s' % (os.path.basename(path), e))


def load_sites():
    """{site: {resource: raw config}} in sorted site order."""
    out = {}
    for path in sorted(glob.glob(os.path.join(CFG_DIR, 'resource_*.json'))):
        site = os.path.basename(path)[len('resource_'):-len('.json')]
        d = load_json(path)
        if not isinstance(d, dict):
            fail('%s: top level is not an object' % path)
        for res, c in d.items():
            if not isinstance(c, dict):
                fail('%s: entry %s is not an object' % (path, res))
        out[site] = d
    if not out:
        fail('no resource_*.json found under %s' % CFG_DIR)
    return out


def load_agents():
    out = {}
    for path in sorted(glob.glob(os.path.join(CFG_DIR, 'agent_*.json'))):
        name = os.path.basename(path)[len('agent_'):-len('.json')]
        d = load_json(path)
        if not isinstance(d, dict):
            fail('%s: top level is not an object' % path)
        out[name] = list(d.keys())
    return out


def cstr(s):
    for ch in s:
        if not (32 <= ord(ch) < 127):
            fail('non printable-ascii character in string %r' % s)
    return '"' + s.replace('"', '""') + '"'


def cjson(v, key_ctx=''):
    if v is None:
        return 'JNull'
    if isinstance(v, bool):
        return '(JBool %s)' % ('true' if v else 'false')
    if isinstance(v, int):
        return '(JInt (%d))' % v
    if isinstance(v, float):
        return '(JFloat %s)' % cstr(repr(v))
    if isinstance(v, str):
        return '(JStr %s)' % cstr(v)
    if isinstance(v, list):
        return '(JList [%s])' % '; '.join(cjson(x) for x in v)
    if isinstance(v, dict):
        for k in v:
            if not isinstance(k, str):
                fail('non-string key %r' % k)
            if k.startswith('_'):
                fail('key %r starts with an underscore (not supported by TypedDict)' % k)
        return '(JDict [%s])' % '; '.join('(%s, %s)' % (cstr(k), cjson(x)) for k, x in v.items())
    fail('unsupported JSON value %r' % (v,))


# ------------------------------------------------------------------------------
# resource_config.py
#
def module_consts(tree):
    consts = {}
    for node in tree.body:
        if isinstance(node, ast.Assign) and len(node.targets) == 1 and isinstance(node.targets[0], ast.Name) \
                and isinstance(node.value, ast.Constant) and isinstance(node.value.value, str):
            n = node.targets[0].id
            if n in consts and consts[n] != node.value.value:
                fail('constant %s assigned twice' % n)
            consts[n] = node.value.value
    return consts


def key_of(node, consts):
    if isinstance(node, ast.Name):
        if node.id not in consts:
            fail('key %s is not a module string constant' % node.id)
        return consts[node.id]
    if isinstance(node, ast.Constant) and isinstance(node.value, str):
        return node.value
    fail('unsupported dict key %s' % ast.dump(node))


TYPED = ('RaptorConfig', 'AccessSchema', 'ResourceConfig')


def ty_of(node):
    if isinstance(node, ast.Constant) and node.value is None:
        return 'TAny'
    if isinstance(node, ast.Name):
        if node.id == 'str':  return 'TStr'
        if node.id == 'int':  return 'TInt'
        if node.id == 'bool': return 'TBool'
        if node.id in TYPED:  return '(TTyped %s)' % cstr(node.id)
        fail('unsupported schema type %s' % node.id)
    if isinstance(node, ast.List) and len(node.elts) == 1:
        return '(TListOf %s)' % ty_of(node.elts[0])
    if isinstance(node, ast.Dict) and len(node.keys) == 1:
        return '(TDictOf %s %s)' % (ty_of(node.keys[0]), ty_of(node.values[0]))
    fail('unsupported schema type %s' % ast.dump(node))


def default_of(node, class_defaults):
    if isinstance(node, ast.Constant):
        v = node.value
        if v is None or isinstance(v, (bool, int, str)):
            return cjson(v)
        fail('unsupported default %r' % (v,))
    if isinstance(node, ast.Call) and isinstance(node.func, ast.Name) and not node.args and not node.keywords:
        if node.func.id == 'dict': return '(JDict [])'
        if node.func.id == 'list': return '(JList [])'
        if node.func.id in class_defaults:
            return '(JDict [%s])' % '; '.join('(%s, %s)' % (cstr(k), v) for k, v in class_defaults[node.func.id])
    if isinstance(node, ast.Dict) and not node.keys: return '(JDict [])'
    if isinstance(node, ast.List) and not node.elts: return '(JList [])'
    fail('unsupported default %s' % ast.dump(node))


def resource_config_tables():
    tree = parse('resource_config.py')
    consts = module_consts(tree)
    endpoints = None
    schemas, defaults = {}, {}
    for node in tree.body:
        if isinstance(node, ast.Assign) and len(node.targets) == 1 and isinstance(node.targets[0], ast.Name) \
                and node.targets[0].id == 'ENDPOINTS_DEFAULT':
            if not isinstance(node.value, ast.Dict):
                fail('ENDPOINTS_DEFAULT is not a dict literal')
            endpoints = []
            for k, v in zip(node.value.keys, node.value.values):
                if not (isinstance(v, ast.Constant) and isinstance(v.value, str)):
                    fail('ENDPOINTS_DEFAULT value is not a string literal')
                endpoints.append((key_of(k, consts), cjson(v.value)))
        if isinstance(node, ast.ClassDef) and node.name in TYPED:
            if [ast.unparse(b) for b in node.bases] != ['FastTypedDict']:
                fail('class %s does not derive from FastTypedDict only' % node.name)
            sch = dfl = None
            for st in node.body:
                if isinstance(st, ast.Expr) and isinstance(st.value, ast.Constant) and isinstance(st.value.value, str):
                    continue                                 # docstring
                if isinstance(st, ast.Assign) and len(st.targets) == 1 and isinstance(st.targets[0], ast.Name) \
                        and st.targets[0].id in ('_schema', '_defaults') and isinstance(st.value, ast.Dict):
                    items = list(zip(st.value.keys, st.value.values))
                    keys = [key_of(k, consts) for k, _ in items]
                    if len(set(keys)) != len(keys):
                        fail('%s.%s: duplicate key' % (node.name, st.targets[0].id))
                    if st.targets[0].id == '_schema':
                        sch = [(key_of(k, consts), ty_of(v)) for k, v in items]
                    else:
                        dfl = [(key_of(k, consts), default_of(v, defaults)) for k, v in items]
                    continue
                fail('class %s contains a statement this translator does not model: %s'
                     % (node.name, ast.unparse(st).splitlines()[0]))
            if sch is None or dfl is None:
                fail('class %s lacks _schema or _defaults' % node.name)
            if node.name != 'ResourceConfig':
                for k, t in sch:
                    if t not in ('TStr', 'TInt', 'TBool', 'TAny'):
                        fail('%s.%s: nested type %s not modelled' % (node.name, k, t))
            schemas[node.name], defaults[node.name] = sch, dfl
    for c in TYPED:
        if c not in schemas:
            fail('class %s not found in resource_config.py' % c)
    if endpoints is None:
        fail('ENDPOINTS_DEFAULT not found')
    # utils/misc.py: FastTypedDict must be the plain TypedDict with _deep = False
    mtree = parse('utils/misc.py')
    ok = False
    for node in mtree.body:
        if isinstance(node, ast.ClassDef) and node.name == 'FastTypedDict':
            body = [ast.unparse(s) for s in node.body
                    if not (isinstance(s, ast.Expr) and isinstance(s.value, ast.Constant))]
            # accepted forms (anything else fails closed): the plain class, or the class whose constructor
            # additionally gives the instance its own shallow copies of the list/dict defaults it still uses --
            # both are, value-wise, "TypedDict initialised from _defaults, then from_dict, then kwargs"
            own_copies = ("def __init__(self, from_dict=None, **kwargs):\n"
                          "    super().__init__(from_dict=from_dict, **kwargs)\n"
                          "    for key, val in self._defaults.items():\n"
                          "        if isinstance(val, (list, dict)) and self.get(key) is val:\n"
                          "            self[key] = copy.copy(val)")
            if [ast.unparse(b) for b in node.bases] == ['ru.TypedDict'] and \
               body in (['_deep = False'], ['_deep = False', own_copies]):
                ok = True
    if not ok:
        fail('utils/misc.py: FastTypedDict is neither `class FastTypedDict(ru.TypedDict): _deep = False` nor that '
             'class with the constructor that copies its default containers')
    return schemas, defaults, endpoints


# ------------------------------------------------------------------------------
# factories
#
FACTORIES = [('rm',    'agent/resource_manager/base.py', 'ResourceManager',          'get_manager'),
             ('lm',    'agent/launch_method/base.py',    'LaunchMethod',             'create'),
             ('sched', 'agent/scheduler/base.py',        'AgentSchedulingComponent', 'create'),
             ('exec',  'agent/executing/base.py',        'AgentExecutingComponent',  'create')]


def factory_table(rel, cls, fn):
    tree = parse(rel)
    consts = module_consts(tree)
    found = None
    for node in tree.body:
        if isinstance(node, ast.ClassDef) and node.name == cls:
            for st in node.body:
                if isinstance(st, ast.FunctionDef) and st.name == fn:
                    for s in ast.walk(st):
                        if isinstance(s, ast.Assign) and len(s.targets) == 1 and isinstance(s.targets[0], ast.Name) \
                                and s.targets[0].id == 'impl':
                            if found is not None:
                                fail('%s.%s: impl assigned twice' % (cls, fn))
                            found = s.value
    if found is None or not isinstance(found, ast.Dict):
        fail('%s.%s: no `impl = {...}` dict literal' % (cls, fn))
    tab = {}
    for k, v in zip(found.keys, found.values):
        if k is None or not isinstance(v, ast.Name):
            fail('%s.%s: impl entry is not NAME: Class' % (cls, fn))
        tab[key_of(k, consts)] = v.id            # python dict literal: a later duplicate key wins
    return list(tab.items())


# ------------------------------------------------------------------------------
def translate():
    schemas, defaults, endpoints = resource_config_tables()
    sites = load_sites()
    agents = load_agents()
    out = ['(* GENERATED by translators/configs.py from src/radical/pilot/{configs/*.json, resource_config.py,',
           '   agent/*/base.py} -- do not edit *)',
           'From Coq Require Import ZArith List String.',
           'From RP Require Import Configs.Model.',
           'Import ListNotations.',
           'Open Scope string_scope.',
           'Open Scope Z_scope.', '']
    out.append('Definition gen_schemas : list (string * list (string * ty)) := [')
    out.append(';\n'.join('  (%s, [%s])' % (cstr(c), '; '.join('(%s, %s)' % (cstr(k), t) for k, t in schemas[c]))
                          for c in TYPED))
    out.append('].\n')
    out.append('Definition gen_defaults : list (string * list (string * json)) := [')
    out.append(';\n'.join('  (%s, [%s])' % (cstr(c), '; '.join('(%s, %s)' % (cstr(k), v) for k, v in defaults[c]))
                          for c in TYPED))
    out.append('].\n')
    out.append('Definition gen_endpoints : list (string * json) := [%s].\n'
               % '; '.join('(%s, %s)' % (cstr(k), v) for k, v in endpoints))
    for short, rel, cls, fn in FACTORIES:
        tab = factory_table(rel, cls, fn)
        out.append('Definition gen_%s_table : list (string * string) := [%s].\n'
                   % (short, '; '.join('(%s, %s)' % (cstr(k), cstr(v)) for k, v in tab)))
    out.append('Definition gen_agents : list (string * list string) := [%s].\n'
               % '; '.join('(%s, [%s])' % (cstr(n), '; '.join(cstr(k) for k in ks)) for n, ks in agents.items()))
    out.append('Definition gen_rcfgs : list (string * list (string * json)) := [')
    blocks = []
    for site, d in sites.items():
        blocks.append('  (%s, [\n%s\n  ])' % (cstr(site), ';\n'.join(
            '    (%s, %s)' % (cstr(res), cjson(c)) for res, c in d.items())))
    out.append(';\n'.join(blocks))
    out.append('].\n')
    out.append('Definition gen_tables : tables :=\n'
               '  {| t_schemas := gen_schemas; t_defaults := gen_defaults; t_endpoints := gen_endpoints;\n'
               '     t_rm := gen_rm_table; t_lm := gen_lm_table; t_sched := gen_sched_table; t_exec := gen_exec_table;\n'
               '     t_agents := gen_agents; t_rcfgs := gen_rcfgs |}.\n')
    return '\n'.join(out)


def main():
    text = translate()
    changed = write_if_changed(os.path.join(GEN, 'Configs.v'), text)
    print('Gen/Configs.v %s' % ('rewritten' if changed else 'unchanged'))


if __name__ == '__main__':
    try:
        main()
    except TranslationError as e:
        print('TRANSLATION-ERROR configs: %s' % e)
        sys.exit(3)
