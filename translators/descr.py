#!/venv/bin/python
"""task_description.py -> coq/Gen/Descr.v

Reads with `ast` (nothing is imported or executed):
  * module-level string constants  NAME = 'value'
  * class TaskDescription: `_schema` and `_defaults` dict literals
  * TaskDescription._verify, which must have exactly this shape:
        if not self.get('mode'): self['mode'] = <CONST>
        if self.mode in [..] / self.mode == C:  <checks>  elif ...      (one chain)
            check :=  if not self.get('x'): [local assignments] raise ValueError(..)   (required)
                   |  if self.get('x'): raise ValueError(..)                            (forbidden)
        alias blocks   if self.S: self.D = self.S | float(self.S) ; self.R = <const>
        derive block   if self.F is None: self.F = bool(self.G - 1)
                       (once; either right after the mode default or after any number of
                        alias blocks -- its position is part of the generated table)
        ignore blocks  if self.X: pass
Anything else => TranslationError (fail closed): the proof obligation
`generated_table_wf` is then re-opened by the harness.
"""
import ast, sys, os
sys.path.insert(0, os.path.dirname(os.path.abspath(__file__)))
from common import *


def atom(v):
    if v is None:
        return 'ANone'
    if isinstance(v, bool):
        return '(ABool %s)' % ('true' if v else 'false')
    if isinstance(v, int):
        return '(AInt %s)' % coq_z(v)
    if isinstance(v, float):
        if v * 2 != int(v * 2):
            fail('float constant %r is not a multiple of 0.5' % v)
        return '(AFlt %s)' % coq_z(int(v * 2))
    if isinstance(v, str):
        if any(not (32 <= ord(c) < 127) for c in v):
            fail('non-ascii string constant %r' % v)
        return '(AStr %s)' % coq_string(v)
    fail('unsupported constant %r' % (v,))


def read_tables(schema, defaults, cname, consts):
    """_schema / _defaults dict literals -> [(key, coq ftype)], [(key, coq val)]"""
    # ---- schema
    def at(n):
        if isinstance(n, ast.Constant) and n.value is None:
            return 'None'
        if isinstance(n, ast.Name) and n.id in ('str', 'int', 'float', 'bool'):
            return '(Some %s)' % {'str': 'TStr', 'int': 'TInt', 'float': 'TFloat', 'bool': 'TBool'}[n.id]
        fail('unsupported element type %s' % ast.unparse(n))

    sch = []
    for k, v in zip(schema.keys, schema.values):
        key = cname(k)
        if isinstance(v, ast.Name) and v.id in ('str', 'int', 'float', 'bool'):
            t = '(FAtom %s)' % {'str': 'TStr', 'int': 'TInt', 'float': 'TFloat', 'bool': 'TBool'}[v.id]
        elif isinstance(v, ast.List) and len(v.elts) == 1:
            e = v.elts[0]
            if isinstance(e, ast.Name) and e.id not in ('str', 'int', 'float', 'bool'):
                t = '(FTyped %s)' % coq_string(e.id)
            else:
                t = '(FList %s)' % at(e)
        elif isinstance(v, ast.Dict) and len(v.keys) == 1:
            t = '(FDict %s %s)' % (at(v.keys[0]), at(v.values[0]))
        else:
            fail('schema entry %s: unsupported type %s' % (key, ast.unparse(v)))
        if key in [x for x, _ in sch]:
            fail('schema key %s twice' % key)
        sch.append((key, t))

    # ---- defaults
    dfl = []
    for k, v in zip(defaults.keys, defaults.values):
        key = cname(k)
        if isinstance(v, ast.Constant):
            val = '(VA %s)' % atom(v.value)
        elif isinstance(v, ast.Name) and v.id in consts:
            val = '(VA %s)' % atom(consts[v.id])
        elif (isinstance(v, ast.Call) and isinstance(v.func, ast.Name) and v.func.id == 'list' and not v.args
              and not v.keywords) or (isinstance(v, ast.List) and not v.elts):
            val = '(VL [])'
        elif (isinstance(v, ast.Call) and isinstance(v.func, ast.Name) and v.func.id == 'dict' and not v.args
              and not v.keywords) or (isinstance(v, ast.Dict) and not v.keys):
            val = '(VD [])'
        else:
            fail('default of %s: unsupported value %s' % (key, ast.unparse(v)))
        if key in [x for x, _ in dfl]:
            fail('default key %s twice' % key)
        dfl.append((key, val))

    return sch, dfl


def translate():
    tree = parse('task_description.py')
    consts = {}
    cls = None
    for node in tree.body:
        if isinstance(node, ast.Assign) and len(node.targets) == 1 and isinstance(node.targets[0], ast.Name) \
                and isinstance(node.value, ast.Constant) and isinstance(node.value.value, str):
            consts[node.targets[0].id] = node.value.value
        if isinstance(node, ast.ClassDef) and node.name == 'TaskDescription':
            cls = node
    if cls is None:
        fail('class TaskDescription not found')

    def cname(n):
        """a key / mode expression -> its string value"""
        if isinstance(n, ast.Constant) and isinstance(n.value, str):
            return n.value
        if isinstance(n, ast.Name) and n.id in consts:
            return consts[n.id]
        fail('expected a string constant, found %s' % ast.unparse(n))

    schema = defaults = verify = None
    for node in cls.body:
        if isinstance(node, ast.Assign) and len(node.targets) == 1 and isinstance(node.targets[0], ast.Name):
            if node.targets[0].id == '_schema':
                if schema is not None: fail('_schema assigned twice')
                schema = node.value
            elif node.targets[0].id == '_defaults':
                if defaults is not None: fail('_defaults assigned twice')
                defaults = node.value
            elif node.targets[0].id in ('_check', '_cast', '_deep', '_self_default'):
                fail('TaskDescription overrides %s' % node.targets[0].id)
        if isinstance(node, ast.FunctionDef):
            if node.name == '_verify':
                verify = node
            elif node.name == '__init__':
                want = 'def __init__(self, from_dict=None):\n    super().__init__(from_dict=from_dict)'
                if ast.unparse(node) != want:
                    fail('TaskDescription.__init__ changed: %s' % ast.unparse(node))
            else:
                fail('TaskDescription has an unknown method %s' % node.name)
    if not isinstance(schema, ast.Dict) or not isinstance(defaults, ast.Dict) or verify is None:
        fail('_schema / _defaults / _verify not found as literals')

    sch, dfl = read_tables(schema, defaults, cname, consts)

    # ---- _verify
    if ast.unparse(verify.args) != 'self' or verify.decorator_list:
        fail('_verify signature changed')
    body = [s for s in verify.body if not (isinstance(s, ast.Expr) and isinstance(s.value, ast.Constant))]
    if len(body) < 2:
        fail('_verify too short')

    def self_attr(n):
        if isinstance(n, ast.Attribute) and isinstance(n.value, ast.Name) and n.value.id == 'self' \
                and not n.attr.startswith('_'):
            return n.attr
        return None

    def self_get(n):
        """self.get('x') -> x"""
        if isinstance(n, ast.Call) and isinstance(n.func, ast.Attribute) and n.func.attr == 'get' \
                and isinstance(n.func.value, ast.Name) and n.func.value.id == 'self' \
                and len(n.args) == 1 and not n.keywords:
            return cname(n.args[0])
        return None

    def derive_block(st):
        """if self.F is None: self.F = bool(self.G - 1)  ->  (F, G), else None"""
        if not (isinstance(st, ast.If) and not st.orelse):
            return None
        t = st.test
        if isinstance(t, ast.Compare) and len(t.ops) == 1 and isinstance(t.ops[0], ast.Is) and self_attr(t.left) \
                and isinstance(t.comparators[0], ast.Constant) and t.comparators[0].value is None \
                and len(st.body) == 1 and isinstance(st.body[0], ast.Assign):
            f = self_attr(t.left)
            a = st.body[0]
            v = a.value
            if len(a.targets) == 1 and self_attr(a.targets[0]) == f and isinstance(v, ast.Call) \
                    and isinstance(v.func, ast.Name) and v.func.id == 'bool' and len(v.args) == 1 \
                    and isinstance(v.args[0], ast.BinOp) and isinstance(v.args[0].op, ast.Sub) \
                    and self_attr(v.args[0].left) and isinstance(v.args[0].right, ast.Constant) \
                    and v.args[0].right.value == 1:
                return (f, self_attr(v.args[0].left))
        return None

    # 1. mode default
    s0 = body[0]
    ok = (isinstance(s0, ast.If) and not s0.orelse and isinstance(s0.test, ast.UnaryOp)
          and isinstance(s0.test.op, ast.Not) and self_get(s0.test.operand) == 'mode' and len(s0.body) == 1
          and isinstance(s0.body[0], ast.Assign) and len(s0.body[0].targets) == 1
          and ast.unparse(s0.body[0].targets[0]) == "self['mode']")
    if not ok:
        fail('first statement of _verify is not the mode default: %s' % ast.unparse(s0))
    mode_default = cname(s0.body[0].value)

    # the use_mpi block may stand right after the mode default (position None) ...
    derive, derive_pos, nxt = None, None, 1
    if derive_block(body[1]) is not None:
        derive, derive_pos, nxt = derive_block(body[1]), 'None', 2
        if len(body) < 3:
            fail('_verify too short')

    # 2. the mode chain
    rules = []
    node = body[nxt]
    if not isinstance(node, ast.If):
        fail('statement %d of _verify is not the mode chain' % (nxt + 1))
    while True:
        t = node.test
        if isinstance(t, ast.Compare) and len(t.ops) == 1 and self_attr(t.left) == 'mode':
            if isinstance(t.ops[0], ast.In) and isinstance(t.comparators[0], ast.List):
                modes = [cname(e) for e in t.comparators[0].elts]
            elif isinstance(t.ops[0], ast.Eq):
                modes = [cname(t.comparators[0])]
            else:
                fail('mode test not understood: %s' % ast.unparse(t))
        else:
            fail('mode test not understood: %s' % ast.unparse(t))
        checks = []
        for c in node.body:
            if not (isinstance(c, ast.If) and not c.orelse):
                fail('mode branch contains something other than a check: %s' % ast.unparse(c))
            if isinstance(c.test, ast.UnaryOp) and isinstance(c.test.op, ast.Not) and self_get(c.test.operand):
                fld, req = self_get(c.test.operand), True
            elif self_get(c.test):
                fld, req = self_get(c.test), False
            else:
                fail('check not understood: %s' % ast.unparse(c.test))
            for st in c.body[:-1]:
                if not (isinstance(st, ast.Assign) and all(isinstance(x, ast.Name) for x in st.targets)):
                    fail('check body has a side effect: %s' % ast.unparse(st))
            r = c.body[-1]
            if not (isinstance(r, ast.Raise) and isinstance(r.exc, ast.Call) and isinstance(r.exc.func, ast.Name)
                    and r.exc.func.id == 'ValueError'):
                fail('check does not raise ValueError: %s' % ast.unparse(r))
            checks.append((fld, req))
        rules.append((modes, checks))
        if len(node.orelse) == 1 and isinstance(node.orelse[0], ast.If):
            node = node.orelse[0]
        elif not node.orelse:
            break
        else:
            fail('mode chain has an else branch')

    # 3. alias / ignore blocks, and the use_mpi block after any number of alias blocks (position Some n)
    aliases, ignored = [], []
    for st in body[nxt + 1:]:
        if not (isinstance(st, ast.If) and not st.orelse):
            fail('unexpected statement in _verify: %s' % ast.unparse(st))
        src = self_attr(st.test)
        if src is not None:
            if len(st.body) == 1 and isinstance(st.body[0], ast.Pass):
                ignored.append(src)
                continue
            if len(st.body) != 2 or not all(isinstance(x, ast.Assign) and len(x.targets) == 1 for x in st.body):
                fail('alias block not understood: %s' % ast.unparse(st))
            a1, a2 = st.body
            dst, rf = self_attr(a1.targets[0]), self_attr(a2.targets[0])
            if dst is None or rf is None:
                fail('alias block assigns to something else than self.X: %s' % ast.unparse(st))
            if self_attr(a1.value) == src:
                conv = 'CId'
            elif isinstance(a1.value, ast.Call) and isinstance(a1.value.func, ast.Name) and a1.value.func.id == 'float' \
                    and len(a1.value.args) == 1 and not a1.value.keywords and self_attr(a1.value.args[0]) == src:
                conv = 'CFloat'
            else:
                fail('alias conversion not understood: %s' % ast.unparse(a1))
            if not isinstance(a2.value, ast.Constant):
                fail('alias reset value is not a constant: %s' % ast.unparse(a2))
            aliases.append((src, dst, conv, rf, atom(a2.value.value)))
            continue
        # derive block
        if derive_block(st) is not None and derive is None:
            derive, derive_pos = derive_block(st), '(Some %d%%nat)' % len(aliases)
            continue
        fail('statement of _verify not understood: %s' % ast.unparse(st))
    if derive is None:
        fail('use_mpi block not found')

    S = coq_string
    out = ['(* GENERATED by translators/descr.py from src/radical/pilot/task_description.py -- do not edit *)',
           'From Coq Require Import ZArith List String.', 'From RP Require Import Descr.Types.',
           'Import ListNotations.', '']
    out.append('Definition td_schema : list (string * ftype) := [\n  %s].' % ';\n  '.join(
        '(%s, %s)' % (S(k), t) for k, t in sch))
    out.append('Definition td_defaults : list (string * val) := [\n  %s].' % ';\n  '.join(
        '(%s, %s)' % (S(k), v) for k, v in dfl))
    out.append('Definition td_mode_default : string := %s.' % S(mode_default))
    out.append('Definition td_rules : list (list string * list (string * bool)) := [\n  %s].' % ';\n  '.join(
        '([%s], [%s])' % ('; '.join(S(m) for m in ms), '; '.join('(%s, %s)' % (S(f), 'true' if r else 'false')
                                                                 for f, r in cs)) for ms, cs in rules))
    out.append('Definition td_aliases : list alias := [\n  %s].' % ';\n  '.join(
        'mkAlias %s %s %s %s %s' % (S(s), S(d), c, S(rf), rv) for s, d, c, rf, rv in aliases))
    out.append('Definition td_derive : string * string := (%s, %s).' % (S(derive[0]), S(derive[1])))
    out.append('(* where the use_mpi block stands: None = right after the mode default, before the mode checks;\n'
               '   Some n = after the mode checks and after the first n alias blocks *)')
    out.append('Definition td_derive_pos : option nat := %s.' % derive_pos)
    out.append('Definition td_ignored : list string := [%s].' % '; '.join(S(x) for x in ignored))
    out.append('Definition td_table : table :=\n  mkTable td_schema td_defaults td_mode_default td_rules '
               'td_aliases td_derive td_derive_pos td_ignored.')
    return '\n'.join(out) + '\n'


PD_VERIFY = """def _verify(self):
    if not self.get('resource'):
        raise ValueError
    if self.get('backup_nodes') and (not self.get('nodes')):
        raise ValueError
    if not self.get('nodes'):
        if not self.get('cores'):
            raise ValueError
    else:
        if self.get('cores'):
            raise ValueError
        if self.get('gpus'):
            raise ValueError"""


def translate_pd():
    """pilot_description.py: _schema and _defaults are translated; _verify must be, up to the
    messages, the text above (it is modelled by hand as Descr.Model.pd_rules)."""
    import re
    tree = parse('pilot_description.py')
    consts, cls = {}, None
    for node in tree.body:
        if isinstance(node, ast.Assign) and len(node.targets) == 1 and isinstance(node.targets[0], ast.Name) \
                and isinstance(node.value, ast.Constant) and isinstance(node.value.value, str):
            consts[node.targets[0].id] = node.value.value
        if isinstance(node, ast.ClassDef) and node.name == 'PilotDescription':
            cls = node
    if cls is None:
        fail('class PilotDescription not found')

    def cname(n):
        if isinstance(n, ast.Constant) and isinstance(n.value, str):
            return n.value
        if isinstance(n, ast.Name) and n.id in consts:
            return consts[n.id]
        fail('expected a string constant, found %s' % ast.unparse(n))
    schema = defaults = verify = None
    for node in cls.body:
        if isinstance(node, ast.Assign) and len(node.targets) == 1 and isinstance(node.targets[0], ast.Name):
            if node.targets[0].id == '_schema':
                schema = node.value
            elif node.targets[0].id == '_defaults':
                defaults = node.value
            elif node.targets[0].id in ('_check', '_cast', '_deep', '_self_default'):
                fail('PilotDescription overrides %s' % node.targets[0].id)
        if isinstance(node, ast.FunctionDef):
            if node.name == '_verify':
                verify = node
            elif node.name == '__init__':
                want = 'def __init__(self, from_dict=None):\n    super().__init__(from_dict=from_dict)'
                if ast.unparse(node) != want:
                    fail('PilotDescription.__init__ changed: %s' % ast.unparse(node))
            else:
                fail('PilotDescription has an unknown method %s' % node.name)
    if not isinstance(schema, ast.Dict) or not isinstance(defaults, ast.Dict) or verify is None:
        fail('PilotDescription: _schema / _defaults / _verify not found as literals')
    got = re.sub(r'raise ValueError\(.*\)', 'raise ValueError', ast.unparse(verify))
    if got != PD_VERIFY:
        fail('PilotDescription._verify changed; the hand-written model pd_rules no longer applies:\n%s' % got)
    sch, dfl = read_tables(schema, defaults, cname, consts)
    S = coq_string
    out = ['(* GENERATED by translators/descr.py from src/radical/pilot/pilot_description.py -- do not edit *)',
           'From Coq Require Import ZArith List String.', 'From RP Require Import Descr.Types.',
           'Import ListNotations.', '']
    out.append('Definition pd_schema : list (string * ftype) := [\n  %s].' % ';\n  '.join(
        '(%s, %s)' % (S(k), t) for k, t in sch))
    out.append('Definition pd_defaults : list (string * val) := [\n  %s].' % ';\n  '.join(
        '(%s, %s)' % (S(k), v) for k, v in dfl))
    out.append('Definition pd_table : table :=\n  mkTable pd_schema pd_defaults EmptyString [] [] '
               '(EmptyString, EmptyString) (Some 0%nat) [].')
    return '\n'.join(out) + '\n'


def main():
    """The two classes go to two files, so that a failure on one leaves the other up to date."""
    failed = []
    for name, fn, out in (('task_description.py', translate, 'Descr.v'),
                          ('pilot_description.py', translate_pd, 'PDescr.v')):
        try:
            text = fn()
            changed = write_if_changed(os.path.join(GEN, out), text)
            print('Gen/%s %s' % (out, 'rewritten' if changed else 'unchanged'))
        except TranslationError as e:
            failed.append('TRANSLATION-ERROR %s: %s' % (name, e))
    if failed:
        print(' ;; '.join(failed))
        sys.exit(3)


if __name__ == '__main__':
    main()
