"""Application-level slot finder: radical.pilot.resource_config Node / NodeList (`Pilot.nodelist`).

An application that places its tasks itself asks `pilot.nodelist.find_slots(rr, n)` for placements, supplies
them in TaskDescription.slots (the agent scheduler honours them unchecked) and gives them back with
`release_slots(slots)`.  This module drives the REAL Node / NodeList objects:

* kind 'seq'  : a node list (unique or repeated node names, node ids equal to or different from the list
                positions, DOWN / busy resources, lfs/mem), then a sequence of find_slots / release_slots
                (and verify, Node.find_slot / allocate_slot / deallocate_slot) calls; the answer and the
                complete node list after every call are compared with RP.AppSlots.Model.run inside Coq, and the
                clauses are evaluated on the implementation's own trace;
* kind 'pair' : after a sequential prefix two calls run in two real threads, thread A held after its k-th line
                inside the code under test (harness/interleave.py); the outcome must be the model's for A;B or
                B;A ('linearizable') and satisfy the occupancy clauses;
* kind 'float': occupations that are no multiples of 1/64 (0.1, 1/3, ...): judged on the implementation's own
                numbers (exact rationals), the model does not follow float rounding.

It is not registered as a check of its own: C01, C02 and C03 embed its clauses (harness/sides.py, tag 'app')."""
import json
import os
from fractions import Fraction

from . import coqlit as L
from . import interleave as IL
from .core import Prop, rp_import, VERIF

UNIT = 64
FBITS = 60
ERRS = {'ValueError': 'EValue', 'RuntimeError': 'ERuntime', 'AssertionError': 'EAssert', 'TypeError': 'EType',
        'IndexError': 'EIndex', 'UnboundLocalError': 'EUnbound'}
CLAUSES = ['no_oversubscription', 'shape', 'release_restores', 'failed_find_leaves_unchanged', 'linearizable']


# ------------------------------------------------------------------------------
# implementation side
#
def occ_f(u):
    return None if u is None else u / float(UNIT)


def units(x, scale=UNIT):
    """float occupation -> exact integer number of units; None (DOWN) stays None"""
    if x is None:
        return None
    fr = Fraction(x) * scale
    if fr.denominator != 1:
        raise Inexact(x)
    return int(fr)


class Inexact(Exception):
    pass


class Driver(object):
    def __init__(self, rp):
        import radical.pilot.resource_config as rc
        self.rc = rc

    def build(self, case):
        rc = self.rc
        nodes = [rc.Node({'index': nd['index'], 'name': nd['name'],
                          'cores': [occ_f(u) for u in nd['cores']], 'gpus': [occ_f(u) for u in nd['gpus']],
                          'lfs': nd['lfs'], 'mem': nd['mem']}) for nd in case['nodes']]
        nl = rc.NodeList(nodes=nodes)
        if case.get('verify', True):
            nl.verify()               # as Pilot.nodelist does
        return nl

    def rr(self, q, scale=UNIT):
        nc, co, ng, go, lfs, mem, numa = q
        if scale is None:
            cof, gof = co, go
        else:
            cof, gof = co / float(scale), go / float(scale)
        return self.rc.RankRequirements(n_cores=nc, core_occupation=cof, n_gpus=ng, gpu_occupation=gof,
                                        lfs=lfs, mem=mem, numa=bool(numa))

    def mk_slot(self, sd):
        cores, gpus, lfs, mem, nidx, name = sd
        RO = self.rc.RO
        return self.rc.Slot(cores=[RO(index=i, occupation=occ_f(o)) for i, o in cores],
                            gpus=[RO(index=i, occupation=occ_f(o)) for i, o in gpus],
                            lfs=lfs, mem=mem, node_index=nidx, node_name=name)

    @staticmethod
    def slot_data(s, scale=UNIT):
        return [[[ro.index, units(ro.occupation, scale)] for ro in s.cores],
                [[ro.index, units(ro.occupation, scale)] for ro in s.gpus],
                s.lfs, s.mem, s.node_index, s.node_name]

    @staticmethod
    def snapshot(nl, scale=UNIT):
        nodes = [[n.index, n.name, [units(ro.occupation, scale) for ro in n.cores],
                  [units(ro.occupation, scale) for ro in n.gpus], n.lfs, n.mem] for n in nl.nodes]
        frr, fn = nl.__last_failed_rr__, nl.__last_failed_n__
        failed, torn = None, (frr is None) != (fn is None)      # one of the two set, the other not: only by a race
        if frr is not None:
            failed = [[frr.n_cores, units(frr.core_occupation, scale), frr.n_gpus, units(frr.gpu_occupation, scale),
                       frr.lfs, frr.mem, bool(frr.numa)], 0 if fn is None else fn]
        ver = None
        if nl.__verified__:
            ver = [True, nl.cores_per_node, nl.gpus_per_node, nl.lfs_per_node, nl.mem_per_node] if nl.uniform \
                else [False, 0, 0, None, None]
        return {'nodes': nodes, 'index': nl.__index__, 'failed': failed, 'ver': ver, 'torn': torn}

    def resolve(self, refs, results):
        """references [j, i] -> the i-th Slot object returned by the j-th call (dropped when there is none)"""
        out = []
        for j, i in refs:
            r = results[j] if 0 <= j < len(results) else None
            if isinstance(r, list) and 0 <= i < len(r):
                out.append(r[i])
        return out

    def call(self, nl, o, results):
        """-> (closure performing the call, explicit form of the operation)"""
        k = o[0]
        if k == 'find':
            rr = self.rr(o[1])
            return (lambda: nl.find_slots(rr, o[2])), ['find', o[1], o[2]]
        if k == 'rel':
            sl = self.resolve(o[1], results)
            return (lambda: nl.release_slots(sl)), ['rel', [self.slot_data(s) for s in sl]]
        if k == 'rel_raw':
            sl = [self.mk_slot(sd) for sd in o[1]]
            return (lambda: nl.release_slots(sl)), ['rel', o[1]]
        if k == 'verify':
            return (lambda: nl.verify()), ['verify']
        if k == 'nfind':
            rr = self.rr(o[2])

            def nfind():
                s = nl.nodes[o[1]].find_slot(rr)
                return None if s is None else [s]
            return nfind, ['nfind', o[1], o[2]]
        if k == 'nalloc':
            s = self.mk_slot(o[2])

            return (lambda: nl.nodes[o[1]].allocate_slot(s)), ['nalloc', o[1], o[2]]
        if k == 'ndealloc':
            sl = self.resolve([o[2]], results) if o[2] is not None else []
            if not sl:
                return (lambda: None), ['noop']
            return (lambda: nl.nodes[o[1]].deallocate_slot(sl[0])), ['ndealloc', o[1], self.slot_data(sl[0])]
        raise ValueError(k)

    @staticmethod
    def answer(fn):
        """-> (canonical answer, the Slot objects returned)"""
        try:
            r = fn()
        except Exception as e:          # noqa
            return ['err', ERRS.get(type(e).__name__, 'EOther'), type(e).__name__], None
        if r is None:
            return None, None
        return r, r

    def run_ops(self, nl, ops):
        results, eff, obs = [], [], []
        for o in ops:
            fn, ex = self.call(nl, o, results)
            if ex[0] == 'noop':
                results.append(None)
                continue
            r, objs = self.answer(fn)
            if ex[0] == 'nalloc' and r is None:
                objs = [self.mk_slot(ex[2])]
            results.append(objs)
            if isinstance(r, list) and r and r[0] == 'err':
                ans = r
            elif r is None:
                ans = ['none'] if ex[0] in ('find', 'nfind') else ['ok']
            else:
                ans = ['slots', [self.slot_data(s) for s in r]]
            eff.append(ex)
            obs.append([ans, self.snapshot(nl)])
        return results, eff, obs

    def run_seq(self, case):
        nl = self.build(case)
        try:
            _, eff, obs = self.run_ops(nl, case['ops'])
        except Inexact as e:
            return {'inexact': repr(e)}
        return {'eff': eff, 'obs': obs}

    def run_pair(self, case):
        rc = self.rc
        nl = self.build(case)
        results, eff, obs = self.run_ops(nl, case['ops'])
        fa, exa = self.call(nl, case['a'], results)
        fb, exb = self.call(nl, case['b'], results)
        if exa[0] == 'noop':            # a reference to a slot the prefix did not get
            fa, exa = self.call(nl, ['verify'], results)
        if exb[0] == 'noop':
            fb, exb = self.call(nl, ['verify'], results)
        out = {}

        def wrap(tag, fn):
            def w():
                out[tag] = self.answer(fn)[0]
            return w
        # NodeList.find_slots / release_slots are wrappers that take the node list's lock around _find_slots /
        # _release_slots (older trees: the bodies themselves)
        funcs = [rc.Node.find_slot, rc.Node.allocate_slot, rc.Node.deallocate_slot,
                 rc.NodeList.find_slots, rc.NodeList.release_slots, rc.NodeList._assert_rr]
        funcs += [getattr(rc.NodeList, n) for n in ('_find_slots', '_release_slots', '_get_node') if hasattr(rc.NodeList, n)]
        codes = IL.code_of(*funcs)
        # once the held thread is released both run freely: a long switch interval lets the running thread go on
        # until it blocks or ends, which makes the outcome after the hold point repeatable
        import sys
        old = sys.getswitchinterval()
        sys.setswitchinterval(0.05)
        try:
            r = IL.run_pair(wrap('a', fa), wrap('b', fb), codes, case['k'], block_s=0.05, total_s=10.0)
        finally:
            sys.setswitchinterval(old)

        def canon(tag, ex):
            if tag not in out:
                return ['err', 'EOther', 'no answer']
            x = out[tag]
            if isinstance(x, list) and x and x[0] == 'err':
                return x
            if x is None:
                return ['none'] if ex[0] in ('find', 'nfind') else ['ok']
            return ['slots', [self.slot_data(s) for s in x]]
        return {'eff': eff, 'obs': obs, 'a': exa, 'b': exb, 'ra': canon('a', exa), 'rb': canon('b', exb),
                'fin': self.snapshot(nl), 'held': r['held'], 'b_blocked': r['b_blocked'], 'lines': r['lines']}

    def run_float(self, case):
        """occupations given as floats; everything is reported in units of 1/2^60"""
        rc = self.rc
        sc = 1 << FBITS
        nodes = [rc.Node({'index': nd['index'], 'name': nd['name'], 'cores': list(nd['cores']),
                          'gpus': list(nd['gpus']), 'lfs': nd['lfs'], 'mem': nd['mem']}) for nd in case['nodes']]
        nl = rc.NodeList(nodes=nodes)
        nl.verify()
        init = self.snapshot(nl, sc)['nodes']
        results, out, held = [], [], 0
        for o in case['ops']:
            if o[0] == 'find':
                r, objs = self.answer(lambda: nl.find_slots(self.rr(o[1], None), o[2]))
                results.append(objs)
                if objs:
                    held += len(objs)
                tag = 'err' if (isinstance(r, list) and r and r[0] == 'err') else ('slots' if objs else 'none')
            else:
                sl = self.resolve(o[1], results)
                r, _ = self.answer(lambda: nl.release_slots(sl))
                held -= len(sl)
                tag = 'err' if r else 'ok'
            out.append([tag, held == 0, self.snapshot(nl, sc)['nodes']])
        return {'init': init, 'steps': out}


# ------------------------------------------------------------------------------
# Coq literals
#
def oz(x):
    return L.opt(None if x is None else L.Z(x))


def c_pairs(l):
    return L.lst([L.pair(L.Z(i), L.Z(o)) for i, o in l])


def c_slot(sd):
    cores, gpus, lfs, mem, nidx, name = sd
    return '(mkSlot %s %s %s %s %s %s)' % (c_pairs(cores), c_pairs(gpus), L.Z(lfs), L.Z(mem), L.Z(nidx),
                                            L.string(name))


def c_rr(q):
    nc, co, ng, go, lfs, mem, numa = q
    return '(mkRR %s %s %s %s %s %s %s)' % (L.Z(nc), L.Z(co), L.Z(ng), L.Z(go), L.Z(lfs), L.Z(mem),
                                             L.boolean(numa))


def c_node(index, name, cores, gpus, lfs, mem):
    return '(mkNode %s %s %s %s %s %s)' % (L.Z(index), L.string(name), L.lst([oz(u) for u in cores]),
                                            L.lst([oz(u) for u in gpus]), oz(lfs), oz(mem))


def c_nodes0(case):
    return L.lst([c_node(nd['index'], nd['name'], nd['cores'], nd['gpus'], nd['lfs'], nd['mem'])
                  for nd in case['nodes']])


def c_nl(sn):
    failed = L.opt(None if sn['failed'] is None else L.pair(c_rr(sn['failed'][0]), L.Z(sn['failed'][1])))
    ver = L.opt(None if sn['ver'] is None else '(mkVer %s %s %s %s %s)' % (
        L.boolean(sn['ver'][0]), L.Z(sn['ver'][1]), L.Z(sn['ver'][2]), oz(sn['ver'][3]), oz(sn['ver'][4])))
    return '(mkNL %s %s %s %s)' % (L.lst([c_node(*n) for n in sn['nodes']]), L.Z(sn['index']), failed, ver)


def c_op(ex):
    k = ex[0]
    if k == 'find':
        return '(OFind %s %s)' % (c_rr(ex[1]), L.Z(ex[2]))
    if k == 'rel':
        return '(ORelease %s)' % L.lst([c_slot(s) for s in ex[1]])
    if k == 'verify':
        return 'OVerify'
    if k == 'nfind':
        return '(ONFind %s %s)' % (L.nat(ex[1]), c_rr(ex[2]))
    if k == 'nalloc':
        return '(ONAlloc %s %s)' % (L.nat(ex[1]), c_slot(ex[2]))
    if k == 'ndealloc':
        return '(ONDealloc %s %s)' % (L.nat(ex[1]), c_slot(ex[2]))
    raise ValueError(k)


def c_res(a):
    if a[0] == 'slots':
        return '(RSlots %s)' % L.lst([c_slot(s) for s in a[1]])
    if a[0] == 'none':
        return 'RNone'
    if a[0] == 'ok':
        return 'ROk'
    return '(RErr %s)' % a[1]


def c_obs(obs):
    return L.lst([L.pair(c_res(a), c_nl(sn)) for a, sn in obs])


# ------------------------------------------------------------------------------
# case generation
#
def assert_rr_exact(nodes, q, n):
    """does the float arithmetic of NodeList._assert_rr decide like exact fractions?  (sizes only)"""
    nc, _co, ng, _go, lfs, mem, _ = q
    n0 = nodes[0]
    if nc == 0 or (lfs and n0['lfs'] is None) or (mem and n0['mem'] is None):
        return True

    def run(div):
        rpn = div(len(n0['cores']), nc)
        if ng:
            rpn = min(rpn, div(len(n0['gpus']), ng))
        if lfs:
            rpn = min(rpn, div(n0['lfs'], lfs))
        if mem:
            rpn = min(rpn, div(n0['mem'], mem))
        return (rpn < 1, n > len(nodes) * rpn)
    return run(lambda a, b: a / b) == run(lambda a, b: Fraction(a, b))


def gen_nodes(rng, names=None, indexing='pos', lo=1, hi=4):
    n = rng.randint(lo, hi)
    nc, ng = rng.randint(1, 6), rng.choice([0, 0, 1, 2, 3])
    cores = [0] * nc
    gpus = [0] * ng
    r = rng.random()
    if r < 0.35:
        for j in range(nc):
            x = rng.random()
            cores[j] = None if x < 0.15 else (UNIT if x < 0.3 else (rng.choice([16, 32, 48]) if x < 0.4 else 0))
        for j in range(ng):
            x = rng.random()
            gpus[j] = None if x < 0.15 else (UNIT if x < 0.25 else (32 if x < 0.35 else 0))
    lfs = rng.choice([0, 100, 100, 256, 1024])
    mem = rng.choice([0, 0, 128, 4096])
    if rng.random() < 0.04:
        lfs = None
    if rng.random() < 0.04:
        mem = None
    names = names or rng.choice(['unique', 'unique', 'same', 'mixed'])
    if indexing == 'pos':
        ids = list(range(n))
    elif indexing == 'gap':
        ids = sorted(rng.sample(range(n + 2), n))
        if ids == list(range(n)):
            ids[-1] += 1
    else:
        ids = list(range(n))
        rng.shuffle(ids)
        if ids == list(range(n)) and n > 1:
            ids[0], ids[1] = ids[1], ids[0]
    out = []
    for i in range(n):
        nm = {'unique': 'node%d' % ids[i], 'same': 'localhost', 'mixed': 'host%d' % (i // 2)}[names]
        out.append({'index': ids[i], 'name': nm, 'cores': list(cores), 'gpus': list(gpus), 'lfs': lfs, 'mem': mem})
    if rng.random() < 0.05 and n > 1:          # not uniform: find_slots refuses
        k = rng.randrange(1, n)
        if rng.random() < 0.5:
            out[k]['cores'] = list(out[k]['cores']) + [0]
        else:
            out[k]['lfs'] = 7
    return out


def gen_rr(rng, nodes, wild=False):
    nc0, ng0 = len(nodes[0]['cores']), len(nodes[0]['gpus'])
    nc = rng.randint(1, max(1, min(nc0, 3)))
    co = rng.choice([UNIT, UNIT, UNIT, 32, 32, 16, 48, 8, 1])
    ng = rng.choice([0, 0] + list(range(0, ng0 + 1)))
    go = rng.choice([UNIT, UNIT, 32, 16])
    lfs = rng.choice([0, 0, 0, 10, 40, 100])
    mem = rng.choice([0, 0, 0, 64, 128])
    if wild:
        x = rng.random()
        if x < 0.2:
            nc = rng.choice([0, nc0 + 1, -1])
        elif x < 0.35:
            ng = rng.choice([ng0 + 1, -1])
        elif x < 0.5:
            co = rng.choice([96, 0, 65])
        elif x < 0.65:
            lfs = rng.choice([2000, -5])
        elif x < 0.8:
            mem = rng.choice([100000, -5])
    return [nc, co, ng, go, lfs, mem, rng.random() < 0.1]


def gen_find(rng, nodes, wild=False):
    for _ in range(20):
        q = gen_rr(rng, nodes, wild and rng.random() < 0.5)
        n = rng.choice([1, 1, 1, 2, 2, 3, 4, 6])
        if wild and rng.random() < 0.3:
            n = rng.choice([0, -1, 9, 40])
        if q[1] <= 0 and n <= 0:
            continue                        # `while True` never ends in the code: not generated
        if assert_rr_exact(nodes, q, n):
            return ['find', q, n]
    return ['find', [1, UNIT, 0, UNIT, 0, 0, False], 1]


def gen_seq(rng, size='small', names=None, indexing='pos', disciplined=True):
    nodes = gen_nodes(rng, names, indexing)
    nops = rng.randint(2, 7) if size == 'small' else rng.randint(6, 16)
    ops, free_refs = [], []
    wild = rng.random() < 0.3
    for t in range(nops):
        x = rng.random()
        if x < 0.55 or not free_refs:
            if rng.random() < 0.08:
                k = rng.randrange(len(nodes))
                q = gen_rr(rng, nodes, wild and rng.random() < 0.3)
                if q[0] < 0 or q[2] < 0 or q[1] < 0 or q[3] < 0 or q[4] < 0 or q[5] < 0:
                    q = [1, UNIT, 0, UNIT, 0, 0, False]
                ops.append(['nfind', k, q])
                free_refs.append(('n', k, len(ops) - 1, 0))
            elif rng.random() < 0.06:
                k = rng.randrange(len(nodes))
                nd = nodes[k]
                cs = sorted(rng.sample(range(len(nd['cores'])), rng.randint(1, min(2, len(nd['cores'])))))
                sd = [[[c, rng.choice([UNIT, 32])] for c in cs], [], rng.choice([0, 10]), 0, nd['index'], nd['name']]
                if not disciplined and rng.random() < 0.5:
                    sd[0].append([rng.choice([-1, cs[0], 99]), 40])
                elif rng.random() < 0.35:
                    # a slot naming a core twice: the check of allocate_slot has to count both entries
                    sd[0].append([rng.choice(cs), rng.choice([UNIT, 24, 32, 40])])
                if nd['gpus'] and rng.random() < 0.5:
                    # ... and GPUs, once or twice
                    g = rng.randrange(len(nd['gpus']))
                    sd[1] = [[g, rng.choice([UNIT, 32, 40])]]
                    if rng.random() < 0.5:
                        sd[1].append([g, rng.choice([24, 32, 40])])
                ops.append(['nalloc', k, sd])
                free_refs.append(('n', k, len(ops) - 1, 0))
            else:
                o = gen_find(rng, nodes, wild)
                ops.append(o)
                for i in range(max(0, min(o[2], 12))):
                    free_refs.append(('l', None, len(ops) - 1, i))
        elif x < 0.93:
            # release what an earlier call returned (all of it, or a part)
            j = rng.choice(sorted(set(r[2] for r in free_refs if r[0] == 'l')) or [None])
            if j is None:
                r = rng.choice(free_refs)
                free_refs.remove(r)
                ops.append(['ndealloc', r[1], [r[2], r[3]]])
                continue
            mine = [r for r in free_refs if r[2] == j]
            take = mine if rng.random() < 0.7 else rng.sample(mine, rng.randint(1, len(mine)))
            for r in take:
                free_refs.remove(r)
            refs = [[r[2], r[3]] for r in take]
            if rng.random() < 0.3:
                rng.shuffle(refs)
            ops.append(['rel', refs])
        else:
            ops.append(['verify'] if rng.random() < 0.5 else ['rel', []])
    if not disciplined:
        # an application that gives back what it does not hold (twice, made-up slots): compared with the model only
        finds = [i for i, o in enumerate(ops) if o[0] == 'find']
        for _ in range(rng.randint(1, 2)):
            pos = rng.randint(1, len(ops))
            if finds and rng.random() < 0.6:
                j = rng.choice(finds)
                ops.insert(pos, ['rel', [[j, 0]]])
                finds = [i + (1 if i >= pos else 0) for i in finds]
                ops = [fix_refs(o, pos) for o in ops]
            else:
                nd = rng.choice(nodes)
                sd = [[[rng.choice([0, 1, -1, 7]), rng.choice([UNIT, 32])]], [], rng.choice([0, 10]), 0,
                      rng.choice([nd['index'], -1, 5]), nd['name']]
                ops.insert(pos, ['rel_raw', [sd]])
                ops = [fix_refs(o, pos) for o in ops]
    if disciplined and rng.random() < 0.5:
        # give everything back at the end
        refs = [[r[2], r[3]] for r in free_refs if r[0] == 'l']
        if refs:
            ops.append(['rel', refs])
    return {'kind': 'seq', 'nodes': nodes, 'verify': rng.random() < 0.7, 'ops': ops, 'disciplined': disciplined,
            'indexing': indexing}


def fix_refs(o, pos):
    """an operation was inserted at `pos`: later references move by one"""
    if o[0] == 'rel':
        return ['rel', [[j + 1 if j >= pos else j, i] for j, i in o[1]]]
    if o[0] == 'ndealloc' and o[2] is not None:
        return ['ndealloc', o[1], [o[2][0] + 1 if o[2][0] >= pos else o[2][0], o[2][1]]]
    return o


def plain_nodes(n, nc, ng, lfs=100, mem=0, names='unique'):
    return [{'index': i, 'name': ('node%d' % i if names == 'unique' else 'localhost'), 'cores': [0] * nc,
             'gpus': [0] * ng, 'lfs': lfs, 'mem': mem} for i in range(n)]


RR1 = [1, UNIT, 0, UNIT, 0, 0, False]
RR2 = [2, UNIT, 0, UNIT, 10, 0, False]
RRH = [1, 32, 1, 32, 0, 0, False]

FIXED_SEQ = [
    # the scenario of a multi-node `local.localhost` pilot: every node is called localhost
    dict(nodes=plain_nodes(2, 4, 1, 100, 1024, 'same'),
         ops=[['find', [2, UNIT, 0, UNIT, 10, 128, False], 2], ['find', [2, UNIT, 0, UNIT, 10, 128, False], 2],
              ['rel', [[0, 0], [0, 1]]], ['find', [2, UNIT, 0, UNIT, 10, 128, False], 2],
              ['rel', [[3, 0], [3, 1]]], ['rel', [[1, 0], [1, 1]]]]),
    # a failed find_slots rolls back on nodes of equal name
    dict(nodes=plain_nodes(3, 2, 0, 100, 0, 'same'),
         ops=[['find', RR2, 1], ['find', RR2, 3], ['find', RR2, 2], ['rel', [[0, 0]]], ['rel', [[2, 0], [2, 1]]]]),
    dict(nodes=plain_nodes(2, 4, 1),
         ops=[['find', RR2, 3], ['find', RR2, 2], ['find', RR1, 1], ['rel', [[0, 0], [0, 1], [0, 2]]],
              ['find', RR2, 2], ['rel', [[4, 0], [4, 1]]]]),
    dict(nodes=plain_nodes(2, 2, 2),
         ops=[['find', RRH, 4], ['find', RRH, 4], ['find', RRH, 1], ['rel', [[0, 1], [1, 2]]], ['find', RRH, 2],
              ['rel', [[0, 0], [0, 2], [0, 3], [1, 0], [1, 1], [1, 3]]], ['rel', [[4, 0], [4, 1]]]]),
]

FIXED_PAIR = [
    # two find_slots calls that meet on the same node
    dict(nodes=plain_nodes(2, 4, 1), ops=[], a=['find', RR2, 1], b=['find', RR2, 1]),
    dict(nodes=plain_nodes(2, 2, 1, names='same'), ops=[['find', RR1, 1]], a=['find', RRH, 2], b=['find', RR1, 1]),
    # find_slots against release_slots
    dict(nodes=plain_nodes(2, 2, 0, names='same'), ops=[['find', RR2, 1], ['find', RR2, 1]],
         a=['find', RR2, 1], b=['rel', [[0, 0]]]),
    dict(nodes=plain_nodes(2, 2, 0), ops=[['find', RR2, 1], ['find', RR1, 1]],
         a=['rel', [[0, 0]]], b=['find', RR1, 2]),
    # find_slots reads __last_failed_rr__ twice while release_slots resets it
    dict(nodes=plain_nodes(2, 4, 0), ops=[['find', RR2, 1], ['find', RR2, 4]], a=['find', RR1, 1], b=['rel', [[0, 0]]]),
    # release_slots resets __last_failed_rr__ and __last_failed_n__ one after the other while a find_slots fails
    dict(nodes=plain_nodes(2, 4, 0), ops=[['find', RR2, 1], ['find', RR2, 1], ['find', RR2, 1]],
         a=['rel', [[0, 0]]], b=['find', RR2, 3]),
]


def app_slot(k, cores, lfs=0, names='unique'):
    return [[[c, o] for c, o in cores], [], lfs, 0, k, 'node%d' % k if names == 'unique' else 'localhost']


RR3 = [3, UNIT, 0, UNIT, 0, 0, False]
# two threads on ONE Node object (Node.find_slot / allocate_slot / deallocate_slot take the node's own lock):
# NodeList serialises its callers, the node lock is what protects an application that works on nodes directly
FIXED_NODE_PAIR = [
    dict(nodes=plain_nodes(1, 4, 1), ops=[], a=['nfind', 0, RR2], b=['nfind', 0, RR2]),
    dict(nodes=plain_nodes(2, 3, 1, names='same'), ops=[['find', RR1, 1]], a=['nfind', 0, RRH], b=['nfind', 0, RR1]),
    dict(nodes=plain_nodes(1, 4, 0), ops=[], a=['nfind', 0, RR2], b=['nalloc', 0, app_slot(0, [[0, UNIT], [2, 32]], 10)]),
    dict(nodes=plain_nodes(1, 2, 0), ops=[], a=['nalloc', 0, app_slot(0, [[0, 48]])], b=['nalloc', 0, app_slot(0, [[0, 48]])]),
    dict(nodes=plain_nodes(1, 4, 0), ops=[['nfind', 0, RR2]], a=['ndealloc', 0, [0, 0]], b=['nfind', 0, RR3]),
    dict(nodes=plain_nodes(1, 4, 0), ops=[['nfind', 0, RR2]], a=['nfind', 0, RR3], b=['ndealloc', 0, [0, 0]]),
    # a NodeList caller against a direct Node caller (judged on the occupancy clauses only)
    dict(nodes=plain_nodes(2, 4, 0), ops=[], a=['find', RR2, 2], b=['nfind', 0, RR2]),
]
PAIR_KS = 120
NODE_PAIR_KS = 60


def gen_pair(rng):
    nodes = plain_nodes(rng.randint(1, 3), rng.randint(2, 4), rng.choice([0, 1]),
                        names=rng.choice(['unique', 'same']))
    ops = []
    for _ in range(rng.randint(0, 2)):
        ops.append(gen_find(rng, nodes))
    finds = [i for i, o in enumerate(ops)]

    def one():
        if finds and rng.random() < 0.4:
            j = rng.choice(finds)
            finds.remove(j)
            return ['rel', [[j, i] for i in range(max(0, ops[j][2]))]]
        return gen_find(rng, nodes)

    def node_one(k):
        x = rng.random()
        if x < 0.6:
            q = gen_rr(rng, nodes)
            return ['nfind', k, q]
        nd = nodes[k]
        cs = sorted(rng.sample(range(len(nd['cores'])), rng.randint(1, 2)))
        return ['nalloc', k, [[[c, rng.choice([UNIT, 32, 48])] for c in cs], [], rng.choice([0, 10]), 0,
                              nd['index'], nd['name']]]
    if rng.random() < 0.5:
        # both threads work on the same Node object directly
        k = rng.randrange(len(nodes))
        ops = [o for o in ops if rng.random() < 0.5]
        a, b = node_one(k), node_one(k)
        if rng.random() < 0.3:
            ops.append(['nfind', k, gen_rr(rng, nodes)])
            a = ['ndealloc', k, [len(ops) - 1, 0]]
        return {'kind': 'pair', 'nodes': nodes, 'verify': True, 'ops': ops, 'a': a, 'b': b}
    return {'kind': 'pair', 'nodes': nodes, 'verify': True, 'ops': ops, 'a': one(), 'b': one()}


FLOATS = [0.1, 0.2, 0.3, 0.4, 0.6, 0.7, 1.0 / 3, 0.15]


def gen_float(rng):
    nodes = [{'index': i, 'name': 'node%d' % i, 'cores': [0.0] * rng.randint(1, 2), 'gpus': [0.0] * rng.choice([0, 1]),
              'lfs': 0, 'mem': 0} for i in range(rng.randint(1, 2))]
    ops, live = [], []
    for _ in range(rng.randint(3, 8)):
        if live and rng.random() < 0.4:
            j = live.pop(rng.randrange(len(live)))
            ops.append(['rel', [[j, 0]]])
        else:
            ng = 1 if nodes[0]['gpus'] and rng.random() < 0.3 else 0
            ops.append(['find', [1, rng.choice(FLOATS), ng, rng.choice(FLOATS), 0, 0, False], 1])
            live.append(len(ops) - 1)
    rng.shuffle(live)
    for j in live:
        ops.append(['rel', [[j, 0]]])
    ops.append(['find', [1, 1.0, 0, 1.0, 0, 0, False], 1])
    return {'kind': 'float', 'nodes': nodes, 'ops': ops}


FIXED_FLOAT = [
    # three shares of one core, given back in the order they were taken, then the whole core is asked for
    {'kind': 'float', 'nodes': [{'index': 0, 'name': 'node0', 'cores': [0.0], 'gpus': [], 'lfs': 0, 'mem': 0}],
     'ops': [['find', [1, 0.4, 0, 1.0, 0, 0, False], 1], ['find', [1, 0.2, 0, 1.0, 0, 0, False], 1],
             ['find', [1, 0.3, 0, 1.0, 0, 0, False], 1], ['rel', [[0, 0]]], ['rel', [[1, 0]]], ['rel', [[2, 0]]],
             ['find', [1, 1.0, 0, 1.0, 0, 0, False], 1]]},
]


# ------------------------------------------------------------------------------
#
class AppSlots(Prop):
    id = 'C01'
    module = 'appslots'
    props_files = []
    extra_targets = ['AppSlots/Oracle.vo', 'AppSlots/Proofs.vo']
    model_targets = ['AppSlots/Oracle.vo']
    header = 'From RP Require Import AppSlots.Model AppSlots.Oracle.'
    clauses = CLAUSES
    corr_name = ('AppSlots.Model.run vs the real resource_config.NodeList / Node objects (find_slots, '
                 'release_slots, verify, Node.find_slot / allocate_slot / deallocate_slot), answer and complete '
                 'node list after every call')
    trusted = ['application side: harness/appslots.py (real Node / NodeList objects; two real threads with one held '
               'by a line tracer, harness/interleave.py); occupations generated as multiples of 1/64 (exact '
               'floats) except in the cases marked float, which are judged on the implementation\'s own numbers']
    rule = ('node lists of 1-4 nodes x 1-6 cores x 0-3 GPUs with DOWN/busy/partly used resources, lfs/mem, unique '
            'and repeated node names, node ids equal to and different from list positions; sequences of 2-16 '
            'find_slots / release_slots / verify / Node-level calls; pairs of calls in two threads, every hold point')

    def corpus(self):
        d = os.path.join(VERIF, 'corpus', 'AppSlots')
        out = []
        if os.path.isdir(d):
            for f in sorted(os.listdir(d)):
                if f.endswith('.json'):
                    out.append(json.load(open(os.path.join(d, f)))['case'])
        return out

    @staticmethod
    def alloc_family():
        """Node.allocate_slot(_check=True) with application-made slots: one or two entries for the same or for two
        cores / GPUs, on a free node and on one that already holds 32/64 there, with and without a later release"""
        shares = [UNIT, 24, 32, 40, 64]
        for res in ('cores', 'gpus'):
            for pre in (False, True):
                for a in shares:
                    for b in [None] + shares:
                        for same in ((True,) if b is None else (True, False)):
                            ent = [[0, a]] + ([] if b is None else [[0 if same else 1, b]])
                            sd = [ent, [], 0, 0, 0, 'node0'] if res == 'cores' else [[[1, UNIT]], ent, 0, 0, 0, 'node0']
                            ops = []
                            if pre:
                                ops.append(['nalloc', 0, [[[0, 32]], [], 0, 0, 0, 'node0'] if res == 'cores'
                                            else [[], [[0, 32]], 0, 0, 0, 'node0']])
                            ops.append(['nalloc', 0, sd])
                            ops.append(['nfind', 0, [1, 32, 1, 32, 0, 0, False]])
                            yield {'kind': 'seq', 'nodes': plain_nodes(1, 2, 2, 100, 0), 'verify': True, 'ops': ops,
                                   'disciplined': True, 'indexing': 'pos'}

    def cases(self, rng, tier):
        quick = tier == 'quick'
        fam = list(self.alloc_family())
        for c in (rng.sample(fam, 60) if quick else fam):
            yield c
        for c in FIXED_SEQ:
            yield dict(c, kind='seq', verify=True, disciplined=True, indexing='pos')
            yield dict(c, kind='seq', verify=False, disciplined=True, indexing='pos')
        for c in FIXED_FLOAT:
            yield c
        for c in FIXED_PAIR:
            for k in range(0, PAIR_KS + 1):
                yield dict(c, kind='pair', verify=True, k=k)
        for c in FIXED_NODE_PAIR:
            for k in range(0, NODE_PAIR_KS + 1):
                yield dict(c, kind='pair', verify=True, k=k)
        for i in range(150 if quick else 6000):
            r = rng.random()
            indexing = 'pos' if r < 0.9 else ('gap' if r < 0.95 else 'perm')
            yield gen_seq(rng, size='small' if rng.random() < 0.6 else 'large', indexing=indexing,
                          disciplined=rng.random() < 0.9)
        for i in range(12 if quick else 300):
            yield gen_float(rng)
        ks = list(range(1, PAIR_KS + 1))
        for i in range(20 if quick else 300):
            c = gen_pair(rng)
            for k in (rng.sample(ks, 6) if quick else ks):
                yield dict(c, k=k)
        if not quick:
            yield from self.small_scope(4)

    @staticmethod
    def small_scope(maxlen):
        """every sequence of <= maxlen operations over two 2-core x 1-GPU nodes called localhost"""
        import itertools
        nodes = plain_nodes(2, 2, 1, 20, 0, 'same')
        alpha = {'f1': ['find', [1, UNIT, 0, UNIT, 10, 0, False], 1], 'f2': ['find', [1, 32, 1, 32, 0, 0, False], 3],
                 'f3': ['find', [2, UNIT, 0, UNIT, 0, 0, False], 2]}
        for k in range(1, maxlen + 1):
            for seq in itertools.product(['f1', 'f2', 'f3', 'r0', 'r1', 'rl'], repeat=k):
                ops, finds, used = [], [], set()
                ok = True
                for x in seq:
                    if x in alpha:
                        ops.append(alpha[x])
                        finds.append(len(ops) - 1)
                    else:
                        cand = [j for j in finds if j not in used]
                        if not cand:
                            ok = False
                            break
                        j = cand[0] if x == 'r0' else (cand[1] if x == 'r1' and len(cand) > 1 else cand[-1])
                        used.add(j)
                        ops.append(['rel', [[j, i] for i in range(ops[j][2])]])
                if ok:
                    yield {'kind': 'seq', 'nodes': nodes, 'verify': True, 'ops': ops, 'disciplined': True,
                           'indexing': 'pos'}

    def impl_setup(self):
        self.rp = rp_import()
        self.drv = Driver(self.rp)

    def run_impl(self, case):
        if not hasattr(self, 'drv'):
            self.impl_setup()
        k = case['kind']
        if k == 'seq':
            return self.drv.run_seq(case)
        if k == 'pair':
            return self.drv.run_pair(case)
        return self.drv.run_float(case)

    def coq_row(self, case, obs):
        k = case['kind']
        if k == 'float':
            ns0 = L.lst([c_node(*n) for n in obs['init']])
            steps = L.lst([L.pair(L.boolean(q), L.lst([c_node(*n) for n in ns])) for _t, q, ns in obs['steps']])
            return '(float_row %s %s %s)' % (L.Z(1 << FBITS), ns0, steps)
        if obs.get('inexact'):
            return '(repeat false 6%nat)'
        ns0, ver = c_nodes0(case), L.boolean(case.get('verify', True))
        ops = L.lst([c_op(e) for e in obs['eff']])
        if k == 'seq':
            row = '(app_row %s %s %s %s)' % (ns0, ver, ops, c_obs(obs['obs']))
            if not case.get('disciplined', True):
                row = '(hd false %s :: repeat true 5%%nat)' % row
            return row
        row = '(pair_row %s %s %s %s %s %s %s %s %s)' % (ns0, ver, ops, c_obs(obs['obs']), c_op(obs['a']),
                                                        c_op(obs['b']), c_res(obs['ra']), c_res(obs['rb']),
                                                        c_nl(obs['fin']))
        levels = set('list' if o[0] in ('find', 'rel', 'verify') else 'node' for o in (obs['a'], obs['b']))
        if len(levels) == 2:
            # a NodeList call against a direct Node call: the node list's lock does not cover the direct caller, a
            # find_slots for several slots is then atomic per node only -- occupancy clauses judged, not the order
            row = '(firstn 5 %s ++ [true])' % row
        if obs['fin'].get('torn'):
            # __last_failed_rr__ set and __last_failed_n__ None (or the reverse): no sequential run ends like that
            row = '(firstn 5 %s ++ [false])' % row
        return row

    def model_show(self, case):
        return None

    def nontrivial(self, case, obs):
        if case['kind'] == 'seq' and obs.get('obs'):
            got = sum(1 for a, _ in obs['obs'] if a[0] == 'slots')
            rel = sum(1 for e in obs['eff'] if e[0] == 'rel' and e[1])
            return got >= 2 and rel >= 1
        if case['kind'] == 'pair':
            return bool(obs.get('held')) and case['k'] > 0
        return True

    def signature(self, case, obs, clause):
        k = case['kind']
        if k == 'float':
            return clause + ':float_occupations'
        if k == 'pair' and clause == 'linearizable':
            errs = [r[2] for r in (obs['ra'], obs['rb']) if r[0] == 'err' and r[1] in ('EOther', 'EType')]
            if obs['fin'].get('torn') and not errs:
                return clause + ':torn_last_failed'
            return clause + (':exception' if errs else ':outcome')
        if k == 'pair' and obs.get('b_blocked'):
            # the second thread waited for a lock of the held one: what follows the release is a free race
            return clause + ':second_thread_waited'
        return clause

    def shrink(self, case):
        ops = case['ops']
        for i in range(len(ops)):
            rest = [fix_drop(o, i) for o in ops[:i] + ops[i + 1:]]
            yield dict(case, ops=rest) if case['kind'] != 'pair' else \
                dict(case, ops=rest, a=fix_drop(case['a'], i), b=fix_drop(case['b'], i))
        if len(case['nodes']) > 1:
            yield dict(case, nodes=case['nodes'][:-1])

    def distribution(self, results):
        kinds, answers, names, idx = {}, {}, {}, {}
        for r in results:
            c = r['case']
            kinds[c['kind']] = kinds.get(c['kind'], 0) + 1
            if c['kind'] == 'seq':
                nm = 'repeated' if len(set(n['name'] for n in c['nodes'])) < len(c['nodes']) else 'unique'
                names[nm] = names.get(nm, 0) + 1
                idx[c.get('indexing', 'pos')] = idx.get(c.get('indexing', 'pos'), 0) + 1
            if r['obs'] and r['obs'].get('obs'):
                for a, _ in r['obs']['obs']:
                    key = a[0] + (':' + a[1] if a[0] == 'err' else '')
                    answers[key] = answers.get(key, 0) + 1
        return dict(kinds=kinds, node_names=names, node_ids=idx, answers=answers)


def fix_drop(o, pos):
    """operation `pos` was dropped: references to it vanish, later ones move down"""
    if o[0] == 'rel':
        return ['rel', [[j - 1 if j > pos else j, i] for j, i in o[1] if j != pos]]
    if o[0] == 'ndealloc' and o[2] is not None:
        if o[2][0] == pos:
            return ['ndealloc', o[1], None]
        return ['ndealloc', o[1], [o[2][0] - 1 if o[2][0] > pos else o[2][0], o[2][1]]]
    return o


PROP = AppSlots()
