"""C18 -- the pilot offers exactly the nodes it was allocated.

Implementation under test: the real ResourceManager subclasses Slurm, PBSPro,
LSF, Fork, Cobalt, Torque, CCM, driven through their real constructor
(ResourceManager.__init__ / _init_from_scratch / init_from_scratch /
_parse_nodefile / _get_cores_per_node / _get_node_list / _filter_nodes /
RMInfo.verify / registry put) in generated batch-system environments, then a
second instance through the from-registry branch (harness/c18_impl.py).
Model: coq/NodeList/Model.v, evaluated inside Coq on the same environments.
"""
import copy

from . import coqlit as L
from .core import Prop, rp_import
from . import c18_impl as I

RMS = ['SLURM', 'PBSPRO', 'LSF', 'FORK', 'COBALT', 'TORQUE', 'CCM']
N_ACCESS = 48


# ------------------------------------------------------------------------------
# Coq literals
#
def S(s):
    return L.string(s)


def strs(xs):
    return L.lst([S(x) for x in xs])


def optZ(x):
    return L.opt(None if x is None else L.Z(x))


def lit_cfg(c):
    return L.app('mkCfg', L.Z(c['nodes']), L.Z(c['cores']), L.Z(c['gpus']), L.Z(c['cpn']), L.Z(c['gpn']),
                 L.Z(c['backup']), L.Z(c.get('lfs', 0)), L.Z(c.get('mem', 0)), L.Z(c.get('n_partitions', 1)),
                 optZ(c.get('smt_env')), optZ(c.get('smt_arch')),
                 L.zlist(c.get('blocked_cores') or []), L.zlist(c.get('blocked_gpus') or []),
                 L.lst([L.boolean(t == 'node') for t in (c.get('agents') or [])]),
                 L.boolean(c.get('services')), L.boolean(c.get('fake')))


def lit_nf(nf):
    if nf is None:
        return 'NFUnset'
    if nf.get('missing'):
        return 'NFMissing'
    return L.app('NFLines', strs([ln[0] for ln in nf['lines']]))


def lit_env(case):
    rm, e = case['rm'], case['env']
    if rm == 'SLURM':
        def hl(g):
            return L.opt(None if g is None else strs(I.hostlist_names(g)))
        return L.app('ESlurm', hl(e.get('nodelist')), hl(e.get('job_nodelist')), optZ(e.get('cpus_on_node')),
                     optZ(e.get('gpus_on_node')), optZ(e.get('job_gpus')), optZ(e.get('step_gpus')),
                     optZ(e.get('ordinal')))
    if rm == 'PBSPRO':
        q = e.get('qstat') or {'ret': 1}
        if q.get('ret'):
            ql = 'QFail'
        elif q.get('chunks') is None:
            ql = 'QNoVnode'
        else:
            ql = L.app('QVnodes', L.lst([L.lst([L.pair(S(v), L.Z(n), L.boolean(x)) for v, n, x in ch])
                                         for ch in q['chunks']]))
        return L.app('EPBSPro', L.boolean(e.get('jobid')), ql, lit_nf(e.get('nodefile')))
    if rm == 'LSF':
        return L.app('ELSF', lit_nf(e.get('nodefile')))
    if rm == 'FORK':
        return L.app('EFork', L.Z(e['detected']))
    if rm == 'COBALT':
        pn = e.get('partname')
        return L.app('ECobalt', lit_nf(e.get('nodefile')), L.opt(None if pn is None else strs(I.partname_names(pn))))
    if rm == 'TORQUE':
        return L.app('ETorque', lit_nf(e.get('nodefile')))
    if rm == 'CCM':
        return L.app('ECCM', L.lst([L.pair(S(fn), L.Z(mt), strs([ln[0] for ln in lines]))
                                    for fn, mt, lines in e['files']]))
    raise ValueError(rm)


def lit_access(case):
    plan = case.get('access') or []
    if not plan:
        return '[]'
    m = {'ok': 'AccOk', 'fail': 'AccFail', 'timeout': 'AccTimeout'}
    return L.lst([m[plan[k % len(plan)]] for k in range(N_ACCESS)])


def lit_slots(s):
    return L.lst([{'F': 'Free', 'B': 'Busy', 'D': 'Down'}.get(ch, 'Busy') for ch in s])


def lit_node(n):
    return L.app('mkNode', S(n[0]), L.Z(n[1]), lit_slots(n[2]), lit_slots(n[3]), L.Z(n[4]), L.Z(n[5]))


def lit_info(o):
    return L.app('mkInfo', L.Z(o['requested_nodes']), L.Z(o['requested_cores']), L.Z(o['requested_gpus']),
                 L.Z(o['backup_nodes']), L.Z(o['cores_per_node']), L.Z(o['gpus_per_node']),
                 L.Z(o['threads_per_core']), L.Z(o['lfs_per_node']), L.Z(o['mem_per_node']),
                 L.Z(o['n_partitions']),
                 L.lst([lit_node(n) for n in o['node_list']]), L.lst([lit_node(n) for n in o['backup_list']]),
                 L.lst([lit_node(n) for n in o['agent_node_list']]),
                 L.lst([lit_node(n) for n in o['service_node_list']]))


def lit_result(r):
    if 'exc' in r:
        return '(inl %s)' % r['exc']
    return '(inr %s)' % lit_info(r['info'])


# ------------------------------------------------------------------------------
# case generation
#
PREFIXES = ['node', 'nid', 'cn-', 'h', 'gpu-b', 'x3006c0s', 'r1i', 'frontier']


def gen_names(rng, n):
    """n distinct plain host names"""
    p = rng.choice(PREFIXES)
    w = rng.choice([0, 0, 2, 3, 5])
    start = rng.choice([0, 1, 1, 7, 12, 100])
    return ['%s%0*d' % (p, w, start + i) for i in range(n)]


def gen_hostlist(rng, n):
    """hostlist groups naming n distinct hosts (ranges that keep one digit
    width unless zero padded: see the recorded finding on ru.get_hostlist)"""
    groups = []
    left = n
    gi = 0
    while left > 0:
        k = rng.randint(1, left) if rng.random() < 0.5 else left
        p = PREFIXES[(rng.randrange(len(PREFIXES)) + gi) % len(PREFIXES)] + ('abcdef'[gi % 6] if gi else '')
        gi += 1
        if rng.random() < 0.2:
            groups.append({'prefix': p + '%d' % rng.randint(0, 99)})
            left -= 1
            continue
        w = rng.choice([0, 0, 3, 4])
        if w == 0:
            lo = rng.choice([1, 2, 10, 11, 40, 100])
            top = 9 if lo < 10 else (99 if lo < 100 else 999)
        else:
            lo = rng.choice([0, 1, 8, 97])
            top = 10 ** w - 1
        k = min(k, top - lo + 1)
        ranges = []
        cur = lo
        rem = k
        while rem > 0:
            ln = rng.randint(1, rem)
            if cur + ln - 1 > top:
                ln = top - cur + 1
                if ln <= 0:
                    break
            ranges.append([cur, cur + ln - 1])
            rem -= ln
            cur = cur + ln + rng.randint(1, 3)
            if cur > top:
                break
        got = sum(b - a + 1 for a, b in ranges)
        g = {'prefix': p, 'ranges': ranges, 'width': w}
        if rng.random() < 0.15:
            g['suffix'] = rng.choice(['-ib', 'x', '.cluster'])
        groups.append(g)
        left -= got
    return groups


def gen_lines(rng, names, per, pad=True):
    """node file lines: names[i] repeated per[i] times; grouped or interleaved"""
    lines = []
    if rng.random() < 0.75:
        for nm, k in zip(names, per):
            lines += [[nm]] * k
    else:
        m = max(per) if per else 0
        for j in range(m):
            for nm, k in zip(names, per):
                if j < k:
                    lines.append([nm])
    if pad:
        lines = [[ln[0], rng.choice([1, 2])] if rng.random() < 0.08 else ln for ln in lines]
    return lines


def gen_cfg(rng, n_alloc, cpn_eff, gpn, cpn_cfg, malformed):
    """cfg consistent with an allocation of n_alloc nodes of cpn_eff cores"""
    c = {'cpn': cpn_cfg, 'gpn': gpn, 'lfs': rng.choice([0, 0, 100]), 'mem': rng.choice([0, 0, 128]),
         'n_partitions': 1, 'fake': False}
    # agent layout
    agents = []
    r = rng.random()
    if r < 0.45:
        agents = [rng.choice(['node', 'node', 'local']) for _ in range(rng.randint(1, 3))]
    c['agents'] = agents if rng.random() < 0.9 or agents else None
    c['services'] = rng.random() < 0.25
    reserve = sum(1 for a in agents if a == 'node') + (1 if c['services'] else 0)
    # blocked resources
    bc, bg = [], []
    if rng.random() < 0.35 and cpn_eff > 1:
        bc = sorted(rng.sample(range(cpn_eff), rng.randint(1, min(3, cpn_eff - 1))))
        if rng.random() < 0.3:
            rng.shuffle(bc)
    if rng.random() < 0.25 and gpn > 1:
        bg = sorted(rng.sample(range(gpn), rng.randint(1, gpn - 1)))
    r = rng.random()
    c['blocked_cores'] = bc if (bc or r < 0.5) else None
    c['blocked_gpus'] = bg if (bg or r < 0.5) else None
    avail = max(1, cpn_eff - len(bc))
    # backup nodes
    backup = 0
    if rng.random() < 0.2 and n_alloc > 1:
        backup = rng.randint(1, min(2, n_alloc - 1))
    c['backup'] = backup
    want = max(1, n_alloc - backup)
    if rng.random() < 0.3:
        want = rng.randint(1, want)
    if malformed and rng.random() < 0.4:
        want = n_alloc + rng.randint(1, 2)                 # more than allocated
    if malformed and rng.random() < 0.3:
        reserve_more = want - reserve
        c['agents'] = (agents or []) + ['node'] * max(0, reserve_more + rng.randint(0, 1))   # nothing left
    if rng.random() < 0.5:
        c['nodes'] = want
        c['cores'] = want * avail
        c['gpus'] = want * max(0, gpn - len(bg))
    else:
        c['nodes'] = 0
        c['cores'] = max(1, want * avail - rng.choice([0, 0, 1, avail // 2]))
        c['gpus'] = 0 if gpn == 0 else max(0, want * max(0, gpn - len(bg)) - rng.choice([0, 1]))
    if malformed and rng.random() < 0.15:
        c['cores'] = 0
    if malformed and rng.random() < 0.2 and cpn_eff > 0:
        c['blocked_cores'] = (bc or []) + [cpn_eff + rng.randint(0, 2)]   # out of range
    return c


def gen_access(rng, c):
    if not c['backup']:
        return None
    r = rng.random()
    if r < 0.4:
        return ['ok']
    if r < 0.5:
        return [rng.choice(['fail', 'timeout'])]
    return [rng.choice(['ok', 'ok', 'ok', 'fail', 'timeout']) for _ in range(rng.randint(2, 7))]


def gen_smt(rng, c, values=(None, None, 1, 2, 4)):
    v = rng.choice(values)
    c['smt_env'] = c['smt_arch'] = None
    if v is not None:
        if rng.random() < 0.3:
            c['smt_env'] = v
            if rng.random() < 0.5:
                c['smt_arch'] = rng.choice([1, 2, 4])      # overridden by the env
        else:
            c['smt_arch'] = v
    return 1 if v is None else v


def gen_case(rng, rm, malformed=False):
    n = rng.choice([1, 2, 2, 3, 3, 4, 5, 6, 8, 12])
    cpn = rng.choice([1, 2, 4, 4, 6, 8, 16])
    gpn = rng.choice([0, 0, 0, 1, 2, 4])
    env = {}
    if rm == 'SLURM':
        from_env = rng.random() < 0.5
        c = gen_cfg(rng, n, cpn, gpn, 0 if from_env else cpn, malformed)
        gen_smt(rng, c)
        hl = gen_hostlist(rng, n)
        if rng.random() < 0.05:
            hl = hl + [copy.deepcopy(hl[0])]                # a host named twice
        r = rng.random()
        if r < 0.6:
            env['nodelist'] = hl
        elif r < 0.85:
            env['job_nodelist'] = hl
        elif r < 0.97 or not malformed:
            env['nodelist'] = hl
            env['job_nodelist'] = gen_hostlist(rng, rng.randint(1, 3))
        if from_env and not (malformed and rng.random() < 0.3):
            env['cpus_on_node'] = cpn
        elif rng.random() < 0.3:
            env['cpus_on_node'] = cpn * 2
        if rng.random() < 0.5:
            # gpus discovered from the environment
            k = c['gpn']
            if rng.random() < 0.6:
                c['gpn'] = 0
            which = rng.choice(['gpus_on_node', 'job_gpus', 'step_gpus', 'ordinal', 'many'])
            if which == 'many':
                for w in ('gpus_on_node', 'job_gpus', 'step_gpus', 'ordinal'):
                    if rng.random() < 0.6:
                        env[w] = rng.randint(0 if w == 'gpus_on_node' else 1, 4)
            elif k or rng.random() < 0.5:
                env[which] = max(k, 1) if which != 'gpus_on_node' else k
    elif rm == 'PBSPRO':
        c = gen_cfg(rng, n, cpn, gpn, rng.choice([cpn, cpn, 0]), malformed)
        smt = gen_smt(rng, c)
        names = gen_names(rng, n)
        mode = rng.choice(['vnodes', 'vnodes', 'vnodes', 'extra', 'qfail', 'novnode', 'nojob', 'sizes']
                          if malformed or rng.random() < 0.5 else ['vnodes', 'vnodes', 'qfail', 'novnode'])
        env['jobid'] = mode != 'nojob'
        if mode in ('vnodes', 'extra', 'sizes'):
            order = list(names)
            rng.shuffle(order)
            chunks = []
            i = 0
            while i < len(order):
                k = rng.choice([1, 1, 2])
                chunks.append([[v, cpn, 1 if (mode == 'extra' and rng.random() < 0.5) else 0] for v in order[i:i + k]])
                i += k
            if mode == 'extra':
                chunks[-1][-1][2] = 1
            if mode == 'sizes':
                chunks[0][0][1] = cpn + 1
                if len(order) == 1:
                    chunks.append([[order[0] + 'b', cpn, 0]])
            if rng.random() < 0.15 and len(order) > 1:
                chunks.append([[order[0], cpn, 0]])          # a vnode in two chunks
            env['qstat'] = {'ret': 0, 'chunks': chunks, 'multiline': rng.random() < 0.5}
        elif mode == 'novnode':
            env['qstat'] = {'ret': 0, 'chunks': None}
        else:
            env['qstat'] = {'ret': rng.choice([1, 153])}
        r = rng.random()
        if r < 0.8:
            per = [1] * n if rng.random() < 0.6 else [rng.choice([1, 2, cpn])] * n
            env['nodefile'] = {'lines': gen_lines(rng, names, per)}
        elif r < 0.9:
            env['nodefile'] = {'missing': True}
    elif rm == 'LSF':
        smt = rng.choice([1, 1, 2, 4])
        phys = rng.choice([2, 3, 4, 6])
        cpn = phys * smt
        c = gen_cfg(rng, n, cpn, gpn, rng.choice([cpn, cpn, 0]), malformed)
        gen_smt(rng, c, values=(smt,))
        if smt == 1 and rng.random() < 0.5:
            c['smt_env'] = c['smt_arch'] = None
        if malformed and rng.random() < 0.2:
            c['cpn'] = cpn + 1
        names = gen_names(rng, n)
        lines = []
        r = rng.random()
        if r < 0.5:
            lines.append([rng.choice(['batch1', 'login3', 'lassen-batch2'])])
        elif r < 0.65:
            lines.append(['launch7'])                           # unmarked, 1 core
        lines += gen_lines(rng, names, [phys] * n)
        r = rng.random()
        if r < 0.1:
            lines.append(['login9'])
        elif r < 0.25:
            # a marked pseudo node listed with as many slots as a compute node
            lines += [[rng.choice(['batch5', 'login-x', 'sierra-batch'])]] * phys
        if malformed and rng.random() < 0.3:
            lines += [[names[0]]]                               # non-uniform
        env['nodefile'] = {'lines': lines}
        if malformed and rng.random() < 0.15:
            env['nodefile'] = rng.choice([None, {'missing': True}])
    elif rm == 'FORK':
        detected = rng.choice([4, 8, 16, 64])
        cpn_cfg = rng.choice([0, 0, cpn, detected])
        eff = cpn_cfg or detected
        c = gen_cfg(rng, n, eff, gpn, cpn_cfg, malformed)
        gen_smt(rng, c)
        c['fake'] = rng.random() < 0.6
        if not c['fake'] and rng.random() < 0.7:
            # a real single node: request what fits
            c['nodes'] = rng.choice([0, 1])
            c['cores'] = rng.randint(1, min(eff, detected))
            c['backup'] = 0
            c['agents'] = []
            c['services'] = False
        env['detected'] = detected
    elif rm == 'COBALT':
        c = gen_cfg(rng, n, cpn, gpn, cpn if not (malformed and rng.random() < 0.2) else 0, malformed)
        gen_smt(rng, c)
        if rng.random() < 0.5:
            names = gen_names(rng, n)
            per = [1] * n if rng.random() < 0.6 else [rng.choice([2, 3])] * n
            env['nodefile'] = {'lines': gen_lines(rng, names, per)}
            if rng.random() < 0.3:
                env['partname'] = [[0, n]]
            if malformed and rng.random() < 0.2:
                env['nodefile'] = {'missing': True}
        elif not (malformed and rng.random() < 0.2):
            ranges = []
            cur = rng.choice([0, 3, 20, 1000])
            left = n
            while left > 0:
                k = rng.randint(1, left)
                ranges.append([cur, cur + k - 1])
                cur += k + rng.randint(1, 4)
                left -= k
            if rng.random() < 0.05:
                ranges.append(list(ranges[0]))
            env['partname'] = ranges
    elif rm in ('TORQUE', 'CCM'):
        c = gen_cfg(rng, n, cpn, gpn, rng.choice([0, 0, cpn]), malformed)
        gen_smt(rng, c)
        names = gen_names(rng, n)
        per = [cpn] * n
        if (malformed and rng.random() < 0.4) or rng.random() < 0.05:
            per[rng.randrange(n)] = max(1, cpn - 1) if cpn > 1 else 2
        lines = gen_lines(rng, names, per)
        if rm == 'TORQUE':
            env['nodefile'] = {'lines': lines}
            if malformed and rng.random() < 0.2:
                env['nodefile'] = rng.choice([None, {'missing': True}])
        else:
            files = [['nodelist.%d' % rng.randint(100, 999), 50, lines]]
            for k in range(rng.randint(0, 2)):
                other = gen_lines(rng, gen_names(rng, rng.randint(1, 3)), [cpn] * 3)[:rng.randint(1, 6)]
                files.append([rng.choice(['nodelist.%d' % k, 'nodelist-old%d' % k, 'other%d' % k, 'x.nodelist%d' % k]),
                              rng.choice([10, 20, 30, 60, 70]) + k, other])
            rng.shuffle(files)
            if malformed and rng.random() < 0.2:
                files = [f for f in files if not f[0].startswith('nodelist')]
            env['files'] = files
    else:
        raise ValueError(rm)
    if malformed and rng.random() < 0.25 and env.get('nodefile') and env['nodefile'].get('lines'):
        ls = env['nodefile']['lines']
        ls.insert(rng.randrange(len(ls) + 1), [rng.choice(['bad line', ''])])
    case = {'rm': rm, 'cfg': c, 'env': env}
    acc = gen_access(rng, c)
    if acc:
        case['access'] = acc
    return case


def gen_repeated(rng):
    """allocations in which several nodes share a host name (Fork: every node
    is localhost; a hostlist / partition range naming a host twice), with
    backup nodes (so the accessibility probe runs) and sub-agents on nodes"""
    want = rng.choice([1, 2, 2, 3, 4, 5])
    backup = rng.choice([1, 1, 2, 3])
    cpn = rng.choice([1, 2, 4])
    n_agents = rng.choice([0, 0, 1, 1, 2])
    agents = ['node'] * n_agents + (['local'] if rng.random() < 0.3 else [])
    rng.shuffle(agents)
    c = {'nodes': want, 'cores': (want + backup) * cpn, 'gpus': 0, 'cpn': cpn, 'gpn': rng.choice([0, 0, 1]),
         'backup': backup, 'lfs': 0, 'mem': 0, 'n_partitions': 1, 'fake': True, 'agents': agents,
         'services': rng.random() < 0.25, 'blocked_cores': None, 'blocked_gpus': None,
         'smt_env': None, 'smt_arch': None}
    if rng.random() < 0.3:
        c['nodes'] = 0                                   # requested size derived from the cores
        c['cores'] = want * cpn
    r = rng.random()
    if r < 0.55:
        acc = ['ok']
    elif r < 0.9:
        acc = [rng.choice(['ok', 'ok', 'ok', 'fail', 'timeout']) for _ in range(want + backup)]
    else:
        acc = [rng.choice(['fail', 'timeout'])]
    kind = rng.choice(['FORK', 'FORK', 'FORK', 'SLURM', 'COBALT'])
    if kind == 'FORK':
        env = {'detected': rng.choice([4, 8, 64])}
    elif kind == 'SLURM':
        # the same hosts named twice: every name occurs on two nodes
        half = (want + backup + 1) // 2
        g = {'prefix': 'node', 'ranges': [[1, half]], 'width': 0}
        env = {'nodelist': [g, dict(g)][: 2 if want + backup > 1 else 1]}
        c['fake'] = False
    else:
        half = (want + backup + 1) // 2
        env = {'partname': [[0, half - 1], [0, half - 1]]}
        c['fake'] = False
    return {'rm': kind, 'cfg': c, 'env': env, 'access': acc}


def gen_sequence(rng):
    """two or three initialisations in ONE process: fresh objects, different
    resource managers / configurations / SMT values; $RADICAL_SMT set by the
    user before some steps, kept or unset before others.  RMs whose node list
    depends on SMT (LSF) are preferred for the later steps."""
    def pick(late):
        rm = 'LSF' if rng.random() < (0.6 if late else 0.35) else rng.choice(RMS)
        st = gen_case(rng, rm, rng.random() < 0.05)
        c = st['cfg']
        r = rng.random()
        if rm != 'LSF':
            # SMT from the resource config, from the user's environment, or nowhere
            if r < 0.5:
                c['smt_env'], c['smt_arch'] = None, rng.choice([1, 2, 4])
            elif r < 0.7:
                c['smt_env'], c['smt_arch'] = rng.choice([1, 2, 4]), rng.choice([None, 1, 2])
            else:
                c['smt_env'] = c['smt_arch'] = None
        elif late and r < 0.6 and c.get('smt_env') is not None:
            # the later LSF pilot takes its SMT from the resource config
            c['smt_arch'], c['smt_env'] = c['smt_env'], None
        return st
    steps = [pick(k > 0) for k in range(rng.choice([2, 2, 3]))]
    if rng.random() < 0.3:
        # the user keeps one setting of RADICAL_SMT over two steps
        steps[-1]['cfg']['smt_env'] = steps[-2]['cfg'].get('smt_env')
    case = steps[-1]
    case['priors'] = steps[:-1]
    return case


def hostlist_cases():
    """library behaviour the model takes as an input (ru.get_hostlist)"""
    out = []
    for groups in ([{'prefix': 'node', 'ranges': [[1, 3], [5, 5]], 'width': 0}],
                   [{'prefix': 'node-b1-', 'ranges': [[1, 3], [5, 5]], 'width': 0}, {'prefix': 'node-c1-4'},
                    {'prefix': 'node-k', 'ranges': [[10, 12], [15, 15]], 'width': 0}],
                   [{'prefix': 'nid', 'ranges': [[8, 11]], 'width': 5}],
                   [{'prefix': 'a', 'ranges': [[1, 2]], 'width': 0, 'suffix': '-ib'}],
                   [{'prefix': 'node', 'ranges': [[8, 10]], 'width': 0}],
                   [{'prefix': 'cn', 'ranges': [[98, 101]], 'width': 0}]):
        out.append({'kind': 'hostlist', 'groups': groups})
    return out


def mixed_width(groups):
    for g in groups:
        if g.get('ranges') is not None and not g.get('width'):
            ws = set(len(str(x)) for r in g['ranges'] for x in r)
            if len(ws) > 1:
                return True
    return False


# ------------------------------------------------------------------------------
#
class C18(Prop):
    id = 'C18'
    module = 'c18'
    title = 'The pilot offers exactly the nodes it was allocated'
    props_files = ['Props/C18.v']
    extra_targets = ['NodeList/Oracle.vo']
    model_targets = ['NodeList/Oracle.vo']
    translators = ['rminfo']
    header = 'From RP Require Import NodeList.Model NodeList.Oracle.'
    clauses = ['one_entry_per_node', 'indices_unique', 'sizes_configured', 'agents_excluded', 'not_empty',
               'not_longer_than_requested', 'same_for_all_components', 'offers_requested_accessible_nodes',
               'leaves_no_state', 'hostlist_expansion']
    corr_name = ('NodeList.Model(rm_construct / rm_from_registry) vs ResourceManager.__init__ of '
                 'Slurm/PBSPro/LSF/Fork/Cobalt/Torque/CCM (from scratch, then from the registry)')
    rule = ('corpus, then seed-determined batch-system environments for each of the 7 resource managers '
            '(hostlist expressions, node files with repeated/interleaved/padded lines, vnode expressions, login/batch '
            'pseudo nodes, SMT via env or config, blocked cores/gpus, agent layouts, services, backup nodes with ssh '
            'probe outcomes, requested size given or derived), about 15% malformed (unset variables, unreadable files, '
            'bad lines, non-uniform files, oversized requests, layouts that leave no node), 15% preceded by an earlier '
            'initialisation in the same process, plus sequences of two or three initialisations in one process (different RMs, '
            'configurations and SMT values, RADICAL_SMT set / kept / unset by the user between steps; every step compared '
            'with the model of that step alone and the process environment and RMInfo class state compared before/after), '
            'plus allocations whose nodes share a host name (Fork localhost nodes, '
            'hosts named twice) with backup nodes, probe outcomes and node-bound sub-agents, plus fixed hostlist-expansion cases; thorough tier adds the exhaustive '
            'small scope of _filter_nodes (1-4 nodes x requested 0-5 given/derived x 0-3 agent nodes x service x backup '
            'with every ok/fail probe pattern); non-trivial = the real '
            'constructor succeeded on an allocation of >= 2 nodes and truncated the list, reserved agent/service '
            'nodes, blocked resources, probed backups or merged repeated lines')
    trusted = [
        'translator translators/rminfo.py (ast of agent/resource_manager/base.py -> Gen/RMInfoTables.v: RMInfo._schema '
        'keys, RMInfo._defaults, the get_manager factory table; fail closed)',
        'correspondence harness harness/c18.py + harness/c18_impl.py: real RM classes constructed with the real '
        '__init__ (registry client replaced by an in-memory store whose values cross ru.to_msgpack/from_msgpack, '
        'rc.process.Process replaced for the ssh probe, ru.sh_callout replaced for qstat, multiprocessing.cpu_count '
        'patched, _prepare_launch_methods stubbed as in the repository tests); env vars and node files written to the '
        'scratch cwd; compared inside Coq by vm_compute with the model',
        'reference expansions of hostlist / partition-range / exec_vnode text in harness/c18_impl.py (the model takes '
        'expanded names; ru.get_hostlist, ru.get_hostlist_by_range and the text parser of _parse_pbspro_vnodes run for '
        'real on the implementation side and are validated by the correspondence, not verified)',
        'modelled, not verified: str.strip of node-file lines, msgpack transport of the registry, TypedDict schema '
        'casting in verify(), RMInfo fields other than sizes/lists (details, launch_methods, numa_domain_map, lfs_path)',
    ]
    assumptions = ['the batch system names each node once in a Slurm hostlist / Cobalt partition range (node files and '
                   'vnode expressions may repeat names)',
                   'blocked core/gpu indices of the resource configuration are distinct and non-negative '
                   '(sizes_configured is stated for such configurations)',
                   'one case = one process lifetime: RMInfo class-level state is restored between cases; an earlier '
                   'initialisation in the same process is part of the case (prior / priors); the process environment is put back '
                   'to pristine before each case, and inside a case only the variables whose given value changes between two '
                   'steps are touched, so anything an initialisation leaves behind reaches the next step']
    widen_cases = 1500

    # ------------------------------------------------------------------ cases
    def cases(self, rng, tier):
        for c in hostlist_cases():
            yield c
        import os
        per_rm = 220 if tier == 'quick' else 2200
        if os.environ.get('VERIF_C18_PER_RM'):          # debugging aid: size of the generated stream
            per_rm = int(os.environ['VERIF_C18_PER_RM'])
        for k in range(per_rm // 2):
            yield gen_repeated(rng)
        for k in range(per_rm // 2):
            yield gen_sequence(rng)
        for k in range(per_rm):
            for rm in RMS:
                malformed = rng.random() < 0.15
                case = gen_case(rng, rm, malformed)
                if rng.random() < 0.15:
                    prior = gen_case(rng, rng.choice(RMS), False)
                    if not prior['cfg'].get('agents'):
                        prior['cfg']['agents'] = ['node']
                    if rng.random() < 0.5:
                        prior['cfg']['services'] = True
                    case['prior'] = prior
                yield case

        if tier == 'thorough':
            # exhaustive small scope of the glue around the parsers: every
            # combination of allocation size, requested size (given / derived),
            # number of node-bound sub-agents, service node, backup probing
            import itertools
            for n in (1, 2, 3, 4):
                names = ['n%d' % i for i in range(n)]
                for want, agents, services, backup in itertools.product(range(0, 6), range(0, 4), (False, True), (0, 1)):
                    plans = [None] if not backup else \
                        [list(p) for p in itertools.product(('ok', 'fail'), repeat=min(n, 3))] + [['timeout']]
                    for plan in plans:
                        for derived in (False, True):
                            cfg = {'nodes': 0 if derived else want, 'cores': max(want, 1) * 2 - (1 if derived else 0),
                                   'gpus': 0, 'cpn': 0, 'gpn': 0, 'backup': backup, 'lfs': 0, 'mem': 0,
                                   'n_partitions': 1, 'fake': False, 'agents': ['node'] * agents, 'services': services,
                                   'blocked_cores': None, 'blocked_gpus': None, 'smt_env': None, 'smt_arch': None}
                            case = {'rm': 'TORQUE', 'cfg': cfg,
                                    'env': {'nodefile': {'lines': [[nm] for nm in names for _ in range(2)]}}}
                            if plan:
                                case['access'] = plan
                            yield case
                            if not derived and want and want + backup == n:
                                # the same on nodes that share one host name
                                fcfg = dict(cfg, cpn=2, cores=n * 2, fake=True)
                                fcase = {'rm': 'FORK', 'cfg': fcfg, 'env': {'detected': 8}}
                                if plan:
                                    fcase['access'] = plan
                                yield fcase

    # ------------------------------------------------------------------ impl
    def impl_setup(self):
        self.rp = rp_import()
        self.driver = I.Driver(self.rp)

    def run_impl(self, case):
        if case.get('kind') == 'hostlist':
            import radical.utils as ru
            try:
                return {'names': list(ru.get_hostlist(I.hostlist_text(case['groups'])))}
            except Exception as e:
                return {'names': ['!%s' % type(e).__name__]}
        return self.driver.run(case)

    # ------------------------------------------------------------------ coq
    def coq_row(self, case, obs):
        if case.get('kind') == 'hostlist':
            for n in obs['names']:
                L.string(n)
            return '(c18_hostlist_row %s %s)' % (strs(I.hostlist_names(case['groups'])), strs(obs['names']))
        rows = [self._step_row(p, o) for p, o in zip(I.case_priors(case), obs.get('priors') or [])]
        rows.append(self._step_row(case, obs))
        if len(rows) == 1:
            return rows[0]
        return '(and_rows %s)' % L.lst(rows)

    @staticmethod
    def _step_row(case, obs):
        second = L.opt(lit_result(obs['second'])) if 'second' in obs else 'None'
        # python-side facts about the run that the row cannot see
        glue = (not obs.get('stray')
                and obs['puts'] == (['rm.%s' % I.RM_CLASSES[case['rm']][1].lower()] if 'info' in obs['first'] else [])
                and obs.get('second_from_registry', True))
        # the process after the initialisation(s) is the process before them
        clean = not obs['first'].get('left_behind') and not (obs.get('second') or {}).get('left_behind')
        return '(c18_row %s %s %s %s %s %s %s)' % (lit_cfg(case['cfg']), lit_env(case), lit_access(case),
                                                  lit_result(obs['first']), second, L.boolean(glue), L.boolean(clean))

    def model_show(self, case):
        if case.get('kind') == 'hostlist':
            return strs(I.hostlist_names(case['groups']))
        return 'rm_construct %s %s %s' % (lit_cfg(case['cfg']), lit_env(case), lit_access(case))

    def nontrivial(self, case, obs):
        if case.get('kind') == 'hostlist' or 'info' not in obs['first']:
            return False
        o = obs['first']['info']
        c = case['cfg']
        total = len(o['node_list']) + len(o['agent_node_list']) + len(o['service_node_list'])
        if total < 2 and not (c.get('blocked_cores') or c.get('blocked_gpus')):
            return False
        lines = (case['env'].get('nodefile') or {}).get('lines') or []
        return bool(o['agent_node_list'] or o['service_node_list'] or c.get('blocked_cores') or c.get('blocked_gpus')
                    or c['backup'] or len(lines) > total or case['rm'] == 'SLURM' or I.case_priors(case))

    def signature(self, case, obs, clause):
        if case.get('kind') == 'hostlist':
            return '%s:ru.get_hostlist:%s' % (clause, 'unpadded-range-across-digit-boundary'
                                              if mixed_width(case['groups']) else 'same-width-range')
        # clause [+ the RM for the clause that depends on the RM's own size
        # detection] [+ whether an earlier initialisation preceded]
        sig = [clause]
        if clause == 'sizes_configured':
            sig.append(case['rm'])
        elif clause == 'leaves_no_state':
            left = set()
            for o in [obs] + list(obs.get('priors') or []):
                for r in (o.get('first'), o.get('second')):
                    left.update((r or {}).get('left_behind') or [])
            sig.append('+'.join(sorted(left)) or 'none')
        elif I.case_priors(case):
            sig.append('after-earlier-init-in-process')
        return ':'.join(sig)

    shrink_budget = 70          # shrink rounds per run, over all violations

    def shrink(self, case):
        if case.get('kind') == 'hostlist':
            return
        self.shrink_budget -= 1
        if self.shrink_budget < 0:
            return
        c = case['cfg']

        def with_cfg(**kw):
            return dict(case, cfg=dict(c, **kw))
        ps = I.case_priors(case)
        if ps:
            bare = {k: v for k, v in case.items() if k not in ('prior', 'priors')}

            def with_priors(l):
                return dict(bare, priors=l) if l else dict(bare)
            for i in range(len(ps)):
                yield with_priors(ps[:i] + ps[i + 1:])
            for i, p in enumerate(ps):
                if p['cfg'].get('services') or p['cfg'].get('agents'):
                    yield with_priors(ps[:i] + [dict(p, cfg=dict(p['cfg'], services=False, agents=[]))] + ps[i + 1:])
                if p['cfg'].get('blocked_cores') or p['cfg'].get('blocked_gpus'):
                    yield with_priors(ps[:i] + [dict(p, cfg=dict(p['cfg'], blocked_cores=[], blocked_gpus=[]))] + ps[i + 1:])
                if p['cfg'].get('backup'):
                    yield with_priors(ps[:i] + [dict(p, cfg=dict(p['cfg'], backup=0), access=None)] + ps[i + 1:])
            if len(ps) == 1 and ps[0]['rm'] != case['rm']:
                yield with_priors([dict(bare, cfg=dict(bare['cfg'], smt_env=ps[0]['cfg'].get('smt_env'),
                                                        smt_arch=ps[0]['cfg'].get('smt_arch')))])
        e0 = case['env']
        nf0 = e0.get('nodefile')
        if nf0 and nf0.get('lines') and len(nf0['lines']) > 3:
            names0 = []
            for ln in nf0['lines']:
                if ln[0] not in names0:
                    names0.append(ln[0])
            if len(names0) > 2:
                keep = set(names0[:(len(names0) + 1) // 2])
                yield dict(case, env=dict(e0, nodefile={'lines': [ln for ln in nf0['lines'] if ln[0] in keep]}))
        if case['rm'] == 'FORK' and c.get('fake') and c.get('nodes', 0) > 1:
            k = c['nodes'] - 1
            yield with_cfg(nodes=k, cores=(k + c['backup']) * max(1, c['cpn']))
        if c.get('backup', 0) > 1:
            yield with_cfg(backup=1)
        if c.get('services'):
            yield with_cfg(services=False)
        ag = c.get('agents') or []
        if len(ag) > 1:
            yield with_cfg(agents=ag[:1])
        for i in range(len(ag)):
            yield with_cfg(agents=ag[:i] + ag[i + 1:])
        for k in ('blocked_cores', 'blocked_gpus'):
            b = c.get(k) or []
            for i in range(len(b)):
                yield with_cfg(**{k: b[:i] + b[i + 1:]})
        if c.get('backup'):
            yield dict(with_cfg(backup=0), access=None)
        if case.get('access') and len(case['access']) > 1:
            yield dict(case, access=['ok'])
        for k in ('lfs', 'mem'):
            if c.get(k):
                yield with_cfg(**{k: 0})
        if c.get('smt_env') is not None:
            yield with_cfg(smt_env=None)
        if c.get('smt_arch') not in (None, 1, 2):
            yield with_cfg(smt_arch=2)
        e = case['env']
        nf = e.get('nodefile')
        if nf and nf.get('lines') and len(nf['lines']) > 1:
            ls = nf['lines']
            names = []
            for ln in ls:
                if ln[0] not in names:
                    names.append(ln[0])
            for nm in names[::-1][:4]:
                yield dict(case, env=dict(e, nodefile={'lines': [ln for ln in ls if ln[0] != nm]}))
            if any(len(ln) > 1 for ln in ls):
                yield dict(case, env=dict(e, nodefile={'lines': [[ln[0]] for ln in ls]}))
        for key in ('nodelist', 'job_nodelist'):
            hl = e.get(key)
            if hl and len(hl) > 1:
                for i in range(len(hl)):
                    yield dict(case, env=dict(e, **{key: hl[:i] + hl[i + 1:]}))
            if hl:
                for i, g in enumerate(hl):
                    if g.get('ranges') and (len(g['ranges']) > 1 or g['ranges'][0][1] - g['ranges'][0][0] > 2):
                        r0 = g['ranges'][0]
                        g2 = dict(g, ranges=[[r0[0], min(r0[1], r0[0] + 2)]])
                        yield dict(case, env=dict(e, **{key: hl[:i] + [g2] + hl[i + 1:]}))
        for key in ('gpus_on_node', 'job_gpus', 'step_gpus', 'ordinal'):
            if e.get(key) is not None:
                yield dict(case, env={k: v for k, v in e.items() if k != key})
        q = e.get('qstat')
        if q and q.get('chunks') and len(q['chunks']) > 1:
            for i in range(len(q['chunks'])):
                yield dict(case, env=dict(e, qstat=dict(q, chunks=q['chunks'][:i] + q['chunks'][i + 1:])))
        if e.get('files') and len(e['files']) > 1:
            for i in range(len(e['files'])):
                yield dict(case, env=dict(e, files=e['files'][:i] + e['files'][i + 1:]))

    def distribution(self, results):
        rms, outcomes = {}, {}
        prior = malformed = 0
        sizes = []
        for r in results:
            c = r['case']
            if c.get('kind') == 'hostlist':
                rms['hostlist'] = rms.get('hostlist', 0) + 1
                continue
            rms[c['rm']] = rms.get(c['rm'], 0) + 1
            if I.case_priors(c):
                prior += 1
            if r['obs']:
                f = r['obs']['first']
                k = f.get('exc', 'ok')
                outcomes[k] = outcomes.get(k, 0) + 1
                if 'info' in f:
                    sizes.append(len(f['info']['node_list']))
        return dict(resource_managers=rms, first_constructor_outcome=outcomes, with_prior_init=prior,
                    mean_offered_nodes=round(sum(sizes) / max(1, len(sizes)), 2))


PROP = C18()
