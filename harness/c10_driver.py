"""C10 implementation driver: the REAL script generator of the Popen executor
(Popen.initialize, Popen._handle_task -> _create_exec_script /
_create_launch_script and helpers, Popen._launch_task -> sp.Popen) writes and
starts the scripts for one generated task in a scratch pilot sandbox; real
bash runs them against stub commands and a probe executable; what happened is
read back from the files they leave behind.

Layout created under <cwd>/c10/ (cwd = scratch working directory of the child):

  R/                        root; canonicalised to "/R" in observations
  R/bin/                    probe, stub, sleep, radical-pilot-control   (on PATH)
  R/rs/<sid>/pilot.0000/    pilot sandbox (= cwd of the component): prof, gtod, env/lm_fork.sh
  R/rs/<sid>/pilot.0000/<uid>/   task sandbox
  R/log/                    trace.<rank>, probe.<rank>, rc.<rank>   (written by the stubs)
"""
import os
import shutil
import subprocess as sp
import threading
import time
from unittest import mock

# A generated script needs 0.05-0.3 s; the slowest one observed in 5 thorough passes (4121 cases each, 16 parallel
# workers, machine shared with other checks) took 0.64 s -- the `sleep 1` of rp_sync_ranks is served by a 0.02 s
# stub on PATH, and a prescribed arrival order is enforced by gating on the marker file, not by delays.
# The harness gives up on a script after (more than 10x the slowest legitimate one):
LAUNCH_TIMEOUT = float(os.environ.get('VERIF_C10_TIMEOUT', '8'))
GROUP_WAIT = 3.0        # for a launch script that returned while members of its process group still run
BREAKER_N = 4           # launch timeouts of one kind of case after which that kind is no longer run


def case_kind(case):
    return 'rank-sync-multi-rank' if (case.get('sync') and case['ranks'] > 1) else 'other'

SID = 'sess.c10'
PID = 'pilot.0000'
RESOURCE = 'local.verif'
REG_ADDR = 'tcp://10.0.0.1:10001'
PUB_ADDR = 'tcp://10.0.0.1:10002'
SUB_ADDR = 'tcp://10.0.0.1:10003'

PROF_EVENTS = ['launch_start', 'launch_pre', 'launch_submit', 'launch_collect', 'launch_post', 'launch_stop',
               'exec_start', 'exec_pre', 'rank_start', 'rank_stop', 'exec_post', 'exec_stop']

# environment names of the process that are not part of the comparison
ENV_IGNORE = {'PATH', 'PWD', 'OLDPWD', 'SHLVL', '_', 'HOME', 'VERIF_LOG', 'VERIF_RANK', 'LC_ALL', 'TMPDIR'}

STUB = '''#!/bin/sh
# stub <id> <rc>: a pre/post command that records that it ran and exits <rc>
echo "C:$1" >> "$VERIF_LOG/trace.${RP_RANK:-L}"
echo "${RP_RANK:-L} C:$1" >> "$VERIF_LOG/trace.all"
exit $2
'''
PROF = '''#!/bin/sh
echo "P:$1" >> "$VERIF_LOG/trace.${RP_RANK:-L}"
echo "${RP_RANK:-L} P:$1" >> "$VERIF_LOG/trace.all"
'''
CTRL = '''#!/bin/sh
echo "T:$1:$2:$3" >> "$VERIF_LOG/trace.${RP_RANK:-L}"
'''
SLEEP = '''#!/bin/sh
exec /bin/sleep 0.02
'''
PROBE = '''#!/bin/bash
# the "executable" of the task: dump cwd, argv and environment NUL-separated
r="${RP_RANK:-L}"
echo "X" >> "$VERIF_LOG/trace.$r"
echo "$r X" >> "$VERIF_LOG/trace.all"
{ printf '%s\\0' "$PWD" "$#" "$@"; env -0; } > "$VERIF_LOG/probe.$r"
echo "out:$r"
echo "err:$r" 1>&2
rc=0
test -f "$VERIF_LOG/exit.$r" && rc=$(cat "$VERIF_LOG/exit.$r")
exit $rc
'''


def render_cmd(c):
    """abstract command of a case -> shell text (the same rendering for every case)"""
    if c[0] == 'stub':
        return 'stub %d %d' % (c[1], c[2])
    if c[0] == 'export':
        return 'export %s=%s' % (c[1], c[2])
    raise ValueError(c)


def render_entry(e):
    if 'all' in e:
        return render_cmd(e['all'])
    d = {}
    for r, cmds in e['per']:
        txt = [render_cmd(c) for c in cmds]
        d[str(r)] = txt[0] if (len(txt) == 1 and e.get('single')) else txt
    return d


class Driver:

    def __init__(self, rp, base, breaker=None):
        self.rp = rp
        self.breaker = breaker
        self.base = os.path.realpath(base)
        self.n = 0
        import radical.utils as ru
        self.ru = ru
        from radical.pilot.agent.launch_method.fork import Fork
        from radical.pilot.agent.launch_method.base import LaunchMethod

        class FakeMPI(Fork):
            """Stand-in for an MPI launcher (fork semantics): starts the exec
            script once per rank, concurrently, with VERIF_RANK preset; its exit
            code is the first non-zero rank exit code in rank order."""

            def can_launch(self, task):
                return True, ''

            def get_launch_cmds(self, task, exec_path):
                # task['verif_order'] (harness only): the order in which the ranks are to ARRIVE at the rank
                # synchronisation -- the rank at position k is started once k ranks have written their line
                # into the marker file, so the arrival order is fixed, not left to the scheduler
                n = task['description']['ranks']
                order = task.get('verif_order')
                cmds = []
                for r in range(n):
                    gate = ''
                    if order:
                        gate = ('while test $(cat pre_exec.sig 2>/dev/null | wc -l) -lt %d; '
                                'do /bin/sleep 0.01; done; ' % order.index(r))
                    cmds.append('( %sVERIF_RANK=%d exec %s ) & p%d=$!' % (gate, r, exec_path, r))
                return ('%s; rc=0; for r in %s; do eval wait \\$p$r; x=$?; echo $x > $VERIF_LOG/rc.$r; '
                        'test $rc = 0 && rc=$x; done; exit $rc'
                        % ('; '.join(cmds), ' '.join(str(i) for i in range(n))))

            def get_rank_cmd(self):
                return 'test -z "$VERIF_RANK" || export RP_RANK=$VERIF_RANK\n'

        self.Fork, self.FakeMPI, self.LaunchMethod = Fork, FakeMPI, LaunchMethod

    # ------------------------------------------------------------------
    def _layout(self):
        self.n += 1
        shutil.rmtree(self.base, ignore_errors=True)       # one fresh root per case: a straggler of an earlier
        root = os.path.join(self.base, 'R%d' % self.n)     # case can never write into this one
        L = dict(root=root, bin=root + '/bin', rs=root + '/rs', ss=root + '/rs/' + SID,
                 ps=root + '/rs/' + SID + '/' + PID, log=root + '/log')
        for k in ('bin', 'ps', 'log'):
            os.makedirs(L[k])
        os.makedirs(L['ps'] + '/env')

        def exe(path, text):
            with open(path, 'w') as f:
                f.write(text)
            os.chmod(path, 0o755)
        exe(L['bin'] + '/stub', STUB)
        exe(L['bin'] + '/probe', PROBE)
        exe(L['bin'] + '/sleep', SLEEP)
        exe(L['bin'] + '/radical-pilot-control', CTRL)
        exe(L['ps'] + '/prof', PROF)
        exe(L['ps'] + '/gtod', '#!/bin/sh\necho 0\n')
        with open(L['ps'] + '/env/lm_fork.sh', 'w') as f:
            f.write('export VERIF_LM_ENV=fork\n')
        return L

    def _component(self, case, L):
        rp, ru = self.rp, self.ru
        from radical.pilot.agent.executing.popen import Popen
        import radical.pilot.agent.executing.popen as mpopen
        import radical.pilot.agent.executing.base as mbase
        import radical.pilot.agent as rpa

        env = {'PATH': L['bin'] + ':/usr/bin:/bin', 'HOME': L['root'], 'VERIF_LOG': L['log'], 'LC_ALL': 'C.UTF-8',
               'TMPDIR': L['root'] + '/tmp'}
        os.environ.clear()
        os.environ.update(env)
        os.chdir(L['ps'])

        with mock.patch.object(Popen, '__init__', return_value=None):
            c = Popen()
        log = mock.MagicMock()
        prof = mock.MagicMock()
        prof.enabled = bool(case.get('prof'))
        c._log, c._prof = log, prof
        c._uid = 'agent_executing.0000'
        c._term = threading.Event()
        c._cancel_list = list()
        c._cancel_lock = threading.RLock()
        c._reg = {'bridges.control_pubsub': {'addr_pub': PUB_ADDR, 'addr_sub': SUB_ADDR}}

        rcfg = ru.Config(from_dict={'resource_manager': 'FORK', 'new_session_per_task': True,
                                    'task_pre_exec': [render_cmd(x) for x in case.get('task_pre_exec', [])]})
        scfg = ru.Config(from_dict={'pid': PID, 'resource': RESOURCE, 'resource_sandbox': L['rs'],
                                    'session_sandbox': L['ss'], 'pilot_sandbox': L['ps']})
        session = mock.MagicMock()
        session.uid = SID
        session.cfg = scfg
        session.rcfg = rcfg
        session.reg_addr = REG_ADDR
        c._session = session

        # launch methods: the real Fork, and the fake multi-rank launcher
        lms = {}
        for name, cls in (('FORK', self.Fork), ('FAKEMPI', self.FakeMPI)):
            with mock.patch.object(self.LaunchMethod, '__init__', return_value=None):
                with mock.patch.object(ru, 'get_hostname', return_value='localhost'):
                    lm = cls(name, None, None, log, prof)
            lm.name = name
            lm._log, lm._prof = log, prof
            lm._pwd = L['ps']
            lm.node_name = 'localhost'
            lm.init_from_info({'env': {}, 'env_sh': 'env/lm_fork.sh'})
            lms[name] = lm
        from radical.pilot.agent.resource_manager.base import ResourceManager
        with mock.patch.object(ResourceManager, '__init__', return_value=None):
            rm = ResourceManager()
        rm._log = log
        rm._launchers = lms
        rm._launch_order = ['FORK', 'FAKEMPI']

        c.register_input = mock.MagicMock()
        c.register_output = mock.MagicMock()
        c.register_publisher = mock.MagicMock()
        c.publish = mock.MagicMock()
        c.advance = mock.MagicMock()
        with mock.patch.object(rpa.ResourceManager, 'create', return_value=rm), \
             mock.patch.object(mbase.mt, 'Thread', mock.MagicMock()):
            c.initialize()                       # Popen.initialize + AgentExecutingComponent.initialize
        return c

    def _task(self, case, L):
        rp = self.rp
        def real(p):
            return L['root'] + p[2:] if p is not None and p.startswith('/R/') else p
        d = {'uid': case['uid'], 'executable': real(case.get('exe', 'probe')), 'arguments': list(case['args']),
             'environment': {k: v for k, v in case['env']},
             'ranks': case['ranks'], 'cores_per_rank': case['cpr'], 'gpus_per_rank': case['gpr_q'] / 4.0,
             'pre_exec': [render_entry(e) for e in case['pre']],
             'post_exec': [render_entry(e) for e in case['post']],
             'pre_launch': [render_cmd(x) for x in case['pre_launch']],
             'post_launch': [render_cmd(x) for x in case['post_launch']],
             'pre_exec_sync': bool(case['sync'])}
        if case.get('name') is not None:
            d['name'] = case['name']
        if case.get('omp'):
            d['threading_type'] = rp.OpenMP
        if case.get('cuda'):
            d['gpu_type'] = rp.CUDA
        if case.get('stdout') is not None:
            d['stdout'] = real(case['stdout'])
        if case.get('stderr') is not None:
            d['stderr'] = real(case['stderr'])
        if case.get('mpi'):
            d['use_mpi'] = True
        if case.get('startup_to'):
            d['startup_timeout'] = 1000.0
        td = rp.TaskDescription(from_dict=d)
        td.verify()
        task = {'uid': case['uid'], 'description': td.as_dict(), 'origin': 'client', 'state': 'AGENT_EXECUTING',
                'task_sandbox_path': '%s/%s' % (L['ps'], case['uid']), 'type': 'task'}
        if case.get('name') is not None:
            task['name'] = case['name']
        if case.get('order') and case['sync'] and sorted(case['order']) == list(range(case['ranks'])) \
                and case['ranks'] > 1:
            task['verif_order'] = list(case['order'])
        if case.get('gpus') is not None:
            task['slots'] = [{'node_name': 'localhost', 'node_index': 0, 'cores': [{'index': r, 'occupation': 1.0}],
                              'gpus': [{'index': g, 'occupation': 1.0} for g in gl], 'lfs': 0, 'mem': 0}
                             for r, gl in enumerate(case['gpus'])]
        else:
            task['slots'] = [{'node_name': 'localhost', 'node_index': 0,
                              'cores': [{'index': r, 'occupation': 1.0}], 'gpus': [], 'lfs': 0, 'mem': 0}
                             for r in range(case['ranks'])]
        return task

    # ------------------------------------------------------------------
    @staticmethod
    def _leader_exited(pid, timeout):
        t_end = time.time() + timeout
        while True:
            if os.waitid(os.P_PID, pid, os.WEXITED | os.WNOWAIT | os.WNOHANG) is not None:
                return True
            if time.time() > t_end:
                return False
            time.sleep(0.005)

    @staticmethod
    def _members(pgid):
        """live processes of process group pgid other than its leader"""
        out = []
        for d in os.listdir('/proc'):
            if d.isdigit() and int(d) != pgid:
                try:
                    with open('/proc/%s/stat' % d) as f:
                        st = f.read()
                except OSError:
                    continue
                f = st[st.rindex(')') + 2:].split()
                if f[0] != 'Z' and int(f[2]) == pgid:
                    out.append(int(d))
        return out

    def _cache_path(self, case):
        import hashlib, json
        h = hashlib.sha1(json.dumps(case, sort_keys=True).encode()).hexdigest()[:16]
        return '%s.%s.json' % (self.breaker, h)

    def _cached(self, case):
        import json
        if self.breaker and os.path.exists(self._cache_path(case)):
            with open(self._cache_path(case)) as f:
                return json.load(f)
        return None

    def tripped(self, case):
        """launch timeouts recorded so far (all worker processes of this check run) for this kind of case"""
        if not self.breaker or not os.path.exists(self.breaker):
            return 0
        kind = case_kind(case)
        with open(self.breaker) as f:
            return sum(1 for l in f if l.strip() == kind)

    def run(self, case, keep=False):
        cached = self._cached(case)
        if cached is not None:
            return cached            # this very case timed out before in this run: same observation, no second wait
        if self.tripped(case) >= BREAKER_N:
            # the violation is established with concrete inputs; every further script of this kind would only
            # cost another launch timeout.  Reported as NOT RUN (evidence + NOT-RUN line), never as checked.
            return {'gen_error': None, 'not_run': case_kind(case)}
        L = self._layout()
        root = L['root']
        for r, rc in enumerate(case['rcs']):
            with open('%s/exit.%d' % (L['log'], r), 'w') as f:
                f.write('%d\n' % rc)
        obs = {'gen_error': None}
        try:
            c = self._component(case, L)
            task = self._task(case, L)
            c._handle_task(task)                 # real: scripts written, launch script started by _launch_task
        except Exception as e:                   # noqa
            obs['gen_error'] = type(e).__name__ + ': ' + str(e)[:200].replace(root, '/R')
            return obs
        proc = task['proc']
        t_start = time.time()
        # Wait for the launch script WITHOUT reaping it: as long as the (possibly dead) group leader is not
        # reaped its pid -- which is the id of the script's session and process group (new_session_per_task) --
        # cannot be given to another process, so looking at / signalling that group can never hit a stranger
        # (thousands of short-lived processes are started by the parallel workers).
        timed_out = not self._leader_exited(proc.pid, LAUNCH_TIMEOUT)
        stragglers = False
        if not timed_out:
            # a script that put its payload into the background returns early: give the members time to finish
            t_end = time.time() + GROUP_WAIT
            while self._members(proc.pid):
                if time.time() > t_end:
                    stragglers = True
                    break
                time.sleep(0.01)
        # which ranks' exec scripts were still running when the harness gave up
        blocked = []
        if timed_out:
            for r in range(case['ranks']):
                started = os.path.exists('%s/trace.%d' % (L['log'], r))
                ended = os.path.exists('%s/rc.%d' % (L['log'], r))
                if started and not ended:
                    blocked.append(r)
        obs['blocked'] = blocked
        if timed_out or stragglers:
            for _ in range(100):                 # no process of a hung script survives the case
                try:
                    os.killpg(proc.pid, 9)
                except OSError:
                    break
                if not self._members(proc.pid):
                    break
                time.sleep(0.01)
            obs['stragglers'] = True
        rc = proc.wait()                         # reap the leader
        # popen.py keeps every launched pid in a module list and, at interpreter exit, sends SIGTERM to the
        # process GROUP of each of them.  The pids of finished cases are free for re-use by then (by the scripts
        # of the other workers, or anybody else): forget them as soon as they are reaped.
        import radical.pilot.agent.executing.popen as mpopen
        try:
            mpopen._pids.remove(proc.pid)
        except ValueError:
            pass
        obs['launch_rc'] = -1 if timed_out else rc
        obs['wall'] = round(time.time() - t_start, 2)
        if timed_out and self.breaker:
            with open(self.breaker, 'a') as f:
                f.write(case_kind(case) + '\n')

        def canon(s):
            return s.replace(root, '/R')

        def rd(path):
            try:
                with open(path, 'rb') as f:
                    return f.read()
            except OSError:
                return None

        def trace(tag):
            b = rd('%s/trace.%s' % (L['log'], tag))
            return [] if b is None else b.decode().split('\n')[:-1]

        sbox = task['task_sandbox_path']
        obs['ltrace'] = trace('L')
        obs['gtrace'] = [x for x in trace('all') if not x.startswith('L ')]
        ranks = []
        for r in range(case['ranks']):
            pr = rd('%s/probe.%d' % (L['log'], r))
            probe = None
            if pr is not None:
                f = pr.split(b'\0')[:-1]
                n = int(f[1])
                envs = []
                for kv in f[2 + n:]:
                    k, _, v = kv.partition(b'=')
                    k = k.decode('utf8', 'surrogateescape')
                    if k not in ENV_IGNORE:
                        envs.append([k, canon(v.decode('utf8', 'surrogateescape'))])
                probe = {'cwd': canon(f[0].decode()), 'args': [a.decode('utf8', 'surrogateescape') for a in f[2:2 + n]],
                         'env': sorted(envs)}
            rc = rd('%s/rc.%d' % (L['log'], r))
            ranks.append({'trace': trace(str(r)), 'probe': probe, 'rc': None if rc is None else int(rc)})
        obs['ranks'] = ranks
        # output where the description says it goes
        for key, dflt in (('stdout', '.out'), ('stderr', '.err')):
            name = case.get(key) or (case['uid'] + dflt)
            path = name if name.startswith('/') else '%s/%s' % (sbox, name)
            b = rd(root + path[2:] if path.startswith('/R/') else path)
            obs[key] = None if b is None else sorted(canon(b.decode('utf8', 'replace')).split('\n')[:-1])
        sig = rd('%s/pre_exec.sig' % sbox)
        obs['sig'] = None if sig is None else sorted(sig.decode().split())
        # text of the generated command line (between '# execute rank' and the '&')
        ex = rd('%s/%s.exec.sh' % (sbox, case['uid']))
        line = None
        if ex is not None and b'\n# execute rank\n' in ex:
            seg = ex.split(b'\n# execute rank\n', 1)[1]
            seg = seg.split(b'\n', 1)[1] if seg.startswith(b'$RP_PROF') else seg
            if b' &\n\nRP_EXEC_PID' in seg:
                line = canon(seg.split(b' &\n\nRP_EXEC_PID', 1)[0].decode('utf8', 'surrogateescape'))
        obs['exec_line'] = line
        lo = rd('%s/%s.launch.out' % (sbox, case['uid']))
        obs['launch_out'] = None if lo is None else sorted(canon(lo.decode('utf8', 'replace')).split('\n'))[:8]
        if timed_out and self.breaker:
            import json
            with open(self._cache_path(case), 'w') as f:
                json.dump(obs, f)
        if keep:
            obs['_scripts'] = {'exec': ex.decode('utf8', 'replace') if ex else None,
                               'launch': (rd('%s/%s.launch.sh' % (sbox, case['uid'])) or b'').decode('utf8', 'replace')}
        return obs


if __name__ == '__main__':
    import json
    import sys
    from .core import rp_import
    rp = rp_import()
    d = Driver(rp, os.getcwd() + '/c10')
    case = json.load(open(sys.argv[1])) if len(sys.argv) > 1 else {
        'uid': 'task.000000', 'name': None, 'args': ['a b', '', 'x"y', "it's", '*', 'back\\slash', 'nl\nx', 'hé'],
        'env': [['FOO', 'bar baz'], ['Q', 'x']], 'ranks': 2, 'cpr': 2, 'gpr_q': 4, 'omp': True, 'cuda': True,
        'gpus': [[0], [1]], 'pre': [{'all': ['stub', 1, 0]}, {'per': [[1, [['stub', 2, 0]]]]}],
        'post': [{'all': ['stub', 3, 0]}], 'sync': True, 'pre_launch': [['stub', 4, 0]], 'post_launch': [],
        'task_pre_exec': [['export', 'TPE', '1']], 'stdout': None, 'stderr': None, 'startup_to': True, 'prof': False,
        'rcs': [0, 3]}
    o = d.run(case, keep=True)
    sc = o.pop('_scripts', None)
    print(json.dumps(o, indent=1))
    if sc:
        print(sc['launch'])
        print(sc['exec'])
