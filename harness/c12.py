"""C12 -- each task is bound to exactly one eligible pilot.

Implementation under test (real code, real objects built without __init__):
  TMGRSchedulingComponent.work / control_cb / _base_state_cb / _update_pilot_states /
  _assign_pilot, RoundRobin.* and Backfilling.* (tmgr/scheduler/*.py), and the
  sandbox derivation of Session._get_*_sandbox.  One case = one scheduler
  instance fed a sequence of messages; after every message the recorded
  advance()/_assign_pilot calls, the exception (if any) and a snapshot of the
  scheduler's tables are observed and compared with TmgrSched.Model inside Coq."""
import itertools
import re
import sys
import threading
from unittest import mock

from .core import Prop, rp_import

PSTATES = ['NEW', 'PMGR_LAUNCHING_PENDING', 'PMGR_LAUNCHING', 'PMGR_ACTIVE_PENDING',
           'PMGR_ACTIVE', 'DONE', 'FAILED', 'CANCELED']
TSTATES = ['NEW', 'TMGR_SCHEDULING_PENDING', 'TMGR_SCHEDULING', 'TMGR_STAGING_INPUT_PENDING',
           'TMGR_STAGING_INPUT', 'AGENT_STAGING_INPUT_PENDING', 'AGENT_STAGING_INPUT',
           'AGENT_SCHEDULING_PENDING', 'AGENT_SCHEDULING', 'AGENT_EXECUTING_PENDING',
           'AGENT_EXECUTING', 'AGENT_STAGING_OUTPUT_PENDING', 'AGENT_STAGING_OUTPUT',
           'TMGR_STAGING_OUTPUT_PENDING', 'TMGR_STAGING_OUTPUT', 'DONE', 'FAILED', 'CANCELED']
LATE = TSTATES[11:]

# the thread which handles a message: component work thread, control subscriber, state subscriber
THREAD = {'submit': 'work', 'add': 'control', 'remove': 'control', 'pstates': 'state', 'tstates': 'state'}
ERR = {'ValueError': 'EValue', 'RuntimeError': 'ERuntime', 'KeyError': 'EKey'}
TM = {'mine': 'TMine', 'foreign': 'TForeign', 'none': 'TNone'}
SRC = {'work': 'SWork', 'control_cb': 'SCtl', '_schedule_tasks': 'SSched'}
ROLE = {None: 'RNone', 'added': 'RAdded', 'removed': 'RRemoved'}


def tuid(n):
    return 'task.%06d' % n


def puid(n):
    return 'pilot.%04d' % n


def num(s):
    m = re.search(r'\.(\d+)$', s or '')
    return int(m.group(1)) if m else -1


# ------------------------------------------------------------------------------
# Coq literals (the case files open Z_scope)
def z(n):
    n = int(n)
    return str(n) if n >= 0 else '(%d)' % n


def lst(xs):
    return '[' + '; '.join(xs) + ']'


def oz(n):
    return '(Some %s)' % z(n) if n else 'None'


def ops_lit(ops):
    out = []
    for o in ops:
        k = o[0]
        if k == 'submit':
            out.append('OSubmit ' + lst('mkTask %s %s %s' % (z(u), oz(p), z(r * c)) for u, p, r, c in o[1]))
        elif k == 'add':
            out.append('OAdd %s %s' % (TM[o[1]], lst('(%s, P_%s, %s)' % (z(p), s, z(c)) for p, s, c in o[2])))
        elif k == 'remove':
            out.append('ORemove %s %s' % (TM[o[1]], lst(z(p) for p in o[2])))
        elif k == 'pstates':
            out.append('OPStates ' + lst('(%s, P_%s)' % (z(p), s) for p, s in o[1]))
        elif k == 'tstates':
            out.append('OTStates ' + lst('(%s, T_%s, %s)' % (z(u), s, z(ov)) for u, s, ov in o[1]))
        else:
            out.append('OIgnored')
    return lst(out)


def uidpid(l):
    return lst('(%s, %s)' % (z(u), oz(p)) for u, p in l)


def pst(s):
    return '(Some P_%s)' % s if s else 'None'


def event_lit(e):
    if e[0] == 'adv':
        return 'EAdv %s %s' % (e[1], uidpid(e[2]))
    if e[0] == 'ntf':
        return 'ENtf ' + uidpid(e[1])
    _, src, uid, pid, prev, role, state, used, hwm, cores = e
    return 'EAsg (mkAsg %s %s %s %s %s %s %s %s %s)' % (src, z(uid), z(pid), oz(prev), role, pst(state),
                                                        z(used), z(hwm), z(cores))


def snap_lit(s):
    pils = []
    for pid, role, state, cores, info in s['pilots']:
        il = 'None' if info is None else '(Some (mkInfo %s %s %s %s))' % (
            z(info[0]), z(info[1]), lst(z(x) for x in info[2]), lst(z(x) for x in info[3]))
        pils.append('(%s, mkPil %s %s %s %s)' % (z(pid), role, pst(state),
                                                 'None' if cores is None else '(Some %s)' % z(cores), il))
    early = lst('(%s, %s)' % (z(p), lst(z(u) for u in us)) for p, us in s['early'])
    return '(mkSnap %s %s %s %s %s)' % (lst(pils), early, lst(z(p) for p in s['pids']), z(s['idx']),
                                       lst(z(u) for u in s['wait']))


def obs_lit(obs):
    return lst('(%s, %s, %s)' % (lst(event_lit(e) for e in r['ev']),
                                  '(Some %s)' % r['err'] if r['err'] else 'None', snap_lit(r['snap']))
               for r in obs['per_op'])


class C12(Prop):
    id = 'C12'
    module = 'c12'
    title = 'Each task is bound to exactly one eligible pilot'
    props_files = ['Props/C12.v']
    extra_targets = ['TmgrSched/Oracle.vo', 'TmgrSched/Lin.vo']
    model_targets = ['TmgrSched/Oracle.vo', 'TmgrSched/Lin.vo']
    translators = ['states']
    header = ('From RP Require Import Gen.StatesTables States.Model States.Inst TmgrSched.Model TmgrSched.Oracle TmgrSched.Lin.\n'
              'Open Scope Z_scope.')
    clauses = ['bound_once', 'named_goes_to_named', 'only_added', 'waits_not_lost', 'sandbox_matches',
               'rr_balance', 'bf_window_hwm', 'bf_used_zero', 'bound_only_to_eligible',
               'lin_terminates', 'lin_exactly_once']
    sites = {'bound_once': 'TMGRSchedulingComponent.control_cb/work',
             'named_goes_to_named': 'TMGRSchedulingComponent._assign_pilot',
             'only_added': '_schedule_tasks', 'waits_not_lost': '_schedule_tasks',
             'sandbox_matches': 'TMGRSchedulingComponent._assign_pilot',
             'rr_balance': 'RoundRobin._schedule_tasks', 'bf_window_hwm': 'Backfilling._schedule_tasks',
             'bf_used_zero': 'Backfilling.update_tasks',
             'bound_only_to_eligible': 'TMGRSchedulingComponent._update_pilot_states',
             'lin_terminates': 'scheduler locks (_pilots_lock / _wait_lock)',
             'lin_exactly_once': 'concurrent entry points (work / control_cb / _base_state_cb)'}
    corr_name = ('TmgrSched.Model.run (step: work/control_cb/_base_state_cb over RoundRobin and Backfilling) vs '
                 'the real TMGRSchedulingComponent/RoundRobin/Backfilling methods')
    rule = ('corpus, then seed-determined random message histories (3-14 messages: task submissions with and '
            'without a named pilot, add_pilots/remove_pilots commands incl. re-adds, foreign-tmgr and rejected '
            'commands, pilot state and task state notifications) for both schedulers, backfilling with default '
            'and patched HWM/window constants; thorough adds all histories of <= 4 messages over a 10-letter '
            'alphabet (2 pilots, 3 tasks); directed blocks for stale pilot documents (final-state notification before the '
            'add command; add / reported final / remove / re-add with the old document). THREAD INTERLEAVINGS: '
            'pairs of messages of two different scheduler threads (work | control | state subscriber) after a short '
            'prefix; the first call is held before EVERY line it executes inside tmgr/scheduler/*.py, the second runs '
            'to completion or up to a scheduler lock, then the first goes on (deterministic turn-taking); '
            'every distinct outcome must equal the model outcome of A;B or B;A, terminate, and hand every task on '
            'exactly once or keep it waiting. non-trivial = >= 4 messages of >= 3 kinds with >= 1 task placed by '
            'the scheduling algorithm and >= 1 task forwarded')
    trusted = [
        'translator translators/states.py (ast -> Gen/StatesTables.v; fail closed): pilot/task state values',
        'correspondence harness harness/c12.py: real RoundRobin/Backfilling instances built without __init__ '
        '(attributes as set by initialize(), real _configure()), advance() replaced by a recorder, _assign_pilot '
        'wrapped by a call-through recorder (caller frame name = call site), real Session sandbox getters on a '
        'Session built without __init__ with get_resource_config stubbed; every message handled synchronously; '
        'events, exception and a snapshot of _pilots/_early/_pids/_idx/_wait_pool compared inside Coq by vm_compute',
        'interleaving driver harness/c12_inter.py: two real threads, sys.settrace line tracer on the code objects of '
        'tmgr/scheduler/{base,round_robin,backfilling}.py for the held thread, the scheduler\'s three locks replaced by '
        'reentrant locks of the same semantics which report a waiting acquire (so blocking and deadlock are seen '
        'without time-outs); granularity = source lines of the scheduler (not bytecodes), pairs only (no three-thread '
        'interleavings), one hold point per run',
        'modelled, not verified: preemption inside a line / inside library calls (messages are handled one at a time in the model), zmq delivery, the '
        'staging-dependency wait list (unused by the code), cancel_tasks (a no-op in the code), profiling/logging; '
        'States.Model.pilot_progress for _pilot_state_progress (tied by C14/C06 correspondence and here)',
    ]
    assumptions = [
        'task uids are unique per task manager (theorems that need it assume NoDup of the submitted uids)',
        'only_added / rr_balance / bf high-water mark / bf_used_zero assume that no add_pilots/remove_pilots '
        'command was rejected with an exception (TaskManager.add_pilots/remove_pilots validate before publishing)',
        'task state notifications carry the task dict as the scheduler bound it (pilot, description)',
    ]
    widen_cases = 1500

    # ------------------------------------------------------------------ cases
    def gen(self, rng, kind, big=False):
        npil = rng.randint(1, 4)
        consts = None
        if kind == 'bf' and rng.random() < 0.4:
            a, b = sorted([rng.randint(0, 5), rng.randint(2, 5)])
            consts = [rng.choice([50, 100, 150, 200, 300]), a, b]
        added, ever, ops, subm = [], [], [], []
        nxt = 1
        nops = rng.randint(3, 14 if big else 11)
        active_bias = 0.65 if kind == 'bf' else 0.3
        for _ in range(nops):
            r = rng.random()
            free0 = [p for p in range(1, npil + 1) if p not in added]
            if free0 and rng.random() < (0.07 if kind == 'bf' else 0.02):
                # stale pilot documents: the scheduler already holds a more advanced state than the
                # document of the add_pilots command says
                p = rng.choice(free0)
                fin = rng.choice(PSTATES[5:])
                cores = rng.choice([2, 4, 8])
                blk = []
                if rng.random() < 0.5:      # (A) the final-state notification overtakes the add command
                    blk.append(['pstates', [[p, fin]]])
                    blk.append(['add', 'mine', [[p, 'PMGR_ACTIVE', cores]]])
                else:                       # (B) add, reported final, removed, re-added with the old document
                    blk.append(['add', 'mine', [[p, 'PMGR_ACTIVE', cores]]])
                    if rng.random() < 0.5:
                        blk.append(['submit', [[nxt, 0, 1, 1]]])
                        subm.append(nxt)
                        nxt += 1
                    blk.append(['pstates', [[p, fin]]])
                    blk.append(['remove', 'mine', [p]])
                    blk.append(['add', 'mine', [[p, 'PMGR_ACTIVE', cores]]])
                blk.append(['submit', [[nxt, 0, 1, 1], [nxt + 1, 0, 1, 2]]])
                subm += [nxt, nxt + 1]
                nxt += 2
                ops += blk
                added.append(p)
                ever.append(p)
                continue
            if r < 0.34:
                ts = []
                for _k in range(rng.randint(1, 5)):
                    p = 0
                    if rng.random() < 0.3:
                        p = rng.randint(1, npil) if rng.random() < 0.9 else npil + 1
                    ts.append([nxt, p, rng.randint(1, 3), rng.randint(1, 2)])
                    subm.append(nxt)
                    nxt += 1
                ops.append(['submit', ts])
            elif r < 0.52:
                free = [p for p in range(1, npil + 1) if p not in added]
                if not free and rng.random() < 0.75:
                    continue
                tm = 'mine' if rng.random() < 0.9 else rng.choice(['foreign', 'none'])
                if free and rng.random() < 0.93:
                    ps = rng.sample(free, min(len(free), rng.choice([1, 1, 2])))
                else:                                   # rejected commands: already added / duplicate / empty
                    ps = [rng.randint(1, npil) for _k in range(rng.randint(0, 2))]
                    if ps and rng.random() < 0.4:
                        ps.append(ps[0])
                pl = [[p, 'PMGR_ACTIVE' if rng.random() < active_bias else rng.choice(PSTATES),
                       rng.choice([0, 1, 2, 2, 3, 4, 4, 6, 8])] for p in ps]
                ops.append(['add', tm, pl])
                if tm != 'foreign' and len(set(ps)) == len(ps) and not set(ps) & set(added):
                    added += ps
                    ever += ps
            elif r < 0.61:
                tm = 'mine' if rng.random() < 0.9 else rng.choice(['foreign', 'none'])
                if not added and rng.random() < 0.8:
                    continue
                if added and rng.random() < 0.9:
                    ps = rng.sample(added, min(len(added), rng.choice([1, 1, 2])))
                elif added and rng.random() < 0.5:      # rejected half-way: [added pilot, pilot not added]
                    ps = [rng.choice(added), rng.choice([p for p in range(1, npil + 2) if p not in added])]
                else:
                    ps = [rng.randint(1, npil + 1) for _k in range(rng.randint(0, 2))]
                ops.append(['remove', tm, ps])
                if len(ps) == 2 and ps[0] in added and ps[1] not in added and rng.random() < 0.7:
                    # the half-removed pilot must not get work (role check of the schedulers)
                    ops.append(['submit', [[nxt, 0, 1, 1], [nxt + 1, 0, 1, 2]]])
                    subm += [nxt, nxt + 1]
                    nxt += 2
                if tm != 'foreign' and len(set(ps)) == len(ps) and all(p in added for p in ps):
                    added = [p for p in added if p not in ps]
            elif r < 0.75:
                ns = []
                for _k in range(rng.randint(1, 3)):
                    p = rng.randint(1, npil + 1)
                    q = rng.random()
                    s = 'PMGR_ACTIVE' if q < 0.5 else (rng.choice(PSTATES[5:]) if q < 0.7 else rng.choice(PSTATES))
                    ns.append([p, s])
                ops.append(['pstates', ns])
            elif r < 0.96:
                if not subm:
                    continue
                ns = []
                pick = rng.sample(subm, min(len(subm), rng.randint(1, 5)))
                if rng.random() < 0.3:                  # everything the algorithm may have placed finishes
                    pick = [u for o in ops if o[0] == 'submit' for u, p, _r, _c in o[1] if not p]
                for u in pick:
                    s = rng.choice(LATE) if rng.random() < 0.75 else rng.choice(TSTATES)
                    ov = -1
                    q = rng.random()
                    if q < 0.04:
                        ov = 0
                    elif q < 0.08:
                        ov = 99
                    ns.append([u, s, ov])
                    if rng.random() < 0.1:
                        ns.append([u, s, ov])
                if rng.random() < 0.05:
                    ns.append([999, 'DONE', -1])
                ops.append(['tstates', ns])
            else:
                ops.append(['ignored'])
        return {'kind': kind, 'consts': consts, 'ops': ops}

    def gen_inter(self, rng, kind):
        """a short sequential prefix, then two messages for two threads (A is held at every line)"""
        nxt = [1]

        def tasks(n, named=0, cores=None):
            out = []
            for _ in range(n):
                out.append([nxt[0], named, 1, cores or rng.choice([1, 1, 2])])
                nxt[0] += 1
            return out
        prefix, added, unn = [], [], []
        tmpl = rng.choice(['finish', 'finish', 'activate', 'add', 'add', 'two-submits', 'remove', 'random', 'random'])
        act = 'PMGR_ACTIVE'
        if tmpl == 'random':
            base = self.gen(rng, kind)
            prefix = [o for o in base['ops'] if o[0] != 'ignored'][:rng.randint(1, 6)]
            for o in prefix:
                if o[0] == 'submit':
                    unn += [t[0] for t in o[1] if not t[1]]
                    nxt[0] = max(nxt[0], max(t[0] for t in o[1]) + 1)
                if o[0] == 'add':
                    added += [p for p, _s, _c in o[2] if p not in added]
            nxt[0] = max(nxt[0], 30)
            pool = [['submit', tasks(rng.randint(1, 2), rng.choice([0, 0, 1]))],
                    ['add', 'mine', [[rng.randint(1, 3), act, rng.choice([1, 2, 4])]]],
                    ['remove', 'mine', [rng.randint(1, 3)]],
                    ['pstates', [[rng.randint(1, 3), rng.choice([act, 'DONE', 'PMGR_LAUNCHING'])]]],
                    ['tstates', [[u, 'DONE', -1] for u in (rng.sample(unn, min(len(unn), 3)) or [99])]]]
            a, b = rng.sample(pool, 2)
            while THREAD[a[0]] == THREAD[b[0]]:
                a, b = rng.sample(pool, 2)
        else:
            cores = rng.choice([1, 1, 2])
            if tmpl in ('finish', 'two-submits', 'remove'):
                prefix.append(['add', 'mine', [[1, act, cores]]])
                ts = tasks(rng.randint(1, 4))
                prefix.append(['submit', ts])
                unn = [t[0] for t in ts]
            elif tmpl == 'activate':
                prefix.append(['add', 'mine', [[1, rng.choice(['NEW', 'PMGR_LAUNCHING']), cores]]])
                ts = tasks(rng.randint(1, 3))
                prefix.append(['submit', ts])
            else:
                ts = tasks(rng.randint(0, 3))
                if ts:
                    prefix.append(['submit', ts])
                if rng.random() < 0.4:
                    prefix.append(['submit', tasks(1, named=1)])
            sub = ['submit', tasks(rng.randint(1, 2), named=rng.choice([0, 0, 0, 1]))]
            if tmpl == 'finish':
                a = ['tstates', [[u, rng.choice(['DONE', 'AGENT_STAGING_OUTPUT_PENDING']), -1]
                                 for u in rng.sample(unn, rng.randint(1, len(unn)))]]
                b = sub
            elif tmpl == 'activate':
                a, b = ['pstates', [[1, act]]], sub
            elif tmpl == 'add':
                a, b = ['add', 'mine', [[1, act, cores]]], rng.choice([sub, sub, ['pstates', [[1, act]]]])
            elif tmpl == 'two-submits':       # two passes: a finishing task frees the pilot while work() brings more
                a, b = ['tstates', [[unn[0], 'DONE', -1]]], ['submit', tasks(rng.randint(2, 3))]
            else:
                a, b = ['remove', 'mine', [1]], rng.choice([sub, ['tstates', [[unn[0], 'DONE', -1]]]])
            assert THREAD[a[0]] != THREAD[b[0]]
            if rng.random() < 0.35:
                a, b = b, a
        consts = None
        if kind == 'bf' and rng.random() < 0.25:
            consts = [rng.choice([100, 200, 300]), 4, 4]
        return {'kind': kind, 'consts': consts, 'ops': prefix, 'inter': [a, b]}

    def cases(self, rng, tier):
        n = 1000 if tier == 'quick' else 8000
        for i in range(n):
            yield self.gen(rng, 'rr' if i % 2 == 0 else 'bf', big=(tier != 'quick'))
        rng2 = __import__('random').Random(rng.random())
        for i in range(36 if tier == 'quick' else 400):
            yield self.gen_inter(rng2, 'bf' if i % 3 else 'rr')
        if tier == 'thorough':
            def alpha(nxt, subm):
                return [lambda: ['submit', [[nxt[0], 0, 1, 2]]],
                        lambda: ['submit', [[nxt[0], 1, 1, 1]]],
                        lambda: ['add', 'mine', [[1, 'PMGR_ACTIVE', 1]]],
                        lambda: ['add', 'mine', [[2, 'PMGR_ACTIVE', 2]]],
                        lambda: ['remove', 'mine', [1]],
                        lambda: ['remove', 'mine', [2]],
                        lambda: ['pstates', [[1, 'PMGR_ACTIVE'], [2, 'DONE']]],
                        lambda: ['pstates', [[1, 'DONE']]],
                        lambda: ['tstates', [[u, 'DONE', -1] for u in subm]],
                        lambda: ['remove', 'mine', [1, 2]]]
            for k in (1, 2, 3, 4):
                for seq in itertools.product(range(10), repeat=k):
                    if sum(1 for x in seq if x < 2) > 3:
                        continue
                    for kind in ('rr', 'bf'):
                        nxt, subm, ops = [1], [], []
                        for x in seq:
                            o = alpha(nxt, list(subm))[x]()
                            if o[0] == 'submit':
                                subm.append(nxt[0])
                                nxt[0] += 1
                            ops.append(o)
                        yield {'kind': kind, 'consts': None, 'ops': ops}

    # ------------------------------------------------------------------ impl
    def impl_setup(self):
        self.rp = rp_import()
        import radical.pilot.tmgr.scheduler.backfilling as bfm
        self.bfm = bfm
        self.bf_orig = (bfm._HWM, bfm._BF_START_VAL, bfm._BF_STOP_VAL)

    def _mk(self, kind, events):
        import radical.utils as ru
        import radical.pilot.states as rps
        from radical.pilot.session import Session
        from radical.pilot.tmgr.scheduler.round_robin import RoundRobin
        from radical.pilot.tmgr.scheduler.backfilling import Backfilling
        cls = RoundRobin if kind == 'rr' else Backfilling
        with mock.patch.object(Session, '__init__', return_value=None):
            sess = Session()
        sess._uid = 'sess.0'
        sess._log = mock.MagicMock()
        sess._cache_lock = threading.RLock()
        sess._cache = {'endpoint_fs': {}, 'resource_sandbox': {}, 'session_sandbox': {},
                       'pilot_sandbox': {}, 'client_sandbox': '/client'}
        sess.get_resource_config = lambda resource, schema=None: ru.Config(from_dict={
            'filesystem_endpoint': 'file://localhost/', 'default_remote_workdir': '/sbx'})
        with mock.patch.object(cls, '__init__', return_value=None):
            comp = cls()
        # what TMGRSchedulingComponent.initialize() sets
        comp._uid = 'tmgr.0000.scheduling.0000'
        comp._log = mock.MagicMock()
        comp._prof = mock.MagicMock()
        comp._session = sess
        comp._tmgr = 'tmgr.0000'
        comp._early = dict()
        comp._pilots = dict()
        comp._pilots_lock = ru.RLock()
        comp._tasks = dict()
        comp._tasks_lock = ru.RLock()
        comp._waiting = dict()
        comp._waiting_lock = dict()
        comp._configure()
        comp._client_sandbox = '/client'

        def advance(things, state=None, publish=True, push=False, **kw):
            things = things if isinstance(things, list) else [things]
            if not things:                       # Component.advance returns at once
                return
            if state == rps.TMGR_SCHEDULING and publish and not push:
                k = 'AScheduling'
            elif state == rps.TMGR_STAGING_INPUT_PENDING and publish and push:
                k = 'AForward'
            elif state == rps.FAILED:
                k = 'AFailed'
            else:
                k = 'AOther'
            events.append(['adv', k, [[num(t['uid']), max(0, num(t.get('pilot') or ''))] for t in things]])
            if k == 'AForward':
                for t in things:
                    m = re.search(r'pilot\.(\d+)/+task\.(\d+)/*$', str(t.get('task_sandbox')))
                    mp = re.search(r'pilot\.(\d+)/*$', str(t.get('pilot_sandbox')))
                    self.sb.append([num(t['uid']), max(0, num(t.get('pilot') or '')),
                                    int(mp.group(1)) if mp else -1,
                                    int(m.group(1)) if m else -1, int(m.group(2)) if m else -1])
        comp.advance = advance

        real_assign = comp._assign_pilot

        def assign(task, pilot):
            caller = sys._getframe(1).f_code.co_name
            ent = comp._pilots.get(pilot['uid']) or {}
            info = ent.get('info') or {}
            d = task['description']
            events.append(['asg', SRC.get(caller, 'SOther'), num(task['uid']), num(pilot['uid']),
                           max(0, num(task.get('pilot') or '')), ROLE.get(ent.get('role'), 'RNone'),
                           ent.get('state'), info.get('used', 0), info.get('hwm', 0),
                           d['ranks'] * d['cores_per_rank']])
            return real_assign(task, pilot)
        comp._assign_pilot = assign
        return comp

    def _snapshot(self, comp, kind):
        pils = []
        for pid, e in comp._pilots.items():
            info = e['info']
            pils.append([num(pid), ROLE.get(e['role'], 'RNone'), e['state'],
                         e['pilot']['description']['cores'] if e['pilot'] else None,
                         [info['hwm'], info['used'], [num(u) for u in info['tasks']],
                          [num(u) for u in info['done']]] if info else None])
        wp = comp._wait_pool
        wait = [num(t['uid']) for t in (wp if isinstance(wp, list) else wp.values())]
        return {'pilots': pils, 'early': [[num(p), [num(t['uid']) for t in ts]] for p, ts in comp._early.items()],
                'pids': [num(p) for p in comp._pids], 'idx': comp._idx, 'wait': wait}

    def run_impl(self, case):
        import radical.pilot.states as rps
        bfm = self.bfm
        consts = list(self.bf_orig)
        if case.get('consts'):
            consts = list(case['consts'])
        bfm._HWM, bfm._BF_START_VAL, bfm._BF_STOP_VAL = consts
        try:
            return self._run(case, consts, rps)
        finally:
            bfm._HWM, bfm._BF_START_VAL, bfm._BF_STOP_VAL = self.bf_orig

    def _prepare(self, comp, o, live, rps, events, st):
        """build the message of op `o` (task dicts are registered in / read from `live` NOW) and return
        the call that hands it to the real entry point"""
        k = o[0]
        if k == 'submit':
            ts = []
            for i, (u, p, r, c) in enumerate(o[1]):
                t = {'uid': tuid(u), 'type': 'task', 'state': rps.TMGR_SCHEDULING_PENDING,
                     'description': {'ranks': r, 'cores_per_rank': c, 'pilot': puid(p) if p else None,
                                     'sandbox': None}}
                if p:
                    t['pilot'] = puid(p)
                elif i % 3 == 1:
                    t['pilot'] = None
                elif i % 3 == 2:
                    t['pilot'] = ''
                live[u] = t
                ts.append(t)
            return lambda: comp.work(ts)
        if k == 'add':
            pl = [{'uid': puid(p), 'type': 'pilot', 'state': s,
                   'pilot_sandbox': 'file://localhost/explicit/%s/' % puid(p) if p % 2 else '',
                   'description': {'cores': c, 'resource': 'local.localhost', 'access_schema': 'local'}}
                  for p, s, c in o[2]]
            tm = {'mine': 'tmgr.0000', 'foreign': 'tmgr.0001', 'none': None}[o[1]]
            return lambda: comp.control_cb('control_pubsub', {'cmd': 'add_pilots', 'arg': {'pilots': pl, 'tmgr': tm}})
        if k == 'remove':
            tm = {'mine': 'tmgr.0000', 'foreign': 'tmgr.0001', 'none': None}[o[1]]
            return lambda: comp.control_cb('control_pubsub', {'cmd': 'remove_pilots',
                                                              'arg': {'pids': [puid(p) for p in o[2]], 'tmgr': tm}})
        if k == 'pstates':
            arg = [{'type': 'pilot', 'uid': puid(p), 'state': s} for p, s in o[1]]
            if len(arg) == 1:
                arg = arg[0]
            return lambda: comp._base_state_cb('state_pubsub', {'cmd': 'update', 'arg': arg})
        if k == 'tstates':
            arg, ntf = [], []
            for u, s, ov in o[1]:
                t = dict(live.get(u) or {'uid': tuid(u), 'type': 'task',
                                         'description': {'ranks': 1, 'cores_per_rank': 1}})
                t['state'] = s
                if ov == 0:
                    t['pilot'] = ''
                elif ov > 0:
                    t['pilot'] = puid(ov)
                arg.append(t)
                ntf.append([u, max(0, num(t.get('pilot') or ''))])

            def call():
                events.append(['ntf', ntf])
                comp._base_state_cb('state_pubsub', {'cmd': 'state_update' if len(arg) % 2 else 'update', 'arg': arg})
            return call
        st['nign'] = st.get('nign', 0) + 1
        nign = st['nign']
        if nign % 3 == 1:
            uids = list(map(tuid, live))
            return lambda: comp.control_cb('control_pubsub', {'cmd': 'cancel_tasks',
                                                              'arg': {'uids': uids, 'tmgr': 'tmgr.0000'}})
        if nign % 3 == 2:
            return lambda: comp.control_cb('control_pubsub', {'cmd': 'heartbeat', 'arg': {'uid': 'x'}})
        return lambda: comp._base_state_cb('state_pubsub', {'cmd': 'something', 'arg': [
            {'type': 'pilot', 'uid': puid(1), 'state': 'DONE'}]})

    def _run(self, case, consts, rps):
        if case.get('inter'):
            from . import c12_inter
            return c12_inter.run_inter(self, case, consts, rps)
        events = []
        self.sb = []
        comp = self._mk(case['kind'], events)
        live = {}
        per_op = []
        st = {}
        for o in case['ops']:
            del events[:]
            exc = None
            try:
                self._prepare(comp, o, live, rps, events, st)()
            except Exception as e:                       # noqa
                exc = ERR.get(type(e).__name__, 'EOther')
            per_op.append({'ev': [list(e) for e in events], 'err': exc,
                           'snap': self._snapshot(comp, case['kind'])})
        return {'per_op': per_op, 'sb': list(self.sb), 'consts': consts}

    # ------------------------------------------------------------------ coq
    def _cfg(self, case, obs):
        c = case.get('consts') or obs['consts']
        return '(mkCfg %s %s %s %s)' % ('RR' if case['kind'] == 'rr' else 'BF', z(c[0]), z(c[1]), z(c[2]))

    def _inter_row(self, case, obs):
        outs = []
        for o in obs['inter']:
            st = 0 if o['status'] == 'ok' else (1 if o['status'].startswith('deadlock') else 2)
            outs.append('mkOut %d %s %s %s %s %s %s' % (
                st, uidpid(o['fwd']), 'true' if o['bad'] else 'false',
                '(Some %s)' % o['errs'][0] if o['errs'][0] else 'None',
                '(Some %s)' % o['errs'][1] if o['errs'][1] else 'None',
                snap_lit(o['snap']), lst(z(u) for u in o['allfwd'])))
        a, b = case['inter']
        return '(c12_lin_row %s %s %s %s %s)' % (self._cfg(case, obs), ops_lit(case['ops']),
                                                '(%s)' % ops_lit([a])[1:-1], '(%s)' % ops_lit([b])[1:-1], lst(outs))

    def coq_row(self, case, obs):
        if case.get('inter'):
            return self._inter_row(case, obs)
        sb = lst('(%s, %s, %s, %s, %s)' % tuple(z(x) for x in s) for s in obs['sb'])
        return '(c12_row %s %s %s %s)' % (self._cfg(case, obs), ops_lit(case['ops']), obs_lit(obs), sb)

    def model_show(self, case):
        c = case.get('consts') or [200, 4, 4]
        if case.get('inter'):
            cf = '(mkCfg %s %s %s %s)' % ('RR' if case['kind'] == 'rr' else 'BF', z(c[0]), z(c[1]), z(c[2]))
            a, b = ['(%s)' % ops_lit([o])[1:-1] for o in case['inter']]
            s0 = '(fst (run_st %s st0 %s))' % (cf, ops_lit(case['ops']))
            sh = ('(let \'(f, bad, e1, e2, s) := seq2 %s %s %s %s in (f, bad, e1, e2, snap_of s))')
            return '(%s, %s)' % (sh % (cf, s0, a, b), sh % (cf, s0, b, a))
        return 'run (mkCfg %s %s %s %s) st0 %s' % ('RR' if case['kind'] == 'rr' else 'BF', z(c[0]), z(c[1]),
                                                 z(c[2]), ops_lit(case['ops']))

    def nontrivial(self, case, obs):
        if case.get('inter'):
            # the second thread ran between two lines of the first one and both did something
            return any(o['status'] == 'ok' and o['b_ran'] == 'whole' for o in obs['inter']) and obs['nlines'] > 20
        kinds = set(o[0] for o in case['ops'])
        evs = [e for r in obs['per_op'] for e in r['ev']]
        sched = any(e[0] == 'asg' and e[1] == 'SSched' for e in evs)
        fwd = any(e[0] == 'adv' and e[1] == 'AForward' for e in evs)
        return len(case['ops']) >= 4 and len(kinds) >= 3 and sched and fwd

    def signature(self, case, obs, clause):
        cond = 'any'
        if obs and clause == 'bf_used_zero':
            # the first task-state message that update_tasks left with an exception
            errs = [r['err'] for o, r in zip(case['ops'], obs['per_op']) if o[0] == 'tstates' and r['err']]
            cond = 'update_tasks-raised-' + errs[0] if errs else 'no-exception'
        elif obs and clause in ('lin_terminates', 'lin_exactly_once'):
            kinds = sorted(o[0] for o in case['inter'])
            bad = [o['status'].split(':')[0] for o in obs['inter'] if o['status'] != 'ok']
            if clause == 'lin_terminates':
                cond = (bad[0] if bad else 'ok') + ('-with-add_pilots' if 'add' in kinds else '')
            else:
                cond = 'pair'
        elif clause == 'bound_once':
            adds = [p for o in case['ops'] if o[0] == 'add' for p, _, _ in o[2]]
            cond = 'pilot-added-twice' if len(adds) != len(set(adds)) else 'no-readd'
        return '%s:%s:%s:%s' % (clause, self.sites.get(clause, '?'), case['kind'], cond)

    def shrink(self, case):
        if case.get('inter'):
            ops = case['ops']
            for i in range(len(ops)):
                yield dict(case, ops=ops[:i] + ops[i + 1:])
            for which in (0, 1):
                o = case['inter'][which]
                idx = {'submit': 1, 'add': 2, 'remove': 2, 'pstates': 1, 'tstates': 1}.get(o[0])
                if idx is not None and len(o[idx]) > 1:
                    for j in range(len(o[idx])):
                        o2 = list(o)
                        o2[idx] = o[idx][:j] + o[idx][j + 1:]
                        pair = list(case['inter'])
                        pair[which] = o2
                        yield dict(case, inter=pair)
            for i, o in enumerate(ops):
                idx = {'submit': 1, 'add': 2, 'remove': 2, 'pstates': 1, 'tstates': 1}.get(o[0])
                if idx is not None and len(o[idx]) > 1:
                    for j in range(len(o[idx])):
                        o2 = list(o)
                        o2[idx] = o[idx][:j] + o[idx][j + 1:]
                        yield dict(case, ops=ops[:i] + [o2] + ops[i + 1:])
            if case.get('consts'):
                yield dict(case, consts=None)
            return
        ops = case['ops']
        for i in range(len(ops)):
            yield dict(case, ops=ops[:i] + ops[i + 1:])
        for i, o in enumerate(ops):
            idx = {'submit': 1, 'add': 2, 'remove': 2, 'pstates': 1, 'tstates': 1}.get(o[0])
            if idx is None or len(o[idx]) <= 1:
                continue
            for j in range(len(o[idx])):
                o2 = list(o)
                o2[idx] = o[idx][:j] + o[idx][j + 1:]
                yield dict(case, ops=ops[:i] + [o2] + ops[i + 1:])
        if case.get('consts'):
            yield dict(case, consts=None)

    def distribution(self, results):
        kinds, opk, errs, n = {}, {}, {}, 0
        sched = fwd = 0
        inter = dict(cases=0, hold_points=0, second_thread_ran_whole=0, outcomes=0, pairs={})
        for r in results:
            c = r['case']
            if c.get('inter'):
                inter['cases'] += 1
                pk = '%s|%s' % (c['inter'][0][0], c['inter'][1][0])
                inter['pairs'][pk] = inter['pairs'].get(pk, 0) + 1
                if r['obs']:
                    inter['hold_points'] += r['obs']['nlines']
                    inter['outcomes'] += len(r['obs']['inter'])
                    inter['second_thread_ran_whole'] += r['obs'].get('b_whole', 0)
                    inter['not_ok'] = inter.get('not_ok', 0) + sum(1 for o in r['obs']['inter'] if o['status'] != 'ok')
                continue
            kinds[c['kind']] = kinds.get(c['kind'], 0) + 1
            for o in c['ops']:
                opk[o[0]] = opk.get(o[0], 0) + 1
                n += 1
            if r['obs']:
                for p in r['obs']['per_op']:
                    if p['err']:
                        errs[p['err']] = errs.get(p['err'], 0) + 1
                    for e in p['ev']:
                        if e[0] == 'asg' and e[1] == 'SSched':
                            sched += 1
                        if e[0] == 'adv' and e[1] == 'AForward':
                            fwd += len(e[2])
        return dict(schedulers=kinds, messages=opk, mean_messages=round(n / max(1, len(results)), 2),
                    messages_raising=errs, scheduler_placements=sched, tasks_forwarded=fwd,
                    patched_constants=sum(1 for r in results if r['case'].get('consts')), interleavings=inter)


PROP = C12()
