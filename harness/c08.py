"""C08 -- cancel stops the named tasks and nothing else.
Scheduler side: the real scheduler loop with cancel requests placed between any
two steps (waiting tasks, tasks met later at intake or after wait-pool insertion).
Executor side: see harness/execlib.py (running tasks, tasks met at executor intake)."""
from . import schedlib as SL
from .c01 import SchedProp


class C08(SchedProp):
    id = 'C08'
    module = 'c08'
    props_files = ['Props/C08.v']
    row_fn = 'c08_sched_row'
    preplaced_share = 0.0
    clauses = ['named_waiting_task_leaves_pool_canceled', 'only_named_tasks_canceled',
               'named_task_met_later_never_started', 'named_task_never_started_after_request_consumed']
    rule = ('scheduler histories with a cancel request after ~25% of the operations (named: waiting, running, not yet '
            'arrived and unknown uids; also requests delivered in the middle of the queue drain), bystander tasks around them; non-trivial = >= 2 tasks held simultaneously and '
            '>= 1 task waited')

    def cases(self, rng, tier):
        n = 260 if tier == 'quick' else 6000
        for i in range(n):
            c = SL.gen_case(rng, size='small' if rng.random() < 0.6 else 'large', preplaced=False, disciplined=True)
            # more cancels, also for uids that arrive later
            ops = []
            uids = [r['uid'] for o in c['ops'] if o[0] == 'arrive' for r in o[1]]
            prev = None
            for o in c['ops']:
                if o[0] == 'iter' and prev is not None and prev[0] == 'arrive' and rng.random() < 0.4:
                    # a request that arrives while the queue holding these tasks is being drained
                    ops.append(['cancel_mid', [rng.choice([r['uid'] for r in prev[1]])]])
                elif uids and rng.random() < 0.25:
                    ops.append(['cancel', [rng.choice(uids) for _ in range(rng.randint(1, 2))]])
                ops.append(o)
                prev = o
            c['ops'] = ops
            yield c


PROP = C08()
