"""C08 -- cancel stops the named tasks and nothing else.

Scheduler side (kind 'sched'): the real scheduler loop with cancel requests placed
between any two steps and in the middle of the queue drain (waiting tasks, tasks
met later at intake or after wait-pool insertion).
Executor side (kind 'exec'): the real Popen executor threads under the
line-granular scheduler of harness/execlib.py (running tasks are killed and
handed on once as CANCELED with one unschedule message, tasks met at the
executor's intake are canceled there, bystanders keep their outcome)."""
from . import schedlib as SL
from . import execlib as X
from .c01 import SchedProp
from .core import rp_import
from .relay import Relay
from .sides import Sides, Spec

SCHED_CLAUSES = ['named_waiting_task_leaves_pool_canceled', 'only_named_tasks_canceled',
                 'named_task_met_later_never_started', 'named_task_never_started_after_request_consumed',
                 'named_task_not_waiting_after_request_consumed']
EXEC_CLAUSES = ['exec:' + c for c in X.C08_EXEC_CLAUSES]


class C08Base(SchedProp):
    id = 'C08'
    module = 'c08'
    props_files = ['Props/C08.v']
    extra_targets = ['Sched/Oracle.vo', 'Exec/Oracle.vo']
    model_targets = ['Sched/Oracle.vo', 'Exec/Oracle.vo']
    header = 'From RP Require Import Sched.Model Sched.Oracle.'
    exec_header = 'From RP Require Import Exec.Model Exec.Oracle.'

    def header_for(self, case):
        return self.exec_header if case.get('kind') == 'exec' else self.header
    row_fn = 'c08_sched_row'
    preplaced_share = 0.0
    clauses = SCHED_CLAUSES + EXEC_CLAUSES
    corr_name = ('Sched.Model.run vs the real scheduler loop (cancel queue item, wait pool, intake filter, post-insert '
                 'check); Exec.Model.run vs the real Popen executor threads (control_cb, cancel_task, intake filter, '
                 'watcher) under the line-granular thread scheduler')
    rule = ('scheduler histories with a cancel request after ~25% of the operations (named: waiting, running, not yet '
            'arrived and unknown uids; also requests delivered in the middle of the queue drain), bystander tasks '
            'around them; executor scenarios of 2-3 tasks with a request for some of them registered at a seed-chosen '
            'point of the thread schedule (before intake, between placement and launch, while running, after exit); '
            'non-trivial = scheduler: >= 2 tasks held simultaneously and >= 1 task waited; executor: two threads '
            'raced for one uid or a launch fault met a request')
    trusted = SchedProp.trusted + [
        'executor side: harness/execlib.py (real Popen object without __init__, four real threads under a '
        'sys.settrace line-granular scheduler, fake subprocess.Popen/os.killpg/clock)']
    impl_timeout = 1500

    def cases(self, rng, tier):
        n = 200 if tier == 'quick' else 5000
        for i in range(n):
            c = SL.gen_case(rng, size='small' if rng.random() < 0.6 else 'large', preplaced=False, disciplined=True)
            ops = []
            uids = [r['uid'] for o in c['ops'] if o[0] == 'arrive' for r in o[1]]
            prev = None
            for o in c['ops']:
                if o[0] == 'iter' and prev is not None and prev[0] == 'arrive' and rng.random() < 0.4:
                    # a request that arrives while the queue holding these tasks is being drained
                    ops.append(['cancel_mid', [rng.choice([r['uid'] for r in prev[1]])]])
                elif uids and rng.random() < 0.25:
                    # some requests are delivered in two halves with the loop running in between
                    ops.append(['cancel_split' if rng.random() < 0.4 else 'cancel',
                                [rng.choice(uids) for _ in range(rng.randint(1, 2))]])
                ops.append(o)
                prev = o
            c['ops'] = ops
            yield c
        # directed: a busy one-node pilot, a task that has to wait and its request, in two halves, pulled in
        # the same queue drain / one iteration later / before the task arrives
        for k in range(6 if tier == 'quick' else 60):
            cpn = rng.choice([2, 4])
            cfg = {'cpn': cpn, 'gpn': 0, 'lfs': 0, 'mem': 0, 'scattered': True}
            def rq(u, cores):
                return {'uid': u, 'ranks': 1, 'cpr': cores, 'gpr': 0, 'lfs': 0, 'mem': 0, 'rpn': 0,
                        'prio': 0, 'colo': None, 'excl': False, 'env': None, 'slots': None}
            a, b, c = rq(1, cpn), rq(2, rng.randint(1, cpn)), rq(3, 1)
            mid = [[['arrive', [b, c]], ['cancel_split', [2]], ['iter']],
                   [['arrive', [b]], ['iter'], ['cancel_split', [2]], ['iter']],
                   [['cancel_split', [2]], ['arrive', [b, c]], ['iter']],
                   [['cancel_split', [2]], ['iter'], ['arrive', [b, c]], ['iter']]][k % 4]
            ops = [['arrive', [a]], ['iter']] + mid + [['iter'], ['unsched', [1]], ['iter'], ['iter']]
            yield {'kind': 'sched', 'cfg': cfg, 'nodes': [{'cores': [0] * cpn, 'gpus': []}], 'ops': ops,
                   'disciplined': True, 'names': 'unique'}
        for sc in X.gen_cancel_cases(rng, 140 if tier == 'quick' else 2500):
            yield {'kind': 'exec', 'sc': sc}

    def impl_setup(self):
        self.rp = rp_import()
        self.drv = SL.SchedDriver(self.rp)

    def run_impl(self, case):
        if case['kind'] == 'exec':
            obs = X.run_case(self.rp, case['sc'])
            if obs['anomalies']:
                obs = X.run_case(self.rp, case['sc'])      # timing-sensitive?  once more before reporting
            return obs
        return self.drv.run(case)

    def coq_row(self, case, obs):
        ns, ne = len(SCHED_CLAUSES), len(EXEC_CLAUSES)
        if case['kind'] == 'exec':
            r = '(c08_exec_row %s)' % X.coq_row_args(case['sc'], obs)
            return '(hd false %s :: (repeat true %d%%nat ++ tl %s))' % (r, ns, r)
        r = SchedProp.coq_row(self, case, obs)
        return '(%s ++ repeat true %d%%nat)' % (r, ne)

    def model_show(self, case):
        if case['kind'] == 'exec':
            from .c07 import PROP as P7
            return P7.model_show(case['sc'])
        return SchedProp.model_show(self, case)

    def nontrivial(self, case, obs):
        if case['kind'] == 'exec':
            from .c07 import PROP as P7
            return P7.nontrivial(case['sc'], obs)
        return SchedProp.nontrivial(self, case, obs)

    def signature(self, case, obs, clause):
        return clause

    def shrink(self, case):
        if case['kind'] == 'exec':
            from .c07 import PROP as P7
            for sc in P7.shrink(case['sc']):
                yield {'kind': 'exec', 'sc': sc}
        else:
            yield from SchedProp.shrink(self, case)

    def distribution(self, results):
        s = [r for r in results if r['case']['kind'] == 'sched']
        d = SchedProp.distribution(self, s)
        d['executor_cases'] = len(results) - len(s)
        return d


def _relay_cancel(c):
    """relay cases in which a cancel request occurs"""
    return isinstance(c, dict) and (any(o[0] == 'cancel' for o in c.get('ops', [])) or
                                    (c.get('kind') == 'pair' and c['a'][0] == 'cancel'))


class C08(Sides, C08Base):
    # the scheduler's raptor backlog, the third of the four places where cancellation is implemented
    # (harness/relay.py: real work / _schedule_incoming / _control_cb + control_cb(cancel_tasks, register, unregister) /
    # is_canceled, RP.Relay.Model)
    side_specs = [Spec('relay', 'relay', ['cancel_in_backlog', 'cancel_on_queue', 'bystanders_unaffected',
                                          'no_forward_after_final', 'exactly_one_place', 'linearizable'],
                       only=_relay_cancel),
                  # where the request starts: TaskManager.cancel_tasks / Task.cancel build the message whose `uids`
                  # list the agent's handlers iterate (harness/cancelreq.py, RP.CancelReq.Model)
                  Spec('client', 'cancelreq', ['request_names_exactly_the_named_tasks',
                                               'component_registers_exactly_the_named_tasks'])]
    clauses = C08Base.clauses + side_specs[0].clause_names() + side_specs[1].clause_names()
    extra_targets = C08Base.extra_targets + ['Relay/Oracle.vo', 'Relay/Proofs.vo', 'Relay/History.vo', 'Relay/Frame.vo',
                                             'Relay/OracleProofs.vo']
    model_targets = C08Base.model_targets + ['Relay/Oracle.vo']
    corr_name = (C08Base.corr_name + '; ' + Relay.corr_name + '; CancelReq.Model(request_uids/register) vs '
                 'TaskManager.cancel_tasks / Task.cancel / BaseComponent._control_cb')
    rule = C08Base.rule + '; ' + Relay.rule + ' (the sequences and thread pairs in which a cancel request occurs)'
    trusted = [t.replace('raptor forwarding, ', '') for t in C08Base.trusted] + Relay.trusted


PROP = C08()
