"""C09 -- launch commands enact the placement they were given.

Implementation under test (real code from REPO): LaunchMethod.create (factory
table), the sub-class __init__s, init_from_scratch (tool discovery mocked like
tests/unit_tests/test_lm/*), init_from_info, ResourceManager.find_launcher ->
can_launch, AgentExecutingComponent._get_launch -> get_launch_cmds.  The
command line is tokenised and the host/rank/ERF/node file it names is read
back into the structured record of coq/Launch/Model.v."""
import os
import re
import shlex
import shutil
from unittest import mock

from . import coqlit as L
from .core import Prop, rp_import

LMS = ['FORK', 'SSH', 'RSH', 'MPIRUN', 'MPIEXEC', 'SRUN', 'APRUN', 'CCMRUN', 'IBRUN', 'JSRUN', 'PRTE']
NAMES = {  # instance name -> model launch method
    'FORK': 'FORK', 'SSH': 'SSH', 'RSH': 'RSH', 'SRUN': 'SRUN', 'APRUN': 'APRUN', 'CCMRUN': 'CCMRUN',
    'IBRUN': 'IBRUN', 'PRTE': 'PRTE', 'JSRUN': 'JSRUN', 'JSRUN_ERF': 'JSRUN',
    'MPIRUN': 'MPIRUN', 'MPIRUN_MPT': 'MPIRUN', 'MPIRUN_RSH': 'MPIRUN', 'MPIRUN_CCMRUN': 'MPIRUN',
    'MPIRUN_DPLACE': 'MPIRUN', 'mpirun_dplace': 'MPIRUN',
    'MPIEXEC': 'MPIEXEC', 'MPIEXEC_MPT': 'MPIEXEC',
}
FLAVORS = ['OMPI', 'HYDRA', 'SPECTRUM', 'PALS', 'UNKNOWN']
DEFAULTS = dict(flavor='OMPI', rf=False, hf=False, can_os=False, oversub=False, vmajor=20, traverse=False,
                exact=False, tpc=1, reqgpus=False, cpn=64, gpn=0, local=7, tpn=0, nodes=[], dvm=True,
                cheyenne=False)
TDEF = dict(slots=[], rs=[], ranks=1, cpr=1, gpr=0, mpi=True, exe=True, mem=0, skipgpu=False, omp=False,
            cuda=False, wfail=False, b=0)


def opts(case):
    return dict(DEFAULTS, **case.get('o', {}))


def tsk(t):
    return dict(TDEF, **t)


# ------------------------------------------------------------------------------
# what the instance name / options are SUPPOSED to configure (the model's cfg)
#
def expected_cfg(case):
    n, o = case['name'], opts(case)
    lm = NAMES[n]
    low = n.lower()
    chey = o['cheyenne'] and lm in ('MPIRUN', 'MPIEXEC')
    rf = o['rf']
    return dict(
        lm=lm,
        mpt=('_mpt' in low) or chey,
        ccmrun=(low == 'mpirun_ccmrun'),
        dplace=(low == 'mpirun_dplace'),
        dpl_named=(n == 'mpirun_dplace'),          # get_launch_cmds tests the name case-sensitively
        omplace=chey,
        flavor=o['flavor'],
        rf=rf, hf=(o['hf'] and not rf), can_os=(o['can_os'] and o['oversub']), oversub=o['oversub'],
        vmajor=o['vmajor'], traverse=o['traverse'], exact=o['exact'], tpc=o['tpc'], reqgpus=o['reqgpus'],
        cpn=o['cpn'], gpn=o['gpn'], local=o['local'], tpn=o['tpn'], nodes=o['nodes'],
        erf=(low == 'jsrun_erf'), dvm=o['dvm'])


def cfg_lit(case):
    c = expected_cfg(case)
    b = L.boolean
    return '(Build_cfg %s)' % ' '.join([
        c['lm'], b(c['mpt']), b(c['ccmrun']), b(c['dplace']), b(c['dpl_named']), b(c['omplace']), c['flavor'],
        b(c['rf']), b(c['hf']), b(c['can_os']), b(c['oversub']), L.Z(c['vmajor']), b(c['traverse']),
        b(c['exact']), L.Z(c['tpc']), b(c['reqgpus']), L.Z(c['cpn']), L.Z(c['gpn']), L.Z(c['local']),
        L.Z(c['tpn']), L.zlist(c['nodes']), b(c['erf']), b(c['dvm'])])


def task_lit(t):
    t = tsk(t)
    b = L.boolean
    slots = L.lst(['(Build_slot %s %s %s %s)' % (L.Z(s[0]), L.Z(s[1]), L.zlist(s[2]), L.zlist(s[3]))
                   for s in t['slots']])
    rs = L.lst(['(Build_rset %s %s %s)' % (L.Z(r[0]), L.lst([L.zlist(x) for x in r[1]]),
                                           L.lst([L.zlist(x) for x in r[2]])) for r in t['rs']])
    return '(Build_task %s %s %s %s %s %s %s %s %s %s %s %s)' % (
        slots, rs, L.Z(t['ranks']), L.Z(t['cpr']), L.Z(t['gpr']), b(t['mpi']), b(t['exe']), L.Z(t['mem']),
        b(t['skipgpu']), b(t['omp']), b(t['cuda']), b(t['wfail']))


# ------------------------------------------------------------------------------
# observation -> Coq
#
def arg_lit(a):
    k = a[0]
    if k == 'A':
        return '(A %s)' % L.string(a[1])
    if k == 'F':
        return '(F %s)' % a[1]
    if k == 'OZ':
        return '(OZ %s %s)' % (a[1], L.Z(a[2]))
    if k in ('OH', 'OL'):
        return '(%s %s %s)' % (k, a[1], L.zlist(a[2]))
    if k == 'OHN':
        return '(OHN %s %s)' % (a[1], L.lst([L.pair(L.Z(h), L.Z(n)) for h, n in a[2]]))
    if k == 'OF':
        return '(OF %s %s)' % (a[1], a[2])
    if k == 'OB':
        return '(OB %s %s)' % (a[1], L.lst([L.pair(L.Z(x), L.opt(None if y is None else L.Z(y)))
                                            for x, y in a[2]]))
    raise ValueError(a)


def file_lit(f):
    if f is None:
        return 'None'
    k = f[0]
    if k == 'FMissing':
        return '(Some FMissing)'
    if k in ('FHosts', 'FNodes'):
        return '(Some (%s %s))' % (k, L.zlist(f[1]))
    if k == 'FHostN':
        return '(Some (FHostN %s %s))' % (L.boolean(f[1]), L.lst([L.pair(L.Z(h), L.Z(n)) for h, n in f[2]]))
    if k == 'FRank':
        return '(Some (FRank %s))' % L.lst(['(%s, %s, %s)' % (L.Z(r), L.Z(h), L.zlist(c)) for r, h, c in f[1]])
    if k == 'FErf':
        return '(Some (FErf %s))' % L.lst(['(%s, %s, %s, %s)' % (
            L.zlist(i), L.Z(h), L.lst([L.zlist(x) for x in c]), L.zlist(g)) for i, h, c, g in f[1]])
    raise ValueError(f)


def outcome_lit(o):
    if 'err' in o:
        return '(inl %s)' % o['err']
    return '(inr (Build_command %s %s))' % (L.lst([arg_lit(a) for a in o['argv']]), file_lit(o['file']))


def can_lit(c):
    if isinstance(c, dict):
        return '(inl %s)' % c['err']
    return '(inr %s)' % L.boolean(c)


def sel_lit(x):
    if isinstance(x, dict):
        return '(inl %s)' % x['err']
    return '(inr %s)' % L.opt(None if x is None else L.nat(x))


def errkind(e):
    if isinstance(e, OSError):
        return 'EOs'
    return {ValueError: 'EValue', RuntimeError: 'ERuntime', AssertionError: 'EAssert'}.get(type(e), 'ECrash')


# ------------------------------------------------------------------------------
# command line / file parser (trusted; listed in the evidence)
#
# Node names.  The model identifies nodes by integers; the implementation sees
# strings.  Per case a FAMILY of names gives an injective table id -> name, so
# equality of ids is equality of names; the families contain names that are
# prefixes of one another, short vs fully qualified names, and 'localhost' (0).
#   A: n1 n2 .. n10 ..          (n1 is a prefix of n10..n19)
#   B: node1 .. node60          (node1 / node10)
#   C: nid0001 .. nid0030, and nid00011 .. (k > 30: name(k-30) + one digit: nid0001 / nid00011)
#   D: node1 .. node30 (short) and node1.cluster.org .. (k > 30: FQDN of node k-30)
FAMS = 'ABCD'
_fam = ['A']


def set_fam(f):
    _fam[0] = f or 'A'


def _name(f, i):
    if i == 0:
        return 'localhost'
    if f == 'A':
        return 'n%d' % i
    if f == 'B':
        return 'node%d' % i
    if f == 'C':
        return 'nid%04d' % i if i <= 30 else 'nid%04d%d' % (i - 30, i % 10)
    if f == 'D':
        return 'node%d' % i if i <= 30 else 'node%d.cluster.org' % (i - 30)
    raise ValueError(f)


_INV = {f: {_name(f, i): i for i in range(0, 100)} for f in FAMS}
for _f in FAMS:
    assert len(_INV[_f]) == 100, 'name table of family %s is not injective' % _f


def hname(i):
    return _name(_fam[0], i)


def ishost(s):
    return s in _INV[_fam[0]]


def hid(s):
    if s not in _INV[_fam[0]]:
        raise ValueError('not a host name of family %s: %r' % (_fam[0], s))
    return _INV[_fam[0]][s]


def hostlist(s):
    return bool(s) and all(ishost(x) for x in s.split(','))


def hostcounts(s):
    return bool(s) and all(re.fullmatch(r'[^:]+:\d+', x) and ishost(x.split(':')[0]) for x in s.split(','))


def partner(i):
    """an id whose name is prefix-related to the name of i (same family)"""
    f = _fam[0]
    if f in 'AB':
        return i // 10 if i >= 10 else i * 10 + (i % 5)
    return i - 30 if i > 30 else i + 30


FLAGS = {'-gpu': 'O_gpu', '--oversubscribe': 'O_oversub', '-K0': 'O_K0', '-K1': 'O_K1',
         '--quit-on-interrupt': 'O_quit', '--exact': 'O_exact', '--smpiargs=-gpu': 'O_smpigpu',
         '--smpiargs=off': 'O_smpioff'}
INTS = {'-np': 'O_np', '--np': 'O_np', '--ppn': 'O_ppn', '--nodes': 'O_nodes', '--ntasks': 'O_ntasks',
        '--cpus-per-task': 'O_cpt', '--threads-per-core': 'O_tpc', '--mem': 'O_mem',
        '--gpus-per-task': 'O_gpt', '-n': 'O_n', '-d': 'O_d', '-o': 'O_o'}
HOSTS = {'-host': 'O_host', '--nodelist': 'O_nodelist'}
FILES = {'-hostfile': ('O_hostfile', 'hosts'), '--hostfile': ('O_hostfile', 'hf'), '-file': ('O_file', 'hosts'),
         '-rf': ('O_rf', 'rf'), '-f': ('O_f', 'hf'), '--nodefile': ('O_nodefile', 'nodes'),
         '--erf_input': ('O_erf', 'rs')}
JS = {'n': 'O_n', 'a': 'O_a', 'c': 'O_c', 'g': 'O_g', 'r': 'O_r'}
SSH_PREFIX = ['ssh', '-o', 'StrictHostKeyChecking=no', '-o', 'ControlMaster=auto']


def isint(s):
    return re.fullmatch(r'-?\d+', s) is not None


def parse_cmd(lm, cmd, sbox, uid):
    """-> (argv tokens, file content or None).  Anything not understood stays a
    literal token, so that it cannot agree with the model by accident."""
    toks = shlex.split(cmd)
    if lm == 'SSH' and toks[:5] == SSH_PREFIX:
        toks = ['ssh'] + toks[5:]
    out, fname = [], None
    i = 0
    while i < len(toks):
        t = toks[i]
        nxt = toks[i + 1] if i + 1 < len(toks) else None
        name, eq, val = t.partition('=')
        if t in FLAGS:
            out.append(['F', FLAGS[t]])
        elif lm == 'JSRUN' and re.fullmatch(r'-[nacgr]\d+', t):
            out.append(['OZ', JS[t[1]], int(t[2:])])
        elif lm == 'JSRUN' and t == '-b' and nxt == 'rs':
            out.append(['F', 'O_brs']); i += 1
        elif lm == 'JSRUN' and t == '-b' and nxt and re.fullmatch(r'packed:\d+', nxt):
            out.append(['OZ', 'O_bpacked', int(nxt[7:])]); i += 1
        elif t in INTS and nxt is not None and isint(nxt):
            out.append(['OZ', INTS[t], int(nxt)]); i += 1
        elif eq and name in INTS and isint(val):
            out.append(['OZ', INTS[name], int(val)])
        elif t == '-c' and nxt is not None and re.fullmatch(r'\d+(,\d+)*', nxt):
            out.append(['OL', 'O_c', [int(x) for x in nxt.split(',')]]); i += 1
        elif lm == 'PRTE' and t == '--host' and nxt and hostcounts(nxt):
            out.append(['OHN', 'O_host', [[hid(x.split(':')[0]), int(x.split(':')[1])] for x in nxt.split(',')]])
            i += 1
        elif t in HOSTS and nxt and hostlist(nxt):
            out.append(['OH', HOSTS[t], [hid(x) for x in nxt.split(',')]]); i += 1
        elif eq and name in HOSTS and hostlist(val):
            hs = [hid(x) for x in val.split(',')]
            if name == '--nodelist':
                hs = sorted(hs)          # iteration order of a Python set
            out.append(['OH', HOSTS[name], hs])
        elif (t in FILES and nxt is not None) or (eq and name in FILES):
            key, path = (t, nxt) if t in FILES else (name, val)
            o, ext = FILES[key]
            if os.path.normpath(path) == os.path.normpath('%s/%s.%s' % (sbox, uid, ext)):
                out.append(['OF', o, 'X' + ext]); fname = path
                i += 1 if t in FILES else 0
            else:
                out.append(['A', t])
        elif t == '--cpu-bind' and nxt and re.fullmatch(r'list:\d+(-\d+)?(:\d+(-\d+)?)*', nxt):
            gs = []
            for g in nxt[5:].split(':'):
                a, d, b = g.partition('-')
                gs.append([int(a), int(b) if d else None])
            out.append(['OB', 'O_cpubind', gs]); i += 1
        elif t == '--map-by' and nxt and re.fullmatch(r'node:HWTCPUS:PE=-?\d+:OVERSUBSCRIBE', nxt):
            out.append(['OZ', 'O_pe', int(nxt.split('=')[1].split(':')[0])]); i += 1
        elif t == '--pmixmca' and nxt == 'ptl_base_max_msg_size' and i + 2 < len(toks) and isint(toks[i + 2]):
            out.append(['OZ', 'O_msgsize', int(toks[i + 2])]); i += 2
        elif re.fullmatch(r'IBRUN_TASKS_PER_NODE=-?\d+', t):
            out.append(['OZ', 'O_tpn', int(val)])
        elif hostlist(t):
            out.append(['OH', 'O_pos', [hid(x) for x in t.split(',')]])
        else:
            out.append(['A', t])
        i += 1
    if fname and not os.path.exists(fname):
        return out, ['FMissing']
    return out, (parse_file(fname) if fname else None)


def parse_file(path):
    txt = open(path).read()
    if not txt.endswith('\n'):
        raise ValueError('file %s does not end with a newline: %r' % (path, txt[-40:]))
    lines = txt[:-1].split('\n')
    ext = path.rsplit('.', 1)[1]
    if ext == 'hosts':
        return ['FHosts', [hid(x) for x in lines]]
    if ext == 'nodes':
        if len(lines) != 1:
            raise ValueError('node file with %d lines' % len(lines))
        return ['FNodes', sorted(hid(x) for x in lines[0].split(','))]
    if ext == 'hf':
        if all(ishost(x) for x in lines):
            return ['FHosts', [hid(x) for x in lines]]
        if all(re.fullmatch(r'\S+ slots=\d+', x) and ishost(x.split(' ')[0]) for x in lines):
            return ['FHostN', False, [[hid(x.split(' ')[0]), int(x.split('=')[1])] for x in lines]]
        if all(re.fullmatch(r'[^:\s]+:\d+', x) and ishost(x.split(':')[0]) for x in lines):
            return ['FHostN', True, [[hid(x.split(':')[0]), int(x.split(':')[1])] for x in lines]]
        raise ValueError('host file not understood: %r' % txt[:200])
    if ext == 'rf':
        out = []
        for x in lines:
            m = re.fullmatch(r'rank (\d+)=(\S+) slots=((\d+(,\d+)*)?)', x)
            if not m:
                raise ValueError('rank file line not understood: %r' % x)
            out.append([int(m.group(1)), hid(m.group(2)), [int(c) for c in m.group(3).split(',') if c]])
        return ['FRank', out]
    if ext == 'rs':
        if lines[0] != 'cpu_index_using: logical':
            raise ValueError('ERF header: %r' % lines[0])
        out = []
        for x in lines[1:]:
            m = re.fullmatch(r'rank: ([\d,]*) : \{ host: (-?\d+); cpu: ((\{[\d,]*\},?)*)(; gpu: \{([\d,]*)\})? \}', x)
            if not m:
                raise ValueError('ERF line not understood: %r' % x)
            ids = [int(c) for c in m.group(1).split(',') if c]
            cpus = [[int(c) for c in s.split(',') if c] for s in re.findall(r'\{([\d,]*)\}', m.group(3))]
            gpus = [int(c) for c in (m.group(6) or '').split(',') if c]
            out.append([ids, int(m.group(2)), cpus, gpus])
        return ['FErf', out]
    raise ValueError('unknown file kind %s' % path)


# ------------------------------------------------------------------------------
class C09(Prop):
    id = 'C09'
    module = 'c09'
    title = 'Launch commands enact the placement they were given'
    props_files = ['Props/C09.v']
    extra_targets = ['Launch/Oracle.vo']
    model_targets = ['Launch/Oracle.vo']
    translators = []
    header = 'From RP Require Import Launch.Model Launch.Oracle.'
    clauses = ['count', 'nodes', 'pins', 'stateless', 'refuses', 'no_crash', 'bulk_launcher_is_own',
               'bulk_cmd_matches_placement', 'launcher_independent_of_earlier_tasks']
    corr_name = ('Launch.Model(can_launch/get_launch_cmds per method) vs LaunchMethod.create + init_from_scratch/'
                 'init_from_info + ResourceManager.find_launcher + AgentExecutingComponent._get_launch')
    rule = ('corpus, then bulks of 1-5 tasks through the real Popen.work (refused / local / remote single-rank / '
            'multi-rank tasks over launch orders of 2-3 launch methods; non-trivial = launched by >= 2 different '
            'methods, or a refused task beside >= 2 launched ones), launcher-selection cases (real find_launcher over launch orders, FORK mostly first, '
            'placements on the agent node / localhost / a node with a prefix-related name / another node), and '
            'per launch method and flavour random histories of 1-4 tasks on one launcher object; '
            'placements of 1..60 ranks over 1..50 nodes (block, scattered, single-node; arbitrary core index sets; '
            'around the 42 host / 42 node thresholds); non-trivial = a task with >= 2 ranks on >= 2 nodes with a '
            'repeated node, or a refused task, or >= 2 tasks on one launcher object, or a selection that passed over a '
            'launcher / found none')
    trusted = [
        'command-line / file parser harness/c09.py:parse_cmd, parse_file (token table -> structured record; '
        'unknown tokens stay literals)',
        'node-name tables harness/c09.py:_name (injective id -> name per family, asserted at import; families with '
        'prefix-related, short/FQDN names and localhost): model node ids are equal iff the names are equal strings',
        'launcher CLI semantics: Launch.Model.den (Open MPI/Hydra -np/-host/-hostfile/"h slots=n"/"h:n"/rank file, '
        'SGI MPT "hosts -np n", PALS --ppn/--hostfile/--cpu-bind list:, srun --nodes/--ntasks/--nodelist/--nodefile, '
        'prun --np/--host h:n/--map-by node, jsrun ERF and -n/-a, aprun/ccmrun/ibrun -n, ssh/rsh host cmd, fork)',
        'correspondence harness harness/c09.py: real LaunchMethod.create / __init__ of the sub-classes / '
        'init_from_scratch (ru.which, ru.sh_callout, ru.get_hostname, _get_mpi_info, _check_available_lm_options, '
        'PRTE._configure mocked as in tests/unit_tests/test_lm) / init_from_info / find_launcher / _get_launch; '
        'LaunchMethod.__init__ (registry access) replaced',
        'bulk driver harness/c09.py:_executor/_run_bulk: real Popen (initialize, work, _handle_task, script creation, '
        '_launch_task) over the real ResourceManager.find_launcher and real launch methods; subprocess.Popen, the '
        'watcher/timeout threads, ResourceManager.create and ru.which mocked; launch command read back from the '
        'launch script on disk',
        'modelled as used, not verified: ru.create_hostfile, ru.sh_quote, ru.as_list, Python set iteration order '
        '(srun node lists are compared sorted)',
        'not modelled: IBRUN node mapping (depends on TACC ibrun wrapper; process count only), DRAGON and FLUX '
        'launch methods, get_launcher_env/get_rank_cmd/env scripts, PRTE DVM start-up, cancel_task',
    ]
    assumptions = ['placements are well-formed: every slot names a node and at least one core, '
                   'description.ranks = number of slots (C02)',
                   'host names contain no comma, colon or white space']

    # ------------------------------------------------------------------ cases
    def _placement(self, rng, nranks, nnodes, cpr, ngpu=0, ncores=64):
        nodes = rng.sample(range(1, 51), nnodes)
        mode = rng.choice(['block', 'scatter', 'rr', 'uniform'])
        if mode == 'block':
            cuts = sorted(rng.randint(0, nranks) for _ in range(nnodes - 1))
            asg = []
            for k, n in enumerate(nodes):
                lo = cuts[k - 1] if k else 0
                hi = cuts[k] if k < nnodes - 1 else nranks
                asg += [n] * (hi - lo)
        elif mode == 'scatter':
            asg = [rng.choice(nodes) for _ in range(nranks)]
        elif mode == 'rr':
            asg = [nodes[i % nnodes] for i in range(nranks)]
        else:
            per = max(1, nranks // nnodes)
            asg = [nodes[min(i // per, nnodes - 1)] for i in range(nranks)]
        used = {}
        slots = []
        contiguous = rng.random() < 0.6
        for n in asg:
            u = used.setdefault(n, 0)
            if contiguous:
                cores = list(range(u, u + cpr))
                used[n] = u + cpr
            else:
                cores = sorted(rng.sample(range(ncores), cpr))
            gpus = sorted(rng.sample(range(8), ngpu)) if ngpu else []
            slots.append([n, n, cores, gpus])
        return slots

    def _task(self, rng, lm, o, big=False):
        r = rng.random()
        if lm in ('FORK', 'SSH', 'RSH'):
            nranks = 1 if r < 0.8 else rng.randint(2, 3)
        elif big:
            nranks = rng.randint(40, 60)
        elif r < 0.5:
            nranks = rng.randint(1, 6)
        else:
            nranks = rng.randint(2, 30)
        nnodes = rng.randint(1, min(nranks, 50))
        if big and rng.random() < 0.7:
            nnodes = rng.randint(min(nranks, 38), min(nranks, 50))
        if rng.random() < 0.2:
            nnodes = 1
        cpr = rng.choice([1, 1, 1, 2, 4]) if lm != 'JSRUN' else rng.choice([1, 2, 4])
        ngpu = rng.choice([0, 0, 1, 2]) if lm in ('SRUN', 'JSRUN', 'MPIRUN') else 0
        slots = self._placement(rng, nranks, nnodes, cpr, ngpu)
        if lm == 'FORK':
            r2 = rng.random()
            for s in slots:
                if r2 < 0.5:
                    s[0] = rng.choice([0, o['local']])
                elif r2 < 0.85:
                    s[0] = partner(o['local'])       # a node whose name is prefix-related to the agent's
                s[1] = s[0]
        t = dict(slots=slots, ranks=nranks, cpr=cpr, gpr=(ngpu if ngpu else rng.choice([0, 0, 1])),
                 mpi=(rng.random() < 0.7) if lm not in ('FORK', 'SSH', 'RSH') else (rng.random() < 0.15),
                 exe=rng.random() < 0.95, mem=rng.choice([0, 0, 0, 1024]), skipgpu=rng.random() < 0.1,
                 omp=rng.random() < 0.5, cuda=rng.random() < 0.5)
        # fault injection: the sandbox cannot be written (matters where a host/rank/node/ERF file is written)
        pw = 0.3 if big else 0.12 if lm in ('MPIRUN', 'MPIEXEC', 'SRUN', 'JSRUN') else 0.03
        if rng.random() < pw:
            t['wfail'] = True
        if lm == 'JSRUN':
            # old-style slots: one resource set per (node, group of ranks)
            rs = []
            per = rng.choice([1, 1, 2, 3])
            homog = rng.random() < 0.7
            i = 0
            while i < len(slots):
                k = per if homog else rng.randint(1, 3)
                grp = [s for s in slots[i:i + k] if s[0] == slots[i][0]]
                g0 = grp[0][3]
                same = rng.random() < 0.93
                rs.append([grp[0][1], [s[2] for s in grp],
                           ([g0 if same else s[3] for s in grp] if (g0 or rng.random() < 0.5) else [])])
                i += len(grp)
            t['rs'] = rs
            t['slots'] = []
            t['ranks'] = sum(len(r_[1]) for r_ in rs)
        if lm in ('SRUN', 'PRTE') and rng.random() < 0.08:
            t['slots'] = []
        if lm in ('SSH', 'RSH', 'MPIEXEC', 'IBRUN', 'JSRUN') and rng.random() < 0.04:
            t['slots'] = []
            t['rs'] = []
        return t

    def cases(self, rng, tier):
        # every file-writing launcher and flavour around its threshold, with and without a write failure
        def uniform(nr, nn):
            return [[1 + i % nn, 1 + i % nn, [i // nn], []] for i in range(nr)]
        for name in ('MPIRUN', 'MPIRUN_MPT', 'MPIRUN_RSH', 'MPIRUN_CCMRUN', 'MPIRUN_DPLACE', 'mpirun_dplace'):
            for chey in (False, True):
                for nr in (42, 43, rng.randint(44, 60)):
                    for wf in (False, True):
                        if chey and name != 'MPIRUN' and nr != 43:
                            continue
                        yield {'name': name, 'o': {'cheyenne': chey}, 'fam': rng.choice(FAMS),
                               'tasks': [dict(slots=uniform(nr, rng.choice([1, 7, nr])), ranks=nr, wfail=wf)]}
        for name in ('MPIEXEC', 'MPIEXEC_MPT'):
            for o in ({'rf': True}, {'hf': True}, {}, {'flavor': 'PALS'}):
                for nr in (2, 43):
                    nn = rng.choice([1, nr])
                    yield {'name': name, 'o': o, 'fam': rng.choice(FAMS),
                           'tasks': [dict(slots=uniform(nr, nn), ranks=nr, wfail=True),
                                     dict(slots=uniform(nr, nn), ranks=nr)]}
        for vm in (18, 19, 23):
            for nn in (42, 43, 50):
                for wf in (False, True):
                    nr = nn + rng.randint(0, 9)
                    yield {'name': 'SRUN', 'o': {'vmajor': vm}, 'fam': rng.choice(FAMS),
                           'tasks': [dict(slots=uniform(nr, nn), ranks=nr, wfail=wf)]}
        for wf in (False, True):
            yield {'name': 'JSRUN_ERF', 'o': {}, 'fam': 'A',
                   'tasks': [dict(rs=[[1, [[0, 1], [2, 3]], []], [2, [[0, 1]], []]], ranks=3, cpr=2, wfail=wf)]}
        n = 640 if tier == 'quick' else 12000
        names = sorted(NAMES)
        weights = {'MPIRUN': 3, 'MPIEXEC': 4, 'SRUN': 3, 'mpirun_dplace': 2, 'PRTE': 2, 'JSRUN_ERF': 2}
        pool = [x for nm in names for x in [nm] * weights.get(nm, 1)]
        for k in range(n):
            name = pool[k % len(pool)] if k < 4 * len(pool) else rng.choice(pool)
            lm = NAMES[name]
            o = {}
            fam = rng.choice(FAMS)
            set_fam(fam)
            if lm in ('MPIRUN', 'MPIEXEC'):
                o['flavor'] = rng.choice(FLAVORS)
                o['cheyenne'] = rng.random() < 0.12
            if lm == 'MPIEXEC':
                o['rf'] = rng.random() < 0.3
                o['hf'] = rng.random() < 0.4
                o['oversub'] = rng.random() < 0.4
                o['can_os'] = rng.random() < 0.6
                if rng.random() < 0.3:
                    o['flavor'] = 'PALS'
                    o['rf'] = False
            if lm == 'SRUN':
                o['vmajor'] = rng.choice([17, 18, 19, 20, 23])
                o['traverse'] = rng.random() < 0.15
                o['exact'] = rng.random() < 0.3
                o['tpc'] = rng.choice([1, 1, 2, 4])
                o['reqgpus'] = rng.random() < 0.6
                o['cpn'] = rng.choice([16, 42, 64])
            if lm == 'IBRUN':
                o['cpn'] = rng.choice([16, 56, 68])
                o['tpn'] = rng.choice([0, 0, 4])
                o['nodes'] = list(range(1, 51))
            if lm == 'JSRUN':
                o['tpc'] = rng.choice([1, 2, 4])
                o['gpn'] = rng.choice([4, 6, 8])
            if lm == 'PRTE':
                o['dvm'] = rng.random() < 0.95
            if lm == 'FORK':
                o['local'] = rng.randint(1, 50)
            oo = dict(DEFAULTS, **o)
            nt = rng.choice([1, 1, 2, 3, 4])
            big = rng.random() < (0.3 if lm in ('MPIRUN', 'SRUN') else 0.08)
            tasks = [self._task(rng, lm, oo, big=(big and j == nt - 1) or (big and rng.random() < 0.3))
                     for j in range(nt)]
            yield {'name': name, 'o': o, 'fam': fam, 'tasks': tasks}
        # launcher selection: the real find_launcher over a launch order (FORK mostly first), node
        # names that are equal / prefixes of one another / short vs fully qualified / localhost
        orders = [['FORK', 'SSH'], ['FORK', 'MPIRUN'], ['FORK', 'RSH'], ['FORK', 'SRUN'], ['FORK', 'MPIEXEC'],
                  ['FORK', 'PRTE'], ['SSH', 'FORK'], ['FORK', 'SSH', 'MPIRUN'], ['MPIRUN_MPT', 'FORK'],
                  ['FORK'], ['RSH', 'SSH', 'FORK'], ['FORK', 'MPIEXEC_MPT'], ['FORK', 'MPIRUN_MPT'],
                  ['SSH', 'MPIRUN_MPT'], ['FORK', 'MPIRUN_DPLACE'], ['MPIRUN_RSH'], ['RSH', 'MPIRUN_CCMRUN'],
                  ['SSH', 'SRUN']]
        for k in range(220 if tier == 'quick' else 4000):
            order = orders[k % len(orders)]
            fam = FAMS[(k // len(orders)) % len(FAMS)]
            set_fam(fam)
            local = rng.randint(1, 50)
            o = {'local': local}
            if any(NAMES[x] == 'MPIEXEC' for x in order):
                o['flavor'] = rng.choice(['OMPI', 'HYDRA', 'UNKNOWN'])
                o['rf'] = rng.random() < 0.4
                o['hf'] = rng.random() < 0.4
            if 'SRUN' in order:
                o['vmajor'] = rng.choice([18, 20])
            tasks = []
            for _ in range(rng.choice([1, 1, 2, 3])):
                if rng.random() < 0.15:
                    # above the host-file / node-file thresholds, sandbox writable or not
                    nr = rng.randint(43, 60)
                    nn = rng.choice([1, 5, nr])
                    tasks.append(dict(slots=[[1 + i % nn, 1 + i % nn, [i // nn], []] for i in range(nr)],
                                      ranks=nr, cpr=1, mpi=True, wfail=rng.random() < 0.4))
                elif rng.random() < 0.78:
                    r2 = rng.random()
                    node = (local if r2 < 0.25 else 0 if r2 < 0.35 else partner(local) if r2 < 0.75
                            else rng.randint(1, 60))
                    tasks.append(dict(slots=[[node, node, [rng.randint(0, 63)], []]], ranks=1, cpr=1,
                                      mpi=rng.random() < 0.12, exe=rng.random() < 0.96))
                else:
                    nr = rng.randint(2, 6)
                    pool_ = [local, partner(local), rng.randint(1, 60)]
                    slots = [[n_, n_, [i], []] for i, n_ in enumerate(rng.choice(pool_) for _ in range(nr))]
                    tasks.append(dict(slots=slots, ranks=nr, cpr=1, mpi=rng.random() < 0.7,
                                      wfail=rng.random() < 0.1))
            yield {'order': order, 'o': o, 'fam': fam, 'tasks': tasks}
        # bulks through the real Popen.work: tasks no method accepts, local / remote single-rank tasks,
        # multi-rank tasks, over launch orders of several real launch methods
        borders = [['FORK', 'SSH', 'MPIRUN'], ['FORK', 'RSH', 'MPIEXEC'], ['FORK', 'SSH', 'SRUN'],
                   ['FORK', 'SSH', 'PRTE'], ['FORK', 'SSH'], ['SSH', 'MPIRUN_MPT'], ['FORK', 'MPIRUN'],
                   ['FORK', 'SSH', 'MPIRUN_RSH'], ['RSH', 'FORK', 'MPIEXEC_MPT']]
        for k in range(200 if tier == 'quick' else 3000):
            order = borders[k % len(borders)]
            fam = FAMS[(k // len(borders)) % len(FAMS)]
            set_fam(fam)
            local = rng.randint(1, 50)
            o = {'local': local}
            if any(NAMES[x] == 'MPIEXEC' for x in order):
                o['flavor'] = rng.choice(['OMPI', 'HYDRA', 'UNKNOWN'])
                o['rf'] = rng.random() < 0.4
                o['hf'] = rng.random() < 0.4
            tasks = []
            nb = rng.choice([1, 1, 2, 3, 4])
            layouts = [(1, 1), (1, 1), (2, 1), (1, 2), (4, 1), (3, 2)]
            lay = rng.sample(layouts, 2)          # few layouts, so that they repeat within the sequence
            other = rng.randint(1, 60)
            for b_ in range(nb):
                for _ in range(rng.randint(1, 5 if nb == 1 else 3)):
                    r2 = rng.random()
                    nr, cpr = rng.choice(lay)
                    if r2 < 0.2:         # refused by every method: no executable
                        node = rng.choice([local, other])
                        tasks.append(dict(slots=[[node, node, list(range(cpr)), []] for _i in range(nr)], ranks=nr,
                                          cpr=cpr, mpi=rng.random() < 0.3, exe=False, b=b_))
                        continue
                    if r2 < 0.45:        # every rank on the agent's node
                        nodes_ = [rng.choice([local, local, 0])] * nr
                    elif r2 < 0.7:       # every rank on one other node
                        nodes_ = [rng.choice([partner(local), other])] * nr
                    else:                # spread over several nodes (for one rank: another node)
                        pool_ = [local, partner(local), other, rng.randint(1, 60)]
                        nodes_ = [pool_[(i + 1) % len(pool_)] for i in range(nr)] if rng.random() < 0.5 else \
                                 [rng.choice(pool_) for _i in range(nr)]
                    used = {}
                    slots = []
                    for n_ in nodes_:
                        u = used.get(n_, 0)
                        slots.append([n_, n_, list(range(u, u + cpr)), []])
                        used[n_] = u + cpr
                    tasks.append(dict(slots=slots, ranks=nr, cpr=cpr, b=b_,
                                      mpi=(rng.random() < 0.1) if nr == 1 else (rng.random() < 0.8)))
            if rng.random() < 0.1:
                nr = rng.randint(43, 50)
                tasks.append(dict(slots=[[1 + i % 7, 1 + i % 7, [i // 7], []] for i in range(nr)], ranks=nr, cpr=1,
                                  mpi=True, b=nb))
            yield {'bulk': True, 'order': order, 'o': o, 'fam': fam, 'tasks': tasks}
        if tier == 'thorough':
            # small-scope exhaustive: all assignments of <= 4 ranks to 2 nodes for the node-naming methods
            import itertools
            for name in ('MPIRUN', 'MPIRUN_MPT', 'MPIEXEC', 'PRTE', 'SRUN'):
                for o in ([{}] if name != 'MPIEXEC' else
                          [{'rf': True}, {'hf': True}, {}, {'flavor': 'PALS'}]):
                    for k in (1, 2, 3, 4):
                        for asg in itertools.product((1, 2), repeat=k):
                            slots = [[n, n, [i], []] for i, n in enumerate(asg)]
                            yield {'name': name, 'o': o, 'tasks': [dict(slots=slots, ranks=k)]}

    # ------------------------------------------------------------------ impl
    def impl_setup(self):
        self.rp = rp_import()
        import radical.utils as ru
        self.ru = ru
        from radical.pilot.agent.launch_method.base import LaunchMethod
        from radical.pilot.agent.resource_manager.base import ResourceManager, RMInfo
        from radical.pilot.agent.executing.base import AgentExecutingComponent
        self.LM, self.RM, self.RMInfo, self.AEC = LaunchMethod, ResourceManager, RMInfo, AgentExecutingComponent
        from radical.pilot.resource_config import Slot, RO
        self.Slot, self.RO = Slot, RO
        self.ncase = 0
        self.orig_create = LaunchMethod.__dict__['create'].__func__
        from radical.pilot.agent.scheduler.base import AgentSchedulingComponent
        self.ASC = AgentSchedulingComponent

    def _make(self, case):
        """A launcher object, built the way the agent builds it (factory, real
        sub-class __init__, real init_from_scratch under tool mocks, real
        init_from_info); only the registry access of the base __init__ is
        replaced."""
        ru = self.ru
        o = opts(case)
        order = case.get('order') or [case['name']]
        # the resource manager builds its launch methods itself (real _prepare_launch_methods over
        # rm_info.launch_methods); LaunchMethod.create is wrapped to run under the tool mocks
        up = [nm.upper() for nm in order]
        lms = {'order': list(up)}
        for nm in up:
            lms[nm] = {'options': {'tasks_per_node': o['tpn']}} if o['tpn'] else {}
        details = {'exact': o['exact'], 'oversubscribe': o['oversub']}
        rm_info = self.RMInfo({'details': details, 'cores_per_node': o['cpn'], 'gpus_per_node': o['gpn'],
                               'threads_per_core': o['tpc'], 'requested_gpus': 1 if o['reqgpus'] else 0,
                               'node_list': [{'name': hname(i), 'index': i} for i in o['nodes']],
                               'launch_methods': lms})
        with mock.patch.object(self.RM, '__init__', return_value=None):
            rm = self.RM(None, None, None, None)
        rm._log, rm._prof = mock.MagicMock(), None
        rm._rm_info = rm_info
        rm._cfg = ru.Config(from_dict={'pid': 'pilot.0000', 'reg_addr': 'tcp://127.0.0.1:3',
                                       'resource': 'princeton.traverse' if o['traverse'] else 'local.localhost'})

        def create(name_, lm_cfg_, rm_info_, log_, prof_):
            return self._make_one(name_, o, lm_cfg_, rm_info_)
        with mock.patch.object(self.LM, 'create', create):
            rm._prepare_launch_methods()
        if list(rm._launch_order) != up:
            raise RuntimeError('launch methods %s were not all created: %s' % (up, rm._launch_order))
        if order != up:
            # unit-test style lower-case instance name: not creatable through the factory
            assert len(order) == 1
            rm._launchers = {order[0]: self._make_one(order[0], o)}
            rm._launch_order = list(order)
        return rm._launchers[order[0]], rm

    def _make_one(self, name, o, lm_cfg=None, rm_info=None):
        ru, LM = self.ru, self.LM
        lm = NAMES[name]
        chey = o['cheyenne'] and lm in ('MPIRUN', 'MPIEXEC')
        host = 'cheyenne1' if chey else hname(o['local'])
        details = {'exact': o['exact'], 'oversubscribe': o['oversub']}
        if rm_info is None:
            rm_info = self.RMInfo({'details': details, 'cores_per_node': o['cpn'], 'gpus_per_node': o['gpn'],
                                   'threads_per_core': o['tpc'], 'requested_gpus': 1 if o['reqgpus'] else 0,
                                   'node_list': [{'name': hname(i), 'index': i} for i in o['nodes']]})
        if lm_cfg is None:
            lm_cfg = {'resource': 'princeton.traverse' if o['traverse'] else 'local.localhost', 'pid': 'pilot.0000'}
            if o['tpn']:
                lm_cfg['options'] = {'tasks_per_node': o['tpn']}
        log = mock.MagicMock()

        def which(names, *a, **k):
            n = names[0] if isinstance(names, (list, tuple)) else names
            return n

        def callout(cmd, *a, **k):
            if cmd.strip().endswith('-V'):
                return ['slurm %d.11.8' % o['vmajor'], '', 0]
            return ['', '', 0]

        def check_opt(self_, cmd, option):
            return {'-rf': o['rf'], '-f': o['hf'], '--oversubscribe': o['can_os']}[option]

        def configure(self_):
            if not o['dvm']:
                return {}
            return {'dvm_list': {0: {'nodes': [], 'dvm_uri': 'dvm://uri'}}, 'version_info': {}}

        def base_init(self_, name_, lm_cfg_, rm_info_, log_, prof_):
            self_.name, self_._lm_cfg, self_._rm_info, self_._log, self_._prof = name_, lm_cfg_, rm_info_, log_, prof_
            self_._pwd = os.getcwd()
            self_._in_pytest = False
            info = self_.init_from_scratch({}, 'env/lm_%s.sh' % name_.lower())
            self_.init_from_info(info)

        from radical.pilot.agent.launch_method.mpiexec import MPIExec
        from radical.pilot.agent.launch_method.mpirun import MPIRun
        from radical.pilot.agent.launch_method.prte import PRTE
        with mock.patch.object(LM, '__init__', base_init), \
             mock.patch('radical.utils.which', which), \
             mock.patch('radical.utils.sh_callout', callout), \
             mock.patch('radical.utils.get_hostname', return_value=host), \
             mock.patch.object(LM, '_get_mpi_info', return_value=['4.1', o['flavor'] if o['flavor'] != 'UNKNOWN' else 'unknown']), \
             mock.patch.object(MPIExec, '_check_available_lm_options', check_opt), \
             mock.patch.object(PRTE, '_configure', configure), \
             mock.patch.object(PRTE, '__del__', lambda s: None):
            if name in ('FORK', 'SSH', 'RSH', 'MPIRUN', 'MPIRUN_MPT', 'MPIRUN_RSH', 'MPIRUN_CCMRUN',
                        'MPIRUN_DPLACE', 'MPIEXEC', 'MPIEXEC_MPT', 'SRUN', 'APRUN', 'CCMRUN', 'IBRUN',
                        'JSRUN', 'JSRUN_ERF', 'PRTE'):
                inst = self.orig_create(LM, name, lm_cfg, rm_info, log, None)
            else:                                            # unit-test style lower-case name
                inst = MPIRun(name, lm_cfg, rm_info, log, None)
        return inst

    def _taskdict(self, case, t, uid, sbox):
        t = tsk(t)
        lm = NAMES[case['name']]
        if lm == 'JSRUN':
            slots = [{'node_name': hname(r[0]), 'node_index': r[0], 'cores': [list(c) for c in r[1]],
                      'gpus': [list(g) for g in r[2]], 'lfs': 0, 'mem': 0} for r in t['rs']]
        else:
            slots = [self.Slot(node_name=hname(s[0]), node_index=s[1],
                               cores=[self.RO(index=c, occupation=1.0) for c in s[2]],
                               gpus=[self.RO(index=g, occupation=1.0) for g in s[3]],
                               lfs=0, mem=0, version=1) for s in t['slots']]
        td = {'executable': '/bin/true' if t['exe'] else '', 'arguments': [], 'ranks': t['ranks'],
              'cores_per_rank': t['cpr'], 'gpus_per_rank': t['gpr'], 'use_mpi': t['mpi'],
              'mem_per_rank': t['mem'], 'metadata': {'lm_skip_gpus': True} if t['skipgpu'] else {},
              'threading_type': 'OpenMP' if t['omp'] else '', 'gpu_type': 'CUDA' if t['cuda'] else '',
              'environment': {}}
        if t['wfail']:
            # fault injection: a task sandbox below a regular file cannot be written (works as root, too)
            blocker = os.path.join(sbox, 'blocker')
            if not os.path.exists(blocker):
                open(blocker, 'w').close()
            sbox = os.path.join(blocker, 'sandbox')
        task = {'uid': uid, 'slots': slots, 'partition': 0, 'description': td, 'task_sandbox_path': sbox,
                'stdout_file_short': 'out', 'stderr_file_short': 'err'}
        # what the agent scheduler writes into the task dict before the executor sees it
        self.ASC._set_tuple_size(None, task)                            # task['tuple_size']
        task['$set'] = ['resources']
        task['resources'] = {'cpu': td['ranks'] * td['cores_per_rank'], 'gpu': td['ranks'] * td['gpus_per_rank']}
        return task

    def _launch(self, case, inst, rm, task, sbox):
        lm = NAMES[case['name']]
        can = None
        if rm is not None:
            try:
                launcher, _ = rm.find_launcher(task)
                can = launcher is not None
                if can and launcher is not inst:
                    raise RuntimeError('find_launcher returned a foreign object')
            except Exception as e:
                can = {'err': errkind(e)}
        try:
            txt = self.AEC._get_launch(None, task, inst, 'EXEC')
        except Exception as e:
            return can, {'err': errkind(e)}
        # the stdout/stderr names are shell-quoted by _get_launch (ru.sh_quote); C10 owns that part
        m = re.fullmatch(r'\( \\\n((?:  .* \\\n)*)\) 1> "?out"? \\\n  2> "?err"?\nRP_RET=\$\?\nRP_LAUNCH_PID=\$\$\n', txt)
        if not m:
            raise ValueError('launch fragment not understood: %r' % txt)
        cmds = [l[2:-2] for l in m.group(1).split('\n') if l]
        if len(cmds) != 1:
            raise ValueError('%d launch commands' % len(cmds))
        argv, f = parse_cmd(lm, cmds[0], task['task_sandbox_path'], task['uid'])
        return can, {'argv': argv, 'file': f}

    def _select(self, case, rm, task, sbox):
        """what the agent does: ResourceManager.find_launcher over the launch
        order, then the selected launcher's command"""
        order = case['order']
        try:
            launcher, lname = rm.find_launcher(task)
        except Exception as e:
            return {'sel': {'err': errkind(e)}, 'out': None}
        if launcher is None:
            return {'sel': None, 'out': None}
        if lname not in order or rm._launchers[lname] is not launcher:
            raise RuntimeError('find_launcher returned an unknown launcher %r' % lname)
        _, out = self._launch(dict(case, name=lname), launcher, None, task, sbox)
        return {'sel': order.index(lname), 'out': out}

    # ---- bulks through the real Popen.work -------------------------------------------------------
    def _executor(self, case, root):
        """A real Popen executor (real initialize, real _handle_task / script creation / _launch_task) with
        the real ResourceManager.find_launcher over real launch methods; only the process spawn is mocked."""
        ru = self.ru
        from radical.pilot.agent.executing.popen import Popen
        import radical.pilot.agent.executing.popen as mpopen
        import radical.pilot.agent.executing.base as mbase
        import radical.pilot.agent as rpa
        import threading
        _, rm = self._make(case)
        ps = os.path.join(root, 'rs', 'session.verif', 'pilot.0000')
        os.makedirs(ps, exist_ok=True)
        with mock.patch.object(Popen, '__init__', return_value=None):
            c = Popen()
        c._log, c._prof = mock.MagicMock(), mock.MagicMock()
        c._prof.enabled = False
        c._uid = 'agent_executing.0000'
        c._term = threading.Event()
        c._cancel_list = list()
        c._cancel_lock = threading.RLock()
        c._reg = {'bridges.control_pubsub': {'addr_pub': 'tcp://127.0.0.1:1', 'addr_sub': 'tcp://127.0.0.1:2'}}
        session = mock.MagicMock()
        session.uid = 'session.verif'
        session.cfg = ru.Config(from_dict={'pid': 'pilot.0000', 'resource': 'local.localhost',
                                           'resource_sandbox': os.path.join(root, 'rs'),
                                           'session_sandbox': os.path.join(root, 'rs', 'session.verif'),
                                           'pilot_sandbox': ps})
        session.rcfg = ru.Config(from_dict={'resource_manager': 'FORK', 'new_session_per_task': True,
                                            'task_tmp': os.path.join(root, 'tmp')})
        session.reg_addr = 'tcp://127.0.0.1:3'
        c._session = session
        for lm in rm._launchers.values():
            lm._pwd = ps
        c.register_input = mock.MagicMock()
        c.register_output = mock.MagicMock()
        c.register_publisher = mock.MagicMock()
        rec = {'failed': [], 'unsched': [], 'spawned': []}

        def advance(things, state=None, publish=True, push=False, **kw):
            for t in (things if isinstance(things, list) else [things]):
                if state == 'FAILED':
                    rec['failed'].append(t['uid'])
                if state:
                    t['state'] = state

        def publish(pubsub, msg, topic=None):
            import radical.pilot.constants as rpc
            if pubsub == rpc.AGENT_UNSCHEDULE_PUBSUB:
                for t in (msg if isinstance(msg, list) else [msg]):
                    rec['unsched'].append(t['uid'])
        c.advance, c.publish = advance, publish

        class Proc:
            pid = 4242

            def poll(self):
                return None

            def wait(self, timeout=None):
                return 0

        import subprocess as real_sp

        class FakeSP:
            STDOUT, PIPE = real_sp.STDOUT, real_sp.PIPE
            TimeoutExpired, SubprocessError = real_sp.TimeoutExpired, real_sp.SubprocessError

            @staticmethod
            def Popen(args=None, **kw):
                rec['spawned'].append(str(args))
                return Proc()
        old_tmp = os.environ.get('TMPDIR')
        os.environ['TMPDIR'] = os.path.join(root, 'tmp')
        try:
            with mock.patch.object(rpa.ResourceManager, 'create', return_value=rm), \
                 mock.patch.object(mbase.mt, 'Thread', mock.MagicMock()), \
                 mock.patch('radical.utils.which', lambda *a, **k: '/bin/true'):
                c.initialize()
        finally:
            if old_tmp is None:
                os.environ.pop('TMPDIR', None)
            else:
                os.environ['TMPDIR'] = old_tmp
        return c, rm, rec, mock.patch.object(mpopen, 'sp', FakeSP), ps

    def _run_bulk(self, case):
        root = os.path.join(os.getcwd(), 'bulk_%d' % self.ncase)
        shutil.rmtree(root, ignore_errors=True)
        os.makedirs(root)
        try:
            c, rm, rec, sp_patch, ps = self._executor(case, root)
            order = case['order']
            tasks = []
            for k, t in enumerate(case['tasks']):
                uid = 'task.%06d' % k
                task = self._taskdict(dict(case, name=order[0]), dict(t, wfail=False), uid, '%s/%s' % (ps, uid))
                task.update({'origin': 'client', 'state': 'AGENT_EXECUTING_PENDING', 'type': 'task'})
                del task['stdout_file_short'], task['stderr_file_short']
                d = task['description']
                d.update({'pre_exec': [], 'post_exec': [], 'pre_launch': [], 'post_launch': [], 'named_env': None,
                          'stdout': None, 'stderr': None, 'timeout': 0.0, 'startup_timeout': 0.0, 'name': None,
                          'pre_exec_sync': False, 'raptor_id': None, 'sandbox': None, 'tags': {},
                          'lfs_per_rank': 0, 'mode': 'task.executable', 'services': []})
                tasks.append(task)
            import itertools
            groups = [[tk for tk, _ in g] for _, g in
                      itertools.groupby(zip(tasks, case['tasks']), key=lambda x: tsk(x[1])['b'])]
            with sp_patch:
                for g in groups:                     # the bulks, one after the other, on ONE executor / RM
                    c.work(list(g))
            out = []
            for task, t in zip(tasks, case['tasks']):
                uid = task['uid']
                fsel = self._fresh_sel(case, t, root)
                if uid in rec['failed']:
                    if any(uid in x for x in rec['spawned']):
                        raise ValueError('%s was spawned and failed' % uid)
                    out.append({'failed': True, 'fsel': fsel})
                    continue
                lname = task.get('launcher_name')
                if lname not in order or not any(uid in x for x in rec['spawned']):
                    raise ValueError('%s neither failed nor launched (launcher %r)' % (uid, lname))
                txt = open('%s/%s.launch.sh' % (task['task_sandbox_path'], uid)).read()
                m = re.search(r'\n\( \\\n((?:  .* \\\n)*)\) 1> (\S+) \\\n  2> (\S+)\nRP_RET=\$\?\n', txt)
                if not m:
                    raise ValueError('launch script of %s not understood' % uid)
                cmds = [l[2:-2] for l in m.group(1).split('\n') if l]
                if len(cmds) != 1:
                    raise ValueError('%d launch commands' % len(cmds))
                cmd = cmds[0].replace('$RP_TASK_SANDBOX/%s.exec.sh' % uid, 'EXEC')
                argv, f = parse_cmd(NAMES[lname], cmd, task['task_sandbox_path'], uid)
                out.append({'failed': False, 'sel': order.index(lname), 'out': {'argv': argv, 'file': f},
                            'fsel': fsel})
            return {'calls': out}
        finally:
            shutil.rmtree(root, ignore_errors=True)

    def _fresh_sel(self, case, t, sbox):
        """what a fresh resource manager selects for this task alone"""
        _, frm = self._make(case)
        ftask = self._taskdict(dict(case, name=case['order'][0]), dict(t, wfail=False), 'task.fresh', sbox)
        try:
            launcher, lname = frm.find_launcher(ftask)
        except Exception as e:
            return {'err': errkind(e)}
        return None if launcher is None else case['order'].index(lname)

    def run_impl(self, case):
        self.ncase += 1
        set_fam(case.get('fam'))
        if case.get('bulk'):
            return self._run_bulk(case)
        if case.get('order'):
            sbox = os.path.join(os.getcwd(), 'sbox_%d' % self.ncase)
            shutil.rmtree(sbox, ignore_errors=True)
            os.makedirs(sbox)
            try:
                out = []
                _, rm = self._make(case)            # ONE resource manager for the whole sequence
                for k, t in enumerate(case['tasks']):
                    task = self._taskdict(dict(case, name=case['order'][0]), t, 'task.%06d' % k, sbox)
                    r = self._select(case, rm, task, sbox)
                    r['fsel'] = self._fresh_sel(case, t, sbox)
                    out.append(r)
                return {'calls': out}
            finally:
                shutil.rmtree(sbox, ignore_errors=True)
        sbox = os.path.join(os.getcwd(), 'sbox_%d' % self.ncase)
        shutil.rmtree(sbox, ignore_errors=True)
        os.makedirs(sbox)
        try:
            inst, rm = self._make(case)
            out = []
            for k, t in enumerate(case['tasks']):
                task = self._taskdict(case, t, 'task.%06d' % k, sbox)
                can, seq = self._launch(case, inst, rm, task, sbox)
                finst, frm = self._make(case)
                ftask = self._taskdict(case, t, 'task.%06d' % k, sbox)
                for fn in os.listdir(sbox):
                    if fn.startswith('task.'):
                        os.unlink(os.path.join(sbox, fn))
                fcan, fresh = self._launch(case, finst, frm, ftask, sbox)
                out.append({'can': can, 'seq': seq, 'fcan': fcan, 'fresh': fresh})
            return {'calls': out}
        finally:
            shutil.rmtree(sbox, ignore_errors=True)

    # ------------------------------------------------------------------ coq
    def _cfgs(self, case):
        return L.lst([cfg_lit(dict(case, name=nm)) for nm in case['order']])

    def coq_row(self, case, obs):
        if case.get('bulk'):
            o = L.lst(['HFailed' if c['failed'] else
                       '(HLaunched %s (Build_command %s %s))' % (L.nat(c['sel']),
                                                                 L.lst([arg_lit(a) for a in c['out']['argv']]),
                                                                 file_lit(c['out']['file']))
                       for c in obs['calls']])
            return '(c09_bulk_row %s %s %s %s)' % (self._cfgs(case), L.lst([task_lit(t) for t in case['tasks']]), o,
                                                   L.lst([sel_lit(c['fsel']) for c in obs['calls']]))
        if case.get('order'):
            o = L.lst(['(%s, %s)' % (
                '(inl %s)' % c['sel']['err'] if isinstance(c['sel'], dict) else
                '(inr %s)' % L.opt(None if c['sel'] is None else L.nat(c['sel'])),
                L.opt(None if c['out'] is None else outcome_lit(c['out']))) for c in obs['calls']])
            return '(c09_select_row %s %s %s %s)' % (self._cfgs(case), L.lst([task_lit(t) for t in case['tasks']]), o,
                                                     L.lst([sel_lit(c['fsel']) for c in obs['calls']]))
        o = L.lst(['((%s, %s), (%s, %s))' % (can_lit(c['can']), outcome_lit(c['seq']), can_lit(c['fcan']),
                                             outcome_lit(c['fresh'])) for c in obs['calls']])
        return '(c09_row %s %s %s)' % (cfg_lit(case), L.lst([task_lit(t) for t in case['tasks']]), o)

    def model_show(self, case):
        if case.get('bulk'):
            return 'work %s %s' % (self._cfgs(case), L.lst([task_lit(t) for t in case['tasks']]))
        if case.get('order'):
            return 'map (select_obs %s) %s' % (self._cfgs(case), L.lst([task_lit(t) for t in case['tasks']]))
        return 'run %s [] %s' % (cfg_lit(case), L.lst([task_lit(t) for t in case['tasks']]))

    def nontrivial(self, case, obs):
        if case.get('bulk'):
            # a bulk with a refused task and at least two launched ones, or launched by different methods
            sel = [c['sel'] for c in obs['calls'] if not c['failed']]
            return len(set(sel)) >= 2 or (len(sel) >= 2 and len(sel) < len(obs['calls']))
        if case.get('order'):
            # a selection that had to pass over at least one launcher, or found none
            return any(c['sel'] is None or isinstance(c['sel'], dict) or c['sel'] > 0 for c in obs['calls'])
        if len(case['tasks']) >= 2:
            return True
        for t, c in zip(case['tasks'], obs['calls']):
            hs = [s[0] for s in tsk(t)['slots']] or [r[0] for r in tsk(t)['rs']]
            if len(set(hs)) >= 2 and len(hs) > len(set(hs)):
                return True
            if c['can'] is not True or 'err' in c['seq']:
                return True
        return False

    def _cond(self, case, clause):
        """distinguishing input condition of a violated clause"""
        name, o = case['name'], opts(case)
        lm = NAMES[name]
        if lm == 'MPIEXEC' and o['flavor'] == 'PALS' and not o['rf']:
            if clause == 'nodes':
                return 'MPIEXEC/PALS:uneven-ranks-per-node'
            if clause == 'pins':
                return 'MPIEXEC/PALS:cpu-bind-list'
        if clause == 'nodes' and lm in ('APRUN', 'CCMRUN'):
            return '%s:names-no-node' % lm
        if clause == 'nodes' and lm == 'JSRUN' and name == 'JSRUN':
            return 'JSRUN:names-no-node'
        if clause == 'count' and lm == 'JSRUN' and name == 'JSRUN':
            return 'JSRUN:inhomogeneous-resource-sets'
        if lm == 'MPIEXEC':
            return 'MPIEXEC/' + ('rankfile' if o['rf'] else 'PALS' if o['flavor'] == 'PALS' else
                                 'hostfile-colon' if o['hf'] else 'hostfile-slots')
        if lm == 'JSRUN':
            return name
        return lm

    def signature(self, case, obs, clause):
        if clause == 'launcher_independent_of_earlier_tasks':
            return '%s:%s' % (clause, 'Popen.work' if case.get('bulk') else 'find_launcher')
        if case.get('bulk'):
            return '%s:Popen.work' % clause
        if case.get('order'):
            return '%s:find_launcher' % clause
        return '%s:%s' % (clause, self._cond(case, clause))

    def shrink(self, case):
        if case.get('order'):
            for c in self._shrink(case):
                c = dict(c)
                c.pop('name', None)
                yield c
        else:
            yield from self._shrink(case)

    def _shrink(self, case):
        ts = case['tasks']
        if case.get('order') and len(case['order']) > 1:
            for i in range(len(case['order'])):
                yield dict(case, order=case['order'][:i] + case['order'][i + 1:])
        if case.get('order'):
            case = dict(case, name=case['order'][0])
        for i in range(len(ts)):
            if len(ts) > 1:
                yield dict(case, tasks=ts[:i] + ts[i + 1:])
        for i, t in enumerate(ts):
            t = tsk(t)
            key = 'rs' if NAMES[case['name']] == 'JSRUN' else 'slots'
            sl = t[key]
            if len(sl) > 3:
                for new in (sl[:len(sl) // 2], sl[len(sl) // 2:], sl[:2] + sl[-1:]):
                    nr = len(new) if key == 'slots' else sum(len(r[1]) for r in new)
                    yield dict(case, tasks=ts[:i] + [dict(t, **{key: new, 'ranks': nr})] + ts[i + 1:])
            for j in range(len(sl)):
                if len(sl) > 1:
                    new = sl[:j] + sl[j + 1:]
                    nr = len(new) if key == 'slots' else sum(len(r[1]) for r in new)
                    yield dict(case, tasks=ts[:i] + [dict(t, **{key: new, 'ranks': nr})] + ts[i + 1:])
            if key == 'slots':
                # rename nodes to small numbers, cores to the first cpr indexes
                ids = sorted(set(s[0] for s in sl) - {0})
                ren = {n: k + 1 for k, n in enumerate(ids)}
                ren[0] = 0
                new = [[ren[s[0]], ren[s[0]], s[2], s[3]] for s in sl]
                if new != sl and NAMES[case['name']] != 'FORK':
                    yield dict(case, tasks=ts[:i] + [dict(t, slots=new)] + ts[i + 1:])
                new = [[s[0], s[1], s[2][:1], []] for s in sl]
                if new != sl and t['cpr'] >= 1:
                    yield dict(case, tasks=ts[:i] + [dict(t, slots=new, cpr=1)] + ts[i + 1:])
        if case.get('o'):
            for k in list(case['o']):
                if k not in ('flavor', 'rf', 'hf'):
                    o2 = dict(case['o'])
                    del o2[k]
                    yield dict(case, o=o2)

    def distribution(self, results):
        names, ranks, nodes, errs, refused, big = {}, [], [], 0, 0, 0
        sel = {'first': 0, 'later': 0, 'none': 0, 'raised': 0}
        wfail = 0
        bulks = {'bulks': 0, 'tasks': 0, 'failed': 0, 'with_refused_and_two_methods': 0}
        for r in results:
            nm = r['case'].get('name') or 'order:' + ','.join(r['case']['order'])
            names[nm] = names.get(nm, 0) + 1
            if r['case'].get('bulk'):
                bulks['bulks'] += 1
                cs_ = (r['obs'] or {}).get('calls', [])
                bulks['tasks'] += len(cs_)
                bulks['failed'] += sum(1 for c in cs_ if c['failed'])
                bulks['with_refused_and_two_methods'] += (
                    any(c['failed'] for c in cs_) and len(set(c['sel'] for c in cs_ if not c['failed'])) >= 2)
            elif r['case'].get('order'):
                for c in (r['obs'] or {}).get('calls', []):
                    k = ('raised' if isinstance(c['sel'], dict) else 'none' if c['sel'] is None
                         else 'first' if c['sel'] == 0 else 'later')
                    sel[k] += 1
            for t in r['case']['tasks']:
                t = tsk(t)
                hs = [s[0] for s in t['slots']] or [x[0] for x in t['rs']]
                ranks.append(len(hs))
                nodes.append(len(set(hs)))
                big += len(hs) > 42
                wfail += bool(t['wfail'])
            for c in (r['obs'] or {}).get('calls', []):
                if 'seq' in c:
                    errs += 'err' in c['seq']
                    refused += c['can'] is not True
        return dict(instance_names=names, tasks=len(ranks), mean_ranks=round(sum(ranks) / max(1, len(ranks)), 2),
                    max_ranks=max(ranks or [0]), mean_nodes=round(sum(nodes) / max(1, len(nodes)), 2),
                    max_nodes=max(nodes or [0]), tasks_over_42_ranks=big, calls_raising=errs,
                    find_launcher_selections=sel, popen_work_bulks=bulks, tasks_with_unwritable_sandbox=wfail,
                    calls_refused_by_can_launch=refused)


PROP = C09()
