"""C03 -- released resources come back exactly once and completely.
Scheduler side: the node map, the holder count and capacity restoration over random scheduler histories.
Executor side : every task the executor received asks for its release exactly once, whatever way it ends and
whichever thread ends it (harness/execside.py).
Application side: `Pilot.nodelist` -- release_slots gives back exactly what find_slots took, on the node it took it
from (also when node names repeat), and a failed find_slots rolls back completely (harness/appslots.py)."""
from .c01 import SchedProp, APP_TRUSTED, APP_RULE
from .execside import ExecSide
from .sides import Sides, Spec


class C03Sched(ExecSide, SchedProp):
    id = 'C03'
    module = 'c03'
    props_files = ['Props/C03.v']
    row_fn = 'c03_row'
    clauses = ['map_is_initial_plus_held', 'active_count_is_holders', 'quiescent_capacity_restored',
               'app_supplied:map_is_initial_plus_held', 'app_supplied:active_count_is_holders',
               'app_supplied:quiescent_capacity_restored'] + ['exec:unscheduled_once']
    exec_sel = ['unscheduled_once']
    exec_total = 7               # scheduler + executor clauses (further clauses follow in C03)
    extra_targets = SchedProp.extra_targets + ['Exec/Oracle.vo']
    model_targets = SchedProp.model_targets + ['Exec/Oracle.vo']
    trusted = SchedProp.trusted + [ExecSide.exec_trusted]
    impl_timeout = 1500

    # GPU shares that are no multiples of 1/64 (0.1, 0.2, 1/3, ...): the model counts shares in 1/64 and cannot
    # follow their placement, but what C03 says about the map does not depend on amounts: the clauses are
    # evaluated on the implementation's own events and snapshots, the correspondence bit is not judged
    FLOAT_SHARES = [0.1, 0.2, 0.3, 1.0 / 3, 0.7, 0.15]

    def cases(self, rng, tier):
        for c in super().cases(rng, tier):
            yield c
        import copy
        from . import schedlib as SL
        n = 60 if tier == 'quick' else 2500
        for _ in range(n):
            c = SL.gen_case(rng, size='small', preplaced=False, disciplined=True)
            c['cfg']['gpn'] = max(1, c['cfg']['gpn'])
            for nd in c['nodes']:
                if not nd['gpus']:
                    nd['gpus'] = [0] * c['cfg']['gpn']
            hit = False
            for o in c['ops']:
                if o[0] == 'arrive':
                    for r in o[1]:
                        if r['gpr'] < 64 and r.get('slots') is None and rng.random() < 0.7:
                            r['gpr_f'] = rng.choice(self.FLOAT_SHARES)
                            r['gpr'] = max(1, round(r['gpr_f'] * 64))
                            hit = True
            if hit:
                c['float_shares'] = True
                c['ops'] = c['ops'] + [['unsched', list(range(1, 200))], ['iter'], ['iter']]
                yield c

    def coq_row(self, case, obs):
        row = super().coq_row(case, obs)
        if not self.is_exec(case) and case.get('float_shares'):
            row = '(true :: tl %s)' % row
        return row
    rule = ('random scheduler histories as for C01, most of them ending with the release of every started task; '
            'non-trivial = >= 2 tasks held simultaneously and >= 1 task waited; ' + ExecSide.exec_rule)


class C03(Sides, C03Sched):
    side_specs = [Spec('app', 'appslots', ['release_restores', 'failed_find_leaves_unchanged'],
                       only=lambda c: isinstance(c, dict) and c.get('kind') in ('seq', 'float'))]
    clauses = C03Sched.clauses + side_specs[0].clause_names()
    extra_targets = C03Sched.extra_targets + ['AppSlots/Oracle.vo', 'AppSlots/Proofs.vo']
    model_targets = C03Sched.model_targets + ['AppSlots/Oracle.vo']
    trusted = C03Sched.trusted + [APP_TRUSTED + '; cases with occupations that are no multiples of 1/64 (0.1, 1/3, ...) '
                                  'are judged on the implementation\'s own numbers, counted exactly in 1/2^60']
    rule = C03Sched.rule + '; ' + APP_RULE + '; float occupations 0.1 .. 0.7, 1/3'


PROP = C03()
