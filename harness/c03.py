"""C03 -- released resources come back exactly once and completely (scheduler side)."""
from .c01 import SchedProp


class C03(SchedProp):
    id = 'C03'
    module = 'c03'
    props_files = ['Props/C03.v']
    row_fn = 'c03_row'
    clauses = ['map_is_initial_plus_held', 'active_count_is_holders', 'quiescent_capacity_restored',
               'app_supplied:map_is_initial_plus_held', 'app_supplied:active_count_is_holders',
               'app_supplied:quiescent_capacity_restored']
    rule = ('random scheduler histories as for C01, most of them ending with the release of every started task; '
            'non-trivial = >= 2 tasks held simultaneously and >= 1 task waited')


PROP = C03()
