"""C03 -- released resources come back exactly once and completely.
Scheduler side: the node map, the holder count and capacity restoration over random scheduler histories.
Executor side : every task the executor received asks for its release exactly once, whatever way it ends and
whichever thread ends it (harness/execside.py)."""
from .c01 import SchedProp
from .execside import ExecSide


class C03(ExecSide, SchedProp):
    id = 'C03'
    module = 'c03'
    props_files = ['Props/C03.v']
    row_fn = 'c03_row'
    clauses = ['map_is_initial_plus_held', 'active_count_is_holders', 'quiescent_capacity_restored',
               'app_supplied:map_is_initial_plus_held', 'app_supplied:active_count_is_holders',
               'app_supplied:quiescent_capacity_restored'] + ['exec:unscheduled_once']
    exec_sel = ['unscheduled_once']
    extra_targets = SchedProp.extra_targets + ['Exec/Oracle.vo']
    model_targets = SchedProp.model_targets + ['Exec/Oracle.vo']
    trusted = SchedProp.trusted + [ExecSide.exec_trusted]
    impl_timeout = 1500
    rule = ('random scheduler histories as for C01, most of them ending with the release of every started task; '
            'non-trivial = >= 2 tasks held simultaneously and >= 1 task waited; ' + ExecSide.exec_rule)


PROP = C03()
