"""C06 -- applications observe the linear task state model.

Implementation under test: states._task_state_progress, Task._update,
TaskManager._update_tasks and TaskManager._task_cb (real code, real objects
built without __init__, recording TASK_STATE callback)."""
import json
import threading
from unittest import mock

from . import coqlit as L
from .core import Prop, rp_import, run_impl_cases
from .sides import Sides, Spec

STATES = None
EXCS = {'ValueError': ValueError, 'SystemExit': SystemExit, 'KeyboardInterrupt': KeyboardInterrupt,
        'GeneratorExit': GeneratorExit}
RAISES = sorted(EXCS)


def _states():
    """State names in model order, read from the generated Coq table."""
    global STATES
    if STATES is None:
        import os, re
        from .core import COQ
        txt = open(os.path.join(COQ, 'Gen', 'StatesTables.v')).read()
        m = re.search(r'Inductive tstate := ([^.]*)\.', txt)
        STATES = [s.strip()[2:] for s in m.group(1).split('|')]
    return STATES


def T(s):
    return 'T_' + s


def tab(pairs):
    return L.lst([L.pair(L.Z(u), T(s)) for u, s in pairs])


def err(e):
    if e is None:
        return 'None'
    return '(Some %s)' % errname(e)


def errname(e):
    return e if e in ('ValueError', 'RuntimeError') else 'OtherError'


class C06Updates(Prop):
    id = 'C06'
    module = 'c06'
    title = 'Applications observe the linear task state model'
    props_files = ['Props/C06.v']
    extra_targets = ['States/Oracle.vo']
    model_targets = ['States/Oracle.vo']
    translators = ['states']
    header = 'From RP Require Import Gen.StatesTables States.Model States.Inst States.Oracle.'
    clauses = ['progression', 'final_state_consistent', 'no_exception', 'known_uids_only']
    corr_name = 'States.Model(t_run_batches/t_progress/t_update) vs TaskManager._update_tasks/_task_state_progress/Task._update'
    rule = ('corpus, then every (current,target) pair of _task_state_progress and of Task._update (exhaustive), '
            'then random histories of notification batches over 1-4 tasks (duplicates, reordering, gaps, '
            'contradictory finals, unknown uids); non-trivial = a history in which some task receives a '
            'skipping, a duplicate/late and a final notification, or any pair case with distinct states')
    trusted = [
        'translator translators/states.py (ast -> Gen/StatesTables.v; fail closed)',
        'correspondence harness harness/c06.py: real TaskManager._update_tasks/_task_cb and Task._update on objects '
        'built without __init__ (mock set-up), compared inside Coq by vm_compute with the model',
        'modelled, not verified: callback registration/locking, ru.dict_merge of non-state fields, bulk callbacks '
        '(_USE_BULK_CB), profiling/logging',
    ]
    assumptions = ['notifications carry state names of states.py (unknown names raise KeyError in the code and are '
                   'outside the model)']

    # ------------------------------------------------------------------ cases
    def cases(self, rng, tier):
        S = _states()
        for a in S:
            for b in S:
                yield {'kind': 'progress', 'cur': a, 'tgt': b}
        for a in S:
            for b in S:
                yield {'kind': 'update', 'cur': a, 'tgt': b}
        n = 300 if tier == 'quick' else 6000
        finals = ['DONE', 'FAILED', 'CANCELED']
        for _ in range(n):
            nt = rng.randint(1, 4)
            tasks = [[u, rng.choice(S) if rng.random() < 0.3 else 'NEW'] for u in range(1, nt + 1)]
            nb = rng.randint(1, 5)
            batches = []
            for _b in range(nb):
                b = []
                for _k in range(rng.randint(0, 6)):
                    u = rng.randint(1, nt) if rng.random() < 0.92 else 9
                    r = rng.random()
                    st = rng.choice(finals) if r < 0.3 else rng.choice(S)
                    b.append([u, st])
                    if rng.random() < 0.15:
                        b.append([u, st])
                batches.append(b)
            c = {'kind': 'batches', 'tasks': tasks, 'batches': batches}
            if rng.random() < 0.3:
                # an application callback registered before the recording one raises -- anything, also what only
                # derives from BaseException (the `sys.exit(1)` on FAILED of the project's own examples): the code
                # logs it and goes on, the recording callback and the other tasks of the batch see what the model says
                c['raiser'] = [rng.choice(RAISES), '*' if rng.random() < 0.3 else
                               sorted(set(rng.choice(finals + S) for _k in range(rng.randint(1, 3))))]
            yield c
        for name in RAISES:
            yield {'kind': 'batches', 'tasks': [[1, 'NEW'], [2, 'NEW'], [3, 'AGENT_EXECUTING']], 'raiser': [name, ['FAILED']],
                   'batches': [[[1, 'AGENT_EXECUTING'], [2, 'AGENT_EXECUTING']], [[1, 'FAILED'], [2, 'AGENT_STAGING_OUTPUT_PENDING'],
                               [3, 'DONE']], [[2, 'DONE']]]}
        if tier == 'thorough':
            # exhaustive: all sequences of <= 3 notifications over 2 tasks and 6 representative states
            R = ['NEW', 'TMGR_SCHEDULING', 'AGENT_EXECUTING', 'DONE', 'FAILED', 'CANCELED']
            notes = [[u, s] for u in (1, 2) for s in R[1:]]
            import itertools
            for k in (1, 2, 3):
                for seq in itertools.product(notes, repeat=k):
                    for split in range(k):
                        yield {'kind': 'batches', 'tasks': [[1, 'NEW'], [2, 'AGENT_EXECUTING']],
                               'batches': [list(seq[:split + 1]), list(seq[split + 1:])]}

    # ------------------------------------------------------------------ impl
    def impl_setup(self):
        self.rp = rp_import()

    def _mk(self, tasks, raiser=None):
        rp = self.rp
        from radical.pilot.task import Task
        from radical.pilot.task_manager import TaskManager
        import radical.pilot.constants as rpc
        log = mock.MagicMock()
        with mock.patch.object(TaskManager, '__init__', return_value=None):
            tm = TaskManager()
        tm._tasks_lock = threading.RLock()
        tm._tcb_lock = threading.RLock()
        tm._log = log
        tm._uid = 'tmgr.0000'
        tm._tasks = {}
        tm._task_info = {}
        seen = []

        def cb(task, state):
            seen.append([int(task.uid.split('.')[1]), state])
        cbs = {}
        if raiser:
            exc, on = EXCS[raiser[0]], raiser[1]

            def boom(task, state):
                if on == '*' or state in on:
                    raise exc('callback of the application gives up')
            cbs['boom'] = {'cb': boom, 'cb_data': None}
        cbs['rec'] = {'cb': cb, 'cb_data': None}
        tm._callbacks = {rpc.TASK_STATE: {'*': cbs}}
        for u, s in tasks:
            with mock.patch.object(Task, '__init__', return_value=None):
                t = Task()
            t._uid = 'task.%06d' % u
            t._state = s
            t._log = log
            t._descr = rp.TaskDescription({'executable': 'true'})
            t._tmgr = tm
            tm._tasks[t._uid] = t
            tm._task_info[t._uid] = {}
        return tm, seen

    def run_impl(self, case):
        rp = self.rp
        import radical.pilot.states as rps
        if case['kind'] == 'progress':
            try:
                new, passed = rps._task_state_progress('task.000001', case['cur'], case['tgt'])
                return {'new': new, 'passed': list(passed)}
            except Exception as e:
                return {'exc': type(e).__name__}
        if case['kind'] == 'update':
            tm, _ = self._mk([[1, case['cur']]])
            t = tm._tasks['task.000001']
            try:
                t._update({'uid': t.uid, 'state': case['tgt']})
                return {'state': t.state}
            except Exception as e:
                return {'exc': type(e).__name__}
        tm, seen = self._mk(case['tasks'], case.get('raiser'))
        out = []
        for b in case['batches']:
            del seen[:]
            exc = None
            try:
                tm._update_tasks([{'uid': 'task.%06d' % u, 'state': s, 'type': 'task'} for u, s in b])
            except BaseException as e:                                                                   # noqa
                exc = type(e).__name__
            out.append({'cbs': [list(x) for x in seen],
                        'states': [[u, tm._tasks['task.%06d' % u].state] for u, _ in case['tasks']],
                        'exc': exc})
        return {'per_batch': out}

    # ------------------------------------------------------------------ coq
    def coq_row(self, case, obs):
        if case['kind'] == 'progress':
            if 'exc' in obs:
                o = '(inl %s)' % errname(obs['exc'])
            else:
                o = '(inr (%s, %s))' % (T(obs['new']), L.lst([T(s) for s in obs['passed']]))
            return '(c06_progress_row %s %s %s)' % (T(case['cur']), T(case['tgt']), o)
        if case['kind'] == 'update':
            o = '(inl %s)' % errname(obs['exc']) if 'exc' in obs else '(inr %s)' % T(obs['state'])
            return '(c06_update_row %s %s %s)' % (T(case['cur']), T(case['tgt']), o)
        ob = L.lst(['(%s, %s, %s)' % (tab(o['states']), tab(o['cbs']), err(o['exc'])) for o in obs['per_batch']])
        return '(c06_batches_row %s %s %s)' % (tab(case['tasks']), L.lst([tab(b) for b in case['batches']]), ob)

    def model_show(self, case):
        if case['kind'] == 'progress':
            return 't_progress %s %s' % (T(case['cur']), T(case['tgt']))
        if case['kind'] == 'update':
            return 't_update %s %s' % (T(case['cur']), T(case['tgt']))
        return 't_run_batches %s %s' % (tab(case['tasks']), L.lst([tab(b) for b in case['batches']]))

    def nontrivial(self, case, obs):
        if case['kind'] != 'batches':
            return case['cur'] != case['tgt']
        n = sum(len(b) for b in case['batches'])
        finals = sum(1 for b in case['batches'] for _, s in b if s in ('DONE', 'FAILED', 'CANCELED'))
        cbs = sum(len(o['cbs']) for o in obs['per_batch'])
        return n >= 3 and finals >= 1 and cbs >= 2

    def signature(self, case, obs, clause):
        if case['kind'] == 'batches':
            return '%s:TaskManager._update_tasks' % clause
        return '%s:%s:%s->%s' % (clause, case['kind'], case['cur'], case['tgt'])

    def shrink(self, case):
        if case['kind'] != 'batches':
            return
        bs = case['batches']
        if case.get('raiser'):
            yield {k: v for k, v in case.items() if k != 'raiser'}
        for i in range(len(bs)):
            yield dict(case, batches=bs[:i] + bs[i + 1:])
        for i, b in enumerate(bs):
            for j in range(len(b)):
                yield dict(case, batches=bs[:i] + [b[:j] + b[j + 1:]] + bs[i + 1:])
        for i in range(len(case['tasks'])):
            if len(case['tasks']) > 1:
                yield dict(case, tasks=case['tasks'][:i] + case['tasks'][i + 1:])

    def distribution(self, results):
        kinds = {}
        exc = 0
        sizes = []
        for r in results:
            kinds[r['case']['kind']] = kinds.get(r['case']['kind'], 0) + 1
            if r['case']['kind'] == 'batches':
                sizes.append(sum(len(b) for b in r['case']['batches']))
            if r['obs'] and ('exc' in r['obs'] or any(o.get('exc') for o in r['obs'].get('per_batch', []))):
                exc += 1
        return dict(kinds=kinds, cases_with_exception=exc,
                    cases_with_raising_callback=sum(1 for r in results if r['case'].get('raiser')),
                    mean_notifications=round(sum(sizes) / max(1, len(sizes)), 2))

    # isolation, checked on the implementation itself: the callbacks seen for
    # task u in the full history equal those of the history restricted to u
    def extra_checks(self, ctx):
        rs = [r for r in ctx['results'] if r['case']['kind'] == 'batches' and r['err'] is None]
        rs = rs[:150 if ctx['tier'] == 'quick' else 1500]
        sub, ref = [], []
        for r in rs:
            c = r['case']
            for u, s in c['tasks']:
                sub.append(dict({'kind': 'batches', 'tasks': [[u, s]],
                                 'batches': [[n for n in b if n[0] == u] for b in c['batches']]},
                                **({'raiser': c['raiser']} if c.get('raiser') else {})))
                ref.append((r, u))
        if not sub:
            return []
        out = run_impl_cases(self, sub, ctx['scratch'])
        bad = []
        self.isolation_checked = len(sub)
        for (r, u), o in zip(ref, out):
            if not o['ok']:
                continue
            full = [x for b in r['obs']['per_batch'] for x in b['cbs'] if x[0] == u]
            alone = [x for b in o['obs']['per_batch'] for x in b['cbs']]
            if full != alone:
                bad.append(('isolation', r['case'], r['obs'],
                            'callbacks for task %d differ when the other tasks\' notifications are removed: %s vs %s'
                            % (u, full, alone)))
                break
        return bad


class C06(Sides, C06Updates):
    # the other thread that changes task states on the client: the pilot manager's callback thread failing the tasks
    # of a dead pilot (TaskManager._pilot_state_cb) while the state subscriber handles a notification -- the C13
    # two-thread cases: one final state only, and the callback stream stays a chain
    side_specs = [Spec('death', 'c13', ['one_final_state_under_concurrent_update',
                                        'callbacks_linear_under_concurrent_update'],
                       only=lambda c: isinstance(c, dict) and 'race' in c)]
    clauses = C06Updates.clauses + side_specs[0].clause_names()
    extra_targets = C06Updates.extra_targets + ['States/DeathRace.vo', 'PilotDeath/Oracle.vo']
    model_targets = C06Updates.model_targets + ['States/DeathRace.vo', 'PilotDeath/Oracle.vo']


PROP = C06()
