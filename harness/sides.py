"""Embed selected clauses of ANOTHER property's check into a property's check.

Some statements reach through a neighbouring mechanism: C05 ("every task ends in one truthful final state") and
C15 ("waiting returns when it should") both rest on the client's handling of state notifications
(TaskManager._update_tasks / _task_state_progress / Task._update), which is the subject of C06.  A `Sides` host runs,
besides its own cases, cases of the embedded check (its generator, its implementation driver, its Coq row) and
judges the selected clauses under the host's id; rows are padded with `true` on either side.  The embedded check's
theorems are not re-stated here: the host's Props file states the consequence it needs (see Props/C05.v, C15.v)."""
import importlib

KIND = 'side'


class Spec(object):
    def __init__(self, tag, module, sel, n=(None, None), only=None):   # n: cap per tier (None: all); only: case filter
        self.tag, self.module, self.sel, self.n, self.only = tag, module, sel, n, only
        self._prop = None

    @property
    def prop(self):
        if self._prop is None:
            self._prop = importlib.import_module('harness.' + self.module).PROP
        return self._prop

    def clause_names(self):
        return ['%s:%s' % (self.tag, c) for c in self.sel]


class Sides(object):
    side_specs = []

    @classmethod
    def side_clauses(cls):
        return [c for sp in cls.side_specs for c in sp.clause_names()]

    def _spec(self, case):
        if isinstance(case, dict) and case.get('kind') == KIND:
            for sp in self.side_specs:
                if sp.tag == case['side']:
                    return sp
        return None

    def header_for(self, case):
        sp = self._spec(case)
        return sp.prop.header_for(case['c']) if sp else super().header_for(case)

    def cases(self, rng, tier):
        for c in super().cases(rng, tier):
            yield c
        for sp in self.side_specs:
            n = sp.n[0] if tier == 'quick' else sp.n[1]
            k = 0
            for c in sp.prop.corpus():
                if sp.only is None or sp.only(c):
                    yield {'kind': KIND, 'side': sp.tag, 'c': c}
            for c in sp.prop.cases(rng, tier):
                if sp.only is not None and not sp.only(c):
                    continue
                if n is not None and k >= n:
                    break
                k += 1
                yield {'kind': KIND, 'side': sp.tag, 'c': c}

    def impl_setup(self):
        super().impl_setup()
        for sp in self.side_specs:
            if hasattr(sp.prop, 'impl_setup'):
                sp.prop.impl_setup()

    def run_impl(self, case):
        sp = self._spec(case)
        if sp:
            return sp.prop.run_impl(case['c'])
        return super().run_impl(case)

    def coq_row(self, case, obs):
        n_side = len(self.side_clauses())
        n_host = len(self.clauses) - n_side
        sp = self._spec(case)
        if not sp:
            return '(%s ++ repeat true %d%%nat)' % (super().coq_row(case, obs), n_side)
        before = n_host
        for s2 in self.side_specs:
            if s2 is sp:
                break
            before += len(s2.sel)
        after = len(self.clauses) - before - len(sp.sel)
        sel = '; '.join('nth %d%%nat r true' % (1 + sp.prop.clauses.index(c)) for c in sp.sel)
        return '(let r := %s in hd false r :: (repeat true %d%%nat ++ [%s] ++ repeat true %d%%nat))' % (
            sp.prop.coq_row(case['c'], obs), before, sel, after)

    def model_show(self, case):
        sp = self._spec(case)
        return sp.prop.model_show(case['c']) if sp else super().model_show(case)

    def nontrivial(self, case, obs):
        sp = self._spec(case)
        return sp.prop.nontrivial(case['c'], obs) if sp else super().nontrivial(case, obs)

    def signature(self, case, obs, clause):
        sp = self._spec(case)
        if sp:
            return '%s:%s' % (sp.tag, sp.prop.signature(case['c'], obs, clause.split(':', 1)[1]))
        return super().signature(case, obs, clause)

    def shrink(self, case):
        sp = self._spec(case)
        if sp:
            for c in sp.prop.shrink(case['c']):
                yield {'kind': KIND, 'side': sp.tag, 'c': c}
        else:
            for c in super().shrink(case):
                yield c

    def describe(self, case):
        return case if self._spec(case) else super().describe(case)

    def distribution(self, results):
        host = [r for r in results if not self._spec(r['case'])]
        d = super().distribution(host) if hasattr(super(), 'distribution') else {}
        d = dict(d or {})
        for sp in self.side_specs:
            rs = [dict(r, case=r['case']['c']) for r in results if self._spec(r['case']) is sp]
            dd = sp.prop.distribution(rs) if hasattr(sp.prop, 'distribution') else {}
            d['side_' + sp.tag] = dict(dd or {}, cases=len(rs))
        return d
