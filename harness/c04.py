"""C04 -- the pilot scheduler neither loses nor starves tasks."""
from .c01 import SchedProp


class C04(SchedProp):
    id = 'C04'
    module = 'c04'
    props_files = ['Props/C04.v']
    row_fn = 'c04_row'
    preplaced_share = 0.1
    clauses = ['reported_at_most_once', 'exactly_one_of_started_waiting_failed_canceled',
               'idle_pilot_starts_a_fitting_waiter', 'fitting_task_never_failed',
               'higher_priority_waiter_not_passed_over', 'bisect_skipped:higher_priority_waiter_not_passed_over',
               'scheduler_loop_survives']
    rule = ('random scheduler histories as for C01 with cancel requests placed between any two steps of the loop; '
            'non-trivial = >= 2 tasks held simultaneously and >= 1 task waited')

    # GPU shares that are no multiples of 1/64, sized to fill the GPUs of the idle pilot EXACTLY (10 ranks x 0.1 on
    # one GPU, ...): the model counts shares in 1/64 and cannot follow the placement, so the correspondence bit is
    # not judged; the clauses are: the model's rounded request fits the idle pilot => the real scheduler must not
    # fail it and an idle pilot must start it
    FILL = [(0.1, 10), (1.0 / 3, 3), (0.3, 3), (0.7, 1), (0.15, 6), (0.25, 4), (0.5, 2)]

    def cases(self, rng, tier):
        for c in super().cases(rng, tier):
            yield c
        n = 40 if tier == 'quick' else 600
        for _ in range(n):
            f, per_gpu = rng.choice(self.FILL)
            nn, gpn = rng.choice([1, 1, 2]), rng.choice([1, 2])
            cfg = {'cpn': 32, 'gpn': gpn, 'lfs': 0, 'mem': 0, 'scattered': True}
            nodes = [{'cores': [0] * 32, 'gpus': [0] * gpn} for _ in range(nn)]
            full = per_gpu * gpn * nn
            ranks = full if rng.random() < 0.7 else max(1, full - rng.randint(0, 2))

            def rq(u, r, g, gf=None):
                d = {'uid': u, 'ranks': r, 'cpr': 1, 'gpr': g, 'lfs': 0, 'mem': 0, 'rpn': 0, 'prio': 0,
                     'colo': None, 'excl': False, 'env': None, 'slots': None}
                if gf is not None:
                    d['gpr_f'] = gf
                return d
            b = rq(2, ranks, max(1, round(f * 64)), f)
            if rng.random() < 0.5:
                ops = [['arrive', [b]], ['iter'], ['iter'], ['unsched', [2]], ['iter'],
                       ['arrive', [dict(b, uid=3)]], ['iter'], ['iter']]
            else:
                a = rq(1, gpn * nn, 64)                # a blocker holding every GPU: b has to wait, then fits
                ops = [['arrive', [a]], ['iter'], ['arrive', [b]], ['iter'], ['unsched', [1]], ['iter'], ['iter'],
                       ['unsched', [2]], ['iter']]
            yield {'kind': 'sched', 'cfg': cfg, 'nodes': nodes, 'ops': ops, 'disciplined': True,
                   'names': 'unique', 'float_shares': True}

    def coq_row(self, case, obs):
        # an exception that escapes _schedule_tasks ends the scheduler thread: every task still queued or
        # waiting is lost.  Judged on the implementation alone.
        row = super().coq_row(case, obs)
        if case.get('float_shares'):
            row = '(true :: tl %s)' % row
        return '(%s ++ [%s])' % (row, 'false' if obs.get('died') else 'true')


PROP = C04()
