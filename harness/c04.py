"""C04 -- the pilot scheduler neither loses nor starves tasks."""
from .c01 import SchedProp


class C04(SchedProp):
    id = 'C04'
    module = 'c04'
    props_files = ['Props/C04.v']
    row_fn = 'c04_row'
    preplaced_share = 0.1
    clauses = ['reported_at_most_once', 'exactly_one_of_started_waiting_failed_canceled',
               'idle_pilot_starts_a_fitting_waiter', 'fitting_task_never_failed',
               'higher_priority_waiter_not_passed_over', 'bisect_skipped:higher_priority_waiter_not_passed_over',
               'scheduler_loop_survives']
    rule = ('random scheduler histories as for C01 with cancel requests placed between any two steps of the loop; '
            'non-trivial = >= 2 tasks held simultaneously and >= 1 task waited')

    def coq_row(self, case, obs):
        # an exception that escapes _schedule_tasks ends the scheduler thread: every task still queued or
        # waiting is lost.  Judged on the implementation alone.
        row = super().coq_row(case, obs)
        return '(%s ++ [%s])' % (row, 'false' if obs.get('died') else 'true')


PROP = C04()
