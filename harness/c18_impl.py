"""C18 -- implementation driver: builds a batch-system environment in the scratch
cwd (env vars, node files, fake qstat / ssh / cpu_count, in-memory registry) and
runs the REAL ResourceManager subclasses through their real constructor
(ResourceManager.__init__ -> _init_from_scratch -> init_from_scratch ->
_filter_nodes -> verify -> registry put), then a second instance through the
from-registry branch.  Nothing of the code under test is re-implemented here.
"""
import copy
import os
import shutil
from unittest import mock

RM_CLASSES = {'SLURM': ('slurm', 'Slurm'), 'PBSPRO': ('pbspro', 'PBSPro'), 'LSF': ('lsf', 'LSF'),
              'FORK': ('fork', 'Fork'), 'COBALT': ('cobalt', 'Cobalt'), 'TORQUE': ('torque', 'Torque'),
              'CCM': ('ccm', 'CCM')}

ENV_VARS = ['SLURM_NODELIST', 'SLURM_JOB_NODELIST', 'SLURM_CPUS_ON_NODE', 'SLURM_GPUS_ON_NODE', 'SLURM_JOB_GPUS',
            'SLURM_STEP_GPUS', 'GPU_DEVICE_ORDINAL', 'PBS_JOBID', 'PBS_NODEFILE', 'LSB_DJOB_HOSTFILE',
            'COBALT_NODEFILE', 'COBALT_PARTNAME', 'RADICAL_SMT', 'SLURM_JOB_ID', 'LSB_JOBID', 'COBALT_JOBID']

ERRS = ('RuntimeError', 'ValueError', 'AssertionError', 'ZeroDivisionError')


# ------------------------------------------------------------------------------
# reference expansions (batch-system semantics), used to build the text handed
# to the implementation and the expanded names handed to the model
#
def hostlist_text(groups):
    out = []
    for g in groups:
        if g.get('ranges') is None:
            out.append(g['prefix'])
        else:
            w = g.get('width', 0)
            rs = []
            for lo, hi in g['ranges']:
                rs.append('%0*d' % (w, lo) if lo == hi else '%0*d-%0*d' % (w, lo, w, hi))
            out.append('%s[%s]%s' % (g['prefix'], ','.join(rs), g.get('suffix', '')))
    return ','.join(out)


def hostlist_names(groups):
    out = []
    for g in groups:
        if g.get('ranges') is None:
            out.append(g['prefix'])
        else:
            w = g.get('width', 0)
            for lo, hi in g['ranges']:
                for i in range(lo, hi + 1):
                    out.append('%s%0*d%s' % (g['prefix'], w, i, g.get('suffix', '')))
    return out


def partname_text(ranges):
    return ','.join('%d' % lo if lo == hi else '%d-%d' % (lo, hi) for lo, hi in ranges)


def partname_names(ranges):
    return ['nid%05d' % i for lo, hi in ranges for i in range(lo, hi + 1)]


def vnode_text(chunks, multiline):
    """qstat -f output holding the exec_vnode expression of `chunks`
    (list of chunks, each a list of [vnode, ncpus, extra])."""
    parts = []
    for ch in chunks:
        parts.append('(' + '+'.join('%s:ncpus=%d%s' % (v, n, ':ngpus=1' if x else '') for v, n, x in ch) + ')')
    expr = '+'.join(parts)
    lines = ['Job Id: 12345.pbs', '    Job_Name = pilot', '    job_state = R']
    if multiline and len(expr) > 12:
        k = len(expr) // 2
        lines.append('    exec_vnode = ' + expr[:k])
        lines.append('\t' + expr[k:])
    else:
        lines.append('    exec_vnode = ' + expr)
    lines.append('    Hold_Types = n')
    return '\n'.join(lines) + '\n'


def nodefile_text(lines):
    out = []
    for ln in lines:
        name, pad = ln[0], ln[1] if len(ln) > 1 else 0
        if pad == 1:
            out.append(' ' + name + '  ')
        elif pad == 2:
            out.append('\t' + name)
        else:
            out.append(name)
    return ''.join(x + '\n' for x in out)


# ------------------------------------------------------------------------------
#
class FakeRegistry:
    """Stands in for ru.zmq.RegistryClient: values cross a msgpack round trip
    exactly as they do on the real zmq channel."""
    store = {}
    puts = []

    def __init__(self, url=None, pwd=None):
        pass

    @staticmethod
    def _wire(val):
        import radical.utils as ru
        return ru.as_string(ru.from_msgpack(ru.to_msgpack(val)))

    def get(self, key, default=None):
        if key in FakeRegistry.store:
            return self._wire(FakeRegistry.store[key])
        return default

    def put(self, key, val):
        FakeRegistry.store[key] = self._wire(val)
        FakeRegistry.puts.append(key)

    def close(self):
        pass


class FakeProcess:
    """Stands in for rc.process.Process in _filter_nodes (ssh probe)."""
    plan = []
    made = 0

    def __init__(self, cmd):
        self.cmd = cmd
        k = FakeProcess.made
        FakeProcess.made += 1
        a = FakeProcess.plan[k % len(FakeProcess.plan)] if FakeProcess.plan else 'ok'
        self._ret = {'ok': 0, 'fail': 255, 'timeout': None}[a]
        self.stdout = self.stderr = ''
        self.retcode = None

    def start(self):
        pass

    def wait(self, timeout=None):
        self.retcode = self._ret

    def cancel(self):
        pass


# ------------------------------------------------------------------------------
#
class Driver:

    def __init__(self, rp):
        import importlib
        self.rp = rp
        self.base = importlib.import_module('radical.pilot.agent.resource_manager.base')
        self.cls = {}
        for k, (m, c) in RM_CLASSES.items():
            self.cls[k] = getattr(importlib.import_module('radical.pilot.agent.resource_manager.' + m), c)
        # a case is one process lifetime: class-level state is put back before each
        self.defaults0 = copy.deepcopy(self.base.RMInfo._defaults)
        self.n = 0
        self.home0 = os.environ.get('HOME')

    def fresh_process_state(self):
        d = self.base.RMInfo._defaults
        for k in list(d.keys()):
            if k not in self.defaults0:
                del d[k]
        for k, v in self.defaults0.items():
            d[k] = copy.deepcopy(v)

    # --------------------------------------------------------------------------
    def setup_env(self, case, wd):
        """-> (the environment as GIVEN by user and batch system for this
        initialisation: {variable: value or None}, patches); writes the files"""
        import radical.utils as ru
        given = {v: None for v in ENV_VARS}
        given['HOME'] = self.home0
        env = case['env']
        rm = case['rm']
        c = case['cfg']
        if c.get('smt_env') is not None:
            given['RADICAL_SMT'] = str(c['smt_env'])
        patches = []

        def nodefile(var, nf, fname):
            if nf is None:
                return
            path = os.path.join(wd, fname)
            if nf.get('missing'):
                given[var] = path + '.does-not-exist'
                return
            with open(path, 'w') as f:
                f.write(nodefile_text(nf['lines']))
            given[var] = path

        if rm == 'SLURM':
            if env.get('nodelist') is not None:
                given['SLURM_NODELIST'] = hostlist_text(env['nodelist'])
            if env.get('job_nodelist') is not None:
                given['SLURM_JOB_NODELIST'] = hostlist_text(env['job_nodelist'])
            for k, var in (('cpus_on_node', 'SLURM_CPUS_ON_NODE'), ('gpus_on_node', 'SLURM_GPUS_ON_NODE')):
                if env.get(k) is not None:
                    given[var] = str(env[k])
            for k, var in (('job_gpus', 'SLURM_JOB_GPUS'), ('step_gpus', 'SLURM_STEP_GPUS'),
                           ('ordinal', 'GPU_DEVICE_ORDINAL')):
                if env.get(k) is not None:
                    given[var] = ','.join(str(i) for i in range(env[k]))
        elif rm == 'PBSPRO':
            if env.get('jobid'):
                given['PBS_JOBID'] = '12345.pbs'
            nodefile('PBS_NODEFILE', env.get('nodefile'), 'nodes.pbs')
            q = env.get('qstat') or {'ret': 1}
            if q.get('ret'):
                ret = ['', 'qstat: Unknown Job Id', q['ret']]
            elif q.get('chunks') is None:
                ret = ['Job Id: 12345.pbs\n    Job_Name = pilot\n    job_state = R\n', '', 0]
            else:
                ret = [vnode_text(q['chunks'], q.get('multiline')), '', 0]
            mod = __import__('radical.pilot.agent.resource_manager.pbspro', fromlist=['x'])
            assert mod.ru is ru
            patches.append(mock.patch.object(ru, 'sh_callout', return_value=ret))
        elif rm == 'LSF':
            nodefile('LSB_DJOB_HOSTFILE', env.get('nodefile'), 'hosts.lsf')
        elif rm == 'TORQUE':
            nodefile('PBS_NODEFILE', env.get('nodefile'), 'nodes.torque')
        elif rm == 'COBALT':
            nodefile('COBALT_NODEFILE', env.get('nodefile'), 'nodes.cobalt')
            if env.get('partname') is not None:
                given['COBALT_PARTNAME'] = partname_text(env['partname'])
        elif rm == 'FORK':
            import multiprocessing
            patches.append(mock.patch.object(multiprocessing, 'cpu_count', return_value=env['detected']))
        elif rm == 'CCM':
            home = os.path.join(wd, 'home')
            d = os.path.join(home, '.crayccm')
            os.makedirs(d, exist_ok=True)
            given['HOME'] = home
            for fn, mtime, lines in env['files']:
                p = os.path.join(d, fn)
                with open(p, 'w') as f:
                    f.write(nodefile_text(lines))
                os.utime(p, (1000000 + mtime, 1000000 + mtime))
        if c.get('services'):
            with open(os.path.join(wd, 'services'), 'w') as f:
                f.write('')
        return given, patches

    def apply_given(self, given):
        """change the process environment the way the user / batch system
        would between two initialisations: only variables whose GIVEN value
        differs from the previously given one are touched -- whatever an
        initialisation left behind in the others stays"""
        for k, v in given.items():
            if self.prev_given.get(k) != v:
                if v is None:
                    os.environ.pop(k, None)
                else:
                    os.environ[k] = v
        self.prev_given = dict(given)

    def pristine_env(self):
        """a case starts in its own environment: nothing of an earlier case"""
        for v in ENV_VARS:
            os.environ.pop(v, None)
        if self.home0 is not None:
            os.environ['HOME'] = self.home0
        self.prev_given = {v: None for v in ENV_VARS}
        self.prev_given['HOME'] = self.home0

    # --------------------------------------------------------------------------
    def configs(self, case):
        import radical.utils as ru
        c = case['cfg']
        agents = {}
        for i, t in enumerate(c.get('agents') or []):
            agents['agent_%d' % (i + 1)] = {'target': t}
        cfg = {'nodes': c['nodes'], 'cores': c['cores'], 'gpus': c['gpus'],
               'cores_per_node': c['cpn'], 'gpus_per_node': c['gpn'], 'backup_nodes': c['backup'],
               'lfs_path_per_node': '/tmp', 'lfs_size_per_node': c.get('lfs', 0),
               'reg_addr': 'fake://registry', 'pid': 'pilot.0000', 'resource': 'local.localhost'}
        if c.get('agents') is not None:
            cfg['agents'] = agents
        sa = {}
        if c.get('smt_arch') is not None:
            sa['smt'] = c['smt_arch']
        if c.get('blocked_cores') is not None:
            sa['blocked_cores'] = list(c['blocked_cores'])
        if c.get('blocked_gpus') is not None:
            sa['blocked_gpus'] = list(c['blocked_gpus'])
        rcfg = {'mem_per_node': c.get('mem', 0), 'n_partitions': c.get('n_partitions', 1),
                'fake_resources': bool(c.get('fake')), 'launch_methods': {'order': ['FORK'], 'FORK': {}},
                'system_architecture': sa}
        return ru.Config(cfg=cfg), ru.Config(cfg=rcfg)

    # --------------------------------------------------------------------------
    @staticmethod
    def _int(v):
        if isinstance(v, bool) or not isinstance(v, int):
            return -999999          # not an int: never equal to a model value
        return v

    @staticmethod
    def _slot(v):
        if v is None:
            return 'D'
        if isinstance(v, (int, float)) and not isinstance(v, bool):
            if v == 0:
                return 'F'
            if v == 1:
                return 'B'
        return 'X'

    def node_obs(self, n):
        try:
            return [str(n['name']), self._int(n['index']), ''.join(self._slot(x) for x in n['cores']),
                    ''.join(self._slot(x) for x in n['gpus']), self._int(n['lfs']), self._int(n['mem'])]
        except Exception as e:          # not a node dict
            return ['?%s' % type(e).__name__, -999999, '', '', -999999, -999999]

    def info_obs(self, info):
        o = {}
        for k in ('requested_nodes', 'requested_cores', 'requested_gpus', 'backup_nodes', 'cores_per_node',
                  'gpus_per_node', 'threads_per_core', 'lfs_per_node', 'mem_per_node', 'n_partitions'):
            o[k] = self._int(info[k])
        for k in ('node_list', 'backup_list', 'agent_node_list', 'service_node_list'):
            o[k] = [self.node_obs(n) for n in info[k]]
        return o

    # --------------------------------------------------------------------------
    def construct(self, case, wd, touch_env=True):
        """one real constructor call in environment `case`; -> (obs, instance)"""
        cls = self.cls[case['rm']]
        os.chdir(wd)
        given, patches = self.setup_env(case, wd)
        if touch_env:
            self.apply_given(given)
        cfg, rcfg = self.configs(case)
        FakeProcess.plan = list(case.get('access') or [])
        FakeProcess.made = 0
        import radical.utils as ru
        patches.append(mock.patch.object(ru.zmq, 'RegistryClient', FakeRegistry))
        patches.append(mock.patch.object(self.base, 'Process', FakeProcess))
        patches.append(mock.patch.object(self.base.ResourceManager, '_prepare_launch_methods', return_value=None))
        for p in patches:
            p.start()
        env0 = dict(os.environ)
        dfl0 = copy.deepcopy(self.base.RMInfo._defaults)
        try:
            try:
                rm = cls(cfg, rcfg, mock.MagicMock(), mock.MagicMock())
                out = {'info': self.info_obs(rm.info)}, rm
            except Exception as e:
                n = type(e).__name__
                out = {'exc': n if n in ERRS else 'OtherError', 'msg': str(e)[:120]}, None
        finally:
            for p in reversed(patches):
                p.stop()
        # state the initialisation left behind in the process
        env1 = dict(os.environ)
        left = sorted(k for k in set(env0) | set(env1) if env0.get(k) != env1.get(k))
        if self.base.RMInfo._defaults != dfl0:
            left.append('RMInfo._defaults')
        out[0]['left_behind'] = left
        return out

    def step(self, case, wd):
        """one from-scratch initialisation + a second component reading the registry"""
        os.makedirs(wd)
        FakeRegistry.store = {}
        FakeRegistry.puts = []
        obs = {}
        first, rm = self.construct(case, wd)
        obs['first'] = first
        obs['puts'] = list(FakeRegistry.puts)
        obs['stray'] = sorted(f for f in os.listdir(wd)
                              if f not in ('services', 'home', 'rm_info.json') and not f.startswith('nodes.')
                              and not f.startswith('hosts.'))
        if 'info' in first:
            # another component of the same pilot: same registry, same class, same environment
            n_puts = len(FakeRegistry.puts)
            second, _ = self.construct(case, wd, touch_env=False)
            obs['second'] = second
            obs['second_from_registry'] = (len(FakeRegistry.puts) == n_puts)
        return obs

    def run(self, case):
        root = os.getcwd()
        self.n += 1
        top = os.path.join(root, 'case_%d' % self.n)
        try:
            self.fresh_process_state()
            self.pristine_env()
            priors = []
            for k, p in enumerate(case_priors(case)):
                priors.append(self.step(p, os.path.join(top, 'prior%d' % k)))
            obs = self.step(case, os.path.join(top, 'main'))
            if priors:
                obs['priors'] = priors
            return obs
        finally:
            os.chdir(root)
            self.pristine_env()
            shutil.rmtree(top, ignore_errors=True)


def case_priors(case):
    """earlier initialisations in the same process, oldest first"""
    if case.get('priors'):
        return list(case['priors'])
    if case.get('prior'):
        return [case['prior']]
    return []
