#!/bin/bash
# self-test: hand mutations of the repository worktree ($VERIF_REPO must be /work/repo-C12 or edit R);
# each must make ./check C12 exit 1; the worktree is reverted with git checkout after every run
export VERIF_REPO=/work/repo-C12 VERIF_JOBS=4
R=/work/repo-C12/src/radical/pilot/tmgr/scheduler
cd /work/verif-C12
run() {  # name file python-expr-old python-expr-new
  name=$1; file=$2
  /venv/bin/python - "$file" "$3" "$4" <<'PY'
import sys
p, old, new = sys.argv[1:4]
s = open(p).read()
assert s.count(old) >= 1, ('pattern not found', old)
open(p, 'w').write(s.replace(old, new, 1))
PY
  out=$(./check C12 2>&1 | grep -v KNOWN-FINDING | tail -3 | cut -c1-220)
  rc=${PIPESTATUS[0]}
  echo "=== $name"; echo "$out"
  for f in $(echo "$out" | grep -o 'replay=[^ ]*' | head -2 | cut -d= -f2); do
    /venv/bin/python -c "
import json,sys; d=json.load(open('$f')); print('   clause=%s sig=%s what=%s' % (d.get('clause'), d.get('signature'), str(d.get('what'))[:100])); print('   case=%s' % json.dumps(d.get('case'))[:300]); print('   broken=%s' % str(d.get('broken'))[:300])"
  done
  git -C /work/repo-C12 checkout -- .
  rm -f replays/C12-*.json
}
run M1-idx-not-advanced $R/round_robin.py "                    self._idx += 1
" ""
run M2-bf-role-check-dropped $R/backfilling.py "                if role != ADDED:
                    continue
" ""
run M3-early-task-dropped $R/base.py "                        self._early[pid].append(task)" "                        pass"
run M4-bf-hwm-filter-weakened $R/backfilling.py "                if info['used'] >= info['hwm']:
                    # pilot is full" "                if info['used'] > info['hwm']:
                    # pilot is full"
run M5-early-fix-reverted $R/base.py "early_tasks = self._early.pop(pid, None)" "early_tasks = self._early.get(pid)"
run M6-bf-credit-ranks-only $R/backfilling.py "                info['used'] -= task['description']['ranks'] \\
                              * task['description']['cores_per_rank']" "                info['used'] -= task['description']['ranks']"
run M7-wrong-pilot-sandbox $R/base.py "task['pilot_sandbox'    ] = str(self._session._get_pilot_sandbox(pilot))" "task['pilot_sandbox'    ] = str(self._session._get_session_sandbox(pilot))"
run M8-rr-remove-keeps-pid $R/round_robin.py "                self._pids.remove(pid)" "                pass"
run M9-bf-stop-check-dropped $R/backfilling.py "                if  rps._pilot_state_value(state) > _BF_STOP_VAL:
                    # not ligible anymore
                    continue
" ""
run M10-named-task-scheduled $R/base.py "                if pid:
                    # this task is bound already (it is early-bound), so we" "                if pid and pid in self._pilots:
                    # this task is bound already (it is early-bound), so we"
run M11-bf-used-not-incremented $R/backfilling.py "                        info['used']   += cores" "                        info['used']   += 0"
run M12-foreign-tmgr-accepted $R/base.py "        if tmgr and tmgr != self._tmgr:" "        if False:"
run M13-rr-wait-pool-not-cleared $R/round_robin.py "                self._wait_pool = list()
" ""
echo ALLDONE
