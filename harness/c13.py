"""C13 -- a dying pilot fails its own tasks and only those.

Implementation under test: TaskManager._pilot_state_cb on a TaskManager built
without __init__ holding real Task objects (real Task.__init__, real
Task._update, real Task.as_dict), `advance` replaced by a recorder.  The
callback is invoked either directly (a pilot object or a list of pilots) or
through the real Pilot._update, which calls the registered callbacks."""
import itertools
import re
import threading
from unittest import mock

from . import coqlit as L
from .core import Prop, rp_import
from .sides import Sides, Spec

TSTATES = ['NEW', 'TMGR_SCHEDULING_PENDING', 'TMGR_SCHEDULING', 'TMGR_STAGING_INPUT_PENDING',
           'TMGR_STAGING_INPUT', 'AGENT_STAGING_INPUT_PENDING', 'AGENT_STAGING_INPUT',
           'AGENT_SCHEDULING_PENDING', 'AGENT_SCHEDULING', 'AGENT_EXECUTING_PENDING', 'AGENT_EXECUTING',
           'AGENT_STAGING_OUTPUT_PENDING', 'AGENT_STAGING_OUTPUT', 'TMGR_STAGING_OUTPUT_PENDING',
           'TMGR_STAGING_OUTPUT', 'DONE', 'FAILED', 'CANCELED']
PSTATES = ['NEW', 'PMGR_LAUNCHING_PENDING', 'PMGR_LAUNCHING', 'PMGR_ACTIVE_PENDING', 'PMGR_ACTIVE',
           'DONE', 'FAILED', 'CANCELED']
FINAL = ['DONE', 'FAILED', 'CANCELED']
DETAIL = re.compile(r'^pilot pilot\.(\d{4}) is final$')


def tuid(u):
    return 'task.%06d' % u


def puid(p):
    return None if p is None else 'pilot.%04d' % p


class C13Death(Prop):
    id = 'C13'
    module = 'c13'
    title = 'A dying pilot fails its own tasks and only those'
    props_files = ['Props/C13.v']
    extra_targets = ['PilotDeath/Oracle.vo', 'States/DeathRace.vo']
    model_targets = ['PilotDeath/Oracle.vo', 'States/DeathRace.vo']
    translators = ['states']
    header = 'From RP Require Import Gen.StatesTables PilotDeath.Model PilotDeath.Oracle.'
    clauses = ['own_failed', 'others_untouched', 'reported', 'one_final_state_under_concurrent_update',
               'callbacks_linear_under_concurrent_update']
    race_header = 'From RP Require Import Gen.StatesTables States.Model States.Inst States.DeathRace.'

    def header_for(self, case):
        return self.race_header if 'race' in case else self.header
    corr_name = ('PilotDeath.Model(pilot_state_cb/update_failed) vs TaskManager._pilot_state_cb + Task._update '
                 '(+ Pilot._update callback delivery)')
    rule = ('corpus; exhaustive (thorough: 3 pilots x 4 tasks over 5 representative task states and bindings, '
            'one pilot ending; quick: 2 tasks x every task state x binding x every pilot state); random histories '
            'of 1-6 steps over 1-3 pilots and 0-5 tasks: callbacks for one or several pilots (direct, single '
            'object, or through Pilot._update), tasks moving on / being re-bound in between, manager closed or '
            'terminating; non-trivial = some callback reports a final pilot while tasks bound to at least two '
            'different pilots (or unbound) exist and at least one task is bound to the ending pilot')
    trusted = [
        'translator translators/states.py (state names and FINAL of tasks and pilots; fail closed)',
        'correspondence harness harness/c13.py: real TaskManager._pilot_state_cb, Task.__init__/_update/as_dict and '
        'Pilot._update on objects built with mock set-up (TaskManager and Pilot without __init__, advance() '
        'recorded), compared inside Coq by vm_compute with the model',
        'modelled, not verified: the publication of the advanced tasks (Component.advance), locking, the race '
        'with the tmgr scheduler noted in the code (a task bound after the callback ran)',
    ]
    assumptions = ['task uids are unique; Task.pilot is the binding the manager knows of',
                   'the callback is invoked with a list of pilots (as Pilot._update does) or one pilot object']

    # ------------------------------------------------------------------ cases
    def _rand_tasks(self, rng, npil, nt):
        out = []
        for u in range(1, nt + 1):
            r = rng.random()
            st = rng.choice(FINAL) if r < 0.25 else rng.choice(TSTATES)
            p = None if rng.random() < 0.2 else rng.randint(1, npil)
            out.append([u, st, p])
        return out

    def cases(self, rng, tier):
        # every task state x binding x every pilot state, next to a bystander
        for st in TSTATES:
            for bind in (None, 1, 2):
                for ps in PSTATES:
                    yield {'tasks': [[1, st, bind], [2, 'AGENT_EXECUTING', 2]],
                           'ops': [['cb', [[1, ps]], 'list']]}
        # scale: a pilot that owns more tasks than any bulk size somebody may come to think of (1024, 2048): every
        # one of them is failed, the bystanders' are not
        for nbig in ((1025, 2600) if tier == 'quick' else (1023, 1024, 1025, 2047, 2049, 2600, 3071, 4099)):
            yield {'tasks': [[u, 'AGENT_EXECUTING' if u % 7 else 'DONE', 1 if u % 50 else 2] for u in range(1, nbig + 1)],
                   'ops': [['cb', [[1, rng.choice(FINAL)]], 'list']]}
        n = 500 if tier == 'quick' else 8000
        for _ in range(n):
            npil = rng.randint(1, 3)
            nt = rng.choice([0, 1, 2, 3, 3, 4, 5])
            tasks = self._rand_tasks(rng, npil, nt)
            ops = []
            for _k in range(rng.randint(1, 6)):
                r = rng.random()
                if r < 0.6:
                    k = rng.choice([1, 1, 1, 2, 3])
                    ps, seen = [], {}
                    for _j in range(k):
                        pid = rng.randint(1, npil)          # a pilot has one state per invocation
                        seen.setdefault(pid, rng.choice(FINAL) if rng.random() < 0.6 else rng.choice(PSTATES))
                        ps.append([pid, seen[pid]])
                    how = rng.choice(['list', 'list', 'update', 'single']) if k == 1 else 'list'
                    ops.append(['cb', ps, how])
                elif r < 0.9 and nt:
                    ops.append(['set', rng.randint(1, nt), rng.choice(TSTATES),
                                None if rng.random() < 0.15 else rng.randint(1, npil)])
                elif r < 0.95:
                    ops.append(['close'])
                else:
                    ops.append(['terminate'])
            # the single-object form is only used on an active manager (the
            # `closed` branch formats a list of pilots for the log)
            dead = False
            for o in ops:
                if o[0] in ('close', 'terminate'):
                    dead = True
                if o[0] == 'cb' and o[2] == 'single' and dead:
                    o[2] = 'list'
            c = {'tasks': tasks, 'ops': ops}
            if rng.random() < 0.3:
                c['descr_shared'] = True
            yield c
        # a state notification for a task and the death of its pilot handled by two threads at once
        # (tmgr state subscriber vs. the pilot manager's callback thread): one is held after its k-th line
        curs = ['TMGR_SCHEDULING', 'AGENT_EXECUTING_PENDING', 'AGENT_EXECUTING', 'AGENT_STAGING_OUTPUT', 'CANCELED']
        tgts = ['AGENT_EXECUTING', 'AGENT_STAGING_OUTPUT_PENDING', 'DONE', 'FAILED', 'CANCELED']
        races = [(c, t, f, k) for c in curs for t in tgts for f in ('update', 'death') for k in range(1, 81)]
        if tier == 'quick':
            races = rng.sample(races, 220)
        for c, t, f, k in races:
            yield {'tasks': [[1, c, 1]], 'ops': [], 'race': {'tgt': t, 'first': f, 'k': k}}
        if tier == 'thorough':
            R = ['NEW', 'AGENT_EXECUTING', 'DONE', 'FAILED', 'CANCELED']
            for sts in itertools.product(R, repeat=4):
                for binds in itertools.product((None, 1, 2, 3), repeat=4):
                    if binds[0] != 1 and binds[1] != 1:
                        continue
                    yield {'tasks': [[u + 1, sts[u], binds[u]] for u in range(4)],
                           'ops': [['cb', [[1, 'FAILED']], 'list']]}

    # ------------------------------------------------------------------ impl
    def impl_setup(self):
        self.rp = rp_import()

    def run_impl(self, case):
        rp = self.rp
        import radical.pilot.constants as rpc
        from radical.pilot.task import Task
        from radical.pilot.pilot import Pilot
        from radical.pilot.task_manager import TaskManager
        log = mock.MagicMock()
        with mock.patch.object(TaskManager, '__init__', return_value=None):
            tm = TaskManager()
        tm._uid, tm._log, tm._session = 'tmgr.0000', log, mock.MagicMock()
        tm._terminate, tm._closed = threading.Event(), False
        tm._tasks_lock, tm._tasks = threading.RLock(), {}
        advs = []

        def advance(things, state=None, publish=True, push=False, **kw):
            things = things if isinstance(things, list) else [things]
            advs.append(dict(items=[[int(t['uid'].split('.')[1]), state or t['state']] for t in things],
                             publish=publish, push=push))
        tm.advance = advance
        shared = rp.TaskDescription({'executable': 'true'}) if case.get('descr_shared') else None
        for u, st, p in case['tasks']:
            if shared is not None:
                # one description object used as a template for all submissions, as applications do:
                # Pilot.submit_tasks() stamps descr.pilot, then the Task is built from it
                shared.uid, shared.pilot = tuid(u), puid(p)
                t = Task(tm, shared, 'client')
                t._state = st
            else:
                td = rp.TaskDescription({'executable': 'true', 'uid': tuid(u)})
                t = Task(tm, td, 'client')
                t._state, t._pilot = st, puid(p)
            tm._tasks[t.uid] = t
        pilots = {}

        def pilot(p, st):
            if p not in pilots:
                with mock.patch.object(Pilot, '__init__', return_value=None):
                    o = Pilot()
                o._uid, o._log, o._pmgr = puid(p), log, mock.MagicMock()
                o._sub, o._pilot_dict, o._cb_lock = mock.MagicMock(), {}, threading.RLock()
                o._callbacks = {rpc.PILOT_STATE: {'tmgr': {'cb': tm._pilot_state_cb, 'cb_data': None}}}
                pilots[p] = o
            pilots[p]._state = st
            return pilots[p]

        def table():
            out = []
            for t in tm._tasks.values():
                d = t.exception_detail
                blame = None
                if d is not None:
                    m = DETAIL.match(d)
                    blame = int(m.group(1)) if m else -1
                    if t.exception != 'RuntimeError("pilot died")':
                        blame = -2
                pl = None if t.pilot is None else int(t.pilot.split('.')[1])
                out.append([int(t.uid.split('.')[1]), t.state, pl, blame])
            return out

        if 'race' in case:
            from . import interleave as IL
            import radical.pilot.states as rps
            rc = case['race']
            ann, cbs = [], []
            tm._tcb_lock, tm._task_info = threading.RLock(), {t: {} for t in tm._tasks}

            def tcb(t, s):
                cbs.append(s)
                if s in FINAL:
                    ann.append(s)
            tm._callbacks = {rpc.TASK_STATE: {'*': {'rec': {'cb': tcb, 'cb_data': None}}}}
            real_adv = tm.advance

            def adv2(things, state=None, publish=True, push=False, **kw):
                real_adv(things, state=state, publish=publish, push=push, **kw)
                for t in (things if isinstance(things, list) else [things]):
                    if (state or t['state']) in FINAL:
                        ann.append(state or t['state'])
            tm.advance = adv2
            upd = lambda: tm._update_tasks([{'uid': tuid(1), 'state': rc['tgt'], 'type': 'task'}])
            die = lambda: tm._pilot_state_cb([pilot(1, 'FAILED')])
            codes = IL.code_of(TaskManager._update_tasks, Task._update, rps._task_state_progress,
                               TaskManager._task_cb, TaskManager._pilot_state_cb)
            fa, fb = (upd, die) if rc['first'] == 'update' else (die, upd)
            r = IL.run_pair(fa, fb, codes, rc['k'], block_s=0.05)
            return {'held': r['held'], 'a_exc': r['a_exc'], 'b_exc': r['b_exc'], 'ann': ann, 'cbs': cbs,
                    'fin': tm._tasks[tuid(1)].state}
        obs = []
        for o in case['ops']:
            if o[0] == 'set':
                t = tm._tasks[tuid(o[1])]
                t._state, t._pilot = o[2], puid(o[3])
            elif o[0] == 'close':
                tm._closed = True
            elif o[0] == 'terminate':
                tm._terminate.set()
            else:
                del advs[:]
                objs = [pilot(p, st) for p, st in o[1]]
                exc = None
                ret = None
                try:
                    if o[2] == 'update':
                        rets = []
                        orig = tm._pilot_state_cb
                        objs[0]._callbacks[rpc.PILOT_STATE]['tmgr']['cb'] = \
                            lambda *a, **k: rets.append(orig(*a, **k))
                        objs[0]._update({'uid': objs[0].uid, 'state': o[1][0][1]})
                        objs[0]._callbacks[rpc.PILOT_STATE]['tmgr']['cb'] = orig
                        ret = rets[0] if len(rets) == 1 else None
                    elif o[2] == 'single':
                        ret = tm._pilot_state_cb(objs[0])
                    else:
                        ret = tm._pilot_state_cb(objs)
                except Exception as e:
                    exc = type(e).__name__
                flags_ok = all(a['publish'] is True and a['push'] is False for a in advs)
                obs.append({'ret': ret, 'exc': exc, 'flags_ok': flags_ok,
                            'advs': [a['items'] for a in advs], 'tasks': table()})
        return {'cbs': obs}

    # ------------------------------------------------------------------ coq
    def _task(self, t):
        u, st, p = t[0], t[1], t[2]
        blame = t[3] if len(t) > 3 else None
        return '(mkT %s T_%s %s %s)' % (L.Z(u), st, L.opt(None if p is None else L.Z(p)),
                                        L.opt(None if blame is None else L.Z(blame)))

    def _ops(self, ops):
        out = []
        for o in ops:
            if o[0] == 'cb':
                out.append('(OCb %s)' % L.lst([L.pair(L.Z(p), 'P_' + st) for p, st in o[1]]))
            elif o[0] == 'set':
                out.append('(OSet %s T_%s %s)' % (L.Z(o[1]), o[2], L.opt(None if o[3] is None else L.Z(o[3]))))
            elif o[0] == 'close':
                out.append('OClose')
            else:
                out.append('OTerminate')
        return L.lst(out)

    def _m(self, case):
        return '(mkM false false %s)' % L.lst([self._task(t) for t in case['tasks']])

    def coq_row(self, case, obs):
        if 'race' in case:
            if not obs['held']:
                return '[true; true; true; true; true; true]'
            row = '(c13_race_row T_%s T_%s %s T_%s %s)' % (case['tasks'][0][1], case['race']['tgt'],
                                                         L.lst(['T_' + s for s in obs['ann']]), obs['fin'],
                                                         L.lst(['T_' + s for s in obs['cbs']]))
            if obs['a_exc'] or obs['b_exc']:
                row = '(false :: tl %s)' % row
            return row
        return '(%s ++ [true; true])' % self._coq_row_cb(case, obs)

    def _coq_row_cb(self, case, obs):
        items = []
        bad = False
        for o in obs['cbs']:
            if o['exc'] is not None or o['ret'] not in (True, False) or not o['flags_ok']:
                bad = True
            items.append('(%s, %s, %s)' % (
                L.boolean(bool(o['ret'])),
                L.lst([L.lst([L.pair(L.Z(u), 'T_' + s) for u, s in a]) for a in o['advs']]),
                L.lst([self._task(t) for t in o['tasks']])))
        row = '(c13_row %s %s %s)' % (self._m(case), self._ops(case['ops']), L.lst(items))
        if bad:       # an exception / odd return value / wrong advance flags: the correspondence bit is false
            return '(false :: tl %s)' % row
        return row

    def model_show(self, case):
        if 'race' in case:
            return '(order_ud T_%s T_%s, order_du T_%s T_%s)' % ((case['tasks'][0][1], case['race']['tgt']) * 2)
        return 'run %s %s' % (self._m(case), self._ops(case['ops']))

    def nontrivial(self, case, obs):
        if 'race' in case:
            return bool(obs['held'])
        binds = set(t[2] for t in case['tasks'])
        for o in case['ops']:
            if o[0] == 'cb':
                for p, st in o[1]:
                    if st in FINAL and p in binds and len(binds) >= 2:
                        return True
        return False

    def signature(self, case, obs, clause):
        if 'race' in case:
            return '%s:TaskManager._pilot_state_cb:two-threads' % clause
        return '%s:TaskManager._pilot_state_cb' % clause

    def shrink(self, case):
        if 'race' in case:
            return
        ops = case['ops']
        for i in range(len(ops)):
            yield dict(case, ops=ops[:i] + ops[i + 1:])
        for i, o in enumerate(ops):
            if o[0] == 'cb' and len(o[1]) > 1:
                for j in range(len(o[1])):
                    yield dict(case, ops=ops[:i] + [['cb', o[1][:j] + o[1][j + 1:], 'list']] + ops[i + 1:])
            if o[0] == 'cb' and o[2] != 'list':
                yield dict(case, ops=ops[:i] + [['cb', o[1], 'list']] + ops[i + 1:])
        ts = case['tasks']
        used = set(o[1] for o in ops if o[0] == 'set')
        for i in range(len(ts)):
            if ts[i][0] not in used:
                yield dict(case, tasks=ts[:i] + ts[i + 1:])

    def distribution(self, results):
        d = {'ops': {}, 'tasks': {}, 'callbacks_with_final_pilot': 0, 'how': {}, 'two_thread_cases': 0}
        for r in results:
            c = r['case']
            if 'race' in c:
                d['two_thread_cases'] += 1
                continue
            d['tasks'][str(len(c['tasks']))] = d['tasks'].get(str(len(c['tasks'])), 0) + 1
            for o in c['ops']:
                d['ops'][o[0]] = d['ops'].get(o[0], 0) + 1
                if o[0] == 'cb':
                    d['how'][o[2]] = d['how'].get(o[2], 0) + 1
                    if any(st in FINAL for _, st in o[1]):
                        d['callbacks_with_final_pilot'] += 1
        return d


class C13(Sides, C13Death):
    # the callback of the task manager only runs when the pilot OBJECT becomes final: notification ->
    # PilotManager._update_pilot -> Pilot._update -> pilot callbacks (the C14 check: sequences of notifications
    # and two notifications handled by two threads at once)
    side_specs = [Spec('pilot', 'c14', ['progression', 'final_state_consistent', 'no_unexpected_exception'],
                       only=lambda c: not (isinstance(c, dict) and c.get('kind') == 'launch'))]
    clauses = C13Death.clauses + side_specs[0].clause_names()
    extra_targets = C13Death.extra_targets + ['States/Oracle.vo', 'AgentCause/Model.vo']
    model_targets = C13Death.model_targets + ['States/Oracle.vo', 'AgentCause/Model.vo']


PROP = C13()
