"""C20, two-thread linearizability of the places where raptor threads meet.

Worker (DefaultWorker): request intake (`_request_cb` -> `_alloc`, process start,
`_pool` registration; the ZMQ getter thread) against `_result_cb` -> `_dealloc`
(the result watcher thread), against another intake, and against the completion of
the very request being started (the result can only arrive after proc.start()).
Master: `_result_cb` called from the result getter thread against `_result_cb`
called from the state subscriber thread (raptor_state_update), `_run_task` (task
service thread) against the `_result_cb` that answers it, and the worker table
`_workers` written by control_cb (control subscriber thread), _state_cb (state
subscriber thread) and submit_workers (main thread).

One thread (the `first` operation) is held by a line tracer after its k-th line
inside the code under test (harness/interleave.py), the other runs to completion or
until it blocks on a lock the held thread owns, then the held thread is released.
The outcome must be the outcome of the sequential model in one of the two orders."""
import copy
import threading
from unittest import mock

from . import coqlit as L
from . import interleave as IL


class Deadlock(BaseException):
    pass


def uid_of(s):
    try:
        return int(str(s).rsplit('.', 1)[1])
    except Exception:
        return -999


# ------------------------------------------------------------------------------
# worker
#
def mk_worker(nc, ng, events, lock_factory=threading.Lock):
    import radical.pilot.raptor.worker_default as wd
    w = wd.DefaultWorker.__new__(wd.DefaultWorker)
    w._uid = 'worker.0000'
    w._log, w._prof = mock.MagicMock(), mock.MagicMock()
    w._n_cores, w._n_gpus = nc, ng
    w._rlock, w._plock = lock_factory(), lock_factory()
    w._resources = {'cores': [0] * nc, 'gpus': [0] * ng}
    w._res_evt = mock.MagicMock()
    w._pool = {}
    w._task_env = {}
    started, procs = {}, {}

    class FakeProcess:
        def __init__(self, target=None, args=(), **kw):
            self.task = args[0]
            self.pid = None

        def start(self):
            self.pid = 1000 + uid_of(self.task['uid'])
            sl = self.task['slots'][0]
            events.append(['start', uid_of(self.task['uid']), list(sl['cores']), list(sl['gpus'])])
            procs[self.task['uid']] = self
            ev = started.get(self.task['uid'])
            if ev:
                ev.set()

    class ResPut:
        def put(self, task):
            events.append(['result', uid_of(task['uid']), task.get('exit_code'), task.get('exception') is not None])
    w._res_put = ResPut()
    spins = [0]

    def sleep(_t):
        spins[0] += 1
        if spins[0] > 400:
            raise Deadlock()
        import time
        time.sleep(0.002)
    mp_shim = mock.MagicMock()
    mp_shim.Process = FakeProcess
    time_shim = mock.MagicMock()
    time_shim.sleep = sleep
    return w, wd, mp_shim, time_shim, started, procs


def mk_task(q):
    u, c, g, _sf = q
    t = {'uid': 'req.%06d' % u, 'description': {'mode': 'task.function', 'timeout': 0}}
    if c is not None:
        t['cores'] = c
    if g is not None:
        t['gpus'] = g
    return t


def result_of(w, pid, code, exc):
    task = copy.deepcopy(w._pool[pid].task)
    task['pid'] = pid
    return [task, 'out', 'err', code, None, ('RuntimeError("x")', 'tb') if exc else (None, None)]


def impl_wlin(case):
    nc, ng = case['nc'], case['ng']
    events = []
    w, wd, mp_shim, time_shim, started, procs = mk_worker(nc, ng, events)
    codes = IL.code_of(wd.DefaultWorker._alloc, wd.DefaultWorker._dealloc, wd.DefaultWorker._request_cb,
                       wd.DefaultWorker._result_cb)
    with mock.patch.object(wd, 'mp', mp_shim), mock.patch.object(wd, 'time', time_shim):
        for q in case['prefix']:
            w._request_cb([mk_task(q)])
        pids = list(w._pool.keys())

        def mk_op(o):
            if o[0] == 'req':
                t = mk_task(o[1])
                return lambda: w._request_cb([t])
            if o[0] == 'fin':
                res = result_of(w, pids[o[1]], o[2], o[3])
                return lambda: w._result_cb(res)
            # completion of the request that the other thread is just starting: its
            # result can only come back after proc.start()
            u = 'req.%06d' % o[1]
            started[u] = threading.Event()

            def fin_self():
                if not started[u].wait(10):
                    raise RuntimeError('request never started')
                proc = procs[u]
                task = copy.deepcopy(proc.task)
                task['pid'] = proc.pid
                w._result_cb([task, 'out', 'err', o[2], None,
                              ('RuntimeError("x")', 'tb') if o[3] else (None, None)])
            return fin_self
        fa, fb = mk_op(case['first']), mk_op(case['second'])
        r = IL.run_pair(fa, fb, codes, case['k'], block_s=0.05)
    running = sorted([uid_of(p.task['uid']), list(p.task['slots'][0]['cores']), list(p.task['slots'][0]['gpus'])]
                     for p in w._pool.values())
    results = sorted([e[1], e[2], e[3]] for e in events if e[0] == 'result')
    return {'held': r['held'], 'b_blocked': r['b_blocked'], 'lines': r['lines'],
            'errs': [e for e in (r['a_exc'], r['b_exc']) if e],
            'cb': list(w._resources['cores']), 'gb': list(w._resources['gpus']),
            'running': running, 'results': results}


FIXED_WLIN = [
    # every hold point of a few fixed pairs (always run, not sampled)
    dict(nc=3, ng=1, prefix=[[1, 1, 0, False]], first=['req', [2, 1, 1, False]], second=['req', [3, 1, 0, False]]),
    dict(nc=3, ng=1, prefix=[[1, 1, 1, False]], first=['req', [2, 2, 1, False]], second=['fin', 0, 0, False]),
    dict(nc=3, ng=1, prefix=[[1, 1, 1, False]], first=['fin', 0, 1, True], second=['req', [2, 2, 1, False]]),
    dict(nc=2, ng=1, prefix=[], first=['req', [1, 2, 1, False]], second=['self', 1, 0, False]),
]


def gen_wlin(rng, tier):
    quick = tier == 'quick'
    for c in FIXED_WLIN:
        for k in range(1, 41):
            yield dict(c, kind='wlin', k=k)
    out = []
    for _ in range(60 if quick else 400):
        nc, ng = rng.randint(2, 4), rng.randint(0, 2)
        prefix, uid, usedc, usedg = [], 0, 0, 0
        for _p in range(rng.randint(1, 2)):
            c, g = rng.randint(1, max(1, nc // 2)), rng.randint(0, min(1, ng))
            if usedc + c > nc - 1 or usedg + g > ng:
                break
            uid += 1
            prefix.append([uid, c, g, False])
            usedc, usedg = usedc + c, usedg + g
        freec, freeg = nc - usedc, ng - usedg
        kind = rng.choice(['req_fin', 'fin_req', 'req_req', 'req_self', 'req_fin', 'fin_req'])
        if kind in ('req_fin', 'fin_req') and prefix:
            i = rng.randrange(len(prefix))
            c = rng.randint(1, freec + prefix[i][1])
            g = rng.randint(0, freeg + prefix[i][2])
            code = rng.choice([0, 0, 1, 2])
            req, fin = ['req', [uid + 1, c, g, False]], ['fin', i, code, code != 0]
            first, second = (req, fin) if kind == 'req_fin' else (fin, req)
        elif kind == 'req_req' and freec >= 2:
            c1 = rng.randint(1, freec - 1)
            c2 = rng.randint(1, freec - c1)
            g1 = rng.randint(0, freeg)
            g2 = rng.randint(0, freeg - g1)
            first, second = ['req', [uid + 1, c1, g1, False]], ['req', [uid + 2, c2, g2, False]]
        else:
            c, g = rng.randint(1, freec), rng.randint(0, freeg)
            code = rng.choice([0, 1])
            first, second = ['req', [uid + 1, c, g, False]], ['self', uid + 1, code, code != 0]
        out.append({'kind': 'wlin', 'nc': nc, 'ng': ng, 'prefix': prefix, 'first': first, 'second': second})
    ks = list(range(1, 41))
    for c in out:
        for k in (rng.sample(ks, 5) if quick else ks):
            yield dict(c, k=k)


def wop_lit(o, npre):
    if o[0] == 'req':
        u, c, g, sf = o[1]
        return '(OReq [mkReq %s %s %s %s] [])' % (L.Z(u), L.opt(None if c is None else L.Z(c)),
                                                   L.opt(None if g is None else L.Z(g)), L.boolean(sf))
    if o[0] == 'fin':
        return '(OFin (%s, %s, %s))' % (L.Z(o[1]), L.Z(o[2]), L.boolean(o[3]))
    return '(OFin (%s, %s, %s))' % (L.Z(npre), L.Z(o[2]), L.boolean(o[3]))


def wlin_args(case):
    pre = L.lst(['(OReq [mkReq %s %s %s false] [])' % (L.Z(u), L.opt(L.Z(c)), L.opt(L.Z(g)))
                 for u, c, g, _sf in case['prefix']])
    n = len(case['prefix'])
    return '%s %s %s %s %s' % (L.nat(case['nc']), L.nat(case['ng']), pre, wop_lit(case['first'], n),
                               wop_lit(case['second'], n))


def bm(l):
    return L.lst([L.boolean(bool(x)) for x in l])


def errname(n):
    return n if n in ('AssertionError', 'KeyError', 'IndexError', 'ValueError') else 'OtherError'


def wlin_row(case, obs):
    if not obs['held']:
        return '(true :: pad 11)'             # the code under test has fewer than k lines
    o = '(%s, %s, %s, %s, %s)' % (
        bm(obs['cb']), bm(obs['gb']),
        L.lst(['(%s, %s, %s)' % (L.Z(u), L.zlist(c), L.zlist(g)) for u, c, g in obs['running']]),
        L.lst(['(%s, %s, %s)' % (L.Z(u), L.opt(None if c is None else L.Z(c)), L.boolean(x))
               for u, c, x in obs['results']]),
        L.lst([errname(e) for e in obs['errs']]))
    return '(c20_wlin_row %s %s)' % (wlin_args(case), o)


def wlin_show(case):
    return 'wlin_show %s' % wlin_args(case)


# ------------------------------------------------------------------------------
# master
#
def mk_master():
    from radical.pilot.raptor.master import Master
    m = Master.__new__(Master)
    m._log, m._prof = mock.MagicMock(), mock.MagicMock()
    m._uid = 'master.0000'
    m._task_service_data = {}
    m._workers = {}
    adv = []

    def advance(things, state=None, publish=True, push=False, **kw):
        things = things if isinstance(things, list) else [things]
        adv.append([[uid_of(t['uid']) for t in things], state, publish, push])
    m.advance = advance
    return m, adv


TGT = dict(DONE='TDone', FAILED='TFailed', CANCELED='TCanceled')


def impl_mlin(case):
    from radical.pilot.raptor.master import Master
    import radical.pilot.states as rps
    import radical.pilot.constants as rpc
    m, adv = mk_master()
    sub = case['sub']
    if sub == 'results':
        # result getter thread vs state subscriber thread (raptor_state_update)
        for u in case['sd']:
            m._task_service_data['task.%06d' % u] = [threading.Event(), {'uid': 'task.%06d' % u}]

        def mk(ts):
            tasks = []
            for u, pre, code in ts:
                t = {'uid': 'task.%06d' % u, 'state': 'AGENT_EXECUTING', 'description': {'mode': 'task.function'}}
                if pre:
                    t['target_state'] = pre
                if code != 'absent':
                    t['exit_code'] = code
                tasks.append(t)
            return tasks
        ta, tb = mk(case['a']), mk(case['b'])
        codes = IL.code_of(Master._result_cb, Master._state_cb)
        fa = lambda: m._result_cb(ta)
        fb = lambda: m._state_cb(rpc.STATE_PUBSUB, {'cmd': 'raptor_state_update', 'arg': tb})
        if case['hold'] == 'b':
            fa, fb = fb, fa
        r = IL.run_pair(fa, fb, codes, case['k'], block_s=0.05)
        ok_adv = all(st == rps.AGENT_STAGING_OUTPUT_PENDING and pub and push for _u, st, pub, push in adv)
        return {'held': r['held'], 'errs': [e for e in (r['a_exc'], r['b_exc']) if e],
                'sd': sorted([uid_of(k), len(v) - 2, v[0].is_set()] for k, v in m._task_service_data.items()),
                'targets': sorted([uid_of(t['uid']), t.get('target_state')] for t in ta + tb),
                'advanced': sorted(u for us, _s, _p, _q in adv for u in us) if ok_adv else [-999]}
    if sub == 'runtask':
        # task service thread (_run_task) vs the _result_cb that answers it
        submitted = threading.Event()
        box = {}

        def submit_tasks(tasks):
            box['task'] = tasks[0]
            submitted.set()
        m.submit_tasks = submit_tasks
        m._session = mock.MagicMock()
        out = {}
        code = case['code']

        def run_task():
            import radical.pilot as rp
            td = rp.TaskDescription({'mode': rp.TASK_FUNCTION, 'function': 'f'}).as_dict()
            out['ret'] = m._run_task(td)

        def result():
            if not submitted.wait(10):
                raise RuntimeError('never submitted')
            t = copy.deepcopy(box['task'])
            if code != 'absent':
                t['exit_code'] = code
            t['return_value'] = 42
            m._result_cb([t])
        import radical.pilot.raptor.master as mm
        codes = IL.code_of(Master._run_task, Master._result_cb)
        with mock.patch.object(mm, 'Task', lambda master, td, origin=None: mock.MagicMock(
                as_dict=lambda: {'uid': td['uid'], 'description': td.as_dict()})):
            if case['hold'] == 'run':
                # the task service thread is held before it waits for the result
                r = IL.run_pair(run_task, result, codes, case['k'], block_s=0.05, total_s=3.0)
            else:
                # the result thread is held; the task service thread already waits for its event
                exc = []

                def bg():
                    try:
                        run_task()
                    except Exception as e:        # noqa
                        exc.append(type(e).__name__)
                th = threading.Thread(target=bg, daemon=True)
                th.start()
                submitted.wait(10)
                r = IL.run_pair(result, lambda: th.join(5), codes, case['k'], block_s=0.05, total_s=3.0)
                th.join(5)
                if exc:
                    r['b_exc'] = exc[0]
        ret = out.get('ret') or {}
        return {'held': r['held'], 'errs': [e for e in (r['a_exc'], r['b_exc']) if e],
                'sd_left': len(m._task_service_data), 'returned': 'ret' in out,
                'target': ret.get('target_state'), 'value': ret.get('return_value'),
                'advanced': sum(len(us) for us, _s, _p, _q in adv)}
    if sub == 'hb':
        return impl_hb(case, m)
    # worker table: control_cb (control thread), _state_cb (state thread), submit_workers' table write (main thread)
    m.publish = lambda *a, **k: None
    m._req_addr_get, m._res_addr_put = 'a', 'b'
    m._task_service = mock.MagicMock()
    for u, st in case['table']:
        m._workers['worker.%06d' % u] = {'uid': 'worker.%06d' % u, 'status': st, 'heartbeats': {0: 0.0}}

    def mk(o):
        kind, u = o
        wid = 'worker.%06d' % u
        if kind == 'register':
            return lambda: m.control_cb(rpc.CONTROL_PUBSUB, {'cmd': 'worker_register', 'arg': {
                'uid': wid, 'raptor_id': m._uid, 'ranks': 1}})
        if kind == 'unregister':
            return lambda: m.control_cb(rpc.CONTROL_PUBSUB, {'cmd': 'worker_unregister', 'arg': {'uid': wid}})
        if kind == 'heartbeat':
            return lambda: m.control_cb(rpc.CONTROL_PUBSUB, {'cmd': 'worker_rank_heartbeat',
                                                             'arg': {'uid': wid, 'rank': 0}})
        return lambda: m._state_cb(rpc.STATE_PUBSUB, {'cmd': 'update', 'arg': [
            {'uid': wid, 'state': rps.AGENT_STAGING_OUTPUT}]})
    codes = IL.code_of(Master.control_cb, Master._state_cb)
    r = IL.run_pair(mk(case['first']), mk(case['second']), codes, case['k'], block_s=0.05)
    return {'held': r['held'], 'errs': [e for e in (r['a_exc'], r['b_exc']) if e],
            'table': sorted([uid_of(k), v['status']] for k, v in m._workers.items())}


def impl_hb(case, m):
    """one pass of Master._hb_thread (heartbeat thread) held after its k-th line against a worker
    registering (control thread) or being submitted (submit_workers, main thread)"""
    import time
    import radical.pilot as rp
    import radical.pilot.raptor.master as mm
    import radical.pilot.constants as rpc
    published = []
    m.publish = lambda topic, msg: published.append([msg.get('cmd'), msg.get('arg')])
    m._req_addr_get = m._res_addr_put = 'x'
    m._task_service = mock.MagicMock()
    m._reg = mock.MagicMock()
    m._sbox = m._psbox = m._ssbox = m._rsbox = '/s'
    m._pid = 'pilot.0000'
    m._hb_tout, m._hb_freq = 1000.0, 0.0
    now = time.time()
    for u, st, stale in case['table']:
        hb = now - 5000.0 if stale else now
        m._workers['worker.%06d' % u] = {'uid': 'worker.%06d' % u, 'status': st, 'heartbeats': {0: hb, 1: now}}
    calls = [0]

    class Term:
        def is_set(self):
            calls[0] += 1
            return calls[0] > 1
    m._term = Term()
    kind, u = case['second']
    wid = 'worker.%06d' % u
    if kind == 'register':
        fb = lambda: m.control_cb(rpc.CONTROL_PUBSUB, {'cmd': 'worker_register', 'arg': {
            'uid': wid, 'raptor_id': m._uid, 'ranks': 2}})
    else:
        td = rp.TaskDescription({'mode': rp.RAPTOR_WORKER, 'uid': wid, 'ranks': 2})
        fb = lambda: m.submit_workers([td])
    with mock.patch.object(mm, 'time', mock.MagicMock(time=time.time, sleep=lambda t: None)):
        r = IL.run_pair(m._hb_thread, fb, IL.code_of(mm.Master._hb_thread), case['k'], block_s=0.05)
    term = sorted(uid_of(a['uid']) for c, a in published if c == 'worker_terminate')
    canc = sorted(uid_of(x) for c, a in published if c == 'cancel_tasks' for x in a['uids'])
    return {'held': r['held'], 'errs': [e for e in (r['a_exc'], r['b_exc']) if e], 'alive': r['a_exc'] is None,
            'table': sorted([uid_of(k), v['status']] for k, v in m._workers.items()),
            'terminated': term, 'canceled': canc}


def gen_mlin(rng, tier):
    quick = tier == 'quick'
    ks = list(range(1, 31))
    for _ in range(12 if quick else 60):
        a = [[1, rng.choice([None, None, 'CANCELED']), rng.choice([0, 1, None, 'absent'])]]
        b = [[2, rng.choice([None, 'DONE', 'FAILED']), rng.choice([0, 3, None])]]
        if rng.random() < 0.4:
            a.append([3, None, rng.choice([0, 1])])
        sd = [u for u in (1, 2, 3) if rng.random() < 0.5]
        c = {'kind': 'mlin', 'sub': 'results', 'sd': sd, 'a': a, 'b': b, 'hold': rng.choice('ab')}
        for k in (rng.sample(ks[:22], 4) if quick else ks[:22]):
            yield dict(c, k=k)
    for code in (0, 1, None, 'absent'):
        for hold, kmax in (('run', 8), ('res', 14)):
            kk = list(range(1, kmax + 1))
            for k in kk:
                yield {'kind': 'mlin', 'sub': 'runtask', 'code': code, 'hold': hold, 'k': k}
    for table in ([[1, 'ACTIVE', False], [2, 'ACTIVE', False]], [[1, 'ACTIVE', True], [2, 'NEW', False]], []):
        for second in (['register', 9], ['submit', 9], ['register', 1]):
            for k in range(1, 17):
                yield {'kind': 'mlin', 'sub': 'hb', 'table': table, 'second': second, 'k': k}
    ops = ['register', 'unregister', 'state_done', 'heartbeat']
    for _ in range(12 if quick else 60):
        table = [[1, rng.choice(['NEW', 'ACTIVE', 'DONE'])]] if rng.random() < 0.7 else []
        f, s = rng.choice(ops), rng.choice(ops)
        # control_cb runs in ONE thread: pairs of two control messages never meet
        if f != 'state_done' and s != 'state_done':
            s = 'state_done'
        c = {'kind': 'mlin', 'sub': 'table', 'table': table, 'first': [f, 1], 'second': [s, rng.choice([1, 1, 2])]}
        for k in (rng.sample(ks[:12], 4) if quick else ks[:12]):
            yield dict(c, k=k)


def rtasks(ts):
    return L.lst(['(%s, %s, %s)' % (L.Z(u), 'None' if not pre else '(Some %s)' % TGT[pre],
                                    L.opt(None if code in (None, 'absent') else L.Z(code))) for u, pre, code in ts])


WST = dict(NEW='WNew', ACTIVE='WActive', DONE='WDone')
WOP = dict(submit='WSubmit', register='WRegister', unregister='WUnregister', state_done='WStateDone', heartbeat='WHeartbeat')


def mlin_row(case, obs):
    if not obs['held']:
        return '(true :: pad 11)'
    errs = L.lst([errname(e) for e in obs['errs']])
    if case['sub'] == 'results':
        sd0 = L.lst(['(%s, (%s, false))' % (L.Z(u), L.Z(0)) for u in case['sd']])
        osd = L.lst(['(%s, (%s, %s))' % (L.Z(u), L.Z(n), L.boolean(b)) for u, n, b in obs['sd']])
        otg = L.lst(['(%s, %s)' % (L.Z(u), TGT.get(t, 'TCanceled')) for u, t in obs['targets']])
        bad = any(t not in TGT for _u, t in obs['targets'])
        row = '(c20_mlin_results_row %s %s %s %s %s %s %s)' % (sd0, rtasks(case['a']), rtasks(case['b']), osd, otg,
                                                              L.zlist(obs['advanced']), errs)
        return '(false :: tl %s)' % row if bad else row
    if case['sub'] == 'runtask':
        code = case['code']
        return '(c20_mlin_runtask_row %s %s %s %s %s %s %s)' % (
            L.opt(None if code in (None, 'absent') else L.Z(code)), L.Z(obs['sd_left']), L.boolean(obs['returned']),
            L.opt(TGT.get(obs['target'])), L.boolean(obs['value'] == 42), L.Z(obs['advanced']), errs)
    tab = lambda t: L.lst(['(%s, %s)' % (L.Z(u), WST.get(s, 'WDone')) for u, s in t])
    op = lambda o: '(%s %s)' % (WOP[o[0]], L.Z(o[1]))
    if case['sub'] == 'hb':
        return '(c20_mlin_hb_row %s %s %s %s %s %s %s %s)' % (
            tab([[u, s] for u, s, _st in case['table']]), L.zlist([u for u, _s, st in case['table'] if st]),
            op(case['second']), tab(obs['table']), L.zlist(obs['terminated']), L.zlist(obs['canceled']),
            L.boolean(obs['alive']), errs)
    return '(c20_mlin_table_row %s %s %s %s %s)' % (tab(case['table']), op(case['first']), op(case['second']),
                                                    tab(obs['table']), errs)


def mlin_show(case):
    if case['sub'] == 'results':
        sd0 = L.lst(['(%s, (%s, false))' % (L.Z(u), L.Z(0)) for u in case['sd']])
        return '(master_result %s (%s ++ %s))' % (sd0, rtasks(case['a']), rtasks(case['b']))
    if case['sub'] == 'runtask':
        code = case['code']
        return 'target_of (1, None, %s)' % L.opt(None if code in (None, 'absent') else L.Z(code))
    tab = lambda t: L.lst(['(%s, %s)' % (L.Z(u), WST.get(s, 'WDone')) for u, s in t])
    op = lambda o: '(%s %s)' % (WOP[o[0]], L.Z(o[1]))
    if case['sub'] == 'hb':
        return 'wt_run %s [%s]' % (tab([[u, s] for u, s, _st in case['table']]), op(case['second']))
    return '(wt_run %s [%s; %s], wt_run %s [%s; %s])' % (tab(case['table']), op(case['first']), op(case['second']),
                                                         tab(case['table']), op(case['second']), op(case['first']))
