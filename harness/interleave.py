"""Two real threads, one held in the middle: a generic driver for linearizability checks.

run_pair(fa, fb, codes, k): thread A runs fa() and is held by a line tracer right after its k-th 'line' event
inside any of the code objects in `codes`; thread B then runs fb() until it completes or until it has made no
progress for `block_s` seconds (it is blocked on a lock A holds); A is released and both are joined.  For code
that takes a lock around its critical section the outcome must equal fa;fb or fb;fa run one after the other --
that is what the callers compare with the model (which is sequential and proved for every sequence).

The tracer counts only 'line' events of frames whose code object is listed, so `k` enumerates the points
between two statements of the code under test, inside and outside its locks."""
import sys
import threading


def code_of(*funcs):
    out = set()
    for f in funcs:
        f = getattr(f, '__func__', f)
        out.add(f.__code__)
    return out


def run_pair(fa, fb, codes, k, block_s=0.25, total_s=20.0):
    go, held, a_done, b_done = threading.Event(), threading.Event(), threading.Event(), threading.Event()
    res = {'a_exc': None, 'b_exc': None, 'held': False, 'b_blocked': False, 'lines': 0}
    count = [0]

    def local(frame, event, arg):
        if event == 'line' and not res['held']:
            count[0] += 1
            if count[0] == k:
                res['held'] = True
                held.set()
                go.wait(total_s)
        return local

    def tracer(frame, event, arg):
        if frame.f_code in codes:
            return local
        return None

    def run_a():
        sys.settrace(tracer)
        try:
            fa()
        except Exception as e:          # noqa
            res['a_exc'] = type(e).__name__
        finally:
            sys.settrace(None)
            res['lines'] = count[0]
            a_done.set()
            held.set()

    def run_b():
        try:
            fb()
        except Exception as e:          # noqa
            res['b_exc'] = type(e).__name__
        finally:
            b_done.set()

    ta = threading.Thread(target=run_a, daemon=True)
    tb = threading.Thread(target=run_b, daemon=True)
    if k <= 0:
        # B entirely before A
        tb.start(); tb.join(total_s)
        ta.start(); ta.join(total_s)
        res['held'] = True
        return res
    ta.start()
    held.wait(total_s)
    if a_done.is_set() and not res['held']:
        # A finished before reaching its k-th line: no such point
        tb.start(); tb.join(total_s)
        return res
    tb.start()
    if not b_done.wait(block_s):
        res['b_blocked'] = True
    go.set()
    ta.join(total_s)
    tb.join(total_s)
    return res
