"""Driver for the real agent scheduler (Continuous + AgentSchedulingComponent +
BaseComponent.work_cb/is_canceled), shared by C01..C04 and C08.

The real loop `_schedule_tasks` is executed; the `_term.is_set()` stub called
from the loop head performs the pending operations of the case up to the next
'iter' marker, takes a snapshot after every iteration, and ends the loop when
the operations are used up.  Everything is single threaded and deterministic.
"""
import queue
import sys
import threading
from collections import defaultdict
from unittest import mock

from . import coqlit as L

AGENT_SCHEDULING_PENDING = 'AGENT_SCHEDULING_PENDING'
AGENT_EXECUTING_PENDING = 'AGENT_EXECUTING_PENDING'


class FastQueue(queue.Queue):
    """queue.Queue whose get() never waits.  `mid_drain`, if set, is called once
    at the start of the get() that FOLLOWS the next successful get(): the driver
    uses it to deliver a control message in the middle of the scheduler's queue
    drain, after the tasks just pulled were looked at and before the drain ends."""

    mid_drain = None
    _pulled = False

    def get(self, block=True, timeout=None):
        if self._pulled and self.mid_drain:
            cb, self.mid_drain = self.mid_drain, None
            self._pulled = False
            cb()
        item = queue.Queue.get(self, block=False)
        if self.mid_drain:
            self._pulled = True
        return item


class SplitCall:
    """the real BaseComponent._control_cb(cancel_tasks) run in a thread of its own and held, by a line tracer,
    right after its first side effect (uids registered in the cancel list / CANCEL item put on the scheduler
    queue), so that the scheduler loop can run between the two halves; finish() lets it complete.
    halves() names what has happened so far, in order."""

    def __init__(self, s, msg):
        self.s, self.msg = s, msg
        self.seen = []
        self.exc = None

    def _obs(self):
        return (len(self.s._cancel_list), self.s._queue_sched.qsize())

    def _note(self):
        cur = self._obs()
        if cur[0] != self.base[0] and 'cancel_reg' not in self.seen:
            self.seen.append('cancel_reg')
        if cur[1] != self.base[1] and 'cancel_q' not in self.seen:
            self.seen.append('cancel_q')

    def start(self):
        self.base = self._obs()
        self.go, self.held, self.fin = threading.Event(), threading.Event(), threading.Event()
        paused = [False]

        def local(frame, event, arg):
            if event == 'line' and not paused[0]:
                if self._obs() != self.base and not self.s._cancel_lock._is_owned():
                    paused[0] = True
                    self._note()
                    self.held.set()
                    self.go.wait(120)
            return local

        def tracer(frame, event, arg):
            if frame.f_code.co_name == '_control_cb' and frame.f_code.co_filename.endswith('component.py'):
                return local
            return None

        def run():
            sys.settrace(tracer)
            try:
                self.s._control_cb('control_pubsub', self.msg)
            except Exception as e:          # noqa
                self.exc = repr(e)
            finally:
                sys.settrace(None)
                self.fin.set()
                self.held.set()

        self.t = threading.Thread(target=run, daemon=True)
        self.t.start()
        self.held.wait(120)
        first = list(self.seen)
        if self.fin.is_set():
            self._note()
            first = None if len(self.seen) > 1 else list(self.seen)     # both at once: not split
        return first

    def finish(self):
        before = list(self.seen)
        self.base = self._obs()          # the loop has consumed the queue in between: compare afresh
        self.go.set()
        self.t.join(120)
        self._note()
        return [h for h in self.seen if h not in before]


class FakeInput:
    def __init__(self):
        self.items = []

    def get_nowait(self, qname=None, timeout=None):
        r, self.items = self.items, []
        return r


def uid_of(n):
    return 'task.%06d' % n


def num_of(uid):
    return int(uid.split('.')[1])


def tag_value(k):
    '''colocate tag values as applications write them: strings, but also falsy legal values (0, '')'''
    return {2: 0, 3: ''}.get(k, 'tag%d' % k)


def tag_id(s):
    '''inverse, on the stringified tag the scheduler keeps in its history'''
    return {'0': 2, '': 3}.get(s) or int(s[3:])


def node_name(case, i):
    '''node names are no identity: the FORK resource manager calls every node localhost'''
    return 'localhost' if case.get('names') == 'same' else 'node_%d' % i


def task_dict(r, case=None):
    tags = {}
    if r.get('colo') is not None:
        tags['colocate'] = tag_value(r['colo'])
        if r.get('excl'):
            tags['exclusive'] = True
    slots = None
    if r.get('slots'):
        slots = [{'node_index': s[0], 'node_name': node_name(case or {}, s[0]),
                  'cores': [{'index': i, 'occupation': 1.0} for i in s[1]],
                  'gpus': [{'index': i, 'occupation': u / 64.0} for i, u in s[2]],
                  'lfs': s[3], 'mem': s[4]} for s in r['slots']]
    return {'uid': uid_of(r['uid']), 'type': 'task', 'state': AGENT_SCHEDULING_PENDING,
            'description': {'ranks': r['ranks'], 'cores_per_rank': r['cpr'],
                            'gpus_per_rank': r.get('gpr_f', r['gpr'] / 64.0), 'lfs_per_rank': r['lfs'],
                            'mem_per_rank': r['mem'], 'ranks_per_node': r['rpn'],
                            'priority': r['prio'], 'tags': tags,
                            'named_env': ('env%d' % r['env']) if r.get('env') is not None else None,
                            'slots': slots, 'partition': None, 'raptor_id': None,
                            'mode': 'task.executable', 'uid': uid_of(r['uid'])}}


FLOAT_SHARES = [False]     # set by the driver per case


def canon_slots(slots):
    out = []
    for s in slots:
        cores = [int(c['index']) for c in s['cores']]
        gpus = []
        for g in s['gpus']:
            u = g['occupation'] * 64.0
            if u != int(u):
                if not FLOAT_SHARES[0]:
                    raise ValueError('gpu share not a multiple of 1/64: %r' % g['occupation'])
                u = max(1, round(u))      # float-share cases: amounts are not compared (see c03.py)
            gpus.append([int(g['index']), int(u)])
        out.append([int(s['node_index']), cores, gpus, int(s['lfs']), int(s['mem'])])
    return out


def occ_code(v):
    if v is None:
        return 2
    if v == 0.0:
        return 0
    if v == 1.0:
        return 1
    return 9          # a value the node map must never hold


class SchedDriver:

    def __init__(self, rp):
        self.rp = rp

    def build(self, case):
        from radical.pilot.agent.scheduler.continuous import Continuous
        import radical.pilot.agent.scheduler.base as sbase
        cfg = case['cfg']
        with mock.patch.object(Continuous, '__init__', return_value=None):
            s = Continuous()
        s._uid = 'agent_scheduling.0000'
        s._log = mock.MagicMock()
        s._log._debug_level = 0
        s._prof = mock.MagicMock()
        s._session = mock.MagicMock()
        s.nodes = [{'index': i, 'name': node_name(case, i),
                    'cores': [None if c == 2 else float(c) for c in n['cores']],
                    'gpus': [None if c == 2 else float(c) for c in n['gpus']],
                    'lfs': cfg['lfs'], 'mem': cfg['mem']} for i, n in enumerate(case['nodes'])]
        rm = mock.MagicMock()
        rm.info.cores_per_node = cfg['cpn']
        rm.info.gpus_per_node = cfg['gpn']
        rm.info.lfs_per_node = cfg['lfs']
        rm.info.mem_per_node = cfg['mem']
        s._rm = rm
        s._partition_ids = []
        s._colo_history = {}
        s._tagged_nodes = set()
        s._scattered = cfg['scattered']
        s._node_offset = 0
        s._waitpool = defaultdict(dict)
        s._ts_map = defaultdict(set)
        s._ts_valid = False
        s._active_cnt = 0
        s._named_envs = []
        s._queue_sched = FastQueue()
        s._queue_unsched = FastQueue()
        s._cancel_list = []
        s._cancel_lock = threading.RLock()
        s._scheduler_process = True
        s._inp = FakeInput()
        s._inputs = {'in': {'qname': None, 'queue': s._inp, 'states': [AGENT_SCHEDULING_PENDING]}}
        s._workers = {AGENT_SCHEDULING_PENDING: s.work}
        s.register_output = lambda *a, **k: None
        s.register_subscriber = lambda *a, **k: None
        s.register_publisher = lambda *a, **k: None
        s.publish = lambda *a, **k: None
        self.s = s
        self.sbase = sbase
        self.events = []
        self.started = {}          # uid -> task dict as advanced
        self.strategy = []         # lazy_bisect calls of the current iteration
        s.advance = self.advance
        # record lazy_bisect decisions
        real_try = s._try_allocation
        drv = self

        def try_alloc(task):
            if drv.in_bisect:
                drv.strategy[-1].append([num_of(task['uid']), True])
            return real_try(task)

        def skip(task):
            drv.strategy[-1].append([num_of(task['uid']), False])
        s._try_allocation = try_alloc
        s._prof_sched_skip = skip
        self.in_bisect = False
        return s

    def advance(self, things, state=None, publish=True, push=False, qname=None, ts=None, fwd=False, prof=True):
        if not isinstance(things, list):
            things = [things]
        for t in things:
            if state is not None:
                t['state'] = state
            st = t['state']
            u = num_of(t['uid'])
            if st == AGENT_EXECUTING_PENDING:
                self.events.append(['started', u, canon_slots(t['slots'])])
                self.started[u] = t
            elif st == 'FAILED':
                exc = t.get('exception') or ''
                kind = exc.split('(')[0]
                self.events.append(['failed', u, kind])
            elif st == 'CANCELED':
                self.events.append(['canceled', u])

    def snapshot(self):
        s = self.s
        ev, self.events = self.events, []
        pool = []
        for p in sorted(s._waitpool.keys()):
            if s._waitpool[p]:
                pool.append([p, [num_of(u) for u in s._waitpool[p].keys()]])
        colo = sorted([[tag_id(k), [int(i) for i in v]] for k, v in s._colo_history.items()])
        strat, self.strategy = self.strategy, []
        return {'events': ev,
                'nodes': [[[occ_code(c) for c in n['cores']], [occ_code(c) for c in n['gpus']],
                           n['lfs'], n['mem']] for n in s.nodes],
                'active': s._active_cnt, 'pool': pool, 'offset': s._node_offset,
                'cancel': [num_of(u) for u in s._cancel_list], 'colo': colo,
                'tagged': sorted(int(i) for i in s._tagged_nodes), 'strategy': strat}

    def run(self, case):
        import radical.utils as ru
        FLOAT_SHARES[0] = bool(case.get('float_shares'))
        s = self.build(case)
        ops = list(case['ops'])
        eff = []              # effective operations (what was really delivered)
        snaps = []
        held = set()
        released = set()
        state = {'iters': 0}
        pending = []          # split control calls waiting for their second half
        drv = self

        def do_ops():
            """perform ops up to the next 'iter'; False when none is left"""
            while pending:
                sc, us = pending.pop(0)
                eff.extend([h, us] for h in sc.finish())
            while ops:
                o = ops.pop(0)
                if o[0] == 'iter':
                    eff.append(['iter'])
                    return True
                if o[0] == 'arrive':
                    s._inp.items.extend(task_dict(r, case) for r in o[1])
                    s.work_cb()
                    eff.append(o)
                elif o[0] == 'cancel':
                    s._control_cb('control_pubsub', {'cmd': 'cancel_tasks',
                                                     'arg': {'uids': [uid_of(u) for u in o[1]]}})
                    eff.append(o)
                elif o[0] == 'cancel_mid':
                    # the request arrives while the scheduler drains its queue (after the first
                    # item was pulled).  For the code as it is this is equivalent to a request
                    # right before the iteration, which is what the model is given.
                    msg = {'cmd': 'cancel_tasks', 'arg': {'uids': [uid_of(u) for u in o[1]]}}
                    if s._queue_sched.qsize() > 0 and ops and ops[0][0] == 'iter':
                        s._queue_sched.mid_drain = lambda m=msg: s._control_cb('control_pubsub', m)
                    else:
                        s._control_cb('control_pubsub', msg)
                    eff.append(['cancel', o[1]])
                elif o[0] == 'cancel_split':
                    # the scheduler loop runs between the two halves of the real _control_cb
                    msg = {'cmd': 'cancel_tasks', 'arg': {'uids': [uid_of(u) for u in o[1]]}}
                    sc = SplitCall(s, msg)
                    first = sc.start()
                    if first is None or sc.fin.is_set():
                        if first is None:
                            eff.append(['cancel', o[1]])
                        else:
                            eff.extend([h, o[1]] for h in first)
                    else:
                        eff.extend([h, o[1]] for h in first)
                        pending.append((sc, o[1]))
                elif o[0] == 'env':
                    s.control_cb('control_pubsub', {'cmd': 'register_named_env',
                                                    'arg': {'env_name': 'env%d' % o[1]}})
                    eff.append(o)
                elif o[0] == 'unsched':
                    # only tasks that were started can be named in an unschedule
                    # message (the message carries the placed task)
                    us = [u for u in o[1] if u in drv.started]
                    if case.get('disciplined', True):
                        us = [u for u in us if u in held and u not in released]
                    if us:
                        for u in us:
                            released.add(u)
                        s.unschedule_cb('unschedule_pubsub', [drv.started[u] for u in us])
                        eff.append(['unsched', [[u, canon_slots(drv.started[u]['slots'])] for u in us]])
            return False

        class Term:
            def is_set(self_inner):
                f = sys._getframe(1)
                if f.f_code.co_name != '_schedule_tasks':
                    return False
                if state['iters'] > 0:
                    sn = drv.snapshot()
                    for e in sn['events']:
                        if e[0] == 'started':
                            held.add(e[1])
                    snaps.append(sn)
                state['iters'] += 1
                if state['iters'] > 400:
                    return True
                return not do_ops()

        s._term = Term()
        real_bisect = ru.lazy_bisect

        def bisect(data, check, **kw):
            drv.strategy.append([])
            drv.in_bisect = True
            try:
                return real_bisect(data, check, **kw)
            finally:
                drv.in_bisect = False

        with mock.patch.object(ru, 'PWatcher', mock.MagicMock()), \
             mock.patch.object(ru.zmq, 'RegistryClient', mock.MagicMock()), \
             mock.patch.object(self.sbase.ru, 'lazy_bisect', bisect), \
             mock.patch.object(self.sbase.time, 'sleep', lambda x: None):
            died = None
            try:
                s._schedule_tasks()
            except Exception as e:          # noqa -- the loop must survive whatever a task asks for
                died = '%s: %s' % (type(e).__name__, e)
                if eff and eff[-1] == ['iter'] and len(snaps) < sum(1 for o in eff if o[0] == 'iter'):
                    snaps.append(drv.snapshot())      # what the dying iteration had done
        for sc, us in pending:
            sc.finish()
        # events of trailing ops (after the last iter) are dropped with them
        return {'eff': eff, 'snaps': snaps, 'died': died}


# ------------------------------------------------------------------------------
# Coq literals
#
def c_slot(s):
    return '(mkSlot %s %s %s %s %s)' % (L.Z(s[0]), L.lst([L.nat(i) for i in s[1]]),
                                         L.lst(['(%s, %s)' % (L.nat(i), L.Z(u)) for i, u in s[2]]),
                                         L.Z(s[3]), L.Z(s[4]))


def c_slots(sl):
    return L.lst([c_slot(s) for s in sl])


OCC = {0: 'Free', 1: 'Busy', 2: 'Down', 9: 'Busy'}


def c_node(i, cores, gpus, lfs, mem):
    return '(mkNode %s %s %s %s %s)' % (L.Z(i), L.lst([OCC[c] for c in cores]), L.lst([OCC[c] for c in gpus]),
                                         L.Z(lfs), L.Z(mem))


def c_nodes0(case):
    return L.lst([c_node(i, n['cores'], n['gpus'], case['cfg']['lfs'], case['cfg']['mem'])
                  for i, n in enumerate(case['nodes'])])


def c_cfg(cfg):
    return '(mkCfg %s %s %s %s %s)' % (L.Z(cfg['cpn']), L.Z(cfg['gpn']), L.Z(cfg['lfs']), L.Z(cfg['mem']),
                                        L.boolean(cfg['scattered']))


def c_req(r):
    return '(mkReq %s %s %s %s %s %s %s %s %s %s %s %s)' % (
        L.Z(r['uid']), L.Z(r['ranks']), L.Z(r['cpr']), L.Z(r['gpr']), L.Z(r['lfs']), L.Z(r['mem']),
        L.Z(r['rpn']), L.Z(r['prio']), L.opt(L.Z(r['colo']) if r.get('colo') is not None else None),
        L.boolean(bool(r.get('excl'))), L.opt(L.Z(r['env']) if r.get('env') is not None else None),
        L.opt(c_slots(r['slots']) if r.get('slots') else None))


ERR = {'ValueError': 'EValue', 'TypeError': 'EType', 'AssertionError': 'EAssert', 'RuntimeError': 'ERuntime'}


def c_event(e):
    if e[0] == 'started':
        return '(Started %s %s)' % (L.Z(e[1]), c_slots(e[2]))
    if e[0] == 'failed':
        return '(Failed %s %s)' % (L.Z(e[1]), ERR.get(e[2], 'EOther'))
    return '(Canceled %s)' % L.Z(e[1])


def c_snap(sn):
    return '(mkSnap %s %s %s %s %s %s %s %s)' % (
        L.lst([c_event(e) for e in sn['events']]),
        L.lst([c_node(i, n[0], n[1], n[2], n[3]) for i, n in enumerate(sn['nodes'])]),
        L.Z(sn['active']),
        L.lst(['(%s, %s)' % (L.Z(p), L.zlist(us)) for p, us in sn['pool']]),
        L.nat(sn['offset']), L.zlist(sn['cancel']),
        L.lst(['(%s, %s)' % (L.Z(t), L.zlist(ns)) for t, ns in sn['colo']]),
        L.zlist(sn['tagged']))


def c_ops(eff, snaps):
    """effective ops with the recorded strategy attached to each Iterate"""
    out = []
    k = 0
    for o in eff:
        if o[0] == 'iter':
            strat = snaps[k]['strategy'] if k < len(snaps) else []
            k += 1
            out.append('(Iterate %s)' % L.lst([L.lst(['(%s, %s)' % (L.Z(u), L.boolean(b)) for u, b in call])
                                                for call in strat]))
        elif o[0] == 'arrive':
            out.append('(Arrive %s)' % L.lst([c_req(r) for r in o[1]]))
        elif o[0] == 'cancel':
            out.append('(CancelMsg %s)' % L.zlist(o[1]))
        elif o[0] == 'cancel_reg':
            out.append('(CancelReg %s)' % L.zlist(o[1]))
        elif o[0] == 'cancel_q':
            out.append('(CancelQ %s)' % L.zlist(o[1]))
        elif o[0] == 'unsched':
            out.append('(Unsched %s)' % L.lst(['(%s, %s)' % (L.Z(u), c_slots(sl)) for u, sl in o[1]]))
        elif o[0] == 'env':
            out.append('(NamedEnv %s)' % L.Z(o[1]))
    return L.lst(out)


def c_iters(eff, snaps):
    """[(snapshot, uids whose release is consumed in that iteration)]"""
    out = []
    pend = []
    k = 0
    for o in eff:
        if o[0] == 'unsched':
            pend.extend(u for u, _ in o[1])
        elif o[0] == 'iter':
            if k < len(snaps):
                out.append('(%s, %s)' % (c_snap(snaps[k]), L.zlist(pend)))
            pend = []
            k += 1
    return L.lst(out)


def has_bad_occ(snaps):
    return any(c == 9 for sn in snaps for n in sn['nodes'] for c in n[0] + n[1])


# ------------------------------------------------------------------------------
# case generation
#
def gen_frag_case(rng, disciplined=True):
    """A fragmented pilot: every node filled by one task, some of them released, then multi-rank tasks with a
    ranks-per-node limit arrive -- the search has to pass over full nodes, restart (continuous mode) and end on a
    node that has more room than one task may take."""
    nn = rng.randint(3, 5)
    cpn = rng.choice([2, 4, 4])
    gpn = rng.choice([0, 0, 1])
    cfg = {'cpn': cpn, 'gpn': gpn, 'lfs': 0, 'mem': 0, 'scattered': rng.random() < 0.3}
    nodes = [{'cores': [0] * cpn, 'gpus': [0] * gpn} for _ in range(nn)]

    def req(uid, ranks, cpr, rpn=0, prio=0):
        return {'uid': uid, 'ranks': ranks, 'cpr': cpr, 'gpr': 0, 'lfs': 0, 'mem': 0, 'rpn': rpn, 'prio': prio,
                'colo': None, 'excl': False, 'env': None, 'slots': None}
    ops, uid = [], 0
    fill = []
    for _ in range(nn):
        uid += 1
        fill.append(uid)
        ops.append(['arrive', [req(uid, cpn, 1) if rng.random() < 0.6 else req(uid, 1, cpn)]])
        ops.append(['iter'])
    gone = rng.sample(fill, rng.randint(1, nn - 1))
    ops.append(['unsched', gone])
    ops.append(['iter'])
    late = []
    for _ in range(rng.randint(1, 3)):
        uid += 1
        late.append(uid)
        ranks = rng.randint(2, 2 * cpn)
        ops.append(['arrive', [req(uid, ranks, 1, rpn=rng.randint(1, max(1, cpn - 1)), prio=rng.choice([0, 0, 1]))]])
        ops.append(['iter'])
    rest = [u for u in fill if u not in gone]
    if rest and rng.random() < 0.6:
        ops.append(['unsched', rng.sample(rest, rng.randint(1, len(rest)))])
        ops.append(['iter'])
    for _ in range(2):
        ops.append(['unsched', fill + late])
        ops.append(['iter'])
    return {'kind': 'sched', 'cfg': cfg, 'nodes': nodes, 'ops': ops, 'disciplined': disciplined,
            'names': 'same' if rng.random() < 0.3 else 'unique'}


def gen_case(rng, size='small', preplaced=False, disciplined=True):
    if disciplined and rng.random() < 0.15:
        return gen_frag_case(rng, disciplined)
    nn = rng.randint(1, 4)
    cpn = rng.choice([1, 2, 4, 4, 8])
    gpn = rng.choice([0, 1, 2, 2, 3])
    lfs = rng.choice([0, 100, 100, 1000])
    mem = rng.choice([0, 64, 64, 1024])
    cfg = {'cpn': cpn, 'gpn': gpn, 'lfs': lfs, 'mem': mem, 'scattered': rng.random() < 0.6}
    nodes = []
    for _ in range(nn):
        cores = [2 if rng.random() < 0.08 else 0 for _ in range(cpn)]
        gpus = [2 if rng.random() < 0.08 else 0 for _ in range(gpn)]
        nodes.append({'cores': cores, 'gpus': gpus})
    ops = []
    uid = 0
    arrived = []
    nops = rng.randint(4, 14 if size == 'small' else 40)
    ntags = rng.randint(0, 3)
    for _ in range(nops):
        r = rng.random()
        if r < 0.35:
            batch = []
            for _k in range(rng.randint(1, 3)):
                uid += 1
                batch.append(gen_req(rng, uid, cfg, nodes, ntags, preplaced))
                arrived.append(uid)
            ops.append(['arrive', batch])
        elif r < 0.45 and arrived:
            k = rng.randint(1, 2)
            us = [rng.choice(arrived) if rng.random() < 0.8 else uid + 1 + rng.randint(0, 2) for _ in range(k)]
            ops.append(['cancel', us])
        elif r < 0.65 and arrived:
            ops.append(['unsched', rng.sample(arrived, min(len(arrived), rng.randint(1, 3)))])
        elif r < 0.70:
            ops.append(['env', rng.randint(1, 2)])
        else:
            ops.append(['iter'])
    # drain: release everything and iterate so that quiescence is reached often
    if rng.random() < 0.7:
        for _ in range(3):
            ops.append(['iter'])
            ops.append(['unsched', list(arrived)])
        ops.append(['iter'])
        ops.append(['iter'])
    else:
        ops.append(['iter'])
    names = 'same' if rng.random() < 0.35 else 'unique'
    return {'kind': 'sched', 'cfg': cfg, 'nodes': nodes, 'ops': ops, 'disciplined': disciplined, 'names': names}


def gen_req(rng, uid, cfg, nodes, ntags, preplaced):
    cpn, gpn = cfg['cpn'], cfg['gpn']
    r = rng.random()
    ranks = 1 if r < 0.45 else rng.choice([2, 2, 3, 4, 6])
    if rng.random() < 0.03:
        ranks = rng.choice([0, -1])
    cpr = rng.choice([0, 1, 1, 1, 2, 2, 4]) if rng.random() < 0.93 else cpn + 1
    g = rng.random()
    if gpn == 0 or g < 0.5:
        gpr = 0
    elif g < 0.75:
        gpr = rng.choice([16, 32, 32, 48])
    elif g < 0.95:
        gpr = 64 * rng.randint(1, max(1, gpn))
    else:
        gpr = rng.choice([96, 64 * (gpn + 1)])
    lfs = 0 if cfg['lfs'] == 0 or rng.random() < 0.6 else rng.choice([10, 40, 60, cfg['lfs'], cfg['lfs'] + 1])
    mem = 0 if cfg['mem'] == 0 or rng.random() < 0.6 else rng.choice([8, 32, 40, cfg['mem']])
    rpn = 0 if rng.random() < 0.7 else rng.randint(1, 3)
    prio = 0 if rng.random() < 0.6 else rng.randint(-1, 3)
    colo = None
    excl = False
    if ntags and rng.random() < 0.3:
        colo = rng.randint(1, ntags)
        excl = rng.random() < 0.4
    env = None if rng.random() < 0.85 else rng.randint(1, 2)
    slots = None
    if preplaced and rng.random() < 0.35:
        slots = []
        for _k in range(max(1, ranks)):
            ni = rng.randrange(len(nodes))
            ncore = max(1, cpr if cpr <= cpn else 1)
            cores = sorted(rng.sample(range(cpn), min(cpn, ncore)))
            gp = []
            if gpr and gpn:
                gp = [[rng.randrange(gpn), gpr if gpr < 64 else 64]]
            slots.append([ni, cores, gp, lfs, mem])
        if rng.random() < 0.2:
            # a placement that names a node, core or gpu the pilot does not have (not the first slot where there
            # are several: whatever was marked for the earlier ones must not stay, nor be given back twice)
            k = rng.randrange(1, len(slots)) if len(slots) > 1 else 0
            bad = rng.choice(['node', 'core', 'gpu'] if gpn else ['node', 'core'])
            if bad == 'node':
                slots[k][0] = len(nodes) + rng.choice([0, 3])
            elif bad == 'core':
                slots[k][1] = sorted(set(slots[k][1][:-1] + [cpn + rng.choice([0, 2])]))
            else:
                slots[k][2] = [[gpn + rng.choice([0, 1]), 64]]
    return {'uid': uid, 'ranks': ranks, 'cpr': cpr, 'gpr': gpr, 'lfs': lfs, 'mem': mem, 'rpn': rpn,
            'prio': prio, 'colo': colo, 'excl': excl, 'env': env, 'slots': slots}
