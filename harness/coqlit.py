"""Python values -> Coq literal text."""


def Z(n):
    return '(%d)%%Z' % int(n)


def nat(n):
    assert 0 <= n < 5000
    return '%d%%nat' % n


def N(n):
    return '%d%%N' % n


def boolean(b):
    return 'true' if b else 'false'


def string(s):
    # Coq string literals: only the double quote needs doubling; we restrict
    # to printable ASCII to keep byte-for-byte agreement
    for ch in s:
        if not (32 <= ord(ch) < 127):
            raise ValueError('non printable-ascii character in string literal: %r' % s)
    return '"' + s.replace('"', '""') + '"%string'


def lst(items):
    return '[' + '; '.join(items) + ']'


def pair(*items):
    return '(' + ', '.join(items) + ')'


def opt(x):
    return 'None' if x is None else '(Some %s)' % x


def app(ctor, *args):
    if not args:
        return ctor
    return '(' + ctor + ' ' + ' '.join(args) + ')'


def zlist(ns):
    return lst([Z(n) for n in ns])
